(* C08 — Deterministic AEAD (AES-SIV) and AES-KWP follow their RFCs and reject
   forgeries.  Statements only; proofs live in proofs/SivProofs.v and
   proofs/KwpProofs.v (and proofs/CmacProofs.v for CMAC = RFC 4493).

   AES is never an axiom: it is the function variable AES (key -> block ->
   block) resp. E / D (block encryption / decryption under the wrapping key),
   and every theorem lists what it needs of it as premises:
     AES_len : a 16-byte block is mapped to a 16-byte block,
     AES_wf  : outputs are bytes (< 256),
     DE / ED : decryption and encryption under one key are mutually inverse.
   At run time these functions are answered by crypto/aes (stdlib oracle). *)
From Coq Require Import List NArith Bool Arith Lia.
From Tink Require Import Bytes Cmac CmacProofs Siv SivProofs Kwp KwpProofs.
Import ListNotations.
Open Scope N_scope.

(* ===================== AES-SIV ===================== *)

(* The streaming XOREndAndCompute of internal/mac/aescmac (partial XOR of the
   block that straddles len-16) is CMAC of (data xorend last), for every
   length >= 16 and any block function. *)
Theorem C08_xorend_cmac :
  forall (E : bytes -> bytes) (data last : bytes),
    (16 <= length data)%nat -> length last = 16%nat ->
    xorend_impl E data last = Some (cmac_impl E (xorend data last)).
Proof. exact xorend_impl_correct. Qed.
Print Assumptions C08_xorend_cmac.

(* s2v as coded (both branches) is RFC 5297 S2V over RFC 4493 CMAC, all lengths. *)
Theorem C08_s2v_is_rfc5297 :
  forall (AES : bytes -> bytes -> bytes),
    (forall k b, length b = 16%nat -> length (AES k b) = 16%nat) ->
    (forall k b, wfb (AES k b)) ->
    forall k1 msg ad,
      s2v_impl AES k1 msg ad = Ok (s2v_rfc5297 (cmac_spec (AES k1)) [ad] msg).
Proof. exact s2v_impl_rfc_spec. Qed.
Print Assumptions C08_s2v_is_rfc5297.

(* The ciphertext is output-prefix || RFC 5297 SIV-encrypt(K1 = key[:32],
   K2 = key[32:], [ad], plaintext), for all 64-byte keys, variants, lengths. *)
Theorem C08_siv_ciphertext_is_prefix_rfc5297 :
  forall (AES : bytes -> bytes -> bytes),
    (forall k b, length b = 16%nat -> length (AES k b) = 16%nat) ->
    (forall k b, wfb (AES k b)) ->
    forall v id key pt ad, length key = 64%nat ->
      daead_encrypt AES v id key pt ad =
      Ok (output_prefix v id ++
          siv_encrypt_rfc5297 (cmac_spec (AES (firstn 32 key))) (AES (skipn 32 key)) [ad] pt).
Proof. exact daead_encrypt_rfc. Qed.
Print Assumptions C08_siv_ciphertext_is_prefix_rfc5297.

(* Encryption is a total function of (key, plaintext, associated data) — equal
   inputs give equal ciphertexts by construction — of length prefix+16+|pt|;
   any other key size is refused. *)
Theorem C08_siv_encrypt_total_function :
  forall (AES : bytes -> bytes -> bytes),
    (forall k b, length b = 16%nat -> length (AES k b) = 16%nat) ->
    (forall k b, wfb (AES k b)) ->
    forall v id key pt ad,
      (length key = 64%nat -> exists c, daead_encrypt AES v id key pt ad = Ok c
          /\ length c = (length (output_prefix v id) + 16 + length pt)%nat) /\
      (length key <> 64%nat -> daead_encrypt AES v id key pt ad = Err).
Proof. exact daead_encrypt_total. Qed.
Print Assumptions C08_siv_encrypt_total_function.

Theorem C08_siv_decrypt_inverts_encrypt :
  forall (AES : bytes -> bytes -> bytes),
    (forall k b, length b = 16%nat -> length (AES k b) = 16%nat) ->
    (forall k b, wfb (AES k b)) ->
    forall v id key pt ad, length key = 64%nat ->
      exists c, daead_encrypt AES v id key pt ad = Ok c /\ daead_decrypt AES v id key c ad = Ok pt.
Proof. exact daead_roundtrip. Qed.
Print Assumptions C08_siv_decrypt_inverts_encrypt.

(* Exact acceptance: (c, ad) decrypts to p iff c is the encryption of p under ad. *)
Theorem C08_siv_exact_acceptance :
  forall (AES : bytes -> bytes -> bytes),
    (forall k b, length b = 16%nat -> length (AES k b) = 16%nat) ->
    (forall k b, wfb (AES k b)) ->
    forall v id key c ad p, length key = 64%nat ->
      (daead_decrypt AES v id key c ad = Ok p <-> daead_encrypt AES v id key p ad = Ok c).
Proof. exact daead_exact_acceptance. Qed.
Print Assumptions C08_siv_exact_acceptance.

(* ... hence every (ciphertext, associated data) that is not an encryption is rejected. *)
Theorem C08_siv_rejects_everything_else :
  forall (AES : bytes -> bytes -> bytes),
    (forall k b, length b = 16%nat -> length (AES k b) = 16%nat) ->
    (forall k b, wfb (AES k b)) ->
    forall v id key c ad, length key = 64%nat ->
      (forall p, daead_encrypt AES v id key p ad <> Ok c) -> daead_decrypt AES v id key c ad = Err.
Proof. exact daead_rejects_non_encryptions. Qed.
Print Assumptions C08_siv_rejects_everything_else.

(* Checked slices: decryption never panics, whatever the key, ciphertext, AD;
   inputs shorter than prefix + 16 and wrong key sizes are errors. *)
Theorem C08_siv_decrypt_never_panics :
  forall (AES : bytes -> bytes -> bytes),
    (forall k b, length b = 16%nat -> length (AES k b) = 16%nat) ->
    (forall k b, wfb (AES k b)) ->
    forall v id key ct ad, daead_decrypt AES v id key ct ad <> Panic.
Proof. exact daead_decrypt_no_panic. Qed.
Print Assumptions C08_siv_decrypt_never_panics.

Theorem C08_siv_short_ciphertext_is_error :
  forall (AES : bytes -> bytes -> bytes),
    (forall k b, length b = 16%nat -> length (AES k b) = 16%nat) ->
    (forall k b, wfb (AES k b)) ->
    forall v id key ct ad,
      (length ct < length (output_prefix v id) + 16)%nat -> daead_decrypt AES v id key ct ad = Err.
Proof. exact daead_decrypt_short. Qed.
Print Assumptions C08_siv_short_ciphertext_is_error.

Theorem C08_siv_wrong_key_size_is_error :
  forall (AES : bytes -> bytes -> bytes) v id key ct ad,
    length key <> 64%nat -> daead_decrypt AES v id key ct ad = Err.
Proof. exact daead_badkey. Qed.
Print Assumptions C08_siv_wrong_key_size_is_error.

(* ===================== AES-KWP ===================== *)

Theorem C08_kwp_wrapping_size :
  forall n, wrappingSize n = (8 * ((n + 7) / 8) + 8)%nat.
Proof. exact wrappingSize_formula. Qed.
Print Assumptions C08_kwp_wrapping_size.

(* W as coded (running uint32 counter XORed into bytes 4..7) is RFC 3394's W
   with A = MSB64(B) xor t, t = n*j + i as a 64-bit big-endian value. *)
Theorem C08_kwp_W_is_rfc3394 :
  forall (E : bytes -> bytes),
    (forall b, length b = 16%nat -> length (E b) = 16%nat) ->
    forall A rs, length A = 8%nat -> Forall (fun r => length r = 8%nat) rs ->
      6 * N.of_nat (length rs) < 2 ^ 32 ->
      W_impl E A rs = W_rfc3394 E A rs.
Proof. exact W_impl_rfc3394. Qed.
Print Assumptions C08_kwp_W_is_rfc3394.

(* Wrap = RFC 5649 (AIV A65959A6 || be32(len), zero padding, W) for every size 16..8192;
   other sizes are refused. *)
Theorem C08_kwp_wrap_is_rfc5649 :
  forall (E : bytes -> bytes),
    (forall b, length b = 16%nat -> length (E b) = 16%nat) ->
    forall d, 16 <= N.of_nat (length d) <= 8192 -> kwp_wrap E d = Ok (wrap_rfc5649 E d).
Proof. exact kwp_wrap_rfc5649. Qed.
Print Assumptions C08_kwp_wrap_is_rfc5649.

Theorem C08_kwp_wrap_size_limits :
  forall (E : bytes -> bytes) d,
    (N.of_nat (length d) < 16 \/ 8192 < N.of_nat (length d)) -> kwp_wrap E d = Err.
Proof. exact kwp_wrap_size_limits. Qed.
Print Assumptions C08_kwp_wrap_size_limits.

Theorem C08_kwp_unwrap_inverts_wrap :
  forall (E D : bytes -> bytes),
    (forall b, length b = 16%nat -> length (E b) = 16%nat) ->
    (forall b, length b = 16%nat -> length (D b) = 16%nat) ->
    (forall b, length b = 16%nat -> D (E b) = b) ->
    (forall b, length b = 16%nat -> E (D b) = b) ->
    forall d, 16 <= N.of_nat (length d) <= 8192 ->
      exists c, kwp_wrap E d = Ok c /\ kwp_unwrap D c = Ok d /\ length c = wrappingSize (length d).
Proof. exact kwp_unwrap_wrap. Qed.
Print Assumptions C08_kwp_unwrap_inverts_wrap.

(* Exact acceptance for the sizes Wrap handles: c unwraps to d iff c = Wrap d. *)
Theorem C08_kwp_exact_acceptance :
  forall (E D : bytes -> bytes),
    (forall b, length b = 16%nat -> length (E b) = 16%nat) ->
    (forall b, length b = 16%nat -> length (D b) = 16%nat) ->
    (forall b, length b = 16%nat -> D (E b) = b) ->
    (forall b, length b = 16%nat -> E (D b) = b) ->
    (forall b, wfb b -> wfb (D b)) ->
    forall c d, wfb c -> 16 <= N.of_nat (length d) ->
      (kwp_unwrap D c = Ok d <-> kwp_wrap E d = Ok c).
Proof. exact kwp_exact_acceptance. Qed.
Print Assumptions C08_kwp_exact_acceptance.

(* The whole acceptance set of Unwrap: exactly the RFC 5649 wrappings of keys
   of 9..8192 bytes (9..15 are accepted although Wrap refuses to make them). *)
Theorem C08_kwp_unwrap_accepts_exactly_rfc5649 :
  forall (E D : bytes -> bytes),
    (forall b, length b = 16%nat -> length (E b) = 16%nat) ->
    (forall b, length b = 16%nat -> length (D b) = 16%nat) ->
    (forall b, length b = 16%nat -> D (E b) = b) ->
    (forall b, length b = 16%nat -> E (D b) = b) ->
    (forall b, wfb b -> wfb (D b)) ->
    forall c d, wfb c ->
      (kwp_unwrap D c = Ok d <-> (9 <= N.of_nat (length d) <= 8192 /\ c = wrap_rfc5649 E d)).
Proof. exact kwp_unwrap_exact. Qed.
Print Assumptions C08_kwp_unwrap_accepts_exactly_rfc5649.

(* ... hence every corrupted wrapping is rejected unless it is itself a wrapping ... *)
Theorem C08_kwp_rejects_everything_else :
  forall (E D : bytes -> bytes),
    (forall b, length b = 16%nat -> length (E b) = 16%nat) ->
    (forall b, length b = 16%nat -> length (D b) = 16%nat) ->
    (forall b, length b = 16%nat -> D (E b) = b) ->
    (forall b, length b = 16%nat -> E (D b) = b) ->
    (forall b, wfb b -> wfb (D b)) ->
    forall c, wfb c ->
      (forall d, 9 <= N.of_nat (length d) <= 8192 -> c <> wrap_rfc5649 E d) -> kwp_unwrap D c = Err.
Proof. exact kwp_rejects_non_wrappings. Qed.
Print Assumptions C08_kwp_rejects_everything_else.

(* ... every mis-sized one is rejected outright, and nothing panics. *)
Theorem C08_kwp_missized_is_error :
  forall (D : bytes -> bytes) c,
    (N.of_nat (length c) < 24 \/ 8200 < N.of_nat (length c) \/ (length c mod 8 <> 0)%nat) ->
    kwp_unwrap D c = Err.
Proof. exact kwp_unwrap_size_limits. Qed.
Print Assumptions C08_kwp_missized_is_error.

Theorem C08_kwp_unwrap_never_panics :
  forall (E D : bytes -> bytes),
    (forall b, length b = 16%nat -> length (E b) = 16%nat) ->
    (forall b, length b = 16%nat -> length (D b) = 16%nat) ->
    (forall b, length b = 16%nat -> D (E b) = b) ->
    (forall b, length b = 16%nat -> E (D b) = b) ->
    (forall b, wfb b -> wfb (D b)) ->
    forall c, kwp_unwrap D c <> Panic.
Proof. exact kwp_unwrap_no_panic. Qed.
Print Assumptions C08_kwp_unwrap_never_panics.

(* ===================== the premises are inhabited ===================== *)
Definition toyAES (k b : bytes) : bytes := map (fun x => N.lxor (x mod 256) (hd 0 k mod 256)) b.
Definition toyE (b : bytes) : bytes := rev b.

Example C08_siv_premises_inhabited :
  (forall k b, length b = 16%nat -> length (toyAES k b) = 16%nat) /\
  (forall k b, wfb (toyAES k b)) /\
  (let key := map N.of_nat (seq 1 64) in
   let pt := [1; 2; 3; 4; 5; 6; 7; 8; 9; 10; 11; 12; 13; 14; 15; 16; 17; 18; 19; 20] in
   let ad := [9; 9; 9] in
   let c := match daead_encrypt toyAES VTink 16909060 key pt ad with Ok c => c | _ => [] end in
   daead_encrypt toyAES VTink 16909060 key pt ad = Ok c /\ length c = 41%nat /\
   daead_decrypt toyAES VTink 16909060 key c ad = Ok pt /\
   daead_decrypt toyAES VTink 16909060 key c [9; 9] = Err /\
   daead_decrypt toyAES VTink 16909060 key (firstn 20 c) ad = Err).
Proof.
  split; [|split].
  - intros k b H. unfold toyAES. rewrite map_length. exact H.
  - intros k b. unfold toyAES, wfb. apply Forall_forall. intros y Hy.
    apply in_map_iff in Hy. destruct Hy as [x [<- _]].
    apply lxor_lt_256; apply N.mod_lt; discriminate.
  - vm_compute. repeat split; reflexivity.
Qed.

Example C08_kwp_premises_inhabited :
  (forall b, length b = 16%nat -> length (toyE b) = 16%nat) /\
  (forall b, length b = 16%nat -> toyE (toyE b) = b) /\
  (forall b, wfb b -> wfb (toyE b)) /\
  (let d := map N.of_nat (seq 100 17) in
   let c := match kwp_wrap toyE d with Ok c => c | _ => [] end in
   kwp_wrap toyE d = Ok c /\ length c = 32%nat /\ kwp_unwrap toyE c = Ok d /\
   kwp_unwrap toyE (firstn 24 c) = Err /\ kwp_unwrap toyE (c ++ zeros 8) = Err).
Proof.
  split; [|split; [|split]].
  - intros b H. unfold toyE. rewrite rev_length. exact H.
  - intros b _. apply rev_involutive.
  - intros b H. apply Forall_rev. exact H.
  - vm_compute. repeat split; reflexivity.
Qed.
