(* C08 — Deterministic AEAD (AES-SIV) and AES-KWP follow their RFCs and reject
   forgeries.  Statements only; proofs live in proofs/SivProofs.v and
   proofs/KwpProofs.v (and proofs/CmacProofs.v for CMAC = RFC 4493).

   AES is never an axiom: it is the function variable AES (key -> block ->
   block) resp. E / D (block encryption / decryption under the wrapping key),
   and every theorem lists what it needs of it as premises:
     AES_len : a 16-byte block is mapped to a 16-byte block,
     AES_wf  : outputs are bytes (< 256),
     DE / ED : decryption and encryption under one key are mutually inverse.
   At run time these functions are answered by crypto/aes (stdlib oracle). *)
From Coq Require Import List NArith Bool Arith Lia.
From Tink Require Import Bytes Cmac CmacProofs Siv SivProofs Kwp KwpProofs KwpProofs2.
Import ListNotations.
Open Scope N_scope.

(* ===================== AES-SIV ===================== *)

(* The streaming XOREndAndCompute of internal/mac/aescmac (partial XOR of the
   block that straddles len-16) is CMAC of (data xorend last), for every
   length >= 16 and any block function. *)
Theorem C08_xorend_cmac :
  forall (E : bytes -> bytes) (data last : bytes),
    (16 <= length data)%nat -> length last = 16%nat ->
    xorend_impl E data last = Some (cmac_impl E (xorend data last)).
Proof. exact xorend_impl_correct. Qed.
Print Assumptions C08_xorend_cmac.

(* s2v as coded (both branches) is RFC 5297 S2V over RFC 4493 CMAC, all lengths. *)
Theorem C08_s2v_is_rfc5297 :
  forall (AES : bytes -> bytes -> bytes),
    (forall k b, length b = 16%nat -> length (AES k b) = 16%nat) ->
    (forall k b, wfb (AES k b)) ->
    forall k1 msg ad,
      s2v_impl AES k1 msg ad = Ok (s2v_rfc5297 (cmac_spec (AES k1)) [ad] msg).
Proof. exact s2v_impl_rfc_spec. Qed.
Print Assumptions C08_s2v_is_rfc5297.

(* The ciphertext is output-prefix || RFC 5297 SIV-encrypt(K1 = key[:32],
   K2 = key[32:], [ad], plaintext), for all 64-byte keys, variants, lengths. *)
Theorem C08_siv_ciphertext_is_prefix_rfc5297 :
  forall (AES : bytes -> bytes -> bytes),
    (forall k b, length b = 16%nat -> length (AES k b) = 16%nat) ->
    (forall k b, wfb (AES k b)) ->
    forall v id key pt ad, length key = 64%nat ->
      daead_encrypt AES v id key pt ad =
      Ok (output_prefix v id ++
          siv_encrypt_rfc5297 (cmac_spec (AES (firstn 32 key))) (AES (skipn 32 key)) [ad] pt).
Proof. exact daead_encrypt_rfc. Qed.
Print Assumptions C08_siv_ciphertext_is_prefix_rfc5297.

(* Encryption is a total function of (key, plaintext, associated data) — equal
   inputs give equal ciphertexts by construction — of length prefix+16+|pt|;
   any other key size is refused. *)
Theorem C08_siv_encrypt_total_function :
  forall (AES : bytes -> bytes -> bytes),
    (forall k b, length b = 16%nat -> length (AES k b) = 16%nat) ->
    (forall k b, wfb (AES k b)) ->
    forall v id key pt ad,
      (length key = 64%nat -> exists c, daead_encrypt AES v id key pt ad = Ok c
          /\ length c = (length (output_prefix v id) + 16 + length pt)%nat) /\
      (length key <> 64%nat -> daead_encrypt AES v id key pt ad = Err).
Proof. exact daead_encrypt_total. Qed.
Print Assumptions C08_siv_encrypt_total_function.

Theorem C08_siv_decrypt_inverts_encrypt :
  forall (AES : bytes -> bytes -> bytes),
    (forall k b, length b = 16%nat -> length (AES k b) = 16%nat) ->
    (forall k b, wfb (AES k b)) ->
    forall v id key pt ad, length key = 64%nat ->
      exists c, daead_encrypt AES v id key pt ad = Ok c /\ daead_decrypt AES v id key c ad = Ok pt.
Proof. exact daead_roundtrip. Qed.
Print Assumptions C08_siv_decrypt_inverts_encrypt.

(* Exact acceptance: (c, ad) decrypts to p iff c is the encryption of p under ad. *)
Theorem C08_siv_exact_acceptance :
  forall (AES : bytes -> bytes -> bytes),
    (forall k b, length b = 16%nat -> length (AES k b) = 16%nat) ->
    (forall k b, wfb (AES k b)) ->
    forall v id key c ad p, length key = 64%nat ->
      (daead_decrypt AES v id key c ad = Ok p <-> daead_encrypt AES v id key p ad = Ok c).
Proof. exact daead_exact_acceptance. Qed.
Print Assumptions C08_siv_exact_acceptance.

(* ... hence every (ciphertext, associated data) that is not an encryption is rejected. *)
Theorem C08_siv_rejects_everything_else :
  forall (AES : bytes -> bytes -> bytes),
    (forall k b, length b = 16%nat -> length (AES k b) = 16%nat) ->
    (forall k b, wfb (AES k b)) ->
    forall v id key c ad, length key = 64%nat ->
      (forall p, daead_encrypt AES v id key p ad <> Ok c) -> daead_decrypt AES v id key c ad = Err.
Proof. exact daead_rejects_non_encryptions. Qed.
Print Assumptions C08_siv_rejects_everything_else.

(* Checked slices: decryption never panics, whatever the key, ciphertext, AD;
   inputs shorter than prefix + 16 and wrong key sizes are errors. *)
Theorem C08_siv_decrypt_never_panics :
  forall (AES : bytes -> bytes -> bytes),
    (forall k b, length b = 16%nat -> length (AES k b) = 16%nat) ->
    (forall k b, wfb (AES k b)) ->
    forall v id key ct ad, daead_decrypt AES v id key ct ad <> Panic.
Proof. exact daead_decrypt_no_panic. Qed.
Print Assumptions C08_siv_decrypt_never_panics.

Theorem C08_siv_short_ciphertext_is_error :
  forall (AES : bytes -> bytes -> bytes),
    (forall k b, length b = 16%nat -> length (AES k b) = 16%nat) ->
    (forall k b, wfb (AES k b)) ->
    forall v id key ct ad,
      (length ct < length (output_prefix v id) + 16)%nat -> daead_decrypt AES v id key ct ad = Err.
Proof. exact daead_decrypt_short. Qed.
Print Assumptions C08_siv_short_ciphertext_is_error.

Theorem C08_siv_wrong_key_size_is_error :
  forall (AES : bytes -> bytes -> bytes) v id key ct ad,
    length key <> 64%nat -> daead_decrypt AES v id key ct ad = Err.
Proof. exact daead_badkey. Qed.
Print Assumptions C08_siv_wrong_key_size_is_error.

(* ===================== AES-KWP ===================== *)

Theorem C08_kwp_wrapping_size :
  forall n, wrappingSize n = (8 * ((n + 7) / 8) + 8)%nat.
Proof. exact wrappingSize_formula. Qed.
Print Assumptions C08_kwp_wrapping_size.

(* W as coded (running uint32 counter XORed into bytes 4..7) is RFC 3394's W
   with A = MSB64(B) xor t, t = n*j + i as a 64-bit big-endian value. *)
Theorem C08_kwp_W_is_rfc3394 :
  forall (E : bytes -> bytes),
    (forall b, length b = 16%nat -> length (E b) = 16%nat) ->
    forall A rs, length A = 8%nat -> Forall (fun r => length r = 8%nat) rs ->
      6 * N.of_nat (length rs) < 2 ^ 32 ->
      W_impl E A rs = W_rfc3394 E A rs.
Proof. exact W_impl_rfc3394. Qed.
Print Assumptions C08_kwp_W_is_rfc3394.

(* Wrap = RFC 5649 (AIV A65959A6 || be32(len), zero padding, W) for every size 16..8192;
   other sizes are refused. *)
Theorem C08_kwp_wrap_is_rfc5649 :
  forall (E : bytes -> bytes),
    (forall b, length b = 16%nat -> length (E b) = 16%nat) ->
    forall d, 16 <= N.of_nat (length d) <= 8192 -> kwp_wrap E d = Ok (wrap_rfc5649 E d).
Proof. exact kwp_wrap_rfc5649. Qed.
Print Assumptions C08_kwp_wrap_is_rfc5649.

Theorem C08_kwp_wrap_size_limits :
  forall (E : bytes -> bytes) d,
    (N.of_nat (length d) < 16 \/ 8192 < N.of_nat (length d)) -> kwp_wrap E d = Err.
Proof. exact kwp_wrap_size_limits. Qed.
Print Assumptions C08_kwp_wrap_size_limits.

Theorem C08_kwp_unwrap_inverts_wrap :
  forall (E D : bytes -> bytes),
    (forall b, length b = 16%nat -> length (E b) = 16%nat) ->
    (forall b, length b = 16%nat -> length (D b) = 16%nat) ->
    (forall b, length b = 16%nat -> D (E b) = b) ->
    (forall b, length b = 16%nat -> E (D b) = b) ->
    forall d, 16 <= N.of_nat (length d) <= 8192 ->
      exists c, kwp_wrap E d = Ok c /\ kwp_unwrap D c = Ok d /\ length c = wrappingSize (length d).
Proof. exact kwp_unwrap_wrap. Qed.
Print Assumptions C08_kwp_unwrap_inverts_wrap.

(* Exact acceptance for the sizes Wrap handles: c unwraps to d iff c = Wrap d. *)
Theorem C08_kwp_exact_acceptance :
  forall (E D : bytes -> bytes),
    (forall b, length b = 16%nat -> length (E b) = 16%nat) ->
    (forall b, length b = 16%nat -> length (D b) = 16%nat) ->
    (forall b, length b = 16%nat -> D (E b) = b) ->
    (forall b, length b = 16%nat -> E (D b) = b) ->
    (forall b, wfb b -> wfb (D b)) ->
    forall c d, wfb c -> 16 <= N.of_nat (length d) ->
      (kwp_unwrap D c = Ok d <-> kwp_wrap E d = Ok c).
Proof. exact kwp_exact_acceptance. Qed.
Print Assumptions C08_kwp_exact_acceptance.

(* The whole acceptance set of Unwrap: exactly the RFC 5649 wrappings of keys
   of 9..8192 bytes (9..15 are accepted although Wrap refuses to make them). *)
Theorem C08_kwp_unwrap_accepts_exactly_rfc5649 :
  forall (E D : bytes -> bytes),
    (forall b, length b = 16%nat -> length (E b) = 16%nat) ->
    (forall b, length b = 16%nat -> length (D b) = 16%nat) ->
    (forall b, length b = 16%nat -> D (E b) = b) ->
    (forall b, length b = 16%nat -> E (D b) = b) ->
    (forall b, wfb b -> wfb (D b)) ->
    forall c d, wfb c ->
      (kwp_unwrap D c = Ok d <-> (9 <= N.of_nat (length d) <= 8192 /\ c = wrap_rfc5649 E d)).
Proof. exact kwp_unwrap_exact. Qed.
Print Assumptions C08_kwp_unwrap_accepts_exactly_rfc5649.

(* ... hence every corrupted wrapping is rejected unless it is itself a wrapping ... *)
Theorem C08_kwp_rejects_everything_else :
  forall (E D : bytes -> bytes),
    (forall b, length b = 16%nat -> length (E b) = 16%nat) ->
    (forall b, length b = 16%nat -> length (D b) = 16%nat) ->
    (forall b, length b = 16%nat -> D (E b) = b) ->
    (forall b, length b = 16%nat -> E (D b) = b) ->
    (forall b, wfb b -> wfb (D b)) ->
    forall c, wfb c ->
      (forall d, 9 <= N.of_nat (length d) <= 8192 -> c <> wrap_rfc5649 E d) -> kwp_unwrap D c = Err.
Proof. exact kwp_rejects_non_wrappings. Qed.
Print Assumptions C08_kwp_rejects_everything_else.

(* ... every mis-sized one is rejected outright, and nothing panics. *)
Theorem C08_kwp_missized_is_error :
  forall (D : bytes -> bytes) c,
    (N.of_nat (length c) < 24 \/ 8200 < N.of_nat (length c) \/ (length c mod 8 <> 0)%nat) ->
    kwp_unwrap D c = Err.
Proof. exact kwp_unwrap_size_limits. Qed.
Print Assumptions C08_kwp_missized_is_error.

Theorem C08_kwp_unwrap_never_panics :
  forall (E D : bytes -> bytes),
    (forall b, length b = 16%nat -> length (E b) = 16%nat) ->
    (forall b, length b = 16%nat -> length (D b) = 16%nat) ->
    (forall b, length b = 16%nat -> D (E b) = b) ->
    (forall b, length b = 16%nat -> E (D b) = b) ->
    (forall b, wfb b -> wfb (D b)) ->
    forall c, kwp_unwrap D c <> Panic.
Proof. exact kwp_unwrap_no_panic. Qed.
Print Assumptions C08_kwp_unwrap_never_panics.

(* ===================== the premises are inhabited ===================== *)
Definition toyAES (k b : bytes) : bytes := map (fun x => N.lxor (x mod 256) (hd 0 k mod 256)) b.
Definition toyE (b : bytes) : bytes := rev b.

Example C08_siv_premises_inhabited :
  (forall k b, length b = 16%nat -> length (toyAES k b) = 16%nat) /\
  (forall k b, wfb (toyAES k b)) /\
  (let key := map N.of_nat (seq 1 64) in
   let pt := [1; 2; 3; 4; 5; 6; 7; 8; 9; 10; 11; 12; 13; 14; 15; 16; 17; 18; 19; 20] in
   let ad := [9; 9; 9] in
   let c := match daead_encrypt toyAES VTink 16909060 key pt ad with Ok c => c | _ => [] end in
   daead_encrypt toyAES VTink 16909060 key pt ad = Ok c /\ length c = 41%nat /\
   daead_decrypt toyAES VTink 16909060 key c ad = Ok pt /\
   daead_decrypt toyAES VTink 16909060 key c [9; 9] = Err /\
   daead_decrypt toyAES VTink 16909060 key (firstn 20 c) ad = Err).
Proof.
  split; [|split].
  - intros k b H. unfold toyAES. rewrite map_length. exact H.
  - intros k b. unfold toyAES, wfb. apply Forall_forall. intros y Hy.
    apply in_map_iff in Hy. destruct Hy as [x [<- _]].
    apply lxor_lt_256; apply N.mod_lt; discriminate.
  - vm_compute. repeat split; reflexivity.
Qed.

Example C08_kwp_premises_inhabited :
  (forall b, length b = 16%nat -> length (toyE b) = 16%nat) /\
  (forall b, length b = 16%nat -> toyE (toyE b) = b) /\
  (forall b, wfb b -> wfb (toyE b)) /\
  (let d := map N.of_nat (seq 100 17) in
   let c := match kwp_wrap toyE d with Ok c => c | _ => [] end in
   kwp_wrap toyE d = Ok c /\ length c = 32%nat /\ kwp_unwrap toyE c = Ok d /\
   kwp_unwrap toyE (firstn 24 c) = Err /\ kwp_unwrap toyE (c ++ zeros 8) = Err).
Proof.
  split; [|split; [|split]].
  - intros b H. unfold toyE. rewrite rev_length. exact H.
  - intros b _. apply rev_involutive.
  - intros b H. apply Forall_rev. exact H.
  - vm_compute. repeat split; reflexivity.
Qed.

(* ===================== second round: KEK sizes, totality ===================== *)
(* proofs/KwpProofs2.v *)

(* NewKWP accepts exactly 16- and 32-byte wrapping keys: AES-192 keys (24
   bytes), which crypto/aes itself would take, and every other size are
   refused. *)
Theorem C08_kwp_kek_size_rule :
  (forall n, kwp_key_ok n = true <-> n = 16%nat \/ n = 32%nat) /\ kwp_key_ok 24 = false.
Proof. split; [exact kwp_key_ok_iff|reflexivity]. Qed.
Print Assumptions C08_kwp_kek_size_rule.

(* Wrap is total for EVERY block function (no law at all): never a panic,
   an error exactly for sizes outside 16..8192. *)
Theorem C08_kwp_wrap_total_exact_errors :
  forall (E : bytes -> bytes) d,
    kwp_wrap E d <> Panic /\
    (kwp_wrap E d = Err <-> N.of_nat (length d) < 16 \/ 8192 < N.of_nat (length d)) /\
    (16 <= N.of_nat (length d) <= 8192 -> exists c, kwp_wrap E d = Ok c).
Proof. exact kwp_wrap_total. Qed.
Print Assumptions C08_kwp_wrap_total_exact_errors.

(* Unwrap is total assuming ONLY that block decryption returns 16 bytes (no
   inverse law, no byte-range law; C08_kwp_unwrap_never_panics needed five
   laws): for every input it returns a key or an error, and the errors are
   exactly: shorter than 24, longer than 8200, not a multiple of 8, or the
   integrity check of u = W^-1(c) fails (first four bytes <> A65959A6, or
   wrappingSize(length field) <> |u|, or a non-zero padding byte). *)
Theorem C08_kwp_unwrap_total_exact_errors :
  forall (D : bytes -> bytes),
    (forall b, length b = 16%nat -> length (D b) = 16%nat) ->
    forall c,
      kwp_unwrap D c <> Panic /\
      (kwp_unwrap D c = Err <->
         N.of_nat (length c) < 24 \/ 8200 < N.of_nat (length c) \/ (length c mod 8 <> 0)%nat \/
         exists u, invertW D c = Ok u /\ ~ integrity_ok u) /\
      (forall d, kwp_unwrap D c = Ok d <->
         24 <= N.of_nat (length c) <= 8200 /\ (length c mod 8 = 0)%nat /\
         exists u, invertW D c = Ok u /\ integrity_ok u /\
                   d = firstn (N.to_nat (be_val (firstn 4 (skipn 4 u)))) (skipn 8 u)).
Proof. exact kwp_unwrap_total. Qed.
Print Assumptions C08_kwp_unwrap_total_exact_errors.

(* W^-1 is defined on every well-sized input, and whatever Unwrap returns has
   9..8192 bytes and the wrapping size of the input *)
Theorem C08_kwp_invertW_total_and_unwrapped_length :
  forall (D : bytes -> bytes),
    (forall b, length b = 16%nat -> length (D b) = 16%nat) ->
    forall c,
      ((24 <= length c)%nat -> (length c mod 8 = 0)%nat -> exists u, invertW D c = Ok u /\ length u = length c) /\
      (forall d, kwp_unwrap D c = Ok d ->
         9 <= N.of_nat (length d) <= 8192 /\ wrappingSize (length d) = length c).
Proof.
  intros D Dl c. split; [apply invertW_total; exact Dl|]. intros d. apply kwp_unwrap_ok_length. exact Dl.
Qed.
Print Assumptions C08_kwp_invertW_total_and_unwrapped_length.

(* The API as a function of the KEK bytes (NewKWP, then Wrap / Unwrap): no
   primitive for any KEK size other than 16 / 32; for every accepted KEK and
   every input of every length both operations return a value or an error,
   with the error sets above.  AES is any pair of key -> block -> block
   functions whose decryption returns 16 bytes under 16- and 32-byte keys. *)
Theorem C08_kwp_api_total_for_every_accepted_kek :
  forall (AESenc AESdec : bytes -> bytes -> bytes),
    (forall k b, (length k = 16 \/ length k = 32)%nat -> length b = 16%nat -> length (AESdec k b) = 16%nat) ->
    forall kek data,
      ((length kek <> 16 /\ length kek <> 32)%nat ->
         kwp_api_wrap AESenc kek data = None /\ kwp_api_unwrap AESdec kek data = None) /\
      ((length kek = 16 \/ length kek = 32)%nat ->
         (exists r, kwp_api_wrap AESenc kek data = Some r /\ r <> Panic /\
            (r = Err <-> N.of_nat (length data) < 16 \/ 8192 < N.of_nat (length data))) /\
         (exists r, kwp_api_unwrap AESdec kek data = Some r /\ r <> Panic /\
            (r = Err <->
               N.of_nat (length data) < 24 \/ 8200 < N.of_nat (length data) \/ (length data mod 8 <> 0)%nat \/
               exists u, invertW (AESdec kek) data = Ok u /\ ~ integrity_ok u))).
Proof. exact kwp_api_total. Qed.
Print Assumptions C08_kwp_api_total_for_every_accepted_kek.

(* the premises are inhabited; each kind of error occurs *)
Definition toyAESblk (k b : bytes) : bytes := rev b.

Example C08_kwp_api_premises_inhabited :
  (forall k b, (length k = 16 \/ length k = 32)%nat -> length b = 16%nat -> length (toyAESblk k b) = 16%nat) /\
  (let d := map N.of_nat (seq 100 17) in
   let c := match kwp_wrap toyE d with Ok c => c | _ => [] end in
   kwp_api_wrap toyAESblk (zeros 16) d = Some (Ok c) /\
   kwp_api_unwrap toyAESblk (zeros 32) c = Some (Ok d) /\
   kwp_api_wrap toyAESblk (zeros 24) d = None /\ kwp_api_unwrap toyAESblk (zeros 24) c = None /\
   kwp_api_wrap toyAESblk (zeros 0) d = None /\ kwp_api_wrap toyAESblk (zeros 33) d = None /\
   (* Wrap errors *)
   kwp_api_wrap toyAESblk (zeros 16) (zeros 15) = Some Err /\
   kwp_api_wrap toyAESblk (zeros 16) (zeros (4096 + 4097)) = Some Err /\
   (* Unwrap errors: too short, not a multiple of 8, too long, integrity *)
   kwp_api_unwrap toyAESblk (zeros 16) (firstn 16 c) = Some Err /\
   kwp_api_unwrap toyAESblk (zeros 16) (c ++ [0]) = Some Err /\
   kwp_api_unwrap toyAESblk (zeros 16) (zeros (4104 + 4104)) = Some Err /\
   kwp_api_unwrap toyAESblk (zeros 16) (zeros 32) = Some Err /\
   (exists u, invertW toyE (zeros 32) = Ok u /\ ~ integrity_ok u)).
Proof.
  split.
  - intros k b _ H. unfold toyAESblk. rewrite rev_length. exact H.
  - cbv zeta. repeat split; try (vm_compute; reflexivity).
    eexists. split; [vm_compute; reflexivity|]. intros [H _]. vm_compute in H. discriminate.
Qed.
