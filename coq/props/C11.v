(* C11 — Keyset manager keeps keysets well-formed under any operation history.
   Only statements + `exact`; proofs live in proofs/ManagerProofs.v. *)
From Coq Require Import List NArith Bool.
From Tink Require Import Manager ManagerProofs ManagerProofs2.
Import ListNotations.
Open Scope N_scope.

(* Every history, from an empty manager or from any well-formed handle, with
   any id tape: every handle Handle() returns has pairwise distinct ids,
   exactly one primary, which is ENABLED, known statuses, and keys with an id
   requirement carry that id. *)
Theorem C11_every_handle_wellformed :
  forall (h0 : option handle) (tape : list N) (ops : list op) s' rs h,
    (forall h, h0 = Some h -> wf_handle h) ->
    run (init_state h0 tape) ops = (s', rs) ->
    In (RHandle h) rs ->
    NoDup (map eid h) /\ count_prim h = 1%nat /\
    (forall e, In e h -> eprim e = true -> est e = Enabled) /\
    (forall e, In e h -> est e <> UnknownStatus) /\
    (forall e r, In e h -> ereq e = Some r -> r = eid e).
Proof.
  intros h0 tape ops s' rs h H0 Hrun Hin.
  pose proof (run_handles_wf ops _ _ _ h (init_inv h0 tape H0) Hrun Hin) as [[A B C D E] F].
  repeat split; auto. intros e r He Hr. exact (E e He r Hr).
Qed.
Print Assumptions C11_every_handle_wellformed.

(* The manager invariant holds in every reachable state. *)
Theorem C11_invariant_every_history :
  forall h0 tape ops, (forall h, h0 = Some h -> wf_handle h) ->
    SInv (fst (run (init_state h0 tape) ops)).
Proof. intros h0 tape ops H. exact (run_inv ops _ (init_inv h0 tape H)). Qed.
Print Assumptions C11_invariant_every_history.

(* Handle() fails exactly when there is no primary ... *)
Theorem C11_handle_fails_iff_no_primary :
  forall s, SInv s -> (snd (step s OHandle) = RErr <-> count_prim (ents (smgr s)) = 0%nat).
Proof. exact handle_err_iff. Qed.
Print Assumptions C11_handle_fails_iff_no_primary.

(* ... and a primary, once set, never goes away. *)
Theorem C11_primary_persists :
  forall s o, SInv s -> count_prim (ents (smgr s)) = 1%nat ->
    count_prim (ents (smgr (fst (step s o)))) = 1%nat.
Proof. exact primary_persists. Qed.
Print Assumptions C11_primary_persists.

Theorem C11_error_leaves_keyset_unchanged :
  forall s o, snd (step s o) = RErr -> ents (smgr (fst (step s o))) = ents (smgr s).
Proof. exact err_unchanged. Qed.
Print Assumptions C11_error_leaves_keyset_unchanged.

Theorem C11_primary_cannot_be_disabled_or_deleted :
  forall s id e, find_entry (ents (smgr s)) id = Some e -> eprim e = true ->
    step s (ODisable id) = (s, RErr) /\ step s (ODelete id) = (s, RErr).
Proof. exact primary_protected. Qed.
Print Assumptions C11_primary_cannot_be_disabled_or_deleted.

Theorem C11_non_enabled_cannot_become_primary :
  forall s id e, find_entry (ents (smgr s)) id = Some e -> est e <> Enabled ->
    step s (OSetPrimary id) = (s, RErr).
Proof. exact non_enabled_not_primary. Qed.
Print Assumptions C11_non_enabled_cannot_become_primary.

(* The same through the internal AddKeyWithOpts, for every order of its options. *)
Theorem C11_addopts_non_enabled_cannot_become_primary :
  forall s req k opts p,
    apply_opts req (mkPend (match req with Some r => r | None => 0 end)
                           (match req with Some _ => true | None => false end) Enabled false) opts = Some p ->
    p_prim p = true -> p_st p <> Enabled ->
    step s (OAddOpts req k opts) = (s, RErr).
Proof. exact addopts_non_enabled_primary_rejected. Qed.
Print Assumptions C11_addopts_non_enabled_cannot_become_primary.

Theorem C11_earlier_handles_unaffected :
  forall ops s, exists l, shandles (fst (run s ops)) = shandles s ++ l.
Proof. exact run_handles_stable. Qed.
Print Assumptions C11_earlier_handles_unaffected.

(* Over whole histories: Manager.Handle() after ANY history from an empty manager (any
   id tape) fails iff no step of that history was a successful SetPrimary, a successful
   AddKeyWithOpts(..., AsPrimary()) or a NewManagerFromHandle. *)
Theorem C11_handle_fails_iff_no_primary_was_ever_set :
  forall tape ops,
    let s := fst (run (init_state None tape) ops) in
    snd (step s OHandle) = RErr <->
    existsb (fun '(o, r) => gains_primary o r) (trace (init_state None tape) ops) = false.
Proof. exact handle_fails_iff_history. Qed.
Print Assumptions C11_handle_fails_iff_no_primary_was_ever_set.

(* ... and from any reachable state: after a run there is a primary iff there was one
   before or some step of the run created one. *)
Theorem C11_primary_iff_history :
  forall ops s, SInv s ->
    (count_prim (ents (smgr (fst (run s ops)))) = 1%nat <->
     count_prim (ents (smgr s)) = 1%nat \/
     existsb (fun '(o, r) => gains_primary o r) (trace s ops) = true).
Proof. exact primary_iff_history. Qed.
Print Assumptions C11_primary_iff_history.

(* What every operation leaves untouched.  The id, id requirement and key object of
   every entry and the order of the entries never change; an add appends exactly one
   entry (with the id requirement the key came with), Delete removes exactly the first
   entry with that id, NewManagerFromHandle installs the named handle. *)
Theorem C11_ids_requirements_keys_and_order_preserved :
  forall s o,
    let l := ents (smgr s) in
    let l' := ents (smgr (fst (step s o))) in
    match o, snd (step s o) with
    | ODelete id, ROk => l' = delete_first id l
    | OFromHandle k, ROk => nth_error (shandles s) k = Some l'
    | _, RId id => is_add o = true /\ map kp l' = map kp l ++ [added_kp o id]
    | _, _ => map kp l' = map kp l
    end.
Proof. exact step_keyparts. Qed.
Print Assumptions C11_ids_requirements_keys_and_order_preserved.

(* Statuses and primary flags: Enable/Disable change nothing but the status of the entry
   they name; SetPrimary changes nothing but primary flags; an add leaves every existing
   entry exactly as it was (AddKeyWithOpts with AsPrimary: up to primary flags). *)
Theorem C11_statuses_change_only_where_named :
  forall s o,
    let l := ents (smgr s) in
    let l' := ents (smgr (fst (step s o))) in
    match o, snd (step s o) with
    | OEnable id, ROk | ODisable id, ROk =>
        Forall2 (fun e e' => kp e' = kp e /\ eprim e' = eprim e /\ (eid e <> id -> est e' = est e)) l l'
    | OSetPrimary _, ROk => map skp l' = map skp l
    | OAddOpts _ _ _, RId _ => map skp (removelast l') = map skp l
    | _, RId _ => removelast l' = l
    | _, _ => True
    end.
Proof. exact step_status_frame. Qed.
Print Assumptions C11_statuses_change_only_where_named.

Theorem C11_delete_removes_exactly_one_entry :
  forall id l e, find_entry l id = Some e ->
    exists l1 l2, l = l1 ++ e :: l2 /\ delete_first id l = l1 ++ l2 /\ (forall x, In x l1 -> eid x <> id).
Proof. exact delete_first_split. Qed.
Print Assumptions C11_delete_removes_exactly_one_entry.

(* Ids are never re-assigned during a manager's lifetime (any history without
   NewManagerFromHandle, which starts a new lifetime): an id that names a key now names
   the SAME key object, with the same id requirement, in every later state in which it
   occurs at all - also after Delete. *)
Theorem C11_id_denotes_the_same_key_for_life :
  forall ops s e0,
    SInv s -> Forall (fun o => forall k, o <> OFromHandle k) ops ->
    In e0 (ents (smgr s)) ->
    forall e', In e' (ents (smgr (fst (run s ops)))) -> eid e' = eid e0 -> kp e' = kp e0.
Proof. exact id_denotes_same_key. Qed.
Print Assumptions C11_id_denotes_the_same_key_for_life.

(* Non-vacuity: a concrete history exercising collisions, errors and Handle. *)
Example C11_nonvacuous :
  let h0 := [mkEntry 5 Enabled true (Some 5) 0; mkEntry 7 Destroyed false None 1] in
  wf_handle h0 /\
  snd (run (init_state (Some h0) [5; 7; 9]) [OAdd TmplTink; ODisable 5; OSetPrimary 9; ODelete 7; OHandle])
  = [RId 9; RErr; ROk; ROk;
     RHandle [mkEntry 5 Enabled false (Some 5) 0; mkEntry 9 Enabled true (Some 9) 0]].
Proof.
  split; [|vm_compute; reflexivity].
  split; [constructor; simpl|reflexivity].
  - repeat constructor; simpl; intuition discriminate.
  - unfold count_prim; simpl; auto.
  - intros e [<-|[<-|[]]]; simpl; auto; discriminate.
  - intros e [<-|[<-|[]]]; simpl; discriminate.
  - intros e [<-|[<-|[]]] r; simpl; intros Hr; inversion Hr; auto.
Qed.
