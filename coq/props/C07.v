(* C07 — Streaming AEAD is chunking-independent and detects any stream manipulation.
   Statements only; proofs live in proofs/StreamProofs.v.  The model
   (model/Stream.v) follows streamingaead/subtle/noncebased/noncebased.go,
   streamingaead/subtle/aes_{gcm_hkdf,ctr_hmac}.go and streamingaead/decrypt_reader.go.
   The segment cipher (and, for real keys, HKDF / AES-GCM / AES-CTR / HMAC) are
   Section variables; their laws are premises of the theorems. *)
From Coq Require Import List NArith Bool Arith Lia.
From Tink Require Import Bytes Stream StreamProofs.
Import ListNotations.
Open Scope nat_scope.

(* (a) WRITE-PARTITION INDEPENDENCE.  For every list of Write arguments
   (empty ones included) followed by Close, over a sink that does not fail:
   every Write accepts all its bytes, Close succeeds, and the bytes handed to
   the sink are exactly encode_stream of the concatenation — segment_0 ..
   segment_k with nonce = prefix || be32(i) || last-flag, first segment
   shorter by the offset.  Precondition 0 < segment − offset is the one
   NewAESGCMHKDF/NewAESCTRHMAC enforce. *)
Theorem C07_write_partition_independent :
  forall (encs : bytes -> bytes -> bytes) (P : wparams) (k : sink) (chunks : list bytes) (st0 : wst),
    0 < w_seg P - w_off P ->
    sfail k = None ->
    (N.of_nat (length (segments (w_seg P) (w_off P) (concat chunks))) <= max_segments)%N ->
    new_writer P k = Some st0 ->
    let '(st1, rs) := wwrites encs P st0 chunks in
    let '(st2, ok) := wclose encs P st1 in
    rs = map (fun c => WOk (length c)) chunks /\ ok = true /\ wclosed st2 = true /\
    sout (wsink st2) =
      sout k ++ encode_stream encs (w_nonce_size P) (w_prefix P) (w_seg P) (w_off P) (concat chunks).
Proof. intros encs P k chunks st0 Hpos. exact (write_partition_independent encs P Hpos k chunks st0). Qed.
Print Assumptions C07_write_partition_independent.

(* (b) READ-PARTITION INDEPENDENCE.  Over encode_stream p, for every sequence
   of Read buffer sizes (zero included) — io.ReadFull absorbs every short-read
   behaviour of the source —: no error and no panic; the bytes returned are
   always a prefix of p and are exactly p when EOF is reported; and once
   |p| + #segments + 1 non-empty reads have been made EOF has been reported. *)
Theorem C07_read_partition_independent :
  forall (encs : bytes -> bytes -> bytes) (decs : bytes -> bytes -> option bytes)
         (P : rparams) (seg ov : nat) (sizes : list nat) (p : bytes) (st0 : rst src),
    r_ctseg P = seg + ov -> 0 < seg - r_off P -> 0 < ov ->
    (forall n s, length (encs n s) = length s + ov) ->
    (forall n s, decs n (encs n s) = Some s) ->
    (N.of_nat (length (segments seg (r_off P) p)) <= max_segments)%N ->
    new_reader P (mkSrc (encode_stream encs (r_nonce_size P) (r_prefix P) seg (r_off P) p) None) = Some st0 ->
    let '(outb, f) := drive decs read_full P sizes st0 [] in
    (f = AtEof \/ f = Pending) /\ (f = AtEof -> outb = p) /\ (exists tl, p = outb ++ tl) /\
    (Forall (fun n => 0 < n) sizes -> length p + length (segments seg (r_off P) p) < length sizes -> f = AtEof).
Proof.
  intros encs decs P seg ov sizes p st0 Hct Hpos Hov Hlen Hdec.
  exact (read_partition_independent encs decs P seg ov Hct Hpos Hov Hlen Hdec sizes p st0).
Qed.
Print Assumptions C07_read_partition_independent.

(* LINKING.  What the Writer emits (any write partition) is the format the
   Reader theorem assumes: written through any partition and read back through
   any partition gives the plaintext, then EOF. *)
Theorem C07_stream_roundtrip :
  forall (encs : bytes -> bytes -> bytes) (decs : bytes -> bytes -> option bytes) (ov : nat)
         (WP : wparams) (RP : rparams) (base : bytes) (chunks : list bytes) (sizes : list nat) (w0 : wst),
    0 < ov -> (forall n s, length (encs n s) = length s + ov) -> (forall n s, decs n (encs n s) = Some s) ->
    r_nonce_size RP = w_nonce_size WP -> r_prefix RP = w_prefix WP ->
    r_off RP = w_off WP -> r_ctseg RP = w_seg WP + ov ->
    0 < w_seg WP - w_off WP ->
    (N.of_nat (length (segments (w_seg WP) (w_off WP) (concat chunks))) <= max_segments)%N ->
    new_writer WP (mkSink base None) = Some w0 ->
    let '(w1, rs) := wwrites encs WP w0 chunks in
    let '(w2, ok) := wclose encs WP w1 in
    rs = map (fun c => WOk (length c)) chunks /\ ok = true /\
    exists ct, sout (wsink w2) = base ++ ct /\
    forall r0, new_reader RP (mkSrc ct None) = Some r0 ->
    let '(outb, f) := drive decs read_full RP sizes r0 [] in
    (f = AtEof \/ f = Pending) /\ (f = AtEof -> outb = concat chunks) /\
    (exists tl, concat chunks = outb ++ tl) /\
    (Forall (fun n => 0 < n) sizes ->
     length (concat chunks) + length (segments (w_seg WP) (w_off WP) (concat chunks)) < length sizes -> f = AtEof).
Proof.
  intros encs decs ov WP RP base chunks sizes w0 Hov Hlen Hdec.
  exact (stream_roundtrip encs decs ov Hov Hlen Hdec WP RP base chunks sizes w0).
Qed.
Print Assumptions C07_stream_roundtrip.

(* REAL KEYS.  For every valid AES-GCM-HKDF / AES-CTR-HMAC key (every key size,
   hash, tag size, segment size and first-segment offset accepted by the
   constructors), salt and nonce prefix from the randomness tape, and associated
   data: NewEncryptingWriter + any Write partition + Close emits exactly
   header || encode_stream (header = len || salt || prefix; segments under the
   HKDF-derived session keys), and NewDecryptingReader over those bytes read
   through any partition returns the plaintext then EOF. *)
Theorem C07_key_roundtrip :
  forall (hkdf : hash -> bytes -> bytes -> bytes -> nat -> bytes)
         (gcm_seal : bytes -> bytes -> bytes -> bytes) (gcm_open : bytes -> bytes -> bytes -> option bytes)
         (aes_ctr : bytes -> bytes -> bytes -> bytes) (hmac : hash -> bytes -> bytes -> bytes),
    (forall k n p, length (gcm_seal k n p) = length p + 16) ->
    (forall k n p, gcm_open k n (gcm_seal k n p) = Some p) ->
    (forall k iv x, length (aes_ctr k iv x) = length x) ->
    (forall k iv x, aes_ctr k iv (aes_ctr k iv x) = x) ->
    (forall h k m, length (hmac h k m) = digest_size h) ->
  forall (k : skey) (salt prefix aad : bytes) (chunks : list bytes) (sizes : list nat),
    key_valid k = true -> length salt = k_dk k -> length prefix = nonce_prefix_size ->
    (N.of_nat (length (segments (k_cseg k - k_tag k) (k_foff k + hdr_len k) (concat chunks))) <= max_segments)%N ->
    match new_enc_writer hkdf k (salt ++ prefix) aad (mkSink [] None) with
    | (Some (k1, k2, pre, w0), _) =>
      (k1, k2) = derive hkdf k salt aad /\ pre = prefix /\
      let '(w1, rs) := wwrites (seg_enc gcm_seal aes_ctr hmac k (k1, k2)) (k_wparams k pre) w0 chunks in
      let '(w2, ok) := wclose (seg_enc gcm_seal aes_ctr hmac k (k1, k2)) (k_wparams k pre) w1 in
      rs = map (fun c => WOk (length c)) chunks /\ ok = true /\
      sout (wsink w2) =
        header k salt prefix ++
        encode_stream (seg_enc gcm_seal aes_ctr hmac k (derive hkdf k salt aad)) (k_nonce_size k) prefix
                      (k_cseg k - k_tag k) (k_foff k + hdr_len k) (concat chunks) /\
      match new_dec_reader hkdf src read_full k aad (mkSrc (sout (wsink w2)) None) with
      | (Some (k1', k2', pre', r0), _) =>
        let '(outb, f) := drive (seg_dec gcm_open aes_ctr hmac k (k1', k2')) read_full (k_rparams k pre') sizes r0 [] in
        (f = AtEof \/ f = Pending) /\ (f = AtEof -> outb = concat chunks) /\
        (exists tl, concat chunks = outb ++ tl) /\
        (Forall (fun n => 0 < n) sizes ->
         length (concat chunks) +
         length (segments (k_cseg k - k_tag k) (k_foff k + hdr_len k) (concat chunks)) < length sizes ->
         f = AtEof)
      | (None, _) => False
      end
    | (None, _) => False
    end.
Proof.
  intros hkdf gcm_seal gcm_open aes_ctr hmac H1 H2 H3 H4 H5.
  exact (key_roundtrip hkdf gcm_seal gcm_open aes_ctr hmac H1 H2 H3 H4 H5).
Qed.
Print Assumptions C07_key_roundtrip.

(* (d) I/O FAULTS, writer side.  If the underlying writer fails persistently
   and cannot take the whole stream, some Write or Close returns an error —
   never overall success. *)
Theorem C07_writer_fault_surfaces :
  forall (encs : bytes -> bytes -> bytes) (P : wparams) (k : sink) (f : nat) (chunks : list bytes) (st0 : wst),
    0 < w_seg P - w_off P ->
    sfail k = Some f ->
    f < length (sout k) +
        length (encode_stream encs (w_nonce_size P) (w_prefix P) (w_seg P) (w_off P) (concat chunks)) ->
    (N.of_nat (length (segments (w_seg P) (w_off P) (concat chunks))) <= max_segments)%N ->
    new_writer P k = Some st0 ->
    let '(st1, rs) := wwrites encs P st0 chunks in
    let '(st2, ok) := wclose encs P st1 in
    (exists n, In (WErr n) rs) \/ ok = false.
Proof. intros encs P k f chunks st0 Hpos. exact (writer_fault_surfaces encs P Hpos k f chunks st0). Qed.
Print Assumptions C07_writer_fault_surfaces.

(* (d) I/O FAULTS, reader side.  A source that fails persistently (from byte
   k <= its length on) never leads to a clean EOF: for ANY data, parameters and
   segment cipher ... *)
Theorem C07_reader_fault_never_clean_eof :
  forall (decs : bytes -> bytes -> option bytes) (P : rparams) (data : bytes) (k : nat)
         (sizes : list nat) (st0 : rst src),
    k <= length data ->
    new_reader P (mkSrc data (Some k)) = Some st0 ->
    snd (drive decs read_full P sizes st0 []) <> AtEof.
Proof.
  intros decs P data k sizes st0 Hk Hnew. unfold new_reader in Hnew.
  destruct (_ <? 5); [discriminate|]. inversion Hnew; subst.
  apply reader_fault_never_eof. split; [reflexivity|]. exists k. split; [reflexivity|exact Hk].
Qed.
Print Assumptions C07_reader_fault_never_clean_eof.

(* ... and over the honest stream the bytes delivered before the error are a
   prefix of the plaintext, nothing panics, and enough non-empty reads do
   reach the error. *)
Theorem C07_reader_fault_prefix :
  forall (encs : bytes -> bytes -> bytes) (decs : bytes -> bytes -> option bytes)
         (P : rparams) (seg ov : nat) (sizes : list nat) (p : bytes) (k : nat) (st0 : rst src),
    r_ctseg P = seg + ov -> 0 < seg - r_off P -> 0 < ov ->
    (forall n s, length (encs n s) = length s + ov) ->
    (forall n s, decs n (encs n s) = Some s) ->
    (N.of_nat (length (segments seg (r_off P) p)) <= max_segments)%N ->
    new_reader P (mkSrc (encode_stream encs (r_nonce_size P) (r_prefix P) seg (r_off P) p) (Some k)) = Some st0 ->
    let '(outb, f) := drive decs read_full P sizes st0 [] in
    f <> Panicked /\ (exists tl, p = outb ++ tl) /\ (f = AtEof -> outb = p) /\
    (Forall (fun n => 0 < n) sizes -> length p + length (segments seg (r_off P) p) < length sizes -> f <> Pending).
Proof.
  intros encs decs P seg ov sizes p k st0 Hct Hpos Hov Hlen Hdec.
  exact (reader_fault_prefix encs decs P seg ov Hct Hpos Hov Hlen Hdec sizes p k st0).
Qed.
Print Assumptions C07_reader_fault_prefix.

(* (e) THE "TOO MANY SEGMENTS" GUARD.  Below the guard distinct (counter,
   last-flag) pairs give distinct nonces; at the guard Close fails and leaves
   the writer unchanged, Write emits nothing, Read decrypts nothing. *)
Theorem C07_nonces_distinct_below_guard :
  forall sz pre a la b lb, (a < max_segments)%N -> (b < max_segments)%N ->
    nonce_of sz pre a la = nonce_of sz pre b lb -> a = b /\ la = lb.
Proof. exact nonce_inj. Qed.
Print Assumptions C07_nonces_distinct_below_guard.

Theorem C07_guard_too_many_segments :
  forall encs decs (WP : wparams) (RP : rparams) (w : wst) (r : rst src) (p : bytes) (n : nat),
    ((max_segments <= wcnt w)%N -> wclosed w = false ->
       wclose encs WP w = (w, false) /\
       match snd (wwrite encs WP w p) with
       | WOk m => m = length p /\ wsink (fst (wwrite encs WP w p)) = wsink w
       | _ => True
       end) /\
    ((max_segments <= rcnt r)%N -> length (rpt r) <= rpos r -> rlast r = false ->
       match snd (read decs read_full RP r n) with RData _ => False | _ => True end).
Proof.
  intros encs decs WP RP w r p n. split.
  - intros H Hc. split; [apply guard_close; auto|].
    pose proof (guard_write encs WP w p H Hc) as G.
    destruct (snd (wwrite encs WP w p)); auto. tauto.
  - apply guard_read.
Qed.
Print Assumptions C07_guard_too_many_segments.

(* (c) MANIPULATION.  Premise = authenticity of the segment cipher under the
   session key (the only (nonce, ciphertext) pairs that decrypt are those the
   writer produced for the plaintext p; `decs n c = Some s -> c = encs n s`
   strengthened to "and (n, s) is a segment of this stream", which an AEAD
   gives and without which a valid encoding of another plaintext would be a
   counterexample).  Then for ANY byte string c' handed to the reader —
   truncated anywhere, segments dropped / duplicated / reordered / altered,
   bytes appended — and any I/O behaviour of the source, for every sequence of
   Read sizes: nothing panics; the bytes returned are always a prefix of p; a
   clean EOF is reported only if c' IS the original stream (and then exactly p
   was returned); and |segments| + |p| + 1 non-empty reads always reach EOF or
   an error.  Hence c' <> original  ==>  error, never clean EOF. *)
Theorem C07_manipulation_detected :
  forall (encs : bytes -> bytes -> bytes) (decs : bytes -> bytes -> option bytes)
         (P : rparams) (seg ov : nat) (p : bytes),
    r_ctseg P = seg + ov -> 0 < seg - r_off P ->
    (N.of_nat (length (segments seg (r_off P) p)) <= max_segments)%N ->
    (forall n c s, decs n c = Some s ->
       exists i, i < length (segments seg (r_off P) p) /\
                 n = nonce_of (r_nonce_size P) (r_prefix P) (N.of_nat i) (i + 1 =? length (segments seg (r_off P) p)) /\
                 s = nth i (segments seg (r_off P) p) [] /\ c = encs n s) ->
  forall (c' : bytes) (F : option nat) (sizes : list nat) (st0 : rst src),
    new_reader P (mkSrc c' F) = Some st0 ->
    let '(outb, f) := drive decs read_full P sizes st0 [] in
    f <> Panicked /\ (exists tl, p = outb ++ tl) /\
    (f = AtEof -> c' = encode_stream encs (r_nonce_size P) (r_prefix P) seg (r_off P) p /\ outb = p) /\
    (Forall (fun n => 0 < n) sizes -> length (segments seg (r_off P) p) + length p < length sizes -> f <> Pending).
Proof.
  intros encs decs P seg ov p Hct Hpos Hb Hauth.
  exact (manipulation_detected encs decs P seg ov Hct Hpos p Hb Hauth).
Qed.
Print Assumptions C07_manipulation_detected.

(* (c) other associated data / other key: the reader derives a session key
   under which nothing was ever encrypted, so nothing decrypts: the first Read
   (any size) fails and no byte is returned. *)
Theorem C07_other_session_key_fails :
  forall (decs : bytes -> bytes -> option bytes) (P : rparams),
    r_off P <= r_ctseg P + 1 -> (forall n c, decs n c = None) ->
  forall (c' : bytes) (F : option nat) (n : nat) (ns : list nat) (st0 : rst src),
    new_reader P (mkSrc c' F) = Some st0 ->
    drive decs read_full P (n :: ns) st0 [] = ([], Failed).
Proof. intros decs P Hoff Hnone. exact (nothing_decrypts decs P Hoff Hnone). Qed.
Print Assumptions C07_other_session_key_fails.

(* the authenticity premise is inhabited: the ideal decrypter that accepts
   exactly what the writer produced; and a tampered stream computes as stated *)
Example C07_manipulation_premise_inhabited :
  let p := [1; 2; 3; 4; 5; 6]%N in
  let RP := mkRP 6 [9%N] 7 1 in
  let decs := ideal_decs toy_encs 6 [9%N] (segments 3 1 p) in
  (forall n c s, decs n c = Some s ->
     exists i, i < length (segments 3 1 p) /\
               n = nonce_of 6 [9%N] (N.of_nat i) (i + 1 =? length (segments 3 1 p)) /\
               s = nth i (segments 3 1 p) [] /\ c = toy_encs n s) /\
  let ct := encode_stream toy_encs 6 [9%N] 3 1 p in
  match new_reader RP (mkSrc ct None), new_reader RP (mkSrc (firstn 13 ct) None),
        new_reader RP (mkSrc (firstn 6 ct ++ skipn 13 ct) None) with
  | Some r0, Some r1, Some r2 =>
      drive decs read_full RP [9; 9; 9; 9; 9] r0 [] = (p, AtEof) /\
      drive decs read_full RP [9; 9; 9; 9; 9] r1 [] = ([1; 2]%N, Failed) /\     (* cut on a segment boundary *)
      drive decs read_full RP [9; 9; 9; 9; 9] r2 [] = ([1; 2]%N, Failed)         (* middle segment dropped *)
  | _, _, _ => False
  end.
Proof.
  split; [intros n c s; apply ideal_decs_auth|]. vm_compute. repeat split; reflexivity.
Qed.

(* (f) KEYSET-LEVEL READER (streamingaead.New(handle).NewDecryptingReader,
   decrypt_reader.go with its unreader).  dr_reads = the results of every Read
   call of the keyset-level reader, whose candidate readers consume the source
   through the replaying unreader; spec_reads = try every enabled key, in
   keyset order, as a single-key reader on the WHOLE stream c0 from its
   beginning (dr_spec), take the first whose header check and first Read
   succeed, and continue with that single-key reader; no key: every call
   fails.  They agree for every keyset, associated data, source (data and
   fault position), first-Read size and later Read sizes — i.e. the bytes the
   failed candidates consumed are replayed exactly, also after the buffer is
   disabled.  No oracle law is needed. *)
Theorem C07_keyset_reader_replays :
  forall (hkdf : hash -> bytes -> bytes -> bytes -> nat -> bytes)
         (gcm_open : bytes -> bytes -> bytes -> option bytes)
         (aes_ctr : bytes -> bytes -> bytes -> bytes) (hmac : hash -> bytes -> bytes -> bytes)
         (keys : list skey) (aad : bytes) (c0 : src) (sizes : list nat),
    dr_reads hkdf gcm_open aes_ctr hmac keys aad (dr_new c0) sizes =
    spec_reads hkdf gcm_open aes_ctr hmac keys aad c0 sizes.
Proof. exact keyset_reader_spec. Qed.
Print Assumptions C07_keyset_reader_replays.

(* Non-vacuity: the toy segment cipher of the correspondence run satisfies the
   premises (overhead 4), and a concrete history computes as the theorems say. *)
Example C07_premises_inhabited :
  (forall n s, length (toy_encs n s) = length s + 4) /\
  (forall n s, toy_decs n (toy_encs n s) = Some s) /\
  let WP := mkWP 6 [9%N] 3 1 in
  let RP := mkRP 6 [9%N] 7 1 in
  let p := [1; 2; 3; 4; 5; 6]%N in
  match new_writer WP (mkSink [] None) with
  | Some w0 =>
    let '(w1, rs) := wwrites toy_encs WP w0 [[1%N]; []; [2; 3; 4; 5]%N; [6%N]] in
    let '(w2, ok) := wclose toy_encs WP w1 in
    rs = [WOk 1; WOk 0; WOk 4; WOk 1] /\ ok = true /\
    sout (wsink w2) = encode_stream toy_encs 6 [9%N] 3 1 p /\
    length (segments 3 1 p) = 3 /\
    match new_reader RP (mkSrc (sout (wsink w2)) None) with
    | Some r0 => drive toy_decs read_full RP [0; 1; 4; 1; 9; 9; 9] r0 [] = (p, AtEof)
    | None => False
    end
  | None => False
  end.
Proof.
  split; [exact toy_len|]. split; [exact toy_dec_enc|]. vm_compute. repeat split; reflexivity.
Qed.
