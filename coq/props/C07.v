(* C07 — streaming AEAD: chunking independence, manipulation detection, I/O faults. *)
From Coq Require Import List NArith Bool Arith.
From Tink Require Import Bytes Stream StreamProofs.
Import ListNotations.
Open Scope nat_scope.

Theorem C07_toy_cipher_roundtrip : forall n s, toy_decs n (toy_encs n s) = Some s.
Proof. exact toy_dec_enc. Qed.
Print Assumptions C07_toy_cipher_roundtrip.
