(* C07 — Streaming AEAD is chunking-independent and detects any stream manipulation.
   Statements only; proofs live in proofs/StreamProofs.v, StreamIOProofs.v (short
   reads), StreamReduction.v / StreamKeyReduction.v (manipulation as a reduction:
   segment layer, whole reader, keyset, AES-CTR-HMAC to HMAC), StreamKeyProofs.v
   (constructors, faults, honest stream) and StreamKeyExamples.v (one instance).  The model
   (model/Stream.v, model/StreamIO.v) follows streamingaead/subtle/noncebased/noncebased.go,
   streamingaead/subtle/aes_{gcm_hkdf,ctr_hmac}.go and streamingaead/decrypt_reader.go.
   The segment cipher (and, for real keys, HKDF / AES-GCM / AES-CTR / HMAC) are
   Section variables; their laws are premises of the theorems. *)
From Coq Require Import List NArith Bool Arith Lia.
From Tink Require Import Bytes Stream StreamProofs StreamIO StreamIOProofs StreamReduction StreamKeyProofs StreamKeyReduction StreamKeyExamples.
Import ListNotations.
Open Scope nat_scope.

(* (a) WRITE-PARTITION INDEPENDENCE.  For every list of Write arguments
   (empty ones included) followed by Close, over a sink that does not fail:
   every Write accepts all its bytes, Close succeeds, and the bytes handed to
   the sink are exactly encode_stream of the concatenation — segment_0 ..
   segment_k with nonce = prefix || be32(i) || last-flag, first segment
   shorter by the offset.  Precondition 0 < segment − offset is the one
   NewAESGCMHKDF/NewAESCTRHMAC enforce. *)
Theorem C07_write_partition_independent :
  forall (encs : bytes -> bytes -> bytes) (P : wparams) (k : sink) (chunks : list bytes) (st0 : wst),
    0 < w_seg P - w_off P ->
    sfail k = None ->
    (N.of_nat (length (segments (w_seg P) (w_off P) (concat chunks))) <= max_segments)%N ->
    new_writer P k = Some st0 ->
    let '(st1, rs) := wwrites encs P st0 chunks in
    let '(st2, ok) := wclose encs P st1 in
    rs = map (fun c => WOk (length c)) chunks /\ ok = true /\ wclosed st2 = true /\
    sout (wsink st2) =
      sout k ++ encode_stream encs (w_nonce_size P) (w_prefix P) (w_seg P) (w_off P) (concat chunks).
Proof. intros encs P k chunks st0 Hpos. exact (write_partition_independent encs P Hpos k chunks st0). Qed.
Print Assumptions C07_write_partition_independent.

(* (b) READ-PARTITION INDEPENDENCE.  Over encode_stream p, for every sequence
   of Read buffer sizes (zero included) — io.ReadFull absorbs every short-read
   behaviour of the source —: no error and no panic; the bytes returned are
   always a prefix of p and are exactly p when EOF is reported; and once
   |p| + #segments + 1 non-empty reads have been made EOF has been reported. *)
Theorem C07_read_partition_independent :
  forall (encs : bytes -> bytes -> bytes) (decs : bytes -> bytes -> option bytes)
         (P : rparams) (seg ov : nat) (sizes : list nat) (p : bytes) (st0 : rst src),
    r_ctseg P = seg + ov -> 0 < seg - r_off P -> 0 < ov ->
    (forall n s, length (encs n s) = length s + ov) ->
    (forall n s, decs n (encs n s) = Some s) ->
    (N.of_nat (length (segments seg (r_off P) p)) <= max_segments)%N ->
    new_reader P (mkSrc (encode_stream encs (r_nonce_size P) (r_prefix P) seg (r_off P) p) None) = Some st0 ->
    let '(outb, f) := drive decs read_full P sizes st0 [] in
    (f = AtEof \/ f = Pending) /\ (f = AtEof -> outb = p) /\ (exists tl, p = outb ++ tl) /\
    (Forall (fun n => 0 < n) sizes -> length p + length (segments seg (r_off P) p) < length sizes -> f = AtEof).
Proof.
  intros encs decs P seg ov sizes p st0 Hct Hpos Hov Hlen Hdec.
  exact (read_partition_independent encs decs P seg ov Hct Hpos Hov Hlen Hdec sizes p st0).
Qed.
Print Assumptions C07_read_partition_independent.

(* LINKING.  What the Writer emits (any write partition) is the format the
   Reader theorem assumes: written through any partition and read back through
   any partition gives the plaintext, then EOF. *)
Theorem C07_stream_roundtrip :
  forall (encs : bytes -> bytes -> bytes) (decs : bytes -> bytes -> option bytes) (ov : nat)
         (WP : wparams) (RP : rparams) (base : bytes) (chunks : list bytes) (sizes : list nat) (w0 : wst),
    0 < ov -> (forall n s, length (encs n s) = length s + ov) -> (forall n s, decs n (encs n s) = Some s) ->
    r_nonce_size RP = w_nonce_size WP -> r_prefix RP = w_prefix WP ->
    r_off RP = w_off WP -> r_ctseg RP = w_seg WP + ov ->
    0 < w_seg WP - w_off WP ->
    (N.of_nat (length (segments (w_seg WP) (w_off WP) (concat chunks))) <= max_segments)%N ->
    new_writer WP (mkSink base None) = Some w0 ->
    let '(w1, rs) := wwrites encs WP w0 chunks in
    let '(w2, ok) := wclose encs WP w1 in
    rs = map (fun c => WOk (length c)) chunks /\ ok = true /\
    exists ct, sout (wsink w2) = base ++ ct /\
    forall r0, new_reader RP (mkSrc ct None) = Some r0 ->
    let '(outb, f) := drive decs read_full RP sizes r0 [] in
    (f = AtEof \/ f = Pending) /\ (f = AtEof -> outb = concat chunks) /\
    (exists tl, concat chunks = outb ++ tl) /\
    (Forall (fun n => 0 < n) sizes ->
     length (concat chunks) + length (segments (w_seg WP) (w_off WP) (concat chunks)) < length sizes -> f = AtEof).
Proof.
  intros encs decs ov WP RP base chunks sizes w0 Hov Hlen Hdec.
  exact (stream_roundtrip encs decs ov Hov Hlen Hdec WP RP base chunks sizes w0).
Qed.
Print Assumptions C07_stream_roundtrip.

(* REAL KEYS.  For every valid AES-GCM-HKDF / AES-CTR-HMAC key (every key size,
   hash, tag size, segment size and first-segment offset accepted by the
   constructors), salt and nonce prefix from the randomness tape, and associated
   data: NewEncryptingWriter + any Write partition + Close emits exactly
   header || encode_stream (header = len || salt || prefix; segments under the
   HKDF-derived session keys), and NewDecryptingReader over those bytes read
   through any partition returns the plaintext then EOF. *)
Theorem C07_key_roundtrip :
  forall (hkdf : hash -> bytes -> bytes -> bytes -> nat -> bytes)
         (gcm_seal : bytes -> bytes -> bytes -> bytes) (gcm_open : bytes -> bytes -> bytes -> option bytes)
         (aes_ctr : bytes -> bytes -> bytes -> bytes) (hmac : hash -> bytes -> bytes -> bytes),
    (forall k n p, length (gcm_seal k n p) = length p + 16) ->
    (forall k n p, gcm_open k n (gcm_seal k n p) = Some p) ->
    (forall k iv x, length (aes_ctr k iv x) = length x) ->
    (forall k iv x, aes_ctr k iv (aes_ctr k iv x) = x) ->
    (forall h k m, length (hmac h k m) = digest_size h) ->
  forall (k : skey) (salt prefix aad : bytes) (chunks : list bytes) (sizes : list nat),
    key_valid k = true -> length salt = k_dk k -> length prefix = nonce_prefix_size ->
    (N.of_nat (length (segments (k_cseg k - k_tag k) (k_foff k + hdr_len k) (concat chunks))) <= max_segments)%N ->
    match new_enc_writer hkdf k (salt ++ prefix) aad (mkSink [] None) with
    | (Some (k1, k2, pre, w0), _) =>
      (k1, k2) = derive hkdf k salt aad /\ pre = prefix /\
      let '(w1, rs) := wwrites (seg_enc gcm_seal aes_ctr hmac k (k1, k2)) (k_wparams k pre) w0 chunks in
      let '(w2, ok) := wclose (seg_enc gcm_seal aes_ctr hmac k (k1, k2)) (k_wparams k pre) w1 in
      rs = map (fun c => WOk (length c)) chunks /\ ok = true /\
      sout (wsink w2) =
        header k salt prefix ++
        encode_stream (seg_enc gcm_seal aes_ctr hmac k (derive hkdf k salt aad)) (k_nonce_size k) prefix
                      (k_cseg k - k_tag k) (k_foff k + hdr_len k) (concat chunks) /\
      match new_dec_reader hkdf src read_full k aad (mkSrc (sout (wsink w2)) None) with
      | (Some (k1', k2', pre', r0), _) =>
        let '(outb, f) := drive (seg_dec gcm_open aes_ctr hmac k (k1', k2')) read_full (k_rparams k pre') sizes r0 [] in
        (f = AtEof \/ f = Pending) /\ (f = AtEof -> outb = concat chunks) /\
        (exists tl, concat chunks = outb ++ tl) /\
        (Forall (fun n => 0 < n) sizes ->
         length (concat chunks) +
         length (segments (k_cseg k - k_tag k) (k_foff k + hdr_len k) (concat chunks)) < length sizes ->
         f = AtEof)
      | (None, _) => False
      end
    | (None, _) => False
    end.
Proof.
  intros hkdf gcm_seal gcm_open aes_ctr hmac H1 H2 H3 H4 H5.
  exact (key_roundtrip hkdf gcm_seal gcm_open aes_ctr hmac H1 H2 H3 H4 H5).
Qed.
Print Assumptions C07_key_roundtrip.

(* (d) I/O FAULTS, writer side.  If the underlying writer fails persistently
   and cannot take the whole stream, some Write or Close returns an error —
   never overall success. *)
Theorem C07_writer_fault_surfaces :
  forall (encs : bytes -> bytes -> bytes) (P : wparams) (k : sink) (f : nat) (chunks : list bytes) (st0 : wst),
    0 < w_seg P - w_off P ->
    sfail k = Some f ->
    f < length (sout k) +
        length (encode_stream encs (w_nonce_size P) (w_prefix P) (w_seg P) (w_off P) (concat chunks)) ->
    (N.of_nat (length (segments (w_seg P) (w_off P) (concat chunks))) <= max_segments)%N ->
    new_writer P k = Some st0 ->
    let '(st1, rs) := wwrites encs P st0 chunks in
    let '(st2, ok) := wclose encs P st1 in
    (exists n, In (WErr n) rs) \/ ok = false.
Proof. intros encs P k f chunks st0 Hpos. exact (writer_fault_surfaces encs P Hpos k f chunks st0). Qed.
Print Assumptions C07_writer_fault_surfaces.

(* (d) I/O FAULTS, reader side.  A source that fails persistently (from byte
   k <= its length on) never leads to a clean EOF: for ANY data, parameters and
   segment cipher ... *)
Theorem C07_reader_fault_never_clean_eof :
  forall (decs : bytes -> bytes -> option bytes) (P : rparams) (data : bytes) (k : nat)
         (sizes : list nat) (st0 : rst src),
    k <= length data ->
    new_reader P (mkSrc data (Some k)) = Some st0 ->
    snd (drive decs read_full P sizes st0 []) <> AtEof.
Proof.
  intros decs P data k sizes st0 Hk Hnew. unfold new_reader in Hnew.
  destruct (_ <? 5); [discriminate|]. inversion Hnew; subst.
  apply reader_fault_never_eof. split; [reflexivity|]. exists k. split; [reflexivity|exact Hk].
Qed.
Print Assumptions C07_reader_fault_never_clean_eof.

(* ... and over the honest stream the bytes delivered before the error are a
   prefix of the plaintext, nothing panics, and enough non-empty reads do
   reach the error. *)
Theorem C07_reader_fault_prefix :
  forall (encs : bytes -> bytes -> bytes) (decs : bytes -> bytes -> option bytes)
         (P : rparams) (seg ov : nat) (sizes : list nat) (p : bytes) (k : nat) (st0 : rst src),
    r_ctseg P = seg + ov -> 0 < seg - r_off P -> 0 < ov ->
    (forall n s, length (encs n s) = length s + ov) ->
    (forall n s, decs n (encs n s) = Some s) ->
    (N.of_nat (length (segments seg (r_off P) p)) <= max_segments)%N ->
    new_reader P (mkSrc (encode_stream encs (r_nonce_size P) (r_prefix P) seg (r_off P) p) (Some k)) = Some st0 ->
    let '(outb, f) := drive decs read_full P sizes st0 [] in
    f <> Panicked /\ (exists tl, p = outb ++ tl) /\ (f = AtEof -> outb = p) /\
    (Forall (fun n => 0 < n) sizes -> length p + length (segments seg (r_off P) p) < length sizes -> f <> Pending).
Proof.
  intros encs decs P seg ov sizes p k st0 Hct Hpos Hov Hlen Hdec.
  exact (reader_fault_prefix encs decs P seg ov Hct Hpos Hov Hlen Hdec sizes p k st0).
Qed.
Print Assumptions C07_reader_fault_prefix.

(* (e) THE "TOO MANY SEGMENTS" GUARD.  Below the guard distinct (counter,
   last-flag) pairs give distinct nonces; at the guard Close fails and leaves
   the writer unchanged, Write emits nothing, Read decrypts nothing. *)
Theorem C07_nonces_distinct_below_guard :
  forall sz pre a la b lb, (a < max_segments)%N -> (b < max_segments)%N ->
    nonce_of sz pre a la = nonce_of sz pre b lb -> a = b /\ la = lb.
Proof. exact nonce_inj. Qed.
Print Assumptions C07_nonces_distinct_below_guard.

Theorem C07_guard_too_many_segments :
  forall encs decs (WP : wparams) (RP : rparams) (w : wst) (r : rst src) (p : bytes) (n : nat),
    ((max_segments <= wcnt w)%N -> wclosed w = false ->
       wclose encs WP w = (w, false) /\
       match snd (wwrite encs WP w p) with
       | WOk m => m = length p /\ wsink (fst (wwrite encs WP w p)) = wsink w
       | _ => True
       end) /\
    ((max_segments <= rcnt r)%N -> length (rpt r) <= rpos r -> rlast r = false ->
       match snd (read decs read_full RP r n) with RData _ => False | _ => True end).
Proof.
  intros encs decs WP RP w r p n. split.
  - intros H Hc. split; [apply guard_close; auto|].
    pose proof (guard_write encs WP w p H Hc) as G.
    destruct (snd (wwrite encs WP w p)); auto. tauto.
  - apply guard_read.
Qed.
Print Assumptions C07_guard_too_many_segments.

(* (c) MANIPULATION, IDEAL-DECRYPTER FORM (kept as the lemma the reductions below
   are built on; its premise cannot hold of a cipher that also satisfies the
   correctness premise of the round-trip theorems - the law-free statements are
   C07_manipulation_reduction, C07_key_manipulation_reduction and
   C07_keyset_manipulation_reduction, where this theorem is applied to the ideal
   decrypter and the real run is shown equal to the ideal run unless a forgery
   is presented).  Premise = authenticity of the segment cipher under the
   session key (the only (nonce, ciphertext) pairs that decrypt are those the
   writer produced for the plaintext p; `decs n c = Some s -> c = encs n s`
   strengthened to "and (n, s) is a segment of this stream", which an AEAD
   gives and without which a valid encoding of another plaintext would be a
   counterexample).  Then for ANY byte string c' handed to the reader —
   truncated anywhere, segments dropped / duplicated / reordered / altered,
   bytes appended — and any I/O behaviour of the source, for every sequence of
   Read sizes: nothing panics; the bytes returned are always a prefix of p; a
   clean EOF is reported only if c' IS the original stream (and then exactly p
   was returned); and |segments| + |p| + 1 non-empty reads always reach EOF or
   an error.  Hence c' <> original  ==>  error, never clean EOF. *)
Theorem C07_manipulation_detected :
  forall (encs : bytes -> bytes -> bytes) (decs : bytes -> bytes -> option bytes)
         (P : rparams) (seg ov : nat) (p : bytes),
    r_ctseg P = seg + ov -> 0 < seg - r_off P ->
    (N.of_nat (length (segments seg (r_off P) p)) <= max_segments)%N ->
    (forall n c s, decs n c = Some s ->
       exists i, i < length (segments seg (r_off P) p) /\
                 n = nonce_of (r_nonce_size P) (r_prefix P) (N.of_nat i) (i + 1 =? length (segments seg (r_off P) p)) /\
                 s = nth i (segments seg (r_off P) p) [] /\ c = encs n s) ->
  forall (c' : bytes) (F : option nat) (sizes : list nat) (st0 : rst src),
    new_reader P (mkSrc c' F) = Some st0 ->
    let '(outb, f) := drive decs read_full P sizes st0 [] in
    f <> Panicked /\ (exists tl, p = outb ++ tl) /\
    (f = AtEof -> c' = encode_stream encs (r_nonce_size P) (r_prefix P) seg (r_off P) p /\ outb = p) /\
    (Forall (fun n => 0 < n) sizes -> length (segments seg (r_off P) p) + length p < length sizes -> f <> Pending).
Proof.
  intros encs decs P seg ov p Hct Hpos Hb Hauth.
  exact (manipulation_detected encs decs P seg ov Hct Hpos p Hb Hauth).
Qed.
Print Assumptions C07_manipulation_detected.

(* (c) segment-layer lemma: a reader under whose session key nothing decrypts
   fails at its first Read (any size) and returns no byte.  What other
   associated data / another salt lead to (through HKDF with aad as info) is
   part of C07_key_manipulation_reduction below: a dead run, a forgery under the
   other session key, or an HKDF collision. *)
Theorem C07_other_session_key_fails :
  forall (decs : bytes -> bytes -> option bytes) (P : rparams),
    r_off P <= r_ctseg P + 1 -> (forall n c, decs n c = None) ->
  forall (c' : bytes) (F : option nat) (n : nat) (ns : list nat) (st0 : rst src),
    new_reader P (mkSrc c' F) = Some st0 ->
    drive decs read_full P (n :: ns) st0 [] = ([], Failed).
Proof. intros decs P Hoff Hnone. exact (nothing_decrypts decs P Hoff Hnone). Qed.
Print Assumptions C07_other_session_key_fails.

(* the authenticity premise is inhabited: the ideal decrypter that accepts
   exactly what the writer produced; and a tampered stream computes as stated *)
Example C07_manipulation_premise_inhabited :
  let p := [1; 2; 3; 4; 5; 6]%N in
  let RP := mkRP 6 [9%N] 7 1 in
  let decs := ideal_decs toy_encs 6 [9%N] (segments 3 1 p) in
  (forall n c s, decs n c = Some s ->
     exists i, i < length (segments 3 1 p) /\
               n = nonce_of 6 [9%N] (N.of_nat i) (i + 1 =? length (segments 3 1 p)) /\
               s = nth i (segments 3 1 p) [] /\ c = toy_encs n s) /\
  let ct := encode_stream toy_encs 6 [9%N] 3 1 p in
  match new_reader RP (mkSrc ct None), new_reader RP (mkSrc (firstn 13 ct) None),
        new_reader RP (mkSrc (firstn 6 ct ++ skipn 13 ct) None) with
  | Some r0, Some r1, Some r2 =>
      drive decs read_full RP [9; 9; 9; 9; 9] r0 [] = (p, AtEof) /\
      drive decs read_full RP [9; 9; 9; 9; 9] r1 [] = ([1; 2]%N, Failed) /\     (* cut on a segment boundary *)
      drive decs read_full RP [9; 9; 9; 9; 9] r2 [] = ([1; 2]%N, Failed)         (* middle segment dropped *)
  | _, _, _ => False
  end.
Proof.
  split; [intros n c s; apply ideal_decs_auth|]. vm_compute. repeat split; reflexivity.
Qed.

(* (f) KEYSET-LEVEL READER (streamingaead.New(handle).NewDecryptingReader,
   decrypt_reader.go with its unreader).  dr_reads = the results of every Read
   call of the keyset-level reader, whose candidate readers consume the source
   through the replaying unreader; spec_reads = try every enabled key, in
   keyset order, as a single-key reader on the WHOLE stream c0 from its
   beginning (dr_spec), take the first whose header check and first Read
   succeed, and continue with that single-key reader; no key: every call
   fails.  They agree for every keyset, associated data, source (data and
   fault position), first-Read size and later Read sizes — i.e. the bytes the
   failed candidates consumed are replayed exactly, also after the buffer is
   disabled.  No oracle law is needed. *)
Theorem C07_keyset_reader_replays :
  forall (hkdf : hash -> bytes -> bytes -> bytes -> nat -> bytes)
         (gcm_open : bytes -> bytes -> bytes -> option bytes)
         (aes_ctr : bytes -> bytes -> bytes -> bytes) (hmac : hash -> bytes -> bytes -> bytes)
         (keys : list skey) (aad : bytes) (c0 : src) (sizes : list nat),
    dr_reads hkdf gcm_open aes_ctr hmac keys aad (dr_new c0) sizes =
    spec_reads hkdf gcm_open aes_ctr hmac keys aad c0 sizes.
Proof. exact keyset_reader_spec. Qed.
Print Assumptions C07_keyset_reader_replays.

(* Non-vacuity: the toy segment cipher of the correspondence run satisfies the
   premises (overhead 4), and a concrete history computes as the theorems say. *)
Example C07_premises_inhabited :
  (forall n s, length (toy_encs n s) = length s + 4) /\
  (forall n s, toy_decs n (toy_encs n s) = Some s) /\
  let WP := mkWP 6 [9%N] 3 1 in
  let RP := mkRP 6 [9%N] 7 1 in
  let p := [1; 2; 3; 4; 5; 6]%N in
  match new_writer WP (mkSink [] None) with
  | Some w0 =>
    let '(w1, rs) := wwrites toy_encs WP w0 [[1%N]; []; [2; 3; 4; 5]%N; [6%N]] in
    let '(w2, ok) := wclose toy_encs WP w1 in
    rs = [WOk 1; WOk 0; WOk 4; WOk 1] /\ ok = true /\
    sout (wsink w2) = encode_stream toy_encs 6 [9%N] 3 1 p /\
    length (segments 3 1 p) = 3 /\
    match new_reader RP (mkSrc (sout (wsink w2)) None) with
    | Some r0 => drive toy_decs read_full RP [0; 1; 4; 1; 9; 9; 9] r0 [] = (p, AtEof)
    | None => False
    end
  | None => False
  end.
Proof.
  split; [exact toy_len|]. split; [exact toy_dec_enc|]. vm_compute. repeat split; reflexivity.
Qed.

(* ====================================================================== *)
(* Stretch round: the whole reader on arbitrary input (header and           *)
(* associated data included), constructor faults, short-read sources.       *)
(* key_read = NewDecryptingReader, then Reads of the listed sizes until the  *)
(* first EOF / error (a constructor error = Failed, no byte delivered);      *)
(* keyset_read = the same through streamingaead.New(handle) (dr_read).       *)
(* ====================================================================== *)

(* (c') MANIPULATION AS A REDUCTION - no authenticity law.  The reader consults
   the segment decrypter only on the finitely many (nonce, ciphertext) pairs it
   forms from the bytes it is given (`presented` / `key_presented`, computed by
   the model).  k is a valid key; ONE stream was encrypted under it: salt, nonce
   prefix, associated data aad, plaintext p, session key sk = derive k salt aad,
   ciphertext C = header || encode_stream (C07_key_roundtrip).  The writer's log
   is the set of triples (sk, nonce_i, seg_enc sk nonce_i segment_i).  The ONLY
   premise is that the writer's own segments decrypt to themselves (correctness
   at those finitely many points; it follows from the laws of C07_key_roundtrip).
   Then for ANY bytes c' (truncated anywhere, header length byte / salt / nonce
   prefix modified, segments dropped / duplicated / reordered / altered, bytes
   appended), ANY associated data aad', any I/O behaviour F of the source and
   ANY Read sizes, EITHER
     the run is good: nothing panics, the bytes delivered are a prefix of p, a
     clean EOF is reached only if aad' = aad and c' = C (and then exactly p was
     delivered), and |segments| + |p| + 1 non-empty Reads reach EOF or an error;
   OR one of two explicit events is exhibited:
     FORGERY    a triple (sk', N, c) presented by this very run - sk' = derive k
                (salt field of c') aad' - decrypts although it is not in the
                writer's log;
     COLLISION  HKDF maps (salt field of c', aad') <> (salt, aad) to the
                writer's HKDF output (aad is the HKDF info). *)
Theorem C07_key_manipulation_reduction :
  forall (hkdf : hash -> bytes -> bytes -> bytes -> nat -> bytes)
         (gcm_seal : bytes -> bytes -> bytes -> bytes) (gcm_open : bytes -> bytes -> bytes -> option bytes)
         (aes_ctr : bytes -> bytes -> bytes -> bytes) (hmac : hash -> bytes -> bytes -> bytes)
         (k : skey) (salt prefix aad p : bytes),
    key_valid k = true -> length salt = k_dk k -> length prefix = nonce_prefix_size ->
    let seg := k_cseg k - k_tag k in
    let off := k_foff k + hdr_len k in
    let ss := segments seg off p in
    let sk := derive hkdf k salt aad in
    let SENC := seg_enc gcm_seal aes_ctr hmac k in
    let SDEC := seg_dec gcm_open aes_ctr hmac k in
    let nonce_i := fun i => nonce_of (k_nonce_size k) prefix (N.of_nat i) (i + 1 =? length ss) in
    let C := header k salt prefix ++ encode_stream (SENC sk) (k_nonce_size k) prefix seg off p in
    let written := fun (sk' : bytes * bytes) (N c : bytes) =>
                     sk' = sk /\ exists i, i < length ss /\ N = nonce_i i /\ c = SENC sk N (nth i ss []) in
    (N.of_nat (length ss) <= max_segments)%N ->
    (forall i, i < length ss -> SDEC sk (nonce_i i) (SENC sk (nonce_i i) (nth i ss [])) = Some (nth i ss [])) ->
    forall (c' : bytes) (F : option nat) (aad' : bytes) (sizes : list nat),
      let salt' := firstn (k_dk k) (skipn 1 c') in
      let sk' := derive hkdf k salt' aad' in
      (let '(outb, f) := key_read hkdf gcm_open aes_ctr hmac src read_full k aad' (mkSrc c' F) sizes in
       f <> Panicked /\ (exists tl, p = outb ++ tl) /\
       (f = AtEof -> aad' = aad /\ c' = C /\ outb = p) /\
       (Forall (fun n => 0 < n) sizes -> length ss + length p < length sizes -> f <> Pending)) \/
      (exists N c s, In (N, c) (key_presented hkdf gcm_open aes_ctr hmac k aad' (mkSrc c' F) sizes) /\
                     SDEC sk' N c = Some s /\ ~ written sk' N c) \/
      ((salt' <> salt \/ aad' <> aad) /\
       hkdf (k_hash k) (k_main k) salt' aad' (k_dlen k) = hkdf (k_hash k) (k_main k) salt aad (k_dlen k)).
Proof.
  intros hkdf gcm_seal gcm_open aes_ctr hmac k salt prefix aad p Hv Hs Hp seg off ss sk SENC SDEC nonce_i C written
         Hb Hcorr c' F aad' sizes salt' sk'.
  exact (key_manipulation_reduction hkdf gcm_seal gcm_open aes_ctr hmac k salt prefix aad p Hv Hs Hp Hb Hcorr
           c' F aad' sizes).
Qed.
Print Assumptions C07_key_manipulation_reduction.

(* Hence, PER INSTANCE (hypotheses about this one run only): if none of the
   finitely many triples the run presents is a forgery and HKDF does not collide
   on the input at hand, the run is good.  Real ciphers meet the hypotheses with
   overwhelming probability; the toy cipher below meets them outright.
   (own_segments_decrypt / written / hkdf_collision / key_ciphertext are the
   premise, the log, the COLLISION event and C of the theorem above.) *)
Theorem C07_key_manipulation_detected :
  forall (hkdf : hash -> bytes -> bytes -> bytes -> nat -> bytes)
         (gcm_seal : bytes -> bytes -> bytes -> bytes) (gcm_open : bytes -> bytes -> bytes -> option bytes)
         (aes_ctr : bytes -> bytes -> bytes -> bytes) (hmac : hash -> bytes -> bytes -> bytes)
         (k : skey) (salt prefix aad p : bytes),
    key_valid k = true -> length salt = k_dk k -> length prefix = nonce_prefix_size ->
    (N.of_nat (length (segments (k_cseg k - k_tag k) (k_foff k + hdr_len k) p)) <= max_segments)%N ->
    own_segments_decrypt hkdf gcm_seal gcm_open aes_ctr hmac k salt prefix aad p ->
    forall (c' : bytes) (F : option nat) (aad' : bytes) (sizes : list nat),
      let sk' := derive hkdf k (firstn (k_dk k) (skipn 1 c')) aad' in
      (forall N c, In (N, c) (key_presented hkdf gcm_open aes_ctr hmac k aad' (mkSrc c' F) sizes) ->
                   seg_dec gcm_open aes_ctr hmac k sk' N c <> None ->
                   written hkdf gcm_seal aes_ctr hmac k salt prefix aad p sk' N c) ->
      ~ hkdf_collision hkdf k salt aad c' aad' ->
      let '(outb, f) := key_read hkdf gcm_open aes_ctr hmac src read_full k aad' (mkSrc c' F) sizes in
      f <> Panicked /\ (exists tl, p = outb ++ tl) /\
      (f = AtEof -> aad' = aad /\ c' = key_ciphertext hkdf gcm_seal aes_ctr hmac k salt prefix aad p /\ outb = p) /\
      (Forall (fun n => 0 < n) sizes ->
       length (segments (k_cseg k - k_tag k) (k_foff k + hdr_len k) p) + length p < length sizes -> f <> Pending).
Proof.
  intros hkdf gcm_seal gcm_open aes_ctr hmac k salt prefix aad p Hv Hs Hp Hb Hcorr c' F aad' sizes sk' Hnf Hnc.
  exact (key_manipulation_detected_instance hkdf gcm_seal gcm_open aes_ctr hmac k salt prefix aad p Hv Hs Hp Hb Hcorr
           c' F aad' sizes Hnf Hnc).
Qed.
Print Assumptions C07_key_manipulation_detected.

(* the segment layer alone (noncebased.Reader with ANY segment cipher): good, or a
   presented (nonce, ciphertext) pair decrypts although the writer did not produce it *)
Theorem C07_manipulation_reduction :
  forall (encs : bytes -> bytes -> bytes) (decs : bytes -> bytes -> option bytes)
         (P : rparams) (seg ov : nat) (p : bytes),
    r_ctseg P = seg + ov -> 0 < seg - r_off P ->
    let ss := segments seg (r_off P) p in
    let nonce_i := fun i => nonce_of (r_nonce_size P) (r_prefix P) (N.of_nat i) (i + 1 =? length ss) in
    (N.of_nat (length ss) <= max_segments)%N ->
    (forall i, i < length ss -> decs (nonce_i i) (encs (nonce_i i) (nth i ss [])) = Some (nth i ss [])) ->
    forall (c' : bytes) (F : option nat) (sizes : list nat) (st0 : rst src),
      new_reader P (mkSrc c' F) = Some st0 ->
      (let '(outb, f) := drive decs read_full P sizes st0 [] in
       f <> Panicked /\ (exists tl, p = outb ++ tl) /\
       (f = AtEof -> c' = encode_stream encs (r_nonce_size P) (r_prefix P) seg (r_off P) p /\ outb = p) /\
       (Forall (fun n => 0 < n) sizes -> length ss + length p < length sizes -> f <> Pending)) \/
      (exists N c s, In (N, c) (presented read_full P decs sizes st0) /\ decs N c = Some s /\
                     ~ exists i, i < length ss /\ N = nonce_i i /\ c = encs N (nth i ss [])).
Proof.
  intros encs decs P seg ov p Hct Hpos ss nonce_i Hb Hcorr c' F sizes st0 Hnew.
  exact (manipulation_reduction encs decs P seg ov Hct Hpos p Hb Hcorr c' F sizes st0 Hnew).
Qed.
Print Assumptions C07_manipulation_reduction.

(* (c'') THE SAME THROUGH THE KEYSET-LEVEL READER (streamingaead.New(handle)).
   keys = the enabled keys of the decrypting keyset in order (all valid).
   KEYSET HYGIENE (premise): every key of the keyset is k itself or has other key
   material (k_main).  Why this and not "other record": a record with the key
   material of k but other parameters (say segment size 45 instead of 44)
   derives the writer's session keys, so what it accepts are the writer's own
   segments - no forgery - and its reader cuts the stream at other boundaries,
   which a theorem about the stream written by k does not cover.
   Two more events, both about a key ki with OTHER key material:
     DECOY FORGERY        ki accepts, under the session key sk_i IT derives from
                          the salt field of c' and aad', the first (nonce,
                          segment) pair its reader forms, and (sk_i, N, c) is
                          not in the writer's log;
     CROSS-KEY COLLISION  ki derives the writer's session keys (HKDF under another
                          main key gives the writer's output).
   The candidate loop with its replaying unreader never turns a manipulated
   stream into wrong bytes or a clean EOF unless one of the four events is
   exhibited.  (kgood / seg_forgery / hkdf_collision are the three disjuncts of
   C07_key_manipulation_reduction, written its log.) *)
Theorem C07_keyset_manipulation_reduction :
  forall (hkdf : hash -> bytes -> bytes -> bytes -> nat -> bytes)
         (gcm_seal : bytes -> bytes -> bytes -> bytes) (gcm_open : bytes -> bytes -> bytes -> option bytes)
         (aes_ctr : bytes -> bytes -> bytes -> bytes) (hmac : hash -> bytes -> bytes -> bytes)
         (k : skey) (salt prefix aad p : bytes) (keys : list skey),
    key_valid k = true -> length salt = k_dk k -> length prefix = nonce_prefix_size ->
    (N.of_nat (length (segments (k_cseg k - k_tag k) (k_foff k + hdr_len k) p)) <= max_segments)%N ->
    (forall ki, In ki keys -> key_valid ki = true) ->
    own_segments_decrypt hkdf gcm_seal gcm_open aes_ctr hmac k salt prefix aad p ->
    (forall ki, In ki keys -> ki = k \/ k_main ki <> k_main k) ->
    forall (c' : bytes) (F : option nat) (aad' : bytes) (sizes : list nat),
      kgood hkdf gcm_seal aes_ctr hmac k salt prefix aad p c' aad' sizes
            (keyset_read hkdf gcm_open aes_ctr hmac keys aad' (mkSrc c' F) sizes) \/
      seg_forgery hkdf gcm_seal gcm_open aes_ctr hmac k salt prefix aad p c' F aad' sizes \/
      hkdf_collision hkdf k salt aad c' aad' \/
      (exists ki k1 k2 pre r0 s3 N c s,
         In ki keys /\ k_main ki <> k_main k /\
         new_dec_reader hkdf src read_full ki aad' (mkSrc c' F) = (Some (k1, k2, pre, r0), s3) /\
         (k1, k2) = derive hkdf ki (firstn (k_dk ki) (skipn 1 c')) aad' /\
         read_query read_full (k_rparams ki pre) r0 = Some (N, c) /\
         seg_dec gcm_open aes_ctr hmac ki (k1, k2) N c = Some s /\
         ~ written hkdf gcm_seal aes_ctr hmac k salt prefix aad p (k1, k2) N c) \/
      (exists ki, In ki keys /\ k_main ki <> k_main k /\
                  derive hkdf ki (firstn (k_dk ki) (skipn 1 c')) aad' = derive hkdf k salt aad).
Proof.
  intros hkdf gcm_seal gcm_open aes_ctr hmac k salt prefix aad p keys Hv Hs Hp Hb Hvs Hcorr Hmat c' F aad' sizes.
  exact (keyset_manipulation_reduction hkdf gcm_seal gcm_open aes_ctr hmac k salt prefix aad p Hv Hs Hp Hb keys Hvs Hcorr
           Hmat c' F aad' sizes).
Qed.
Print Assumptions C07_keyset_manipulation_reduction.

(* the hygiene premise is about key MATERIAL on purpose: the record k45 (= k with
   segment size 45) is not k, yet it accepts the first segment of k's honest
   one-segment stream - the writer's own triple under the writer's session key,
   no forgery (so "another record accepts" is not a forgery event) *)
Example C07_same_material_record_is_no_forgery :
  ex_k45 <> ex_k /\ k_main ex_k45 = k_main ex_k /\
  first_accept ex_hkdf ex_open ex_ctr ex_hmac ex_k45 ex_aad (mkSrc ex_ct1 None) /\
  derive ex_hkdf ex_k45 ex_salt ex_aad = derive ex_hkdf ex_k ex_salt ex_aad /\
  written_b ex_k ex_salt ex_prefix ex_aad ex_p1 (derive ex_hkdf ex_k45 ex_salt ex_aad)
            (nonce_i ex_k ex_prefix ex_p1 0) (skipn 24 ex_ct1) = true /\
  key_read ex_hkdf ex_open ex_ctr ex_hmac src read_full ex_k45 ex_aad (mkSrc ex_ct1 None) ex_sz = (ex_p1, AtEof).
Proof. exact ex_same_material_record_accepts. Qed.

(* per instance: no hygiene premise needed when no other key RECORD accepts the
   first segment it reads (first_accept ki = NewDecryptingReader of ki succeeds
   and seg_dec of ki does not reject the pair read_query returns) *)
Theorem C07_keyset_manipulation_detected :
  forall (hkdf : hash -> bytes -> bytes -> bytes -> nat -> bytes)
         (gcm_seal : bytes -> bytes -> bytes -> bytes) (gcm_open : bytes -> bytes -> bytes -> option bytes)
         (aes_ctr : bytes -> bytes -> bytes -> bytes) (hmac : hash -> bytes -> bytes -> bytes)
         (k : skey) (salt prefix aad p : bytes) (keys : list skey),
    key_valid k = true -> length salt = k_dk k -> length prefix = nonce_prefix_size ->
    (N.of_nat (length (segments (k_cseg k - k_tag k) (k_foff k + hdr_len k) p)) <= max_segments)%N ->
    (forall ki, In ki keys -> key_valid ki = true) ->
    own_segments_decrypt hkdf gcm_seal gcm_open aes_ctr hmac k salt prefix aad p ->
    forall (c' : bytes) (F : option nat) (aad' : bytes) (sizes : list nat),
      let sk' := derive hkdf k (firstn (k_dk k) (skipn 1 c')) aad' in
      (forall N c, In (N, c) (key_presented hkdf gcm_open aes_ctr hmac k aad' (mkSrc c' F) sizes) ->
                   seg_dec gcm_open aes_ctr hmac k sk' N c <> None ->
                   written hkdf gcm_seal aes_ctr hmac k salt prefix aad p sk' N c) ->
      ~ hkdf_collision hkdf k salt aad c' aad' ->
      (forall ki, In ki keys -> ki = k \/ ~ first_accept hkdf gcm_open aes_ctr hmac ki aad' (mkSrc c' F)) ->
      let '(outb, f) := keyset_read hkdf gcm_open aes_ctr hmac keys aad' (mkSrc c' F) sizes in
      f <> Panicked /\ (exists tl, p = outb ++ tl) /\
      (f = AtEof -> aad' = aad /\ c' = key_ciphertext hkdf gcm_seal aes_ctr hmac k salt prefix aad p /\ outb = p) /\
      (Forall (fun n => 0 < n) sizes ->
       length (segments (k_cseg k - k_tag k) (k_foff k + hdr_len k) p) + length p < length sizes -> f <> Pending).
Proof.
  intros hkdf gcm_seal gcm_open aes_ctr hmac k salt prefix aad p keys Hv Hs Hp Hb Hvs Hcorr c' F aad' sizes sk' Hnf Hnc Hnd.
  exact (keyset_manipulation_detected_instance hkdf gcm_seal gcm_open aes_ctr hmac k salt prefix aad p Hv Hs Hp Hb keys Hvs
           Hcorr c' F aad' sizes Hnf Hnc Hnd).
Qed.
Print Assumptions C07_keyset_manipulation_detected.

(* (c-hmac) AES-CTR-HMAC: THE REDUCTION BOTTOMS OUT IN AN HMAC FORGERY.
   aes_ctr_hmac.go: segment = AES-CTR(aesKey, nonce, plaintext) || HMAC(hmacKey,
   nonce || ciphertext body)[:tagSize].  Premise key_valid = what NewAESCTRHMAC
   enforces (aes_ctr_hmac.go: "tag size too small" below 10, at most the digest
   size, derived key 16 or 32 bytes, ...), so the forged tag has the full tag
   size >= 10 bytes (without it, at tag size 0 the event would read [] = []).
   maced hk' x = the writer authenticated x under hk' (hk' = its HMAC key and
   x = nonce_i || body_i for a segment of the stream).  A segment that decrypts
   under (sk', N) - N of nonce size 16 - without being in the writer's log carries
   a tag of tagSize bytes that is a valid truncated HMAC, under the HMAC half of
   sk', of a message the writer never authenticated under that key - unless sk'
   shares the HMAC half with sk but not the AES half (a partial HKDF collision,
   only possible for (salt', aad') <> (salt, aad)). *)
Theorem C07_ctrhmac_forged_segment_is_hmac_forgery :
  forall (hkdf : hash -> bytes -> bytes -> bytes -> nat -> bytes)
         (gcm_seal : bytes -> bytes -> bytes -> bytes) (gcm_open : bytes -> bytes -> bytes -> option bytes)
         (aes_ctr : bytes -> bytes -> bytes -> bytes) (hmac : hash -> bytes -> bytes -> bytes)
         (mk : bytes) (h : hash) (dk : nat) (th : hash) (tag cseg foff : nat) (salt prefix aad p : bytes),
    length prefix = nonce_prefix_size ->
    let k := CtrHmac mk h dk th tag cseg foff in
    key_valid k = true ->
    let sk := derive hkdf k salt aad in
    forall (sk' : bytes * bytes) (N c s : bytes),
      length N = 16 ->
      seg_dec gcm_open aes_ctr hmac k sk' N c = Some s ->
      ~ written hkdf gcm_seal aes_ctr hmac k salt prefix aad p sk' N c ->
      let body := firstn (length c - tag) c in
      let t := skipn (length c - tag) c in
      ((t = firstn tag (hmac th (snd sk') (N ++ body)) /\
        ~ maced hkdf aes_ctr mk h dk th tag cseg foff salt prefix aad p (snd sk') (N ++ body)) /\
       length t = tag /\ 10 <= tag) \/
      (snd sk' = snd sk /\ fst sk' <> fst sk).
Proof.
  intros hkdf gcm_seal gcm_open aes_ctr hmac mk h dk th tag cseg foff salt prefix aad p Hp k Hv sk sk' N c s HN Hd Hnw.
  exact (ctrhmac_seg_forgery_is_hmac_forgery hkdf gcm_seal gcm_open aes_ctr hmac mk h dk th tag cseg foff salt prefix aad p
           Hp Hv sk' N c s HN Hd Hnw).
Qed.
Print Assumptions C07_ctrhmac_forged_segment_is_hmac_forgery.

Theorem C07_ctrhmac_key_manipulation_reduction :
  forall (hkdf : hash -> bytes -> bytes -> bytes -> nat -> bytes)
         (gcm_seal : bytes -> bytes -> bytes -> bytes) (gcm_open : bytes -> bytes -> bytes -> option bytes)
         (aes_ctr : bytes -> bytes -> bytes -> bytes) (hmac : hash -> bytes -> bytes -> bytes)
         (mk : bytes) (h : hash) (dk : nat) (th : hash) (tag cseg foff : nat) (salt prefix aad p : bytes),
    let k := CtrHmac mk h dk th tag cseg foff in
    length prefix = nonce_prefix_size -> key_valid k = true -> length salt = k_dk k ->
    (N.of_nat (length (segments (k_cseg k - k_tag k) (k_foff k + hdr_len k) p)) <= max_segments)%N ->
    own_segments_decrypt hkdf gcm_seal gcm_open aes_ctr hmac k salt prefix aad p ->
    forall (c' : bytes) (F : option nat) (aad' : bytes) (sizes : list nat),
      let sk := derive hkdf k salt aad in
      let sk' := derive hkdf k (firstn (k_dk k) (skipn 1 c')) aad' in
      kgood hkdf gcm_seal aes_ctr hmac k salt prefix aad p c' aad' sizes
            (key_read hkdf gcm_open aes_ctr hmac src read_full k aad' (mkSrc c' F) sizes) \/
      (exists N c, In (N, c) (key_presented hkdf gcm_open aes_ctr hmac k aad' (mkSrc c' F) sizes) /\
                   hmac_forgery hkdf aes_ctr hmac mk h dk th tag cseg foff salt prefix aad p
                                (snd sk') (N ++ firstn (length c - tag) c) (skipn (length c - tag) c) /\
                   length (skipn (length c - tag) c) = tag /\ 10 <= tag) \/
      hkdf_collision hkdf k salt aad c' aad' \/
      (snd sk' = snd sk /\ fst sk' <> fst sk).
Proof.
  intros hkdf gcm_seal gcm_open aes_ctr hmac mk h dk th tag cseg foff salt prefix aad p k Hp Hv Hs Hb Hcorr c' F aad' sizes sk sk'.
  exact (ctrhmac_key_manipulation_reduction hkdf gcm_seal gcm_open aes_ctr hmac mk h dk th tag cseg foff salt prefix aad p
           Hp Hv Hs Hb Hcorr c' F aad' sizes).
Qed.
Print Assumptions C07_ctrhmac_key_manipulation_reduction.

(* (f') KEYSET-LEVEL ROUND TRIP.  Under the correctness laws of C07_key_roundtrip,
   for every keyset (all keys valid) that contains k ANYWHERE and whose other
   keys do not accept the first segment they read from the honest stream C: the
   keyset-level reader behaves on C exactly as the single-key reader of k - for
   every sequence of Read sizes it yields p then EOF, never an error. *)
Theorem C07_keyset_roundtrip :
  forall (hkdf : hash -> bytes -> bytes -> bytes -> nat -> bytes)
         (gcm_seal : bytes -> bytes -> bytes -> bytes) (gcm_open : bytes -> bytes -> bytes -> option bytes)
         (aes_ctr : bytes -> bytes -> bytes -> bytes) (hmac : hash -> bytes -> bytes -> bytes),
    (forall k n p, length (gcm_seal k n p) = length p + 16) ->
    (forall k n p, gcm_open k n (gcm_seal k n p) = Some p) ->
    (forall k iv x, length (aes_ctr k iv x) = length x) ->
    (forall k iv x, aes_ctr k iv (aes_ctr k iv x) = x) ->
    (forall h k m, length (hmac h k m) = digest_size h) ->
  forall (k : skey) (salt prefix aad p : bytes) (keys : list skey),
    key_valid k = true -> length salt = k_dk k -> length prefix = nonce_prefix_size ->
    let seg := k_cseg k - k_tag k in
    let off := k_foff k + hdr_len k in
    let ss := segments seg off p in
    let C := header k salt prefix ++
             encode_stream (seg_enc gcm_seal aes_ctr hmac k (derive hkdf k salt aad)) (k_nonce_size k) prefix seg off p in
    (N.of_nat (length ss) <= max_segments)%N ->
    (forall ki, In ki keys -> key_valid ki = true) -> In k keys ->
    (forall ki, In ki keys -> ki = k \/ ~ first_accept hkdf gcm_open aes_ctr hmac ki aad (mkSrc C None)) ->
    forall sizes,
      keyset_read hkdf gcm_open aes_ctr hmac keys aad (mkSrc C None) sizes =
      key_read hkdf gcm_open aes_ctr hmac src read_full k aad (mkSrc C None) sizes /\
      let '(outb, f) := keyset_read hkdf gcm_open aes_ctr hmac keys aad (mkSrc C None) sizes in
      (f = AtEof \/ f = Pending) /\ (f = AtEof -> outb = p) /\ (exists tl, p = outb ++ tl) /\
      (Forall (fun n => 0 < n) sizes -> length p + length ss < length sizes -> f = AtEof).
Proof.
  intros hkdf gcm_seal gcm_open aes_ctr hmac L1 L2 L3 L4 L5 k salt prefix aad p keys Hv Hs Hp seg off ss C Hb Hvs Hin Hlaw sizes.
  pose proof (keyset_read_honest hkdf gcm_seal gcm_open aes_ctr hmac k salt prefix aad p Hv Hs Hp Hb keys Hvs
                L1 L2 L3 L4 L5 Hin Hlaw sizes) as E.
  split; [exact E|].
  unfold C, seg, off, ss. fold (key_ciphertext hkdf gcm_seal aes_ctr hmac k salt prefix aad p) in *.
  rewrite E.
  exact (key_read_honest hkdf gcm_seal gcm_open aes_ctr hmac L1 L2 L3 L4 L5 k salt prefix aad p Hv Hs Hp Hb sizes).
Qed.
Print Assumptions C07_keyset_roundtrip.

(* ONE INSTANCE FOR ALL OF THE ABOVE (proofs/StreamKeyExamples.v): an injective
   key derivation, a toy segment cipher that is correct for all keys, nonces and
   segments (so the premises of C07_key_roundtrip / C07_keyset_roundtrip hold),
   the keyset [decoy with the parameters of k; k].  For the honest stream and for
   each of twelve tampered inputs (every header field, first / last segment,
   cut inside the header, last segment dropped, a byte appended, other / empty
   associated data) the per-instance premises of C07_key_manipulation_detected
   and C07_keyset_manipulation_detected hold (checked by computation over the
   presented triples), and the outcomes are as computed. *)
Example C07_one_instance :
  ((forall k n p, length (ex_seal k n p) = length p + 16) /\
   (forall k n p, ex_open k n (ex_seal k n p) = Some p) /\
   (forall k iv x, length (ex_ctr k iv x) = length x) /\
   (forall k iv x, ex_ctr k iv (ex_ctr k iv x) = x) /\
   (forall h k m, length (ex_hmac h k m) = digest_size h)) /\
  key_valid ex_k = true /\ length ex_salt = k_dk ex_k /\ length ex_prefix = nonce_prefix_size /\
  (forall ki, In ki ex_keys -> key_valid ki = true) /\ In ex_k ex_keys /\
  (forall ki, In ki ex_keys -> ki = ex_k \/ k_main ki <> k_main ex_k) /\
  own_segments_decrypt ex_hkdf ex_seal ex_open ex_ctr ex_hmac ex_k ex_salt ex_prefix ex_aad ex_p /\
  (forall a c, In (a, c) ((ex_aad, ex_ct) :: ex_tampered) ->
     (forall N c0, In (N, c0) (key_presented ex_hkdf ex_open ex_ctr ex_hmac ex_k a (mkSrc c None) ex_sz) ->
        seg_dec ex_open ex_ctr ex_hmac ex_k (derive ex_hkdf ex_k (firstn (k_dk ex_k) (skipn 1 c)) a) N c0 <> None ->
        written ex_hkdf ex_seal ex_ctr ex_hmac ex_k ex_salt ex_prefix ex_aad ex_p
                (derive ex_hkdf ex_k (firstn (k_dk ex_k) (skipn 1 c)) a) N c0) /\
     ~ hkdf_collision ex_hkdf ex_k ex_salt ex_aad c a /\
     (forall ki, In ki ex_keys -> ki = ex_k \/ ~ first_accept ex_hkdf ex_open ex_ctr ex_hmac ki a (mkSrc c None))) /\
  ex_read ex_aad ex_ct ex_sz = (ex_p, AtEof) /\
  ex_ksread ex_aad ex_ct ex_sz = (ex_p, AtEof) /\
  map (fun ac => ex_read (fst ac) (snd ac) ex_sz) ex_tampered =
    [([], Failed); ([], Failed); ([], Failed); ([], Failed); ([], Failed); ([], Failed);
     ([1; 2; 3; 4]%N, Failed); ([], Failed); ([], Failed); ([1; 2; 3; 4]%N, Failed); ([], Failed); ([], Failed)] /\
  map (fun ac => ex_ksread (fst ac) (snd ac) ex_sz) ex_tampered =
  map (fun ac => ex_read (fst ac) (snd ac) ex_sz) ex_tampered.
Proof.
  split; [exact ex_laws|]. repeat (split; [reflexivity|]).
  split; [intros ki [<-|[<-|[]]]; reflexivity|]. split; [right; left; reflexivity|].
  split; [intros ki [<-|[<-|[]]]; [right; discriminate|left; reflexivity]|].
  split; [exact ex_own|]. split.
  - intros a c Hin. split; [|split].
    + exact (no_forgery_b_sound ex_k ex_salt ex_prefix ex_aad ex_p c a ex_sz (ex_no_forgery a c Hin)).
    + apply ex_no_collision.
    + exact (ex_decoy_rejects a c Hin).
  - destruct ex_runs as (_ & _ & A & B & C & D). auto.
Qed.

(* THE SAME PRIMITIVES WITH AN AES-CTR-HMAC KEY (xor "CTR", checksum "HMAC"
   truncated to 16 of 32 bytes): for the honest stream and fourteen tampered
   inputs (every header field, body / first / last tag byte of segment 0, last
   segment, truncations, appended byte, other / empty associated data) the run is
   good and EVERY event disjunct of C07_ctrhmac_key_manipulation_reduction is
   refuted: no presented pair carries an HMAC forgery, no HKDF collision, no
   partial collision. *)
Example C07_ctrhmac_instance :
  key_valid ex_kh = true /\
  own_segments_decrypt ex_hkdf ex_seal ex_open ex_ctr ex_hmac ex_kh ex_salt ex_prefix ex_aad ex_p /\
  (forall a c, In (a, c) ((ex_aad, ex_cth) :: ex_tampered_h) ->
     let sk := derive ex_hkdf ex_kh ex_salt ex_aad in
     let sk' := derive ex_hkdf ex_kh (firstn (k_dk ex_kh) (skipn 1 c)) a in
     kgood ex_hkdf ex_seal ex_ctr ex_hmac ex_kh ex_salt ex_prefix ex_aad ex_p c a ex_sz
           (key_read ex_hkdf ex_open ex_ctr ex_hmac src read_full ex_kh a (mkSrc c None) ex_sz) /\
     ~ (exists N c0, In (N, c0) (key_presented ex_hkdf ex_open ex_ctr ex_hmac ex_kh a (mkSrc c None) ex_sz) /\
                     hmac_forgery ex_hkdf ex_ctr ex_hmac ex_mk SHA256 16 SHA256 16 44 0 ex_salt ex_prefix ex_aad ex_p
                                  (snd sk') (N ++ firstn (length c0 - 16) c0) (skipn (length c0 - 16) c0)) /\
     ~ hkdf_collision ex_hkdf ex_kh ex_salt ex_aad c a /\
     ~ (snd sk' = snd sk /\ fst sk' <> fst sk)) /\
  ex_readh ex_aad ex_cth ex_sz = (ex_p, AtEof) /\
  map (fun ac => ex_readh (fst ac) (snd ac) ex_sz) ex_tampered_h =
    [([], Failed); ([], Failed); ([], Failed); ([], Failed); ([], Failed);
     ([], Failed); ([], Failed); ([], Failed); ([1; 2; 3; 4]%N, Failed);
     ([], Failed); ([], Failed); ([1; 2; 3; 4]%N, Failed); ([], Failed); ([], Failed)].
Proof.
  split; [reflexivity|]. split; [exact ex_own_h|]. split; [|exact ex_runs_h].
  intros a c Hin sk sk'. split; [|split; [|split]].
  - exact (key_manipulation_detected_instance ex_hkdf ex_seal ex_open ex_ctr ex_hmac ex_kh ex_salt ex_prefix ex_aad ex_p
             eq_refl eq_refl eq_refl ltac:(vm_compute; discriminate) ex_own_h c None a ex_sz
             (no_forgery_b_sound ex_kh ex_salt ex_prefix ex_aad ex_p c a ex_sz (ex_no_forgery_h a c Hin))
             (ex_no_collision ex_kh ex_salt ex_aad c a)).
  - exact (ex_no_hmac_forgery_h a c Hin).
  - apply ex_no_collision.
  - exact (ex_no_partial_h a c Hin).
Qed.

(* The events of the reductions are real, not artefacts: AES-CTR-HMAC with a MAC
   that has no authenticity (constant) accepts a segment whose body was altered,
   delivers wrong bytes and ends in a clean EOF; the altered pair is presented,
   decrypts, is not what the writer produced for segment 0, and its tag is a
   "valid HMAC" of a message (nonce || altered body) the writer never authenticated. *)
Example C07_forgery_event_is_real :
  let c' := flip 24 bad_cth in
  let N0 := nonce_i ex_kh ex_prefix ex_p 0 in
  let c0 := firstn 20 (skipn 24 c') in
  let sk := derive ex_hkdf ex_kh ex_salt ex_aad in
  key_read ex_hkdf ex_open ex_ctr bad_hmac src read_full ex_kh ex_aad (mkSrc c' None) ex_sz =
    ([0; 2; 3; 4; 5; 6]%N, AtEof) /\
  In (N0, c0) (key_presented ex_hkdf ex_open ex_ctr bad_hmac ex_kh ex_aad (mkSrc c' None) ex_sz) /\
  seg_dec ex_open ex_ctr bad_hmac ex_kh sk N0 c0 = Some [0; 2; 3; 4]%N /\
  c0 <> seg_enc ex_seal ex_ctr bad_hmac ex_kh sk N0 [1; 2; 3; 4]%N /\
  skipn 4 c0 = firstn 16 (bad_hmac SHA256 (snd sk) (N0 ++ firstn 4 c0)) /\
  firstn 4 c0 <> ex_ctr (fst sk) N0 [1; 2; 3; 4]%N.
Proof. exact ex_forgery_event_is_real. Qed.

(* (g) CONSTRUCTOR I/O ERRORS.  NewDecryptingReader succeeds iff the source
   neither ends nor fails within the first hdr_len bytes (limit = min(data
   length, failure point)) and the first byte is the header length; in
   particular a source shorter than the header, or failing inside it, gives a
   constructor error. *)
Theorem C07_constructor_reader_iff :
  forall (hkdf : hash -> bytes -> bytes -> bytes -> nat -> bytes) (k : skey) (aad data : bytes) (F : option nat),
    fst (new_dec_reader hkdf src read_full k aad (mkSrc data F)) <> None <->
    hdr_len k <= match F with Some f => Nat.min f (length data) | None => length data end /\
    firstn 1 data = [(N.of_nat (hdr_len k) mod 256)%N].
Proof. intros hkdf k aad data F. exact (new_dec_reader_iff hkdf k aad (mkSrc data F)). Qed.
Print Assumptions C07_constructor_reader_iff.

Theorem C07_constructor_reader_io_error :
  forall (hkdf : hash -> bytes -> bytes -> bytes -> nat -> bytes) (k : skey) (aad data : bytes) (F : option nat),
    (length data < hdr_len k \/ exists f, F = Some f /\ f < hdr_len k) ->
    fst (new_dec_reader hkdf src read_full k aad (mkSrc data F)) = None.
Proof. exact new_dec_reader_io_error. Qed.
Print Assumptions C07_constructor_reader_io_error.

(* NewEncryptingWriter succeeds iff the sink takes the whole header; in every
   case the sink received a prefix of the header only, and on success the
   session keys are derive k salt aad with salt / nonce prefix taken from the
   randomness tape and the writer starts at segment 0. *)
Theorem C07_constructor_writer_iff :
  forall (hkdf : hash -> bytes -> bytes -> bytes -> nat -> bytes) (k : skey) (tape aad : bytes) (w : sink),
    let hd := header k (firstn (k_dk k) tape) (firstn nonce_prefix_size (skipn (k_dk k) tape)) in
    (fst (new_enc_writer hkdf k tape aad w) <> None <->
     (forall f, sfail w = Some f -> length (sout w) + length hd <= f)) /\
    (exists n, sout (snd (new_enc_writer hkdf k tape aad w)) = sout w ++ firstn n hd) /\
    sfail (snd (new_enc_writer hkdf k tape aad w)) = sfail w /\
    match fst (new_enc_writer hkdf k tape aad w) with
    | Some (k1, k2, pre, st) =>
        (k1, k2) = derive hkdf k (firstn (k_dk k) tape) aad /\
        pre = firstn nonce_prefix_size (skipn (k_dk k) tape) /\
        st = mkW [] 0%N false (snd (new_enc_writer hkdf k tape aad w)) /\
        sout (snd (new_enc_writer hkdf k tape aad w)) = sout w ++ hd
    | None => True
    end.
Proof. exact new_enc_writer_iff. Qed.
Print Assumptions C07_constructor_writer_iff.

(* (d') I/O FAULTS OVER THE WHOLE HISTORY OF ONE KEY.  A sink that cannot take
   header || segments: the constructor, a Write or Close reports an error. *)
Theorem C07_key_writer_fault_surfaces :
  forall (hkdf : hash -> bytes -> bytes -> bytes -> nat -> bytes)
         (gcm_seal : bytes -> bytes -> bytes -> bytes)
         (aes_ctr : bytes -> bytes -> bytes -> bytes) (hmac : hash -> bytes -> bytes -> bytes)
         (k : skey) (salt prefix aad base : bytes) (f : nat) (chunks : list bytes),
    key_valid k = true -> length salt = k_dk k -> length prefix = nonce_prefix_size ->
    (N.of_nat (length (segments (k_cseg k - k_tag k) (k_foff k + hdr_len k) (concat chunks))) <= max_segments)%N ->
    f < length base + hdr_len k +
        length (encode_stream (seg_enc gcm_seal aes_ctr hmac k (derive hkdf k salt aad)) (k_nonce_size k) prefix
                              (k_cseg k - k_tag k) (k_foff k + hdr_len k) (concat chunks)) ->
    match new_enc_writer hkdf k (salt ++ prefix) aad (mkSink base (Some f)) with
    | (None, _) => True
    | (Some (k1, k2, pre, w0), _) =>
      let '(w1, rs) := wwrites (seg_enc gcm_seal aes_ctr hmac k (k1, k2)) (k_wparams k pre) w0 chunks in
      let '(w2, ok) := wclose (seg_enc gcm_seal aes_ctr hmac k (k1, k2)) (k_wparams k pre) w1 in
      (exists n, In (WErr n) rs) \/ ok = false
    end.
Proof. exact key_writer_fault_surfaces. Qed.
Print Assumptions C07_key_writer_fault_surfaces.

(* A source that fails persistently at any point (inside the header included):
   never a clean EOF, for any key, data, associated data and Read sizes. *)
Theorem C07_key_reader_fault_never_clean_eof :
  forall (hkdf : hash -> bytes -> bytes -> bytes -> nat -> bytes)
         (gcm_open : bytes -> bytes -> bytes -> option bytes)
         (aes_ctr : bytes -> bytes -> bytes -> bytes) (hmac : hash -> bytes -> bytes -> bytes)
         (k : skey) (aad' c' : bytes) (f : nat) (sizes : list nat),
    f <= length c' ->
    snd (key_read hkdf gcm_open aes_ctr hmac src read_full k aad' (mkSrc c' (Some f)) sizes) <> AtEof.
Proof. exact key_reader_fault_never_clean_eof. Qed.
Print Assumptions C07_key_reader_fault_never_clean_eof.

Example C07_constructor_faults_compute :
  fst (new_dec_reader ex_hkdf src read_full ex_k ex_aad (mkSrc (firstn 23 ex_ct) None)) = None /\
  fst (new_dec_reader ex_hkdf src read_full ex_k ex_aad (mkSrc ex_ct (Some 23))) = None /\
  fst (new_dec_reader ex_hkdf src read_full ex_k ex_aad (mkSrc ex_ct (Some 24))) <> None /\
  new_enc_writer ex_hkdf ex_k (ex_salt ++ ex_prefix) ex_aad (mkSink [] (Some 23)) =
    (None, mkSink (firstn 23 ex_ct) (Some 23)) /\
  fst (new_enc_writer ex_hkdf ex_k (ex_salt ++ ex_prefix) ex_aad (mkSink [] (Some 24))) <> None.
Proof. exact ex_constructor_faults. Qed.

(* (h) SHORT-READ SOURCES.  model/StreamIO.v: an io.Reader over the data that
   hands out at most sz i bytes at its i-th call and, when ewd i is set and
   that call delivers the last bytes before the end of the data (or before its
   point of persistent failure), returns io.EOF (the failure) TOGETHER with
   them; read_full_loop = the loop of io.ReadAtLeast as coded.  For every
   schedule of positive sizes (any ewd), every source and every length the
   loop terminates within `want` calls and returns exactly what the atomic
   read_full returns - so every theorem above, stated over read_full, holds
   over every such source. *)
Theorem C07_read_full_loop_is_read_full :
  forall (sc : sched), (forall i, 0 < sz sc i) ->
  forall (c : nat) (d : src) (want : nat),
    exists c', read_full_loop (sread sc) (mkSS c d) want =
               let '(d', g, k) := read_full d want in Some (mkSS c' d', g, k).
Proof. exact read_full_loop_eq. Qed.
Print Assumptions C07_read_full_loop_is_read_full.

(* transfer, stated once for the whole single-key reader and for the
   nonce-based Reader with any segment decrypter *)
Theorem C07_short_reads_transfer :
  forall (hkdf : hash -> bytes -> bytes -> bytes -> nat -> bytes)
         (gcm_open : bytes -> bytes -> bytes -> option bytes)
         (aes_ctr : bytes -> bytes -> bytes -> bytes) (hmac : hash -> bytes -> bytes -> bytes)
         (sc : sched), (forall i, 0 < sz sc i) ->
  forall (k : skey) (aad : bytes) (c : nat) (d : src) (sizes : list nat),
    key_read hkdf gcm_open aes_ctr hmac ssrc (read_full_total (sread sc)) k aad (mkSS c d) sizes =
    key_read hkdf gcm_open aes_ctr hmac src read_full k aad d sizes.
Proof. exact key_read_short_reads. Qed.
Print Assumptions C07_short_reads_transfer.

Theorem C07_short_reads_transfer_reader :
  forall (sc : sched), (forall i, 0 < sz sc i) ->
  forall (decs : bytes -> bytes -> option bytes) (P : rparams) (c : nat) (d : src) (sizes : list nat)
         (st0 : rst ssrc) (st0' : rst src),
    new_reader P (mkSS c d) = Some st0 -> new_reader P d = Some st0' ->
    drive decs (read_full_total (sread sc)) P sizes st0 [] = drive decs read_full P sizes st0' [].
Proof. exact drive_short_reads. Qed.
Print Assumptions C07_short_reads_transfer_reader.

(* the keyset-level unreader (decrypt_reader.go): the same loop over
   unreader.Read, as coded (replay the buffer, then read the wrapped source and
   record what it delivers, whatever error comes with it), equals the atomic
   urfull used by dr_read - for every schedule, replay position and
   enabled/disabled buffer; su_wf (pos <= len(buf)) is kept by every operation.
   An unreader that drops bytes arriving together with io.EOF (seeded change
   C07-unreader-drops-data-with-eof) violates it: StreamIOProofs.uread_drop_differs. *)
Theorem C07_unreader_read_full_loop_is_urfull :
  forall (sc : sched), (forall i, 0 < sz sc i) ->
  forall (u : sureader) (want : nat), su_pos u <= length (su_buf u) ->
    exists u', read_full_loop (uread sc) u want =
               (let '(v, g, k) := urfull (su_forget u) want in Some (u', g, k)) /\
               su_forget u' = fst (fst (urfull (su_forget u) want)) /\
               su_pos u' <= length (su_buf u').
Proof. exact uread_full_loop_eq. Qed.
Print Assumptions C07_unreader_read_full_loop_is_urfull.

Example C07_short_reads_compute :
  let sc := mkSched (fun i => 1 + i mod 3) (fun _ => true) in
  (forall i, 0 < sz sc i) /\
  key_read ex_hkdf ex_open ex_ctr ex_hmac ssrc (read_full_total (sread sc)) ex_k ex_aad
           (mkSS 0 (mkSrc ex_ct None)) ex_sz = (ex_p, AtEof).
Proof. exact ex_short_reads. Qed.
