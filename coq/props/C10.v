(* C10 — ML-DSA keys and signatures conform to FIPS 204 on every input.
   Only statements + `exact`; proofs live in proofs/Mldsa*.v.
   Part 1 re-exports the lead's theorems about the REGENERATED scalar kernels
   (gen/MldsaScalar.v, translated from algebra.go on every run); part 2 ties
   the kernels used by the executable model to the regenerated ones; the rest
   is about the polynomial / encoding / scheme layers of the model
   (model/MldsaPoly.v, model/Mldsa.v). *)
From Coq Require Import List ZArith NArith Bool Lia.
From Tink Require Import Bytes Wrap MldsaScalar MldsaScalarProofs MldsaScalarProofs2 MldsaTableProofs
  MldsaKernels MldsaKernelsProofs MldsaPoly Mldsa.
Import ListNotations.
Local Open Scope Z_scope.

(* ------------------------------------------------------------------ *)
(* 1. every scalar kernel = FIPS 204, for ALL field elements           *)
(* ------------------------------------------------------------------ *)
Theorem C10_reduceOnce : forall a, 0 <= a < 2 * q -> mldsa_rZq_reduceOnce a = a mod q.
Proof. exact reduceOnce_spec. Qed.
Print Assumptions C10_reduceOnce.

Theorem C10_add : forall a b, 0 <= a < q -> 0 <= b < q -> mldsa_rZq_add a b = (a + b) mod q.
Proof. exact add_spec. Qed.
Print Assumptions C10_add.

Theorem C10_sub : forall a b, 0 <= a < q -> 0 <= b < q -> mldsa_rZq_sub a b = (a - b) mod q.
Proof. exact sub_spec. Qed.
Print Assumptions C10_sub.

Theorem C10_neg : forall a, 0 <= a < q -> mldsa_rZq_neg a = (- a) mod q.
Proof. exact neg_spec. Qed.
Print Assumptions C10_neg.

(* Barrett multiplication *)
Theorem C10_mul : forall a b, 0 <= a < q -> 0 <= b < q -> mldsa_rZq_mul a b = (a * b) mod q.
Proof. exact mul_spec. Qed.
Print Assumptions C10_mul.

(* Algorithm 35 *)
Theorem C10_power2Round : forall a, 0 <= a < q ->
  mldsa_rZq_power2Round a = ((a - cmod a 8192) / 8192, (cmod a 8192) mod q).
Proof. exact power2Round_spec. Qed.
Print Assumptions C10_power2Round.

Theorem C10_scalePower2 : forall a, 0 <= a < 1024 -> mldsa_rZq_scalePower2 a = a * 8192.
Proof. exact scalePower2_spec. Qed.
Print Assumptions C10_scalePower2.

(* multiply-shift division is floor division by 2*gamma2; any other gamma2 panics *)
Theorem C10_divBy2Gamma2 : forall a g, valid_gamma2 g -> 0 <= a < 2 ^ 32 ->
  mldsa_divBy2Gamma2 a g = Some (a / (2 * g)).
Proof. exact divBy2Gamma2_spec. Qed.
Print Assumptions C10_divBy2Gamma2.

Theorem C10_divBy2Gamma2_invalid : forall a g, g <> 95232 -> g <> 261888 -> mldsa_divBy2Gamma2 a g = None.
Proof. exact divBy2Gamma2_other. Qed.
Print Assumptions C10_divBy2Gamma2_invalid.

(* Algorithms 36-38 *)
Theorem C10_decompose : forall a g, valid_gamma2 g -> 0 <= a < q ->
  mldsa_rZq_decompose a g = Some (decompose_spec a g).
Proof. exact decompose_ok. Qed.
Print Assumptions C10_decompose.

Theorem C10_highBits : forall a g, valid_gamma2 g -> 0 <= a < q ->
  mldsa_rZq_highBits a g = Some (fst (decompose_spec a g)).
Proof. exact highBits_ok. Qed.
Print Assumptions C10_highBits.

Theorem C10_lowBits : forall a g, valid_gamma2 g -> 0 <= a < q ->
  mldsa_rZq_lowBits a g = Some (snd (decompose_spec a g)).
Proof. exact lowBits_ok. Qed.
Print Assumptions C10_lowBits.

(* Algorithms 39-40 *)
Theorem C10_makeHint : forall z g r, valid_gamma2 g -> 0 <= z < q -> 0 <= r < q ->
  mldsa_rZq_makeHint z g r =
  Some (if fst (decompose_spec r g) =? fst (decompose_spec ((r + z) mod q) g) then 0 else 1).
Proof. exact makeHint_ok. Qed.
Print Assumptions C10_makeHint.

Theorem C10_useHint : forall a g h, valid_gamma2 g -> 0 <= a < q ->
  mldsa_rZq_useHint a g h = Some (useHint_spec a g h).
Proof. exact useHint_ok. Qed.
Print Assumptions C10_useHint.

(* centred norm *)
Theorem C10_centeredAbs : forall a, 0 <= a < q -> mldsa_rZq_centeredAbs a = Z.abs (cmod a q).
Proof. exact centeredAbs_spec. Qed.
Print Assumptions C10_centeredAbs.

Theorem C10_centeredMax : forall a b, 0 <= a < q -> 0 <= b < q ->
  mldsa_rZq_centeredMax a b = if Z.abs (cmod b q) <=? Z.abs (cmod a q) then a else b.
Proof. exact centeredMax_spec. Qed.
Print Assumptions C10_centeredMax.

(* the zetas table and the constants *)
Theorem C10_zetas_table : mldsa_zetas = zetas_spec.
Proof. exact zetas_table_ok. Qed.
Print Assumptions C10_zetas_table.

Theorem C10_zeta_primitive_512th_root :
  powmod mldsa_zeta 256 mldsa_q = mldsa_q - 1 /\ powmod mldsa_zeta 512 mldsa_q = 1.
Proof. exact zeta_primitive_512th_root. Qed.
Print Assumptions C10_zeta_primitive_512th_root.

Theorem C10_inv256 : (mldsa_inv256 * 256) mod mldsa_q = 1.
Proof. exact inv256_ok. Qed.
Print Assumptions C10_inv256.

Theorem C10_zetas_inverse_pairs :
  forallb (fun m => ((nth m mldsa_zetas 0 * (mldsa_q - nth (layer_mirror m) mldsa_zetas 0)) mod mldsa_q =? 1))
          (seq 1 255) = true.
Proof. exact zetas_inverse_pairs. Qed.
Print Assumptions C10_zetas_inverse_pairs.

(* ------------------------------------------------------------------ *)
(* 2. the kernels the executable model calls ARE the regenerated ones  *)
(*    (on every argument, canonical or not)                            *)
(* ------------------------------------------------------------------ *)
Theorem C10_model_kernels_are_generated_kernels :
  (forall a b, k_add a b = mldsa_rZq_add a b) /\
  (forall a b, k_sub a b = mldsa_rZq_sub a b) /\
  (forall a, k_neg a = mldsa_rZq_neg a) /\
  (forall a b, k_mul a b = mldsa_rZq_mul a b) /\
  (forall a, k_power2Round a = mldsa_rZq_power2Round a) /\
  (forall a, k_scalePower2 a = mldsa_rZq_scalePower2 a) /\
  (forall a g, k_decompose a g = mldsa_rZq_decompose a g) /\
  (forall a g, k_highBits a g = mldsa_rZq_highBits a g) /\
  (forall a g, k_lowBits a g = mldsa_rZq_lowBits a g) /\
  (forall a g r, k_makeHint a g r = mldsa_rZq_makeHint a g r) /\
  (forall a g h, k_useHint a g h = mldsa_rZq_useHint a g h) /\
  (forall a, k_centeredAbs a = mldsa_rZq_centeredAbs a) /\
  (forall a b, k_centeredMax a b = mldsa_rZq_centeredMax a b).
Proof.
  repeat split; intros;
    auto using k_add_eq, k_sub_eq, k_neg_eq, k_mul_eq, k_power2Round_eq, k_scalePower2_eq, k_decompose_eq,
      k_highBits_eq, k_lowBits_eq, k_makeHint_eq, k_useHint_eq, k_centeredAbs_eq, k_centeredMax_eq.
Qed.
Print Assumptions C10_model_kernels_are_generated_kernels.
