(* C10 — ML-DSA keys and signatures conform to FIPS 204 on every input.
   Only statements + `exact`; proofs live in proofs/Mldsa*.v.
   Part 1 re-exports the lead's theorems about the REGENERATED scalar kernels
   (gen/MldsaScalar.v, translated from algebra.go on every run); part 2 ties
   the kernels used by the executable model to the regenerated ones; the rest
   is about the polynomial / encoding / scheme layers of the model
   (model/MldsaPoly.v, model/Mldsa.v). *)
From Coq Require Import List ZArith NArith Bool Lia.
From Tink Require Import Bytes Wrap MldsaScalar MldsaScalarProofs MldsaScalarProofs2 MldsaTableProofs
  MldsaKernels MldsaKernelsProofs MldsaPoly Mldsa
  MldsaPackProofs MldsaHintProofs MldsaUseHintProofs MldsaProofs MldsaExamples.
Import ListNotations.
Local Open Scope Z_scope.

(* ------------------------------------------------------------------ *)
(* 1. every scalar kernel = FIPS 204, for ALL field elements           *)
(* ------------------------------------------------------------------ *)
Theorem C10_reduceOnce : forall a, 0 <= a < 2 * q -> mldsa_rZq_reduceOnce a = a mod q.
Proof. exact reduceOnce_spec. Qed.
Print Assumptions C10_reduceOnce.

Theorem C10_add : forall a b, 0 <= a < q -> 0 <= b < q -> mldsa_rZq_add a b = (a + b) mod q.
Proof. exact add_spec. Qed.
Print Assumptions C10_add.

Theorem C10_sub : forall a b, 0 <= a < q -> 0 <= b < q -> mldsa_rZq_sub a b = (a - b) mod q.
Proof. exact sub_spec. Qed.
Print Assumptions C10_sub.

Theorem C10_neg : forall a, 0 <= a < q -> mldsa_rZq_neg a = (- a) mod q.
Proof. exact neg_spec. Qed.
Print Assumptions C10_neg.

(* Barrett multiplication *)
Theorem C10_mul : forall a b, 0 <= a < q -> 0 <= b < q -> mldsa_rZq_mul a b = (a * b) mod q.
Proof. exact mul_spec. Qed.
Print Assumptions C10_mul.

(* Algorithm 35 *)
Theorem C10_power2Round : forall a, 0 <= a < q ->
  mldsa_rZq_power2Round a = ((a - cmod a 8192) / 8192, (cmod a 8192) mod q).
Proof. exact power2Round_spec. Qed.
Print Assumptions C10_power2Round.

Theorem C10_scalePower2 : forall a, 0 <= a < 1024 -> mldsa_rZq_scalePower2 a = a * 8192.
Proof. exact scalePower2_spec. Qed.
Print Assumptions C10_scalePower2.

(* multiply-shift division is floor division by 2*gamma2; any other gamma2 panics *)
Theorem C10_divBy2Gamma2 : forall a g, valid_gamma2 g -> 0 <= a < 2 ^ 32 ->
  mldsa_divBy2Gamma2 a g = Some (a / (2 * g)).
Proof. exact divBy2Gamma2_spec. Qed.
Print Assumptions C10_divBy2Gamma2.

Theorem C10_divBy2Gamma2_invalid : forall a g, g <> 95232 -> g <> 261888 -> mldsa_divBy2Gamma2 a g = None.
Proof. exact divBy2Gamma2_other. Qed.
Print Assumptions C10_divBy2Gamma2_invalid.

(* Algorithms 36-38 *)
Theorem C10_decompose : forall a g, valid_gamma2 g -> 0 <= a < q ->
  mldsa_rZq_decompose a g = Some (decompose_spec a g).
Proof. exact decompose_ok. Qed.
Print Assumptions C10_decompose.

Theorem C10_highBits : forall a g, valid_gamma2 g -> 0 <= a < q ->
  mldsa_rZq_highBits a g = Some (fst (decompose_spec a g)).
Proof. exact highBits_ok. Qed.
Print Assumptions C10_highBits.

Theorem C10_lowBits : forall a g, valid_gamma2 g -> 0 <= a < q ->
  mldsa_rZq_lowBits a g = Some (snd (decompose_spec a g)).
Proof. exact lowBits_ok. Qed.
Print Assumptions C10_lowBits.

(* Algorithms 39-40 *)
Theorem C10_makeHint : forall z g r, valid_gamma2 g -> 0 <= z < q -> 0 <= r < q ->
  mldsa_rZq_makeHint z g r =
  Some (if fst (decompose_spec r g) =? fst (decompose_spec ((r + z) mod q) g) then 0 else 1).
Proof. exact makeHint_ok. Qed.
Print Assumptions C10_makeHint.

Theorem C10_useHint : forall a g h, valid_gamma2 g -> 0 <= a < q ->
  mldsa_rZq_useHint a g h = Some (useHint_spec a g h).
Proof. exact useHint_ok. Qed.
Print Assumptions C10_useHint.

(* centred norm *)
Theorem C10_centeredAbs : forall a, 0 <= a < q -> mldsa_rZq_centeredAbs a = Z.abs (cmod a q).
Proof. exact centeredAbs_spec. Qed.
Print Assumptions C10_centeredAbs.

Theorem C10_centeredMax : forall a b, 0 <= a < q -> 0 <= b < q ->
  mldsa_rZq_centeredMax a b = if Z.abs (cmod b q) <=? Z.abs (cmod a q) then a else b.
Proof. exact centeredMax_spec. Qed.
Print Assumptions C10_centeredMax.

(* the zetas table and the constants *)
Theorem C10_zetas_table : mldsa_zetas = zetas_spec.
Proof. exact zetas_table_ok. Qed.
Print Assumptions C10_zetas_table.

Theorem C10_zeta_primitive_512th_root :
  powmod mldsa_zeta 256 mldsa_q = mldsa_q - 1 /\ powmod mldsa_zeta 512 mldsa_q = 1.
Proof. exact zeta_primitive_512th_root. Qed.
Print Assumptions C10_zeta_primitive_512th_root.

Theorem C10_inv256 : (mldsa_inv256 * 256) mod mldsa_q = 1.
Proof. exact inv256_ok. Qed.
Print Assumptions C10_inv256.

Theorem C10_zetas_inverse_pairs :
  forallb (fun m => ((nth m mldsa_zetas 0 * (mldsa_q - nth (layer_mirror m) mldsa_zetas 0)) mod mldsa_q =? 1))
          (seq 1 255) = true.
Proof. exact zetas_inverse_pairs. Qed.
Print Assumptions C10_zetas_inverse_pairs.

(* ------------------------------------------------------------------ *)
(* 2. the kernels the executable model calls ARE the regenerated ones  *)
(*    (on every argument, canonical or not)                            *)
(* ------------------------------------------------------------------ *)
Theorem C10_model_kernels_are_generated_kernels :
  (forall a b, k_add a b = mldsa_rZq_add a b) /\
  (forall a b, k_sub a b = mldsa_rZq_sub a b) /\
  (forall a, k_neg a = mldsa_rZq_neg a) /\
  (forall a b, k_mul a b = mldsa_rZq_mul a b) /\
  (forall a, k_power2Round a = mldsa_rZq_power2Round a) /\
  (forall a, k_scalePower2 a = mldsa_rZq_scalePower2 a) /\
  (forall a g, k_decompose a g = mldsa_rZq_decompose a g) /\
  (forall a g, k_highBits a g = mldsa_rZq_highBits a g) /\
  (forall a g, k_lowBits a g = mldsa_rZq_lowBits a g) /\
  (forall a g r, k_makeHint a g r = mldsa_rZq_makeHint a g r) /\
  (forall a g h, k_useHint a g h = mldsa_rZq_useHint a g h) /\
  (forall a, k_centeredAbs a = mldsa_rZq_centeredAbs a) /\
  (forall a b, k_centeredMax a b = mldsa_rZq_centeredMax a b).
Proof.
  repeat split; intros;
    auto using k_add_eq, k_sub_eq, k_neg_eq, k_mul_eq, k_power2Round_eq, k_scalePower2_eq, k_decompose_eq,
      k_highBits_eq, k_lowBits_eq, k_makeHint_eq, k_useHint_eq, k_centeredAbs_eq, k_centeredMax_eq.
Qed.
Print Assumptions C10_model_kernels_are_generated_kernels.

(* ------------------------------------------------------------------ *)
(* 3. the hint lemma (FIPS 204, Algorithms 39/40) on the generated code *)
(* ------------------------------------------------------------------ *)
(* If |z mod± q| <= gamma2 then for every r: with h = z.makeHint(gamma2, r),
   r.useHint(gamma2, h) = (r + z).highBits(gamma2).  This is what lets the
   verifier recover HighBits(w - c*s2) from w - c*s2 + c*t0 and the hint. *)
Theorem C10_useHint_makeHint : forall z r g h,
  valid_gamma2 g -> 0 <= z < q -> 0 <= r < q -> Z.abs (cmod z q) <= g ->
  mldsa_rZq_makeHint z g r = Some h ->
  mldsa_rZq_useHint r g h = mldsa_rZq_highBits (mldsa_rZq_add r z) g.
Proof. exact useHint_makeHint. Qed.
Print Assumptions C10_useHint_makeHint.

Example C10_useHint_makeHint_inhabited :
  valid_gamma2 95232 /\ 0 <= 8380416 < q /\ 0 <= 190464 < q /\ Z.abs (cmod 8380416 q) <= 95232 /\
  mldsa_rZq_makeHint 8380416 95232 190464 = Some 0.
Proof. exact ex_useHint_makeHint_inhabited. Qed.

(* ------------------------------------------------------------------ *)
(* 4. bit packing (Algorithms 16-19)                                   *)
(* ------------------------------------------------------------------ *)
Local Open Scope nat_scope.

Theorem C10_simpleBitPack_length : forall bits p, length p = degree ->
  length (simpleBitPack bits p) = 32 * bits.
Proof. exact simpleBitPack_length. Qed.
Print Assumptions C10_simpleBitPack_length.

Theorem C10_simpleBitPack_bytes : forall bits p, length p = degree -> wfb (simpleBitPack bits p).
Proof. exact simpleBitPack_wf. Qed.
Print Assumptions C10_simpleBitPack_bytes.

Theorem C10_simpleBitUnpack_simpleBitPack : forall bits p,
  0 < bits -> length p = degree ->
  Forall (fun c => 0 <= c < 2 ^ Z.of_nat bits)%Z p ->
  simpleBitUnpack bits (simpleBitPack bits p) = p.
Proof. exact simpleBitUnpack_simpleBitPack. Qed.
Print Assumptions C10_simpleBitUnpack_simpleBitPack.

Theorem C10_bitPack_length : forall a bits p, length p = degree -> length (bitPack a bits p) = 32 * bits.
Proof. exact bitPack_length. Qed.
Print Assumptions C10_bitPack_length.

(* coefficients c in Z_q with a - c (mod q) < 2^bits: for (a, bits) =
   (eta, etaBits), (2^12, 13), (gamma1, 1 + log2 gamma1) these are the ranges
   [-eta, eta], (-2^12, 2^12], (-gamma1, gamma1] *)
Theorem C10_bitUnpack_bitPack : forall a bits p,
  0 < bits -> length p = degree -> (0 <= a < q)%Z ->
  Forall (fun c => 0 <= c < q /\ (a - c) mod q < 2 ^ Z.of_nat bits)%Z p ->
  bitUnpack a bits (bitPack a bits p) = p.
Proof. exact bitUnpack_bitPack. Qed.
Print Assumptions C10_bitUnpack_bitPack.

Example C10_bitUnpack_bitPack_inhabited :
  let p := repeat (q - 2)%Z degree in
  0 < 3 /\ length p = degree /\ (0 <= 2 < q)%Z /\
  Forall (fun c => 0 <= c < q /\ (2 - c) mod q < 2 ^ Z.of_nat 3)%Z p.
Proof. exact ex_bitUnpack_bitPack_inhabited. Qed.

(* ------------------------------------------------------------------ *)
(* 5. hint packing (Algorithms 20/21): round trip and strictness        *)
(* ------------------------------------------------------------------ *)
(* HintBitUnpack accepts a byte string iff it is THE canonical encoding of a
   0/1 vector of weight <= omega: non-increasing indices, bad cumulative
   counts and non-zero padding are all rejected, and no hint vector has two
   accepted encodings. *)
Theorem C10_hintBitUnpack_iff : forall omega k enc h,
  omega <= 255 -> wfb enc ->
  (hintBitUnpack omega k enc = Ok h <->
   enc = hintBitPack omega h /\ weight h <= omega /\ length h = k /\
   Forall (fun p => binary p /\ length p = degree) h).
Proof. exact hintBitUnpack_iff. Qed.
Print Assumptions C10_hintBitUnpack_iff.

Theorem C10_hintBitUnpack_hintBitPack : forall omega k h,
  omega <= 255 -> length h = k ->
  Forall (fun p => binary p /\ length p = degree) h -> weight h <= omega ->
  hintBitUnpack omega k (hintBitPack omega h) = Ok h.
Proof. exact hintBitUnpack_hintBitPack. Qed.
Print Assumptions C10_hintBitUnpack_hintBitPack.

Theorem C10_hintBitUnpack_unique_encoding : forall omega k e1 e2 h,
  wfb e1 -> wfb e2 -> hintBitUnpack omega k e1 = Ok h -> hintBitUnpack omega k e2 = Ok h -> e1 = e2.
Proof. exact hintBitUnpack_injective. Qed.
Print Assumptions C10_hintBitUnpack_unique_encoding.

Example C10_hint_inhabited :
  let h := [upd 3 1%Z (upd 200 1%Z zero_poly); zero_poly] in
  hintBitUnpack 5 2 (hintBitPack 5 h) = Ok h /\ hintBitPack 5 h = [3; 200; 0; 0; 0; 2; 2]%N /\
  hintBitUnpack 5 2 [200; 3; 0; 0; 0; 2; 2]%N = Err /\    (* indices not increasing *)
  hintBitUnpack 5 2 [3; 3; 0; 0; 0; 2; 2]%N = Err /\      (* repeated index *)
  hintBitUnpack 5 2 [3; 200; 0; 0; 1; 2; 2]%N = Err /\    (* non-zero padding *)
  hintBitUnpack 5 2 [3; 200; 0; 0; 0; 2; 1]%N = Err /\    (* counts decrease *)
  hintBitUnpack 5 2 [3; 200; 0; 0; 0; 2; 6]%N = Err.       (* count beyond omega *)
Proof. exact ex_hint_inhabited. Qed.

(* ------------------------------------------------------------------ *)
(* 6. key and signature encodings                                       *)
(* ------------------------------------------------------------------ *)
Theorem C10_table1_parameter_sets :
  MLDSA44 = mkParams 39 128 17 95232 4 4 2 80 3 6 /\
  MLDSA65 = mkParams 49 192 19 261888 6 5 4 55 4 4 /\
  MLDSA87 = mkParams 60 256 19 261888 8 7 2 75 3 4.
Proof. exact table1_params. Qed.
Print Assumptions C10_table1_parameter_sets.

Theorem C10_table2_lengths :
  (publicKeyLength MLDSA44, secretKeyLength MLDSA44, signatureLength MLDSA44) = (1312, 2560, 2420) /\
  (publicKeyLength MLDSA65, secretKeyLength MLDSA65, signatureLength MLDSA65) = (1952, 4032, 3309) /\
  (publicKeyLength MLDSA87, secretKeyLength MLDSA87, signatureLength MLDSA87) = (2592, 4896, 4627).
Proof. exact table2_lengths. Qed.
Print Assumptions C10_table2_lengths.

Theorem C10_pkEncode_length : forall P pk, polys (p_k P) (pk_t1 pk) ->
  length (pkEncode pk) = publicKeyLength P.
Proof. exact pkEncode_length. Qed.
Print Assumptions C10_pkEncode_length.

Theorem C10_skEncode_length : forall P sk,
  polys (p_l P) (sk_s1 sk) -> polys (p_k P) (sk_s2 sk) -> polys (p_k P) (sk_t0 sk) ->
  length (skEncode P sk) = secretKeyLength P.
Proof. exact skEncode_length. Qed.
Print Assumptions C10_skEncode_length.

Theorem C10_sigEncode_length : forall P c z h,
  polys (p_l P) z -> length h = p_k P -> weight h <= p_omega P ->
  length (sigEncode P c z h) = signatureLength P.
Proof. exact sigEncode_length. Qed.
Print Assumptions C10_sigEncode_length.

(* decoders accept only the exact length *)
Theorem C10_decoders_check_length :
  (forall P sigma r, sigDecode P sigma = Some r -> length sigma = signatureLength P) /\
  (forall shake256 P enc pk, pkDecode shake256 P enc = Some pk -> length enc = publicKeyLength P) /\
  (forall P enc sk, skDecode P enc = Some sk -> length enc = secretKeyLength P).
Proof. repeat split; [exact sigDecode_length | exact pkDecode_length | exact skDecode_length]. Qed.
Print Assumptions C10_decoders_check_length.

(* SigDecode inverts SigEncode *)
Theorem C10_sigDecode_sigEncode : forall P c z h,
  p_omega P <= 255 -> (0 <= gamma1 P < q)%Z ->
  length c = ctLen P -> polys (p_l P) z ->
  Forall (Forall (fun x => 0 <= x < q /\ (gamma1 P - x) mod q < 2 ^ Z.of_nat (zBits P))%Z) z ->
  length h = p_k P -> Forall (fun p => binary p /\ length p = degree) h -> weight h <= p_omega P ->
  sigDecode P (sigEncode P c z h) = Some (c, z, h).
Proof. exact sigDecode_sigEncode. Qed.
Print Assumptions C10_sigDecode_sigEncode.

Example C10_sigDecode_sigEncode_inhabited :
  let P := MLDSA44 in
  let c := zeros 32 in let z := repeat zero_poly 4 in let h := repeat zero_poly 4 in
  p_omega P <= 255 /\ (0 <= gamma1 P < q)%Z /\ length c = ctLen P /\ polys (p_l P) z /\
  length h = p_k P /\ weight h <= p_omega P /\ sigDecode P (sigEncode P c z h) = Some (c, z, h).
Proof. exact ex_sigDecode_sigEncode_inhabited. Qed.
