(* C10 — ML-DSA keys and signatures conform to FIPS 204 on every input.
   Only statements + `exact`/assembly; proofs live in proofs/Mldsa*.v.
   Part 1 re-exports the lead's theorems about the REGENERATED scalar kernels
   (gen/MldsaScalar.v, translated from algebra.go on every run; specs cmod,
   decompose_spec, useHint_spec are FIPS 204 Algorithms 35-40 as text); part 2
   ties the kernels the executable model calls to the regenerated ones; the
   rest is about the polynomial, encoding and scheme layers of the model
   (model/MldsaPoly.v, model/Mldsa.v).  Statements that belong together are
   grouped into one theorem (each Print Assumptions re-walks the whole proof
   cone, and this file is re-checked on every run). *)
From Coq Require Import List ZArith NArith Bool Lia.
From Tink Require Import Bytes Wrap MldsaScalar MldsaScalarProofs MldsaScalarProofs2 MldsaTableProofs
  MldsaKernels MldsaKernelsProofs MldsaPoly Mldsa
  MldsaPackProofs MldsaHintProofs MldsaUseHintProofs MldsaLowBitsProofs MldsaNttProofs MldsaAlgebraProofs
  MldsaProofs MldsaExamples
  MldsaConvProofs MldsaNormProofs MldsaSampleProofs MldsaSignVerifyProofs MldsaKeyCodecProofs MldsaSignVerifyExamples
  MldsaNttEvalProofs MldsaVerifyIffProofs MldsaCompositeProofs MldsaAcceptExamples
  MldsaFips MldsaFipsBasics MldsaFipsSampling MldsaFipsEncodings MldsaFipsNtt MldsaFipsTop MldsaFipsMono.
Import ListNotations.
Local Open Scope Z_scope.

(* ------------------------------------------------------------------ *)
(* 1. every scalar kernel = FIPS 204, for ALL field elements           *)
(* ------------------------------------------------------------------ *)
(* constant-time reduction, addition, subtraction, negation and Barrett
   multiplication compute in Z_q *)
Theorem C10_field_arithmetic :
  (forall a, 0 <= a < 2 * q -> mldsa_rZq_reduceOnce a = a mod q) /\
  (forall a b, 0 <= a < q -> 0 <= b < q -> mldsa_rZq_add a b = (a + b) mod q) /\
  (forall a b, 0 <= a < q -> 0 <= b < q -> mldsa_rZq_sub a b = (a - b) mod q) /\
  (forall a, 0 <= a < q -> mldsa_rZq_neg a = (- a) mod q) /\
  (forall a b, 0 <= a < q -> 0 <= b < q -> mldsa_rZq_mul a b = (a * b) mod q).
Proof. exact (conj reduceOnce_spec (conj add_spec (conj sub_spec (conj neg_spec mul_spec)))). Qed.
Print Assumptions C10_field_arithmetic.

(* Algorithm 35 and its inverse scaling *)
Theorem C10_power2Round :
  (forall a, 0 <= a < q -> mldsa_rZq_power2Round a = ((a - cmod a 8192) / 8192, (cmod a 8192) mod q)) /\
  (forall a, 0 <= a < 1024 -> mldsa_rZq_scalePower2 a = a * 8192).
Proof. exact (conj power2Round_spec scalePower2_spec). Qed.
Print Assumptions C10_power2Round.

(* the multiply-shift division is floor division by 2*gamma2 on all of uint32;
   any other gamma2 panics *)
Theorem C10_divBy2Gamma2 :
  (forall a g, valid_gamma2 g -> 0 <= a < 2 ^ 32 -> mldsa_divBy2Gamma2 a g = Some (a / (2 * g))) /\
  (forall a g, g <> 95232 -> g <> 261888 -> mldsa_divBy2Gamma2 a g = None).
Proof. exact (conj divBy2Gamma2_spec divBy2Gamma2_other). Qed.
Print Assumptions C10_divBy2Gamma2.

(* Algorithms 36-38 *)
Theorem C10_decompose_highBits_lowBits : forall a g, valid_gamma2 g -> 0 <= a < q ->
  mldsa_rZq_decompose a g = Some (decompose_spec a g) /\
  mldsa_rZq_highBits a g = Some (fst (decompose_spec a g)) /\
  mldsa_rZq_lowBits a g = Some (snd (decompose_spec a g)).
Proof. intros a g Hg Ha. exact (conj (decompose_ok a g Hg Ha) (conj (highBits_ok a g Hg Ha) (lowBits_ok a g Hg Ha))). Qed.
Print Assumptions C10_decompose_highBits_lowBits.

(* Algorithms 39-40 *)
Theorem C10_makeHint_useHint :
  (forall z g r, valid_gamma2 g -> 0 <= z < q -> 0 <= r < q ->
     mldsa_rZq_makeHint z g r =
     Some (if fst (decompose_spec r g) =? fst (decompose_spec ((r + z) mod q) g) then 0 else 1)) /\
  (forall a g h, valid_gamma2 g -> 0 <= a < q -> mldsa_rZq_useHint a g h = Some (useHint_spec a g h)).
Proof. exact (conj makeHint_ok useHint_ok). Qed.
Print Assumptions C10_makeHint_useHint.

(* centred infinity norm *)
Theorem C10_centered_norm :
  (forall a, 0 <= a < q -> mldsa_rZq_centeredAbs a = Z.abs (cmod a q)) /\
  (forall a b, 0 <= a < q -> 0 <= b < q ->
     mldsa_rZq_centeredMax a b = if Z.abs (cmod b q) <=? Z.abs (cmod a q) then a else b).
Proof. exact (conj centeredAbs_spec centeredMax_spec). Qed.
Print Assumptions C10_centered_norm.

(* the zetas table is 1753^brv8(k) mod q, 1753 is a primitive 512th root of
   unity, inv256 is 256^-1, and the twiddle of each inverse butterfly is the
   inverse of the forward one *)
Theorem C10_zetas_and_constants :
  mldsa_zetas = zetas_spec /\
  (powmod mldsa_zeta 256 mldsa_q = mldsa_q - 1 /\ powmod mldsa_zeta 512 mldsa_q = 1) /\
  (mldsa_inv256 * 256) mod mldsa_q = 1 /\
  forallb (fun m => ((nth m mldsa_zetas 0 * (mldsa_q - nth (layer_mirror m) mldsa_zetas 0)) mod mldsa_q =? 1))
          (seq 1 255) = true.
Proof. exact (conj zetas_table_ok (conj zeta_primitive_512th_root (conj inv256_ok zetas_inverse_pairs))). Qed.
Print Assumptions C10_zetas_and_constants.

(* ------------------------------------------------------------------ *)
(* 2. the kernels the executable model calls ARE the regenerated ones  *)
(*    (on every argument, canonical or not)                            *)
(* ------------------------------------------------------------------ *)
Theorem C10_model_kernels_are_generated_kernels :
  (forall a b, k_add a b = mldsa_rZq_add a b) /\
  (forall a b, k_sub a b = mldsa_rZq_sub a b) /\
  (forall a, k_neg a = mldsa_rZq_neg a) /\
  (forall a b, k_mul a b = mldsa_rZq_mul a b) /\
  (forall a, k_power2Round a = mldsa_rZq_power2Round a) /\
  (forall a, k_scalePower2 a = mldsa_rZq_scalePower2 a) /\
  (forall a g, k_decompose a g = mldsa_rZq_decompose a g) /\
  (forall a g, k_highBits a g = mldsa_rZq_highBits a g) /\
  (forall a g, k_lowBits a g = mldsa_rZq_lowBits a g) /\
  (forall a g r, k_makeHint a g r = mldsa_rZq_makeHint a g r) /\
  (forall a g h, k_useHint a g h = mldsa_rZq_useHint a g h) /\
  (forall a, k_centeredAbs a = mldsa_rZq_centeredAbs a) /\
  (forall a b, k_centeredMax a b = mldsa_rZq_centeredMax a b).
Proof.
  exact (conj k_add_eq (conj k_sub_eq (conj k_neg_eq (conj k_mul_eq (conj k_power2Round_eq (conj k_scalePower2_eq
        (conj k_decompose_eq (conj k_highBits_eq (conj k_lowBits_eq (conj k_makeHint_eq (conj k_useHint_eq
        (conj k_centeredAbs_eq k_centeredMax_eq)))))))))))).
Qed.
Print Assumptions C10_model_kernels_are_generated_kernels.

(* ------------------------------------------------------------------ *)
(* 3. the hint lemma (FIPS 204, Algorithms 39/40) on the generated code *)
(* ------------------------------------------------------------------ *)
(* If |z mod± q| <= gamma2 then for every r: with h = z.makeHint(gamma2, r),
   r.useHint(gamma2, h) = (r + z).highBits(gamma2).  This is what lets the
   verifier recover HighBits(w - c*s2) from w - c*s2 + c*t0 and the hint. *)
Theorem C10_useHint_makeHint : forall z r g h,
  valid_gamma2 g -> 0 <= z < q -> 0 <= r < q -> Z.abs (cmod z q) <= g ->
  mldsa_rZq_makeHint z g r = Some h ->
  mldsa_rZq_useHint r g h = mldsa_rZq_highBits (mldsa_rZq_add r z) g.
Proof. exact useHint_makeHint. Qed.
Print Assumptions C10_useHint_makeHint.

Example C10_useHint_makeHint_inhabited :
  valid_gamma2 95232 /\ 0 <= 8380416 < q /\ 0 <= 190464 < q /\ Z.abs (cmod 8380416 q) <= 95232 /\
  mldsa_rZq_makeHint 8380416 95232 190464 = Some 0.
Proof. exact ex_useHint_makeHint_inhabited. Qed.

(* The second rounding lemma of signing: if |s mod± q| <= b and the centred
   norm of r.lowBits(gamma2) is < gamma2 - b then (r + s).highBits(gamma2) =
   r.highBits(gamma2) — the reason for the check ||r0|| < gamma2 - beta. *)
Theorem C10_highBits_stable : forall r s g b r0,
  valid_gamma2 g -> 0 <= r < q -> 0 <= s < q -> 0 <= b -> Z.abs (cmod s q) <= b ->
  mldsa_rZq_lowBits r g = Some r0 -> mldsa_rZq_centeredAbs r0 < g - b ->
  mldsa_rZq_highBits (mldsa_rZq_add r s) g = mldsa_rZq_highBits r g.
Proof. exact highBits_stable. Qed.
Print Assumptions C10_highBits_stable.

(* ------------------------------------------------------------------ *)
(* 4. NTT (Algorithms 41/42): the two transforms are mutually inverse  *)
(*    bijections of (Z_q)^256 and additive                              *)
(* ------------------------------------------------------------------ *)
Theorem C10_intt_ntt : forall p, length p = 256%nat -> Forall (fun c => 0 <= c < q) p ->
  intt (ntt p) = p /\ ntt (intt p) = p.
Proof. intros p Hl Hc. exact (conj (intt_ntt p Hl Hc) (ntt_intt p Hl Hc)). Qed.
Print Assumptions C10_intt_ntt.

Theorem C10_ntt_additive : forall a b, length a = 256%nat -> length b = 256%nat ->
  Forall (fun c => 0 <= c < q) a -> Forall (fun c => 0 <= c < q) b ->
  ntt (padd a b) = padd (ntt a) (ntt b) /\ intt (padd a b) = padd (intt a) (intt b).
Proof. intros a b La Lb Ca Cb. exact (conj (ntt_add a b La Lb Ca Cb) (intt_add a b La Lb Ca Cb)). Qed.
Print Assumptions C10_ntt_additive.

Theorem C10_ntt_subtractive : forall a b, length a = 256%nat -> length b = 256%nat ->
  Forall (fun c => 0 <= c < q) a -> Forall (fun c => 0 <= c < q) b ->
  ntt (psub a b) = psub (ntt a) (ntt b) /\ intt (psub a b) = psub (intt a) (intt b).
Proof. intros a b La Lb Ca Cb. exact (conj (ntt_sub a b La Lb Ca Cb) (intt_sub a b La Lb Ca Cb)). Qed.
Print Assumptions C10_ntt_subtractive.

(* Towards "every produced signature verifies" (the FULL STATEMENT
     keyGenInternal seed = Some (pk, sk) -> signInternalWithMu fuel sk mu rnd = Some sigma ->
     verifyInternalWithMu pk mu sigma = Some true
   is proved in section 8 below, C10_sign_then_verify; this theorem is its
   algebraic core and is kept under its old name).
   Proved here: the algebraic identity verification rests on, with every
   product computed as the code does (ntt, pointwise product, intt): for
   t = A*s1 + s2, (t1, t0) = Power2Round(t), z = y + c*s1, the verifier's
   w' = intt(A^ o ntt z - ntt c o ntt(t1*2^d)) equals w - c*s2 + c*t0.
   Together with C10_useHint_makeHint (w1' = HighBits(w - c*s2) since
   ||c*t0|| < gamma2) and C10_highBits_stable (HighBits(w - c*s2) =
   HighBits(w) since ||r0|| < gamma2 - beta) this is the whole argument.
   What this theorem alone does not give (and section 8 adds): ||c*s2||_inf
   <= beta for the product as computed through the NTT (pointwise
   multiplication in the NTT domain is negacyclic convolution), and the
   assembly of the codec round trip and norm conditions of signAttempt. *)
Theorem C10_sign_then_verify_algebra_partial : forall k l Ah s1 s2 y c,
  cmat k l Ah -> cvec l s1 -> cvec k s2 -> cvec l y -> cpoly c ->
  let s1h := vntt s1 in let s2h := vntt s2 in
  let t := vadd (vintt (mmul Ah s1h)) s2 in
  let t1 := map fst (map ppower2Round t) in
  let t0 := map snd (map ppower2Round t) in
  let t0h := vntt t0 in
  let ch := ntt c in
  let w := vintt (mmul Ah (vntt y)) in
  let cs1 := vintt (vscalarMul ch s1h) in
  let cs2 := vintt (vscalarMul ch s2h) in
  let ct0 := vintt (vscalarMul ch t0h) in
  let z := vadd y cs1 in
  vintt (vsub (mmul Ah (vntt z)) (vscalarMul ch (vntt (map pscalePower2 t1)))) = vadd (vsub w cs2) ct0.
Proof. exact verify_recomputes_w. Qed.
Print Assumptions C10_sign_then_verify_algebra_partial.

Example C10_sign_then_verify_algebra_inhabited :
  cmat 1 1 [[zero_poly]] /\ cvec 1 [zero_poly] /\ cpoly zero_poly.
Proof. exact ex_algebra_inhabited. Qed.

(* ------------------------------------------------------------------ *)
(* 5. bit packing (Algorithms 16-19)                                   *)
(* ------------------------------------------------------------------ *)
Local Open Scope nat_scope.

Theorem C10_pack_lengths : forall bits p, length p = degree ->
  length (simpleBitPack bits p) = 32 * bits /\ wfb (simpleBitPack bits p) /\
  forall a, length (bitPack a bits p) = 32 * bits.
Proof.
  intros bits p Hp.
  exact (conj (simpleBitPack_length bits p Hp) (conj (simpleBitPack_wf bits p Hp) (fun a => bitPack_length a bits p Hp))).
Qed.
Print Assumptions C10_pack_lengths.

Theorem C10_simpleBitUnpack_simpleBitPack : forall bits p,
  0 < bits -> length p = degree ->
  Forall (fun c => 0 <= c < 2 ^ Z.of_nat bits)%Z p ->
  simpleBitUnpack bits (simpleBitPack bits p) = p.
Proof. exact simpleBitUnpack_simpleBitPack. Qed.
Print Assumptions C10_simpleBitUnpack_simpleBitPack.

(* coefficients c in Z_q with a - c (mod q) < 2^bits: for (a, bits) =
   (eta, etaBits), (2^12, 13), (gamma1, 1 + log2 gamma1) these are the ranges
   [-eta, eta], (-2^12, 2^12], (-gamma1, gamma1] *)
Theorem C10_bitUnpack_bitPack : forall a bits p,
  0 < bits -> length p = degree -> (0 <= a < q)%Z ->
  Forall (fun c => 0 <= c < q /\ (a - c) mod q < 2 ^ Z.of_nat bits)%Z p ->
  bitUnpack a bits (bitPack a bits p) = p.
Proof. exact bitUnpack_bitPack. Qed.
Print Assumptions C10_bitUnpack_bitPack.

Example C10_bitUnpack_bitPack_inhabited :
  let p := repeat (q - 2)%Z degree in
  0 < 3 /\ length p = degree /\ (0 <= 2 < q)%Z /\
  Forall (fun c => 0 <= c < q /\ (2 - c) mod q < 2 ^ Z.of_nat 3)%Z p.
Proof. exact ex_bitUnpack_bitPack_inhabited. Qed.

(* ------------------------------------------------------------------ *)
(* 6. hint packing (Algorithms 20/21): round trip and strictness        *)
(* ------------------------------------------------------------------ *)
(* HintBitUnpack accepts a byte string iff it is THE canonical encoding of a
   0/1 vector of weight <= omega (so non-increasing indices, bad cumulative
   counts and non-zero padding are all rejected, and HintBitPack output is
   always accepted); no hint vector has two accepted encodings. *)
Theorem C10_hintBitUnpack_iff : forall omega k enc h,
  omega <= 255 -> wfb enc ->
  (hintBitUnpack omega k enc = Ok h <->
   enc = hintBitPack omega h /\ weight h <= omega /\ length h = k /\
   Forall (fun p => binary p /\ length p = degree) h).
Proof. exact hintBitUnpack_iff. Qed.
Print Assumptions C10_hintBitUnpack_iff.

Theorem C10_hintBitUnpack_unique_encoding : forall omega k e1 e2 h,
  wfb e1 -> wfb e2 -> hintBitUnpack omega k e1 = Ok h -> hintBitUnpack omega k e2 = Ok h -> e1 = e2.
Proof. exact hintBitUnpack_injective. Qed.
Print Assumptions C10_hintBitUnpack_unique_encoding.

Example C10_hint_inhabited :
  let h := [upd 3 1%Z (upd 200 1%Z zero_poly); zero_poly] in
  hintBitUnpack 5 2 (hintBitPack 5 h) = Ok h /\ hintBitPack 5 h = [3; 200; 0; 0; 0; 2; 2]%N /\
  hintBitUnpack 5 2 [200; 3; 0; 0; 0; 2; 2]%N = Err /\    (* indices not increasing *)
  hintBitUnpack 5 2 [3; 3; 0; 0; 0; 2; 2]%N = Err /\      (* repeated index *)
  hintBitUnpack 5 2 [3; 200; 0; 0; 1; 2; 2]%N = Err /\    (* non-zero padding *)
  hintBitUnpack 5 2 [3; 200; 0; 0; 0; 2; 1]%N = Err /\    (* counts decrease *)
  hintBitUnpack 5 2 [3; 200; 0; 0; 0; 2; 6]%N = Err.       (* count beyond omega *)
Proof. exact ex_hint_inhabited. Qed.

(* ------------------------------------------------------------------ *)
(* 7. key and signature encodings                                       *)
(* ------------------------------------------------------------------ *)
(* FIPS 204 Tables 1 and 2 *)
Theorem C10_parameter_sets_and_lengths :
  (MLDSA44 = mkParams 39 128 17 95232 4 4 2 80 3 6 /\
   MLDSA65 = mkParams 49 192 19 261888 6 5 4 55 4 4 /\
   MLDSA87 = mkParams 60 256 19 261888 8 7 2 75 3 4) /\
  ((publicKeyLength MLDSA44, secretKeyLength MLDSA44, signatureLength MLDSA44) = (1312, 2560, 2420) /\
   (publicKeyLength MLDSA65, secretKeyLength MLDSA65, signatureLength MLDSA65) = (1952, 4032, 3309) /\
   (publicKeyLength MLDSA87, secretKeyLength MLDSA87, signatureLength MLDSA87) = (2592, 4896, 4627)).
Proof. exact (conj table1_params table2_lengths). Qed.
Print Assumptions C10_parameter_sets_and_lengths.

(* encoders produce exactly the lengths of the parameter set, for any
   parameter record; decoders accept only that length *)
Theorem C10_encoded_lengths : forall P,
  (forall pk, polys (p_k P) (pk_t1 pk) -> length (pkEncode pk) = publicKeyLength P) /\
  (forall sk, polys (p_l P) (sk_s1 sk) -> polys (p_k P) (sk_s2 sk) -> polys (p_k P) (sk_t0 sk) ->
     length (skEncode P sk) = secretKeyLength P) /\
  (forall c z h, polys (p_l P) z -> length h = p_k P -> weight h <= p_omega P ->
     length (sigEncode P c z h) = signatureLength P) /\
  (forall sigma r, sigDecode P sigma = Some r -> length sigma = signatureLength P) /\
  (forall shake256 enc pk, pkDecode shake256 P enc = Some pk -> length enc = publicKeyLength P) /\
  (forall enc sk, skDecode P enc = Some sk -> length enc = secretKeyLength P).
Proof.
  intros P.
  exact (conj (pkEncode_length P) (conj (skEncode_length P) (conj (sigEncode_length P)
        (conj (sigDecode_length P) (conj (fun s => pkDecode_length s P) (skDecode_length P)))))).
Qed.
Print Assumptions C10_encoded_lengths.

(* SigDecode inverts SigEncode *)
Theorem C10_sigDecode_sigEncode : forall P c z h,
  p_omega P <= 255 -> (0 <= gamma1 P < q)%Z ->
  length c = ctLen P -> polys (p_l P) z ->
  Forall (Forall (fun x => 0 <= x < q /\ (gamma1 P - x) mod q < 2 ^ Z.of_nat (zBits P))%Z) z ->
  length h = p_k P -> Forall (fun p => binary p /\ length p = degree) h -> weight h <= p_omega P ->
  sigDecode P (sigEncode P c z h) = Some (c, z, h).
Proof. exact sigDecode_sigEncode. Qed.
Print Assumptions C10_sigDecode_sigEncode.

Example C10_sigDecode_sigEncode_inhabited :
  let P := MLDSA44 in
  let c := zeros 32 in let z := repeat zero_poly 4 in let h := repeat zero_poly 4 in
  p_omega P <= 255 /\ (0 <= gamma1 P < q)%Z /\ length c = ctLen P /\ polys (p_l P) z /\
  length h = p_k P /\ weight h <= p_omega P /\ sigDecode P (sigEncode P c z h) = Some (c, z, h).
Proof. exact ex_sigDecode_sigEncode_inhabited. Qed.

(* ------------------------------------------------------------------ *)
(* 8. every signature the signing function produces is accepted by the  *)
(*    verification function                                             *)
(* ------------------------------------------------------------------ *)
Local Open Scope Z_scope.

(* MultiplyNTT is multiplication in Z_q[X]/(X^256+1): the product computed
   as the code does (ntt, pointwise k_mul, intt) is conv a b =
   sum_i a_i * X^i * b with X*p the negacyclic shift (MldsaConvProofs.conv),
   whose k-th coefficient is the negacyclic convolution
      sum_{i<=k} a_i b_{k-i} - sum_{i>k} a_i b_{256+k-i}   (mod q)
   (csum a 0 b k is that sum over the coefficients of a), and it satisfies
   || a*b ||_inf <= || a ||_1 * || b ||_inf in centred representatives
   (cabs x = |x mod+- q|, l1 = sum of cabs, bounded B p = all cabs <= B). *)
Theorem C10_ntt_mul_is_negacyclic_convolution : forall a b, cpoly a -> cpoly b ->
  intt (pmul (ntt a) (ntt b)) = conv a b /\
  (forall k, (k < 256)%nat -> List.nth k (conv a b) 0 = (csum a 0 b k) mod q) /\
  (forall B, 0 <= B -> bounded B b -> bounded (l1 a * B) (intt (pmul (ntt a) (ntt b)))).
Proof.
  intros a b Ha Hb. split; [apply ntt_mul_is_negacyclic_convolution; auto|]. split.
  - intros k Hk. destruct Ha as [La Ca]. apply conv_coeff; auto. lia.
  - intros B HB Bb. rewrite ntt_mul_is_negacyclic_convolution by auto. apply conv_norm_bound; auto. apply Ha.
Qed.
Print Assumptions C10_ntt_mul_is_negacyclic_convolution.

(* ||c*s||_inf <= tau*eta = beta for the vectors c*s1, c*s2 as signing
   computes them, and the meaning of infinityNorm: every coefficient of every
   polynomial of v has |x mod+- q| <= v.infinityNorm() *)
Theorem C10_c_times_s2_norm_bound :
  (forall n c v eta tau, cpoly c -> cvec n v -> 0 <= eta -> Forall (bounded eta) v -> l1 c <= tau ->
     Forall (bounded (tau * eta)) (vintt (vscalarMul (ntt c) (vntt v)))) /\
  (forall v, Forall canon v -> Forall (bounded (vinfNorm v)) v /\ 0 <= vinfNorm v).
Proof. exact (conj c_times_s2_norm_bound vinfNorm_bounds). Qed.
Print Assumptions C10_c_times_s2_norm_bound.

(* ranges of the samplers, for EVERY XOF output: RejectNTTPoly gives 256
   coefficients of Z_q; RejectBoundedPoly 256 coefficients with |c| <= eta;
   SampleInBall a polynomial with ||c||_1 <= tau *)
Theorem C10_sampler_ranges : forall (shake : bytes -> nat -> bytes),
  (forall rho p, rejectNTTPoly shake rho = Some p -> cpoly p) /\
  (forall eta rho p, eta = 2 \/ eta = 4 -> rejectBoundedPoly shake eta rho = Some p -> cpoly p /\ bounded eta p) /\
  (forall tau rho c, (tau <= 256)%nat -> sampleInBall shake tau rho = Some c -> cpoly c /\ l1 c <= Z.of_nat tau).
Proof.
  intros shake. exact (conj (rejectNTT_cpoly shake) (conj (rejectBounded_props shake) (sampleInBall_props shake))).
Qed.
Print Assumptions C10_sampler_ranges.

(* THE STATEMENT.  For each of ML-DSA-44/65/87, every seed, message, context,
   randomness and fuel: if key generation returns (pk, sk) and signing with
   sk returns a signature (the rejection loop ended within the fuel and no
   XOF stream ran out), verification with pk accepts it — at the three
   layers of mldsa.go: with an external mu, on a formatted message M', and
   Sign/Verify with a context.  SHAKE128/SHAKE256 are arbitrary functions;
   the only law used is that SHAKE256 returns the requested number of bytes. *)
Theorem C10_sign_then_verify : forall (shake128 shake256 : bytes -> nat -> bytes) P seed pk sk fuel,
  (forall m n, length (shake256 m n) = n) ->
  P = MLDSA44 \/ P = MLDSA65 \/ P = MLDSA87 ->
  keyGenInternal shake128 shake256 P seed = Some (pk, sk) ->
  (forall mu rnd sigma,
     signInternalWithMu shake128 shake256 P fuel sk mu rnd = Some sigma ->
     verifyInternalWithMu shake128 shake256 P pk mu sigma = Some true) /\
  (forall Mp rnd sigma,
     signInternal shake128 shake256 P fuel sk Mp rnd = Some sigma ->
     verifyInternal shake128 shake256 P pk Mp sigma = Some true) /\
  (forall M ctx rnd sigma,
     sign shake128 shake256 P fuel sk M ctx rnd = Some (Some sigma) ->
     verify shake128 shake256 P pk M sigma ctx = Some true).
Proof.
  intros shake128 shake256 P seed pk sk fuel HL HP HK. pose proof (params_ok_facts P HP) as PF.
  split; [|split]; intros.
  - eapply keygen_sign_verify_mu; eauto.
  - eapply keygen_sign_verify_internal; eauto.
  - eapply keygen_sign_verify; eauto.
Qed.
Print Assumptions C10_sign_then_verify.

(* The same for the Tink layer, which holds the ENCODED keys: generated keys
   survive pkEncode/pkDecode and skEncode/skDecode, and a signature produced
   by the Tink signer (output prefix + signInternal over the decoded secret
   key, empty context) is accepted by the Tink verifier over the encoded
   public key. *)
Theorem C10_tink_sign_then_verify : forall (shake128 shake256 : bytes -> nat -> bytes) P seed pk sk,
  (forall m n, length (shake256 m n) = n) ->
  P = MLDSA44 \/ P = MLDSA65 \/ P = MLDSA87 ->
  keyGenInternal shake128 shake256 P seed = Some (pk, sk) ->
  (pkDecode shake256 P (pkEncode pk) = Some pk /\ skDecode P (skEncode P sk) = Some sk) /\
  (forall fuel prefix data rnd s,
     tinkSign shake128 shake256 P fuel prefix (skEncode P sk) data rnd = Some s ->
     tinkVerify shake128 shake256 P prefix (pkEncode pk) s data = Some true).
Proof.
  intros shake128 shake256 P seed pk sk HL HP HK. split.
  - eapply keyGen_codec; eauto.
  - intros. eapply tink_sign_verify; eauto.
Qed.
Print Assumptions C10_tink_sign_then_verify.

(* the premises are inhabited: a toy XOF with the length law under which
   ML-DSA-44 key generation and (first-round) signing succeed *)
Example C10_sign_then_verify_inhabited :
  (forall m n, length (ex_shake256 m n) = n) /\ (MLDSA44 = MLDSA44 \/ MLDSA44 = MLDSA65 \/ MLDSA44 = MLDSA87) /\
  match keyGenInternal ex_shake128 ex_shake256 MLDSA44 [] with
  | Some (pk, sk) =>
      match sign ex_shake128 ex_shake256 MLDSA44 1 sk [] [] [] with
      | Some (Some s) => length s = 2420%nat
      | _ => False
      end
  | None => False
  end.
Proof. exact ex_sign_then_verify_inhabited. Qed.

(* ------------------------------------------------------------------ *)
(* 9. the NTT is THE transform of FIPS 204 (section 2.5, Algorithm 41): *)
(*    evaluation at the roots zeta^(2*brv8(i)+1) of X^256+1             *)
(* ------------------------------------------------------------------ *)
(* polyval p x is the integer sum_j p_j x^j (Horner; first clause gives the
   sum form), zeta = mldsa_zeta = 1753 regenerated from the Go source.  For
   EVERY polynomial over Z_q and every output index i < 256 the i-th output of
   the model's ntt (the butterfly loops of algebra.go over the regenerated
   zetas table) is p(zeta^(2*brv8(i)+1)) mod q; the 256 evaluation points are
   pairwise distinct roots of X^256+1 (x^256 = -1), in the order of FIPS 204
   (w(zeta_0), w(-zeta_0), ..., w(zeta_127), w(-zeta_127)), zeta_i =
   zeta^brv8(128+i); and intt interpolates: it returns the polynomial from its
   256 values. *)
Theorem C10_ntt_is_evaluation :
  (forall p x, polyval p x =
     fold_right Z.add 0 (map (fun jc => snd jc * x ^ Z.of_nat (fst jc)) (combine (seq 0 (length p)) p))) /\
  (forall p i, cpoly p -> (i < 256)%nat ->
     List.nth i (ntt p) 0 = (polyval p (mldsa_zeta ^ (2 * brv8 (Z.of_nat i) + 1))) mod q) /\
  (forall i, ntt_root i = (mldsa_zeta ^ (2 * brv8 (Z.of_nat i) + 1)) mod q) /\
  (forallb (fun i => powmod (ntt_root i) 256 mldsa_q =? mldsa_q - 1) (seq 0 256) = true /\
   NoDup (map ntt_root (seq 0 256))) /\
  forallb (fun i => (ntt_root (2 * i) =? powmod mldsa_zeta (Z.to_nat (brv8 (Z.of_nat (128 + i)))) mldsa_q) &&
                    (ntt_root (2 * i + 1) =? mldsa_q - powmod mldsa_zeta (Z.to_nat (brv8 (Z.of_nat (128 + i)))) mldsa_q))
          (seq 0 128) = true /\
  (forall p, cpoly p -> ntt p = map (fun i => (polyval p (ntt_root i)) mod q) (seq 0 256) /\
                        intt (map (fun i => (polyval p (ntt_root i)) mod q) (seq 0 256)) = p).
Proof.
  split; [exact polyval_sum|]. split; [exact ntt_is_evaluation_Z|]. split; [exact ntt_root_pow|].
  split; [exact ntt_roots_are_roots|]. split; [exact ntt_roots_fips_order|].
  intros p Hp.
  assert (E : map (fun i => (polyval p (ntt_root i)) mod q) (seq 0 256) = ntt_spec p).
  { unfold ntt_spec. apply map_ext. intros i. symmetry. apply peval_polyval. }
  rewrite E. split; [apply ntt_eq_spec; exact Hp | apply intt_of_evaluations; exact Hp].
Qed.
Print Assumptions C10_ntt_is_evaluation.

Example C10_ntt_is_evaluation_inhabited :
  let p := upd 2 1 (upd 0 3 zero_poly) in
  cpoly p /\ List.nth 0 (ntt p) 0 = (1753 * 1753 + 3) mod q /\ ntt_root 0 = 1753 /\
  ntt_root 1 = q - 1753 /\ List.nth 1 (ntt p) 0 = (1753 * 1753 + 3) mod q /\
  List.nth 2 (ntt p) 0 = (polyval p (1753 ^ 129)) mod q.
Proof. exact ex_ntt_eval. Qed.

(* ------------------------------------------------------------------ *)
(* 10. Verify accepts EXACTLY the valid signatures                      *)
(* ------------------------------------------------------------------ *)
(* sigDecode is strict: the packers invert the unpackers on byte strings, so
   a byte string is decoded iff it is the canonical encoding of the (c~, z, h)
   it decodes to, with z over Z_q in (-gamma1, gamma1] and h a 0/1 vector of k
   polynomials of weight <= omega *)
Theorem C10_sigDecode_iff : forall P sigma c z h,
  P = MLDSA44 \/ P = MLDSA65 \/ P = MLDSA87 -> wfb sigma ->
  (sigDecode P sigma = Some (c, z, h) <->
   sigma = sigEncode P c z h /\ length c = ctLen P /\ cvec (p_l P) z /\
   Forall (Forall (fun x => 0 <= x < q /\ (gamma1 P - x) mod q < 2 ^ Z.of_nat (zBits P))) z /\
   length h = p_k P /\ Forall (fun p => binary p /\ length p = degree) h /\ (weight h <= p_omega P)%nat).
Proof.
  intros P sigma c z h HP W. pose proof (params_ok_facts P HP) as PF.
  destruct (g1_facts P PF) as [Hg H2]. destruct PF as [_ Ho _ _ _ _]. split.
  - apply sigDecode_strict; auto.
  - intros (-> & Lc & Hz & Rz & Lh & Sh & Wh). apply sigDecode_sigEncode; auto. apply cvec_polys. exact Hz.
Qed.
Print Assumptions C10_sigDecode_iff.

(* bit packing in the other direction, and the meaning of the norm check *)
Theorem C10_pack_unpack_and_norm :
  (forall bits enc, (0 < bits)%nat -> wfb enc -> length enc = (32 * bits)%nat ->
     simpleBitPack bits (simpleBitUnpack bits enc) = enc) /\
  (forall a bits enc, (0 < bits)%nat -> 0 <= a < q -> 2 ^ Z.of_nat bits <= q -> wfb enc ->
     length enc = (32 * bits)%nat -> bitPack a bits (bitUnpack a bits enc) = enc) /\
  (forall v B, Forall canon v -> 0 < B ->
     (vinfNorm v < B <-> Forall (Forall (fun x => cabs x < B)) v)).
Proof. exact (conj simpleBitPack_simpleBitUnpack (conj bitPack_bitUnpack vinfNorm_lt_iff)). Qed.
Print Assumptions C10_pack_unpack_and_norm.

(* THE ACCEPT SET.  For each of ML-DSA-44/65/87, every public key with k
   polynomials t1 of 256 coefficients below 2^10 (everything pkDecode returns
   and every generated key), every mu and every byte string sigma:
   verifyInternalWithMu answers "accept" iff sigma is the canonical encoding
   of some (c~, z, h) — c~ of lambda/4 bytes, z a vector of l polynomials over
   Z_q, h a 0/1 vector of k polynomials with at most omega ones —, every
   coefficient of z has |z_i mod+- q| < gamma1 - beta, ExpandA(rho) and
   SampleInBall(c~) return (the only way they do not is an exhausted XOF
   stream), and c~ = H(mu || w1Encode(w1')) for
   w1' = UseHint(h, NTT^-1(A^ o NTT(z) - NTT(c) o NTT(t1 * 2^d))), UseHint being
   the FIPS 204 specification function useHint_spec of section 1 and NTT the
   transform of section 9.  SHAKE128/SHAKE256 are arbitrary functions; no law
   about them is used. *)
Theorem C10_verify_accepts_exactly : forall (shake128 shake256 : bytes -> nat -> bytes) P pk mu sigma,
  P = MLDSA44 \/ P = MLDSA65 \/ P = MLDSA87 ->
  length (pk_t1 pk) = p_k P /\
  Forall (fun p => length p = 256%nat /\ Forall (fun c => 0 <= c < 1024) p) (pk_t1 pk) ->
  wfb sigma ->
  (verifyInternalWithMu shake128 shake256 P pk mu sigma = Some true <->
   exists ct z h Ah c,
     sigma = sigEncode P ct z h /\ length ct = ctLen P /\ cvec (p_l P) z /\
     (length h = p_k P /\ Forall (fun p => binary p /\ length p = degree) h) /\
     (weight h <= p_omega P)%nat /\
     Forall (Forall (fun x => cabs x < gamma1 P - beta P)) z /\
     expandA shake128 P (pk_rho pk) = Some Ah /\
     sampleInBall shake256 (p_tau P) ct = Some c /\
     ct = shake256 (mu ++ w1Encode P
            (map2 (map2 (fun a hint => useHint_spec a (p_gamma2 P) hint))
               (vintt (vsub (mmul Ah (vntt z)) (vscalarMul (ntt c) (vntt (map pscalePower2 (pk_t1 pk))))))
               h)) (ctLen P)).
Proof.
  intros shake128 shake256 P pk mu sigma HP Hpk W.
  exact (verify_accepts_iff shake128 shake256 P (params_ok_facts P HP) (params_ok_gb P HP) pk mu sigma Hpk W).
Qed.
Print Assumptions C10_verify_accepts_exactly.

(* the other two answers: "no answer" iff the signature decodes and an XOF
   stream ran out; everything that does not decode (wrong length, malformed
   hint section) is rejected *)
Theorem C10_verify_other_answers : forall (shake128 shake256 : bytes -> nat -> bytes) P pk mu sigma,
  P = MLDSA44 \/ P = MLDSA65 \/ P = MLDSA87 -> pk_ok P pk ->
  (verifyInternalWithMu shake128 shake256 P pk mu sigma = None <->
   exists ct z h, sigDecode P sigma = Some (ct, z, h) /\
     (expandA shake128 P (pk_rho pk) = None \/ sampleInBall shake256 (p_tau P) ct = None)) /\
  (sigDecode P sigma = None -> verifyInternalWithMu shake128 shake256 P pk mu sigma = Some false).
Proof.
  intros shake128 shake256 P pk mu sigma HP Hpk. split.
  - exact (verify_none_iff shake128 shake256 P (params_ok_facts P HP) pk mu sigma Hpk).
  - exact (verify_rejects_undecodable shake128 shake256 P pk mu sigma).
Qed.
Print Assumptions C10_verify_other_answers.

(* the same accept set at the layers above (valid_signature is, by
   definition, the right-hand side of C10_verify_accepts_exactly — first
   clause): Verify_internal on M', Verify with a context (at most 255 bytes),
   and the Tink verifier over an ENCODED public key with an output prefix
   (accepts iff the key decodes, the signature is prefix || s, and s is a valid
   signature of 0 || 0 || data under tr = H(pk)); every decoded and every
   generated public key satisfies the key premise. *)
Theorem C10_verify_accepts_exactly_layers : forall (shake128 shake256 : bytes -> nat -> bytes) P,
  P = MLDSA44 \/ P = MLDSA65 \/ P = MLDSA87 ->
  (forall pk mu sigma,
     valid_signature shake128 shake256 P pk mu sigma <->
     exists ct z h Ah c,
       sigma = sigEncode P ct z h /\ length ct = ctLen P /\ cvec (p_l P) z /\
       (length h = p_k P /\ Forall (fun p => binary p /\ length p = degree) h) /\
       (weight h <= p_omega P)%nat /\
       Forall (Forall (fun x => cabs x < gamma1 P - beta P)) z /\
       expandA shake128 P (pk_rho pk) = Some Ah /\
       sampleInBall shake256 (p_tau P) ct = Some c /\
       ct = shake256 (mu ++ w1Encode P (verifier_w1 P Ah c (pk_t1 pk) z h)) (ctLen P)) /\
  (forall pk Mp sigma, pk_ok P pk -> wfb sigma ->
     (verifyInternal shake128 shake256 P pk Mp sigma = Some true <->
      valid_signature shake128 shake256 P pk (shake256 (pk_tr pk ++ Mp) 64%nat) sigma)) /\
  (forall pk M sigma ctx, pk_ok P pk -> wfb sigma ->
     (verify shake128 shake256 P pk M sigma ctx = Some true <->
      (length ctx <= 255)%nat /\
      valid_signature shake128 shake256 P pk
        (shake256 (pk_tr pk ++ [0%N; N.of_nat (length ctx)] ++ ctx ++ M) 64%nat) sigma)) /\
  (forall prefix pkEnc sigma data, wfb sigma ->
     (tinkVerify shake128 shake256 P prefix pkEnc sigma data = Some true <->
      exists pk s, pkDecode shake256 P pkEnc = Some pk /\ sigma = prefix ++ s /\
        valid_signature shake128 shake256 P pk (shake256 (pk_tr pk ++ [0%N; 0%N] ++ data) 64%nat) s)) /\
  (forall enc pk, pkDecode shake256 P enc = Some pk -> pk_ok P pk) /\
  (forall seed pk sk, (forall m n, length (shake256 m n) = n) ->
     keyGenInternal shake128 shake256 P seed = Some (pk, sk) -> pk_ok P pk).
Proof.
  intros shake128 shake256 P HP.
  pose proof (params_ok_facts P HP) as PF. pose proof (params_ok_gb P HP) as GB.
  split; [intros; apply iff_refl|].
  split; [exact (verifyInternal_accepts_iff shake128 shake256 P PF GB)|].
  split; [exact (verify_ctx_accepts_iff shake128 shake256 P PF GB)|].
  split; [exact (tinkVerify_accepts_iff shake128 shake256 P PF GB)|].
  split; [exact (pkDecode_ok shake256 P)|].
  intros seed pk sk HL HK. exact (generated_pk_ok shake128 shake256 P seed pk sk HL HP HK).
Qed.
Print Assumptions C10_verify_accepts_exactly_layers.

(* the premises are met and BOTH sides of the equivalences are inhabited
   (toy XOF of section 8): a generated ML-DSA-44 key, a produced signature
   that is accepted, and a changed c~ byte, a truncation, an over-long
   context, a wrong output prefix that are rejected; an XOF that runs out
   yields no answer *)
Example C10_verify_accepts_exactly_inhabited :
  (MLDSA44 = MLDSA44 \/ MLDSA44 = MLDSA65 \/ MLDSA44 = MLDSA87) /\ pk_ok MLDSA44 ex_pk44 /\ wfb ex_sig44 /\
  length ex_sig44 = 2420%nat /\
  verify ex_shake128 ex_shake256 MLDSA44 ex_pk44 [] ex_sig44 [] = Some true /\
  verify ex_shake128 ex_shake256 MLDSA44 ex_pk44 [] (1%N :: tl ex_sig44) [] = Some false /\
  verify ex_shake128 ex_shake256 MLDSA44 ex_pk44 [] (tl ex_sig44) [] = Some false /\
  verify ex_shake128 ex_shake256 MLDSA44 ex_pk44 [] ex_sig44 (zeros 256) = Some false /\
  tinkVerify ex_shake128 ex_shake256 MLDSA44 [1%N] (pkEncode ex_pk44) (1%N :: ex_sig44) [] = Some true /\
  tinkVerify ex_shake128 ex_shake256 MLDSA44 [1%N] (pkEncode ex_pk44) (2%N :: ex_sig44) [] = Some false /\
  verify (fun _ _ => []) ex_shake256 MLDSA44 ex_pk44 [] ex_sig44 [] = None.
Proof. exact ex_accept_set_inhabited. Qed.

(* ------------------------------------------------------------------ *)
(* 11. composite ML-DSA and the prehash path, composed end to end       *)
(* ------------------------------------------------------------------ *)
(* Composite verification (signature/compositemldsa verifier.Verify: prefix,
   minimum length, ML-DSA component with context = label over
   M' = "CompositeAlgorithmSignatures2025" || label || 0x00 || SHA-512(data),
   then the classical component over M') accepts IFF the signature is
   prefix || s1 || s2 where s1 is accepted by ML-DSA Verify for (M', label) and
   s2 by the classical verifier for M' — for every parameter record, SHA-512,
   classical verifier and XOF (all arbitrary functions), with no premise; for
   a given split with |s1| = signatureLength the split is the only one (second
   clause).  With section 10 (third clause) the ML-DSA side is unfolded down
   to the coefficients. *)
Theorem C10_composite_verifies_iff_both :
  forall (shake128 shake256 : bytes -> nat -> bytes) P (sha512 : bytes -> bytes)
         (classicalVerify : bytes -> bytes -> bytes -> bool),
  (forall prefix pkEnc clPk label sigma data,
     compositeVerify shake128 shake256 P sha512 classicalVerify prefix pkEnc clPk label sigma data = Some true <->
     exists pk s1 s2,
       pkDecode shake256 P pkEnc = Some pk /\ sigma = prefix ++ s1 ++ s2 /\
       verify shake128 shake256 P pk (compositeDomain ++ label ++ [0%N] ++ sha512 data) s1 label = Some true /\
       classicalVerify clPk (compositeDomain ++ label ++ [0%N] ++ sha512 data) s2 = true) /\
  (forall prefix pkEnc clPk label s1 s2 data pk,
     pkDecode shake256 P pkEnc = Some pk -> length s1 = signatureLength P ->
     (compositeVerify shake128 shake256 P sha512 classicalVerify prefix pkEnc clPk label (prefix ++ s1 ++ s2) data = Some true <->
      verify shake128 shake256 P pk (compositeDomain ++ label ++ [0%N] ++ sha512 data) s1 label = Some true /\
      classicalVerify clPk (compositeDomain ++ label ++ [0%N] ++ sha512 data) s2 = true)) /\
  (P = MLDSA44 \/ P = MLDSA65 \/ P = MLDSA87 ->
   forall prefix pkEnc clPk label sigma data, wfb sigma ->
     (compositeVerify shake128 shake256 P sha512 classicalVerify prefix pkEnc clPk label sigma data = Some true <->
      exists pk s1 s2,
        pkDecode shake256 P pkEnc = Some pk /\ sigma = prefix ++ s1 ++ s2 /\ (length label <= 255)%nat /\
        valid_signature shake128 shake256 P pk
          (computeMu shake256 (pk_tr pk) (formatMsg (compositeMessagePrime sha512 label data) label)) s1 /\
        classicalVerify clPk (compositeMessagePrime sha512 label data) s2 = true)).
Proof.
  intros shake128 shake256 P sha512 classicalVerify.
  split; [exact (compositeVerify_accepts_iff shake128 shake256 P sha512 classicalVerify)|].
  split; [exact (compositeVerify_needs_both shake128 shake256 P sha512 classicalVerify)|].
  intros HP. exact (compositeVerify_accepts_valid shake128 shake256 P sha512 classicalVerify HP).
Qed.
Print Assumptions C10_composite_verifies_iff_both.

(* produced signatures, composed end to end through the ENCODED public key:
   (1) the ML-DSA component made by the composite signer, followed by any
   classical signature the classical verifier accepts, is accepted by the
   composite verifier;  (2) SignPrehash never refuses ComputePrehash(data) for
   its own key id, and the signature it makes over the prehash of data computed
   from the public key is accepted by the ORDINARY Tink verifier of the
   external-mu key (empty output prefix) for data;  (3) a prehash of another
   length, without the 0xFF start byte or for another key id is refused. *)
Theorem C10_composite_and_prehash_sign_then_verify :
  forall (shake128 shake256 : bytes -> nat -> bytes) P (sha512 : bytes -> bytes)
         (classicalVerify : bytes -> bytes -> bytes -> bool) seed pk sk,
  (forall m n, length (shake256 m n) = n) ->
  P = MLDSA44 \/ P = MLDSA65 \/ P = MLDSA87 ->
  keyGenInternal shake128 shake256 P seed = Some (pk, sk) ->
  (forall fuel prefix clPk label data rnd s1 s2,
     compositeSignMldsaPart shake128 shake256 P sha512 fuel sk label data rnd = Some (Some s1) ->
     classicalVerify clPk (compositeMessagePrime sha512 label data) s2 = true ->
     compositeVerify shake128 shake256 P sha512 classicalVerify prefix (pkEncode pk) clPk label
       (prefix ++ s1 ++ s2) data = Some true) /\
  (forall fuel keyID data rnd,
     signPrehash shake128 shake256 P fuel sk keyID (computePrehash shake256 (pk_tr pk) keyID data) rnd =
     Some (signInternalWithMu shake128 shake256 P fuel sk (computeMu shake256 (pk_tr pk) (formatMsg data [])) rnd)) /\
  (forall fuel keyID data rnd s,
     signPrehash shake128 shake256 P fuel sk keyID (computePrehash shake256 (pk_tr pk) keyID data) rnd = Some (Some s) ->
     tinkVerify shake128 shake256 P [] (pkEncode pk) s data = Some true) /\
  (forall fuel keyID prehash rnd,
     length prehash <> 69%nat \/ List.nth 0 prehash 0%N <> 255%N \/
     firstn 4 (skipn 1 prehash) <> be_bytes 4 keyID ->
     signPrehash shake128 shake256 P fuel sk keyID prehash rnd = None).
Proof.
  intros shake128 shake256 P sha512 classicalVerify seed pk sk HL HP HK.
  split; [intros; eapply (composite_sign_then_verify shake128 shake256 P sha512 classicalVerify HL HP); eauto|].
  split; [intros; apply (signPrehash_computePrehash shake128 shake256 P HL)|].
  split; [intros; eapply (prehash_sign_then_tinkVerify shake128 shake256 P HL HP); eauto|].
  intros. apply signPrehash_refuses. assumption.
Qed.
Print Assumptions C10_composite_and_prehash_sign_then_verify.

(* the premises are inhabited and both outcomes occur: ML-DSA-65 key and
   composite component from a toy XOF with the length law, a toy classical
   verifier accepting exactly the one-byte signature 07; prehash signing with
   the ML-DSA-44 key of section 10 *)
Example C10_composite_inhabited :
  (forall m n, length (ex_shake256_65 m n) = n) /\ (MLDSA65 = MLDSA44 \/ MLDSA65 = MLDSA65 \/ MLDSA65 = MLDSA87) /\
  keyGenInternal ex_shake128 ex_shake256_65 MLDSA65 [] = Some (ex_pk65, ex_sk65) /\
  compositeSignMldsaPart ex_shake128 ex_shake256_65 MLDSA65 ex_sha512 1 ex_sk65 ex_label [1%N] [] = Some (Some ex_sig65) /\
  length ex_sig65 = 3309%nat /\
  compositeVerify ex_shake128 ex_shake256_65 MLDSA65 ex_sha512 ex_classical [9%N] (pkEncode ex_pk65) [] ex_label
    ([9%N] ++ ex_sig65 ++ [7%N]) [1%N] = Some true /\
  compositeVerify ex_shake128 ex_shake256_65 MLDSA65 ex_sha512 ex_classical [9%N] (pkEncode ex_pk65) [] ex_label
    ([9%N] ++ ex_sig65 ++ [8%N]) [1%N] = Some false /\
  compositeVerify ex_shake128 ex_shake256_65 MLDSA65 ex_sha512 ex_classical [9%N] (pkEncode ex_pk65) [] ex_label
    ([9%N] ++ (1%N :: tl ex_sig65) ++ [7%N]) [1%N] = Some false /\
  compositeVerify ex_shake128 ex_shake256_65 MLDSA65 ex_sha512 ex_classical [9%N] (pkEncode ex_pk65) [] ex_label
    ([9%N] ++ [7%N]) [1%N] = Some false.
Proof. exact ex_composite_inhabited. Qed.

Example C10_prehash_inhabited :
  match signPrehash ex_shake128 ex_shake256 MLDSA44 1 ex_sk44 7
          (computePrehash ex_shake256 (pk_tr ex_pk44) 7 [42%N]) [] with
  | Some (Some s) => tinkVerify ex_shake128 ex_shake256 MLDSA44 [] (pkEncode ex_pk44) s [42%N] = Some true
  | _ => False
  end /\
  signPrehash ex_shake128 ex_shake256 MLDSA44 1 ex_sk44 7
    (computePrehash ex_shake256 (pk_tr ex_pk44) 8 [42%N]) [] = None.
Proof. exact ex_prehash_inhabited. Qed.

(* ------------------------------------------------------------------ *)
(* 12. the implementation model = FIPS 204 as transcribed from the text *)
(*     of the standard (model/MldsaFips.v, module FIPS: written          *)
(*     independently, integer coefficients signed where the standard     *)
(*     has them signed, bit strings, zetas as powers of 1753, XOFs with   *)
(*     the Init/Absorb/Squeeze interface of section 3.7)                  *)
(* ------------------------------------------------------------------ *)
(* the parameter record of the standard for a parameter record of the model:
   for the three sets it is Table 1 of FIPS 204 literally (incl. beta) *)
Theorem C10_fips_parameter_sets :
  fips_of MLDSA44 = FIPS.mkParams 39 128 (2 ^ 17) ((8380417 - 1) / 88) 4 4 2 78 80 /\
  fips_of MLDSA65 = FIPS.mkParams 49 192 (2 ^ 19) ((8380417 - 1) / 32) 6 5 4 196 55 /\
  fips_of MLDSA87 = FIPS.mkParams 60 256 (2 ^ 19) ((8380417 - 1) / 32) 8 7 2 120 75 /\
  (fips_of MLDSA44 = FIPS.ML_DSA_44 /\ fips_of MLDSA65 = FIPS.ML_DSA_65 /\ fips_of MLDSA87 = FIPS.ML_DSA_87).
Proof. repeat split; reflexivity. Qed.
Print Assumptions C10_fips_parameter_sets.

(* Algorithms 9-19: conversions and packing.  The standard's BitPack /
   BitUnpack work on SIGNED coefficients; the model's on their canonical
   representatives x mod q. *)
Theorem C10_fips_conversions_and_packing :
  (forall x alpha, FIPS.IntegerToBits x alpha = bits_of alpha x) /\
  (forall y alpha, FIPS.BitsToInteger y alpha = val_of (firstn alpha y)) /\
  (forall y m, length y = (m * 8)%nat -> FIPS.BitsToBytes y = map byte_of_bits (groups 8 y)) /\
  (forall z, FIPS.BytesToBits z = flat_map bits_of_byte z) /\
  (forall w b, length w = 256%nat -> FIPS.SimpleBitPack w b = simpleBitPack (FIPS.bitlen b) w) /\
  (forall w a b, length w = 256%nat -> 0 <= b < q -> Forall (fun x => 0 <= b - x < q) w ->
     FIPS.BitPack w a b = bitPack b (FIPS.bitlen (a + b)) (map (fun x => x mod q) w)) /\
  (forall v b, (0 < FIPS.bitlen b)%nat -> length v = (32 * FIPS.bitlen b)%nat ->
     FIPS.SimpleBitUnpack v b = simpleBitUnpack (FIPS.bitlen b) v) /\
  (forall v a b, (0 < FIPS.bitlen (a + b))%nat -> length v = (32 * FIPS.bitlen (a + b))%nat ->
     0 <= b < q -> 2 ^ Z.of_nat (FIPS.bitlen (a + b)) <= q ->
     map (fun x => x mod q) (FIPS.BitUnpack v a b) = bitUnpack b (FIPS.bitlen (a + b)) v /\
     Forall (fun x => b - 2 ^ Z.of_nat (FIPS.bitlen (a + b)) < x <= b) (FIPS.BitUnpack v a b) /\
     length (FIPS.BitUnpack v a b) = 256%nat).
Proof.
  exact (conj IntegerToBits_bits_of (conj BitsToInteger_val_of (conj BitsToBytes_groups (conj BytesToBits_flat_map
        (conj SimpleBitPack_eq (conj BitPack_eq (conj SimpleBitUnpack_eq BitUnpack_eq))))))).
Qed.
Print Assumptions C10_fips_conversions_and_packing.

(* Algorithms 14, 15, 35-40 on field elements: the kernels the model calls
   (= the regenerated Go kernels, section 2) compute the standard's functions;
   r0 of Power2Round / Decompose / LowBits is signed in the standard and
   returned mod q by the code *)
Theorem C10_fips_rounding :
  (forall r, 0 <= r < q -> k_power2Round r = (fst (FIPS.Power2Round r), (snd (FIPS.Power2Round r)) mod q)) /\
  (forall g r, valid_gamma2 g -> 0 <= r < q ->
     k_decompose r g = Some (fst (FIPS.Decompose g r), (snd (FIPS.Decompose g r)) mod q) /\
     k_highBits r g = Some (FIPS.HighBits g r) /\ k_lowBits r g = Some ((FIPS.LowBits g r) mod q)) /\
  (forall g z r, valid_gamma2 g -> 0 <= z < q -> 0 <= r < q -> k_makeHint z g r = Some (FIPS.MakeHint g z r)) /\
  (forall g h r, valid_gamma2 g -> 0 <= r < q -> k_useHint r g h = Some (FIPS.UseHint g h r)) /\
  (forall eta b, 0 <= b < 16 ->
     coeffFromHalfByte eta b = option_map (fun x => x mod q) (FIPS.CoeffFromHalfByte eta b)).
Proof.
  split; [exact Power2Round_eq|]. split.
  - intros g r Hg Hr. split; [|split].
    + rewrite k_decompose_eq, decompose_ok by auto. rewrite (Decompose_eq g r Hr). reflexivity.
    + rewrite k_highBits_ok by auto. rewrite HighBits_eq by auto. reflexivity.
    + rewrite k_lowBits_ok by auto. rewrite LowBits_eq by auto. reflexivity.
  - split; [intros g z r Hg Hz Hr; rewrite k_makeHint_ok by auto; rewrite MakeHint_eq by auto; reflexivity|].
    split; [intros g h r Hg Hr; rewrite k_useHint_ok by auto; rewrite UseHint_eq by auto; reflexivity|].
    intros eta b Hb. apply CoeffFromHalfByte_eq. exact Hb.
Qed.
Print Assumptions C10_fips_rounding.

(* Algorithms 29-34: the samplers.  XOF laws: the output has the requested
   length, consists of bytes, and a shorter request is a prefix of a longer
   one.  The standard's rejection loops are unbounded; FIPS.RejNTTPoly etc.
   take a bound on the number of Squeeze calls and return None beyond it; the
   implementation model requests 12 SHAKE128 blocks (672 three-byte
   squeezes), 1536 bytes, 8+1024 bytes in one go and returns None (out of
   stream) when that is not enough: with these bounds the two are EQUAL, Some
   for Some and None for None.  Signed coefficients of the standard (eta-range,
   +-1, mask range) are the model's canonical representatives. *)
Theorem C10_fips_sampling : forall (X : bytes -> nat -> bytes) P,
  xof_laws X -> P = MLDSA44 \/ P = MLDSA65 \/ P = MLDSA87 ->
  (forall rho, rejectNTTPoly X rho = FIPS.RejNTTPoly X 672 rho) /\
  (forall rho, rejectBoundedPoly X (p_eta P) rho =
     option_map (map (fun x => x mod q)) (FIPS.RejBoundedPoly X (fips_of P) 1536 rho)) /\
  (forall rho, sampleInBall X (p_tau P) rho =
     option_map (map (fun x => x mod q)) (FIPS.SampleInBall X (fips_of P) 1024 rho)) /\
  (forall rho, expandA X P rho = FIPS.ExpandA X (fips_of P) 672 rho) /\
  (forall rho, expandS X P rho =
     option_map (fun '(s1, s2) => (map (map (fun x => x mod q)) s1, map (map (fun x => x mod q)) s2))
                (FIPS.ExpandS X (fips_of P) 1536 rho)) /\
  (forall rho mu, expandMask X P rho mu = map (map (fun x => x mod q)) (FIPS.ExpandMask X (fips_of P) rho mu)) /\
  (forall b rho p, FIPS.RejBoundedPoly X (fips_of P) b rho = Some p -> Forall (fun c => - p_eta P <= c <= p_eta P) p) /\
  (forall b rho c, FIPS.SampleInBall X (fips_of P) b rho = Some c -> Forall (fun x => -1 <= x <= 1) c /\ length c = 256%nat) /\
  (forall rho mu, Forall (fun p => length p = 256%nat /\ Forall (fun x => - gamma1 P < x <= gamma1 P) p)
                         (FIPS.ExpandMask X (fips_of P) rho mu)).
Proof.
  intros X P HX HP. pose proof (params_ok_facts P HP) as PF. pose proof (params_ok_ffacts P HP) as FF.
  split; [intros; apply RejNTTPoly_eq; exact HX|].
  split; [intros; apply (RejBoundedPoly_eq X HX P)|].
  split; [intros; apply (SampleInBall_eq X HX P); apply PF|].
  split; [intros; apply ExpandA_eq; exact HX|].
  split; [intros; apply (ExpandS_eq X HX P); apply FF|].
  split; [intros; apply (ExpandMask_eq X HX P FF PF)|].
  split; [intros b rho p E; exact (RejBoundedPoly_range X (fips_of P) b rho p E)|].
  split; [intros b rho c E; exact (SampleInBall_range X (fips_of P) b rho c E)|].
  intros; apply (ExpandMask_eq X HX P FF PF).
Qed.
Print Assumptions C10_fips_sampling.

(* Algorithms 20-28: the encodings, byte for byte.  HintBitPack for hint
   vectors of weight <= omega (signing encodes no other); HintBitUnpack on
   omega+k bytes: same accepted strings, same decoded vector; the decoders of
   the implementation model additionally refuse every other length (that is
   the Go code's length check; the standard types its input). *)
Theorem C10_fips_encodings : forall (X : bytes -> nat -> bytes) P, P = MLDSA44 \/ P = MLDSA65 \/ P = MLDSA87 ->
  (forall h, length h = p_k P -> Forall (fun p => length p = 256%nat) h -> (weight h <= p_omega P)%nat ->
     FIPS.HintBitPack (fips_of P) h = hintBitPack (p_omega P) h) /\
  (forall y, length y = (p_omega P + p_k P)%nat ->
     FIPS.HintBitUnpack (fips_of P) y = match hintBitUnpack (p_omega P) (p_k P) y with Ok h => Some h | _ => None end) /\
  (forall w1, length w1 = p_k P -> Forall (fun p => length p = 256%nat) w1 ->
     FIPS.w1Encode (fips_of P) w1 = w1Encode P w1) /\
  (forall rho t1, length rho = 32%nat -> length t1 = p_k P -> Forall (fun p => length p = 256%nat) t1 ->
     FIPS.pkEncode (fips_of P) rho t1 = pkEncodeRaw rho t1) /\
  (forall enc, length enc = publicKeyLength P ->
     pkDecode X P enc = Some (mkPK (fst (FIPS.pkDecode (fips_of P) enc)) (snd (FIPS.pkDecode (fips_of P) enc)) (X enc 64%nat))) /\
  (forall rho K tr s1 s2 t0, length rho = 32%nat -> length K = 32%nat -> length tr = 64%nat ->
     length s1 = p_l P -> length s2 = p_k P -> length t0 = p_k P ->
     sranges (- p_eta P) (p_eta P) s1 -> sranges (- p_eta P) (p_eta P) s2 -> sranges (-4095) 4096 t0 ->
     FIPS.skEncode (fips_of P) rho K tr s1 s2 t0 =
     skEncode P (mkSK rho K tr (map (map (fun x => x mod q)) s1) (map (map (fun x => x mod q)) s2)
                                (map (map (fun x => x mod q)) t0))) /\
  (forall enc, length enc = secretKeyLength P ->
     let '(rho, K, tr, s1, s2, t0) := FIPS.skDecode (fips_of P) enc in
     skDecode P enc = Some (mkSK rho K tr (map (map (fun x => x mod q)) s1) (map (map (fun x => x mod q)) s2)
                                          (map (map (fun x => x mod q)) t0))) /\
  (forall ct zs h, length ct = ctLen P -> length zs = p_l P -> sranges (- gamma1 P + 1) (gamma1 P) zs ->
     length h = p_k P -> Forall (fun p => length p = 256%nat) h -> (weight h <= p_omega P)%nat ->
     FIPS.sigEncode (fips_of P) ct zs h = sigEncode P ct (map (map (fun x => x mod q)) zs) h) /\
  (forall sigma, length sigma = signatureLength P ->
     sigDecode P sigma =
     match FIPS.sigDecode (fips_of P) sigma with
     | (ct, z, Some h) => Some (ct, map (map (fun x => x mod q)) z, h)
     | (_, _, None) => None
     end).
Proof.
  intros X P HP. pose proof (params_ok_facts P HP) as PF. pose proof (params_ok_ffacts P HP) as FF.
  split; [intros; apply HintBitPack_eq; auto; apply PF|].
  split; [intros; apply HintBitUnpack_eq; auto|].
  split; [intros; apply w1Encode_eq; auto|].
  split; [intros; apply pkEncode_eq; auto|].
  split; [intros; apply pkDecode_eq; auto|].
  split; [intros; apply (skEncode_eq P FF); auto|].
  split; [intros enc L; exact (skDecode_eq P FF enc L)|].
  split; [intros; apply (sigEncode_eq P FF PF); auto|].
  intros sigma L. apply (sigDecode_eq P FF PF sigma L).
Qed.
Print Assumptions C10_fips_encodings.

(* Algorithms 41-48: the standard's NTT / NTT^-1 (nested loops updating the
   array in place, zetas[m] = 1753^BitRev8(m) mod q computed, not tabulated)
   equal the model's transforms (which section 9 proves to be evaluation at
   the roots / interpolation), on the standard's SIGNED inputs through their
   residues; the NTT-domain arithmetic and the R_q vector arithmetic equal the
   model's *)
Theorem C10_fips_ntt :
  (forall m, (1 <= m <= 255)%nat -> FIPS.zetas m = zeta_at m) /\
  (forall w : list Z, length w = 256%nat -> FIPS.NTT w = ntt (map (fun x => x mod q) w)) /\
  (forall w : list Z, cpoly w -> FIPS.NTT_inv w = intt w) /\
  (forall a b, cpoly a -> cpoly b -> FIPS.AddNTT a b = padd a b /\ FIPS.MultiplyNTT a b = pmul a b) /\
  (forall n c v w, cpoly c -> cvec n v -> cvec n w ->
     FIPS.AddVectorNTT v w = vadd v w /\ FIPS.ScalarVectorNTT c v = vscalarMul c v /\
     FIPS.AddVector v w = vadd v w /\ FIPS.SubVector v w = vsub v w /\ FIPS.NegVector v = vneg v) /\
  (forall kk ll M v, cmat kk ll M -> cvec ll v -> FIPS.MatrixVectorNTT kk ll M v = mmul M v) /\
  (forall v B, 0 < B -> Forall (fun p => length p = 256%nat) v ->
     (FIPS.norm_vec v <? B) = (vinfNorm (map (map (fun x => x mod q)) v) <? B)).
Proof.
  split; [exact zetas_eq|]. split; [exact NTT_eq|]. split; [exact NTT_inv_eq|].
  split; [intros a b Ha Hb; exact (conj (AddNTT_eq a b Ha Hb) (MultiplyNTT_eq a b Ha Hb))|].
  split.
  - intros n c v w Hc Hv Hw. split; [|split; [|split; [|split]]].
    + unfold FIPS.AddVectorNTT, vadd. rewrite zip_with_map2.
      apply (map2_ext_F cpoly cpoly); [apply Hv | apply Hw | exact AddNTT_eq].
    + apply (ScalarVectorNTT_eq n); auto.
    + apply (AddVector_eq n); auto.
    + apply (SubVector_eq n); auto.
    + apply (NegVector_eq n); auto.
  - split; [exact MatrixVectorNTT_eq | exact norm_ltb].
Qed.
Print Assumptions C10_fips_ntt.

(* ML-DSA.Verify_internal (Algorithm 8), its external-mu entry, ML-DSA.Verify
   (Algorithm 3) and the Tink verifier of a key without output prefix: for
   every encoded public key of the right length (pk is what pkDecode returns
   for it) and every signature of signatureLength bytes the model's verifier
   returns exactly what the standard's algorithm returns — accept, reject, or
   "out of stream" when ExpandA / SampleInBall exceed the Squeeze bounds 672 /
   1024.  (Signatures of any other length are rejected by the model: that is
   the length check of the Go code, C10_verify_other_answers; the standard
   types sigma as a string of that length.)  Two notes of the third audit:
   (a) for |ctx| > 255 Algorithm 3 of FIPS 204 returns bot, an error distinct
   from false; FIPS.Verify (and the model, and the Go verifier, which reports
   an error in both cases) return "reject" = Some false there.  (b) "model =
   FIPS transcription" holds for ALL inputs including the None branches; the
   Go samplers loop without a bound where the model and the transcription
   return None beyond 672 / 1536 / 1024 Squeeze calls, so "Go = model" can
   fail only on a None branch, which needs more than 2016 bytes of SHAKE128
   output for 256 coefficients (probability < 2^-800 per polynomial) or more
   than 1536 / 1024 bytes of SHAKE256 for RejBoundedPoly / SampleInBall:
   reachable only with an XOF that is not SHAKE. *)
Theorem C10_fips_verify : forall (H G : bytes -> nat -> bytes) P,
  xof_laws H -> xof_laws G -> P = MLDSA44 \/ P = MLDSA65 \/ P = MLDSA87 ->
  (forall pkb pk mu sigma, pkDecode H P pkb = Some pk -> length sigma = signatureLength P ->
     verifyInternalWithMu G H P pk mu sigma = FIPS.Verify_mu H G (fips_of P) 672 1024 pkb mu sigma) /\
  (forall pkb pk Mp sigma, pkDecode H P pkb = Some pk -> length sigma = signatureLength P ->
     verifyInternal G H P pk Mp sigma = FIPS.Verify_internal H G (fips_of P) 672 1024 pkb Mp sigma) /\
  (forall pkb pk M sigma ctx, pkDecode H P pkb = Some pk -> length sigma = signatureLength P ->
     verify G H P pk M sigma ctx = FIPS.Verify H G (fips_of P) 672 1024 pkb M sigma ctx) /\
  (forall pkb sigma data, length pkb = publicKeyLength P -> length sigma = signatureLength P ->
     tinkVerify G H P [] pkb sigma data = FIPS.Verify H G (fips_of P) 672 1024 pkb data sigma []).
Proof.
  intros H G P HH HG HP.
  split; [exact (Verify_mu_eq H G HH HG P HP)|].
  split; [exact (Verify_internal_eq H G HH HG P HP)|].
  split; [exact (Verify_eq H G HH HG P HP) | exact (tinkVerify_eq H G HH HG P HP)].
Qed.
Print Assumptions C10_fips_verify.

(* ML-DSA.KeyGen_internal (Algorithm 6): the ENCODED key pair of the model is
   the standard's (pk, sk), byte for byte; None (out of stream) exactly when
   the standard's ExpandA / ExpandS exceed the Squeeze bounds 672 / 1536 *)
Theorem C10_fips_keygen : forall (H G : bytes -> nat -> bytes) P seed,
  xof_laws H -> xof_laws G -> P = MLDSA44 \/ P = MLDSA65 \/ P = MLDSA87 ->
  option_map (fun '(pk, sk) => (pkEncode pk, skEncode P sk)) (keyGenInternal G H P seed) =
  FIPS.KeyGen_internal H G (fips_of P) 672 1536 seed.
Proof. intros H G P seed HH HG HP. exact (KeyGen_internal_eq H G HH HG P HP seed). Qed.
Print Assumptions C10_fips_keygen.

(* ML-DSA.Sign_internal (Algorithm 7), its external-mu entry, ML-DSA.Sign
   (Algorithm 2) with the randomness rnd as an input (32 zero bytes =
   deterministic variant; anything else = hedged), and the Tink signer of a
   key without output prefix: for every encoded secret key the model accepts
   (sk is what skDecode returns for it), every message, context, rnd and
   every bound on the number of rounds of the rejection loop, the model
   returns exactly what the standard's algorithm returns — the same signature
   BYTES, or None when the loop does not end within the bound or ExpandA /
   SampleInBall exceed the Squeeze bounds 672 / 1024.  The proof follows every
   round: ExpandMask, w, w1, c~, c, z, r0, the two norm checks, the hint, its
   weight, and the encoding of z mod+- q. *)
Theorem C10_fips_sign : forall (H G : bytes -> nat -> bytes) P,
  xof_laws H -> xof_laws G -> P = MLDSA44 \/ P = MLDSA65 \/ P = MLDSA87 ->
  (forall skb sk rounds mu rnd, skDecode P skb = Some sk ->
     signInternalWithMu G H P rounds sk mu rnd = FIPS.Sign_mu H G (fips_of P) 672 1024 rounds skb mu rnd) /\
  (forall skb sk rounds Mp rnd, skDecode P skb = Some sk ->
     signInternal G H P rounds sk Mp rnd = FIPS.Sign_internal H G (fips_of P) 672 1024 rounds skb Mp rnd) /\
  (forall skb sk rounds M ctx rnd, skDecode P skb = Some sk ->
     sign G H P rounds sk M ctx rnd = FIPS.Sign H G (fips_of P) 672 1024 rounds skb M ctx rnd) /\
  (forall skb rounds data rnd, length skb = secretKeyLength P ->
     tinkSign G H P rounds [] skb data rnd =
     FIPS.Sign_internal H G (fips_of P) 672 1024 rounds skb (FIPS.format_message data []) rnd) /\
  (forall Ah s1h s2h t0h mu rhopp rounds kappa,
     cmat (p_k P) (p_l P) Ah -> cvec (p_l P) s1h -> cvec (p_k P) s2h -> cvec (p_k P) t0h ->
     signLoop H P rounds Ah s1h s2h t0h mu rhopp kappa =
     FIPS.Sign_loop H (fips_of P) 1024 rounds Ah s1h s2h t0h mu rhopp kappa).
Proof.
  intros H G P HH HG HP.
  split; [intros skb sk rounds mu rnd D; exact (proj1 (Sign_mu_eq H G HH HG P HP skb sk rounds mu rnd D))|].
  split; [exact (Sign_internal_eq H G HH HG P HP)|].
  split; [exact (Sign_eq H G HH HG P HP)|].
  split; [exact (tinkSign_eq H G HH HG P HP)|].
  intros Ah s1h s2h t0h mu rhopp rounds kappa HA H1 H2 H3.
  exact (Sign_loop_eq H HH P HP Ah s1h s2h t0h mu rhopp HA H1 H2 H3 rounds kappa).
Qed.
Print Assumptions C10_fips_sign.

(* "given enough stream", exactly: the Squeeze bounds only cut the unbounded
   rejection loops of Algorithms 29-31 off; a result obtained within a bound is
   the result for every larger bound.  So the equalities above say: the model
   computes what the standard's unbounded algorithms compute whenever those
   need at most 672 / 1536 / 1024 Squeeze calls, and reports out-of-stream
   otherwise. *)
Theorem C10_fips_bounds_monotone : forall (X : bytes -> nat -> bytes) P b b', (b <= b')%nat ->
  (forall rho p, FIPS.RejNTTPoly X b rho = Some p -> FIPS.RejNTTPoly X b' rho = Some p) /\
  (forall rho p, FIPS.RejBoundedPoly X P b rho = Some p -> FIPS.RejBoundedPoly X P b' rho = Some p) /\
  (forall rho c, FIPS.SampleInBall X P b rho = Some c -> FIPS.SampleInBall X P b' rho = Some c).
Proof.
  intros X P b b' Hb.
  split; [intros rho p; exact (RejNTTPoly_mono X b b' rho p Hb)|].
  split; [intros rho p; exact (RejBoundedPoly_mono X P b b' rho p Hb) | intros rho c; exact (SampleInBall_mono X P b b' rho c Hb)].
Qed.
Print Assumptions C10_fips_bounds_monotone.

(* the XOF laws are satisfiable (a toy XOF whose output for a message is a
   prefix of one stream per message), and with it the standard's
   KeyGen_internal, Sign and Verify return values, so the equalities are not
   about None = None only: key pair of 1312 / 2560 bytes, a 2420-byte
   signature, accepted; a changed c~ byte rejected (evaluated on the model and
   transported by the equality theorems) *)
Example C10_fips_inhabited :
  xof_laws lx_shake256 /\ xof_laws ex_shake128 /\
  FIPS.KeyGen_internal lx_shake256 ex_shake128 FIPS.ML_DSA_44 672 1536 [] = Some (lx_pkb, lx_skb) /\
  length lx_pkb = 1312%nat /\ length lx_skb = 2560%nat /\
  FIPS.Sign lx_shake256 ex_shake128 FIPS.ML_DSA_44 672 1024 1 lx_skb [] [] [] = Some (Some lx_sig) /\
  length lx_sig = 2420%nat /\
  FIPS.Verify lx_shake256 ex_shake128 FIPS.ML_DSA_44 672 1024 lx_pkb [] lx_sig [] = Some true /\
  FIPS.Verify lx_shake256 ex_shake128 FIPS.ML_DSA_44 672 1024 lx_pkb [] (1%N :: tl lx_sig) [] = Some false.
Proof. exact ex_fips_inhabited. Qed.
