(* C06 — hybrid encryption round-trips, binds context info, follows RFC 9180 / ECIES.
   Statements only; proofs live in proofs/HpkeProofs.v and proofs/EciesProofs.v.
   The models are model/Hpke.v, model/Xwing.v (HPKE base mode, single shot, all
   of Tink's KEM x KDF x AEAD suites and prefix variants) and model/Ecies.v
   (ECIES-AEAD-HKDF, NIST curves x hashes x point formats x DEMs).  The stdlib
   primitives are universally quantified functions; what is assumed about them
   is exactly the two law bundles below. *)
From Coq Require Import List NArith Bool.
From Tink Require Import Bytes Xwing Hpke Ecies HpkeProofs EciesProofs.
Import ListNotations.
Open Scope N_scope.

(* ---- laws of the stdlib primitives used by the HPKE theorems ---- *)
Definition hpke_laws
    (expand : hash -> bytes -> bytes -> nat -> bytes)
    (dh : kem -> bytes -> bytes -> option bytes) (dh_pub : kem -> bytes -> option bytes)
    (mlkem_decap : kem -> bytes -> bytes -> option bytes)
    (mlkem_encap : kem -> bytes -> bytes -> option (bytes * bytes))
    (mlkem_pub : kem -> bytes -> option bytes)
    (seal : aead -> bytes -> bytes -> bytes -> bytes -> bytes)
    (open : aead -> bytes -> bytes -> bytes -> bytes -> option bytes) : Prop :=
  (* HKDF-Expand returns as many bytes as asked *)
  (forall h prk info n, length (expand h prk info n) = n) /\
  (* Diffie-Hellman commutes on genuine public keys *)
  (forall k a b A B, is_dhkem k = true ->
     dh_pub k a = Some A -> dh_pub k b = Some B -> dh k a B = dh k b A) /\
  (* accepted private keys and their public keys have the lengths of the group *)
  (forall k sk p, is_dhkem k = true -> dh_pub k sk = Some p -> length p = n_pk k /\ length sk = n_sk k) /\
  (* ML-KEM: decapsulation inverts encapsulation; sizes *)
  (forall k seed pk coins ss ct, is_mlkem k = true ->
     mlkem_pub k seed = Some pk -> mlkem_encap k pk coins = Some (ss, ct) ->
     mlkem_decap k seed ct = Some ss /\ length ct = n_enc k) /\
  (forall k seed pk, is_mlkem k = true -> mlkem_pub k seed = Some pk -> length pk = n_pk k /\ length seed = 64%nat) /\
  (* AEAD: Open inverts Seal and accepts nothing else *)
  (forall a k n ad p, open a k n ad (seal a k n ad p) = Some p) /\
  (forall a k n ad c p, open a k n ad c = Some p -> c = seal a k n ad p).

Ltac use_hpke_laws HL :=
  destruct HL as (L1 & L2 & L3 & L4 & L5 & L6 & L7).

(* ================================================================== *)
(* HPKE                                                                *)
(* ================================================================== *)

(* Round trip, every suite, every prefix, every key pair, every ephemeral
   secret, every plaintext and info: whatever Encrypt produces for the public
   key of skR, Decrypt with skR and the same info returns the plaintext. *)
Theorem C06_hpke_round_trip :
  forall extract expand dh dh_pub mlkem_decap mlkem_encap mlkem_pub shake256 sha3_256 seal open,
  hpke_laws expand dh dh_pub mlkem_decap mlkem_encap mlkem_pub seal open ->
  forall k d a prefix skR pkR eph info pt c,
    public_from_private dh_pub mlkem_pub shake256 k skR = Ok pkR ->
    hpke_encrypt extract expand dh dh_pub mlkem_encap sha3_256 seal k d a prefix pkR eph info pt = Ok c ->
    hpke_decrypt extract expand dh dh_pub mlkem_decap shake256 sha3_256 open k d a prefix skR c info = Ok pt.
Proof. intros until open. intros HL. use_hpke_laws HL. intros. eapply hpke_round_trip; eassumption. Qed.
Print Assumptions C06_hpke_round_trip.

(* The KEM law behind it, derived (not assumed) for all seven KEMs: DHKEM from
   DH commutativity with the RFC 9180 ExtractAndExpand over enc || pkR, ML-KEM
   from its correctness, X-Wing from both and the combiner. *)
Theorem C06_kem_decap_inverts_encap :
  forall extract expand dh dh_pub mlkem_decap mlkem_encap mlkem_pub shake256 sha3_256 seal open,
  hpke_laws expand dh dh_pub mlkem_decap mlkem_encap mlkem_pub seal open ->
  forall k skR pkR eph ss enc,
    public_from_private dh_pub mlkem_pub shake256 k skR = Ok pkR ->
    encap extract expand dh dh_pub mlkem_encap sha3_256 k pkR eph = Ok (ss, enc) ->
    decap extract expand dh dh_pub mlkem_decap shake256 sha3_256 k enc skR = Ok ss /\
    length enc = n_enc k /\ length skR = n_sk k.
Proof. intros until open. intros HL. use_hpke_laws HL. intros. eapply kem_law; eassumption. Qed.
Print Assumptions C06_kem_decap_inverts_encap.

(* Exact acceptance: Decrypt returns p exactly for the strings
   prefix || enc || Seal(key, base_nonce, "", p) with |enc| = Nenc and
   (key, base_nonce) the key schedule of Decap(enc, sk) and info.  In
   particular anything shorter than |prefix| + Nenc is rejected. *)
Theorem C06_hpke_decrypt_accepts_exactly :
  forall extract expand dh dh_pub mlkem_decap mlkem_encap mlkem_pub shake256 sha3_256 seal open,
  hpke_laws expand dh dh_pub mlkem_decap mlkem_encap mlkem_pub seal open ->
  forall k d a prefix skR c info p, length skR <> 0%nat ->
    (hpke_decrypt extract expand dh dh_pub mlkem_decap shake256 sha3_256 open k d a prefix skR c info = Ok p <->
     exists enc ss key bn,
       length enc = n_enc k /\
       decap extract expand dh dh_pub mlkem_decap shake256 sha3_256 k enc skR = Ok ss /\
       key_schedule extract expand k d a ss info = Ok (key, bn) /\
       c = prefix ++ enc ++ seal a key bn [] p).
Proof. intros until open. intros HL. use_hpke_laws HL. intros. eapply hpke_decrypt_iff; eassumption. Qed.
Print Assumptions C06_hpke_decrypt_accepts_exactly.

(* No Go slice expression of Decrypt is ever out of range: for every input of
   every length the outcome is Ok or Err, never Panic. *)
Theorem C06_hpke_decrypt_never_panics :
  forall extract expand dh dh_pub mlkem_decap mlkem_encap mlkem_pub shake256 sha3_256 seal open,
  hpke_laws expand dh dh_pub mlkem_decap mlkem_encap mlkem_pub seal open ->
  forall k d a prefix skR c info,
    hpke_decrypt extract expand dh dh_pub mlkem_decap shake256 sha3_256 open k d a prefix skR c info <> Panic.
Proof. intros until open. intros HL. use_hpke_laws HL. intros. eapply hpke_decrypt_never_panics; eassumption. Qed.
Print Assumptions C06_hpke_decrypt_never_panics.

(* ... and neither does Encrypt (X-Wing splits the public key only after its length check). *)
Theorem C06_hpke_encrypt_never_panics :
  forall extract expand dh dh_pub mlkem_decap mlkem_encap mlkem_pub (shake256 : bytes -> nat -> bytes) sha3_256 seal open,
  hpke_laws expand dh dh_pub mlkem_decap mlkem_encap mlkem_pub seal open ->
  forall k d a prefix pkR eph info pt,
    hpke_encrypt extract expand dh dh_pub mlkem_encap sha3_256 seal k d a prefix pkR eph info pt <> Panic.
Proof. intros until open. intros HL. use_hpke_laws HL. intros. eapply hpke_encrypt_never_panics; eassumption. Qed.
Print Assumptions C06_hpke_encrypt_never_panics.

(* The recipient can recompute the sender's ciphertext byte for byte from the
   encapsulated key it carries (this is what the correspondence run evaluates
   on Tink's ciphertexts). *)
Theorem C06_hpke_ciphertext_recomputable :
  forall extract expand dh dh_pub mlkem_decap mlkem_encap mlkem_pub shake256 sha3_256 seal open,
  hpke_laws expand dh dh_pub mlkem_decap mlkem_encap mlkem_pub seal open ->
  forall k d a prefix skR pkR eph info pt c,
    public_from_private dh_pub mlkem_pub shake256 k skR = Ok pkR ->
    hpke_encrypt extract expand dh dh_pub mlkem_encap sha3_256 seal k d a prefix pkR eph info pt = Ok c ->
    hpke_recompute extract expand dh dh_pub mlkem_decap shake256 sha3_256 seal k d a prefix skR c info pt = Ok c.
Proof. intros until open. intros HL. use_hpke_laws HL. intros. eapply hpke_recompute_eq; eassumption. Qed.
Print Assumptions C06_hpke_ciphertext_recomputable.

(* compute_nonce with sequence number 0 (single shot) is the base nonce *)
Theorem C06_nonce_of_first_message_is_base_nonce :
  forall bn, compute_nonce bn 0 = Ok bn.
Proof. exact compute_nonce_seq0. Qed.
Print Assumptions C06_nonce_of_first_message_is_base_nonce.

(* RFC 9180 Appendix A.1.1: the nonces of sequence numbers 1, 2, 4, 255, 256 for
   base_nonce 56d890e5accaaf011cff4b7d, evaluated in the model of computeNonce. *)
Example C06_rfc9180_a11_nonces :
  let bn := [86; 216; 144; 229; 172; 202; 175; 1; 28; 255; 75; 125] in
  compute_nonce bn 1 = Ok [86; 216; 144; 229; 172; 202; 175; 1; 28; 255; 75; 124] /\
  compute_nonce bn 2 = Ok [86; 216; 144; 229; 172; 202; 175; 1; 28; 255; 75; 127] /\
  compute_nonce bn 4 = Ok [86; 216; 144; 229; 172; 202; 175; 1; 28; 255; 75; 121] /\
  compute_nonce bn 255 = Ok [86; 216; 144; 229; 172; 202; 175; 1; 28; 255; 75; 130] /\
  compute_nonce bn 256 = Ok [86; 216; 144; 229; 172; 202; 175; 1; 28; 255; 74; 125] /\
  compute_nonce bn (2 ^ 96) = Err.
Proof. vm_compute. repeat split. Qed.

(* Suite ids: injective over all 7 x 3 x 3 supported suites (finite domain:
   the constructors of kem, kdf, aead), KEM ids injective, and the KEM-level
   and HPKE-level ids are never equal (domain separation of the two HKDF uses). *)
Theorem C06_suite_ids_injective :
  (forall k d a k' d' a', hpke_suite_id k d a = hpke_suite_id k' d' a' -> k = k' /\ d = d' /\ a = a') /\
  (forall k k', kem_suite_id k = kem_suite_id k' -> k = k') /\
  (forall k k' d a, kem_suite_id k <> hpke_suite_id k' d a).
Proof.
  split; [exact hpke_suite_id_inj|]. split; [exact kem_suite_id_inj|exact kem_hpke_suite_id_disjoint].
Qed.
Print Assumptions C06_suite_ids_injective.

(* labelInfo: fails exactly from 2^16 on; otherwise the first two bytes are the
   requested length, big endian, followed by "HPKE-v1" || suite || label || info *)
Theorem C06_label_info_length_field :
  forall label info suite len,
    (65536 <= N.of_nat len -> label_info label info suite len = Err) /\
    (forall b, label_info label info suite len = Ok b ->
       N.of_nat len < 65536 /\ be_val (firstn 2 b) = N.of_nat len /\
       b = be_bytes 2 (N.of_nat len) ++ s_hpke_v1 ++ suite ++ label ++ info).
Proof. intros. split; [apply label_info_err|apply label_info_ok]. Qed.
Print Assumptions C06_label_info_length_field.

(* ---- symbolic binding ----
   "Collision" = two different inputs with the same output, exhibited for
   HKDF-Extract, HKDF-Expand, AEAD Seal, or two different encapsulated keys
   with the same decapsulation.  (A hypothesis "no collisions exist" would be
   unsatisfiable together with the length law of Expand; so the theorems return
   the collision instead of assuming its absence.) *)

(* Change the encapsulated key and/or the info, leave the payload: Decrypt
   yields Err, or the tampered computation collides with the honest one. *)
Theorem C06_hpke_binding_enc_and_info :
  forall extract expand dh dh_pub mlkem_decap mlkem_encap mlkem_pub shake256 sha3_256 seal open,
  hpke_laws expand dh dh_pub mlkem_decap mlkem_encap mlkem_pub seal open ->
  forall k d a prefix skR pkR eph info pt c enc payload enc' info',
    public_from_private dh_pub mlkem_pub shake256 k skR = Ok pkR ->
    hpke_encrypt extract expand dh dh_pub mlkem_encap sha3_256 seal k d a prefix pkR eph info pt = Ok c ->
    c = prefix ++ enc ++ payload -> length enc = n_enc k -> length enc' = n_enc k ->
    (enc' <> enc \/ info' <> info) ->
    hpke_decrypt extract expand dh dh_pub mlkem_decap shake256 sha3_256 open k d a prefix skR
      (prefix ++ enc' ++ payload) info' = Err
    \/ extract_collision extract \/ expand_collision expand \/ seal_collision seal
    \/ decap_collision extract expand dh dh_pub mlkem_decap shake256 sha3_256 k skR.
Proof. intros until open. intros HL. use_hpke_laws HL. intros. eapply hpke_binding_enc_info_err; eassumption. Qed.
Print Assumptions C06_hpke_binding_enc_and_info.

(* For the Diffie-Hellman KEMs a decapsulation collision is itself an Expand
   collision (the KEM context enc || pkR goes into the labeled Expand). *)
Theorem C06_hpke_binding_enc_and_info_dhkem :
  forall extract expand dh dh_pub mlkem_decap mlkem_encap mlkem_pub shake256 sha3_256 seal open,
  hpke_laws expand dh dh_pub mlkem_decap mlkem_encap mlkem_pub seal open ->
  forall k d a prefix skR pkR eph info pt c enc payload enc' info' p',
    is_dhkem k = true ->
    public_from_private dh_pub mlkem_pub shake256 k skR = Ok pkR ->
    hpke_encrypt extract expand dh dh_pub mlkem_encap sha3_256 seal k d a prefix pkR eph info pt = Ok c ->
    c = prefix ++ enc ++ payload -> length enc = n_enc k -> length enc' = n_enc k ->
    (enc' <> enc \/ info' <> info) ->
    hpke_decrypt extract expand dh dh_pub mlkem_decap shake256 sha3_256 open k d a prefix skR
      (prefix ++ enc' ++ payload) info' = Ok p' ->
    extract_collision extract \/ expand_collision expand \/ seal_collision seal.
Proof. intros until open. intros HL. use_hpke_laws HL. intros. eapply hpke_binding_enc_info_dhkem; eassumption. Qed.
Print Assumptions C06_hpke_binding_enc_and_info_dhkem.

(* X-Wing: a decapsulation collision is a SHA3-256 collision of the combiner
   SHA3-256(ssM || ssX || ctX || pkX || label) or an ML-KEM-768 ciphertext
   collision (two ciphertexts with the same decapsulation under one key);
   ML-KEM / X25519 outputs are 32 bytes. *)
Theorem C06_xwing_decap_collision_is_sha3_or_mlkem_collision :
  forall extract expand dh dh_pub mlkem_decap shake256 sha3_256 skR,
    (forall seed ct ss, mlkem_decap MLKEM768 seed ct = Some ss -> length ss = 32%nat) ->
    (forall sk pk ss, dh X25519 sk pk = Some ss -> length ss = 32%nat) ->
    decap_collision extract expand dh dh_pub mlkem_decap shake256 sha3_256 XWING skR ->
    sha3_collision sha3_256 \/ mlkem_ct_collision mlkem_decap.
Proof. intros. eapply xwing_no_decap_collision; eassumption. Qed.
Print Assumptions C06_xwing_decap_collision_is_sha3_or_mlkem_collision.

(* Another private key (DHKEM: the recipient public key is in the KEM context).
   Partial: stated for the four Diffie-Hellman KEMs only; for ML-KEM / X-Wing the
   corresponding statement needs a key-binding property of ML-KEM itself. *)
Theorem C06_hpke_binding_other_private_key_partial :
  forall extract expand dh dh_pub mlkem_decap mlkem_encap mlkem_pub shake256 sha3_256 seal open,
  hpke_laws expand dh dh_pub mlkem_decap mlkem_encap mlkem_pub seal open ->
  forall k d a prefix skR pkR skR' pkR' eph info pt c p',
    is_dhkem k = true ->
    public_from_private dh_pub mlkem_pub shake256 k skR = Ok pkR ->
    public_from_private dh_pub mlkem_pub shake256 k skR' = Ok pkR' -> pkR' <> pkR ->
    hpke_encrypt extract expand dh dh_pub mlkem_encap sha3_256 seal k d a prefix pkR eph info pt = Ok c ->
    hpke_decrypt extract expand dh dh_pub mlkem_decap shake256 sha3_256 open k d a prefix skR' c info = Ok p' ->
    extract_collision extract \/ expand_collision expand \/ seal_collision seal.
Proof. intros until open. intros HL. use_hpke_laws HL. intros.
  eapply hpke_binding_other_key_dhkem with (skR := skR) (skR' := skR') (pkR := pkR) (pkR' := pkR'); eassumption.
Qed.
Print Assumptions C06_hpke_binding_other_private_key_partial.

(* Another prefix (other key id, other variant byte) of the same length: Err, unconditionally. *)
Theorem C06_hpke_binding_prefix :
  forall extract expand dh dh_pub mlkem_decap shake256 sha3_256 open k d a prefix skR prefix' rest info,
    length prefix' = length prefix -> prefix' <> prefix ->
    hpke_decrypt extract expand dh dh_pub mlkem_decap shake256 sha3_256 open k d a prefix skR (prefix' ++ rest) info = Err.
Proof. intros. apply hpke_binding_prefix; assumption. Qed.
Print Assumptions C06_hpke_binding_prefix.

(* A changed payload is accepted only if it is itself the Seal, under the very
   key and nonce of the honest ciphertext, of the different plaintext returned
   (producing such a string without the key is AEAD forgery: outside the symbolic model). *)
Theorem C06_hpke_binding_payload :
  forall extract expand dh dh_pub mlkem_decap mlkem_encap mlkem_pub shake256 sha3_256 seal open,
  hpke_laws expand dh dh_pub mlkem_decap mlkem_encap mlkem_pub seal open ->
  forall k d a prefix skR pkR eph info pt c enc payload payload' p',
    public_from_private dh_pub mlkem_pub shake256 k skR = Ok pkR ->
    hpke_encrypt extract expand dh dh_pub mlkem_encap sha3_256 seal k d a prefix pkR eph info pt = Ok c ->
    c = prefix ++ enc ++ payload -> length enc = n_enc k -> payload' <> payload ->
    hpke_decrypt extract expand dh dh_pub mlkem_decap shake256 sha3_256 open k d a prefix skR
      (prefix ++ enc ++ payload') info = Ok p' ->
    exists key bn, payload = seal a key bn [] pt /\ payload' = seal a key bn [] p' /\ p' <> pt.
Proof. intros until open. intros HL. use_hpke_laws HL. intros. eapply hpke_binding_payload; eassumption. Qed.
Print Assumptions C06_hpke_binding_payload.

(* Non-vacuity: the law bundle is satisfied by a toy instance (a "cipher" that
   writes key and nonce before the plaintext, a checksum "HKDF"), with which an
   X25519 / HKDF-SHA256 / AES-128-GCM TINK-prefixed encryption succeeds, decrypts,
   and is rejected under another info. *)
Example C06_hpke_nonvacuous :
  hpke_laws toy_expand toy_dh toy_dh_pub toy_mlkem_decap toy_mlkem_encap toy_mlkem_pub toy_seal toy_open /\
  let prefix := [1; 0; 0; 0; 42] in
  let skR := zeros 32 in
  match public_from_private toy_dh_pub toy_mlkem_pub toy_shake256 X25519 skR with
  | Ok pkR =>
    match hpke_encrypt toy_extract toy_expand toy_dh toy_dh_pub toy_mlkem_encap toy_sha3 toy_seal
            X25519 HKDF_SHA256 AES128GCM prefix pkR (zeros 32) [1; 2; 3] [10; 20] with
    | Ok c =>
      hpke_decrypt toy_extract toy_expand toy_dh toy_dh_pub toy_mlkem_decap toy_shake256 toy_sha3 toy_open
        X25519 HKDF_SHA256 AES128GCM prefix skR c [1; 2; 3] = Ok [10; 20] /\
      hpke_decrypt toy_extract toy_expand toy_dh toy_dh_pub toy_mlkem_decap toy_shake256 toy_sha3 toy_open
        X25519 HKDF_SHA256 AES128GCM prefix skR c [1; 2; 4] = Err
    | _ => False
    end
  | _ => False
  end.
Proof.
  split.
  - split; [exact toy_expand_len|]. split; [exact toy_dh_comm|]. split; [exact toy_dh_pub_len|].
    split; [exact toy_mlkem_correct|]. split; [exact toy_mlkem_pub_len|].
    split; [exact toy_open_seal|exact toy_open_sound].
  - vm_compute. split; reflexivity.
Qed.

(* ================================================================== *)
(* ECIES-AEAD-HKDF                                                     *)
(* ================================================================== *)
Definition ecies_laws
    (ec_dh : curve -> bytes -> bytes -> option bytes) (ec_pub : curve -> bytes -> option bytes)
    (ec_oncurve : curve -> bytes -> bytes -> bool) (ec_decompress : curve -> bytes -> option bytes)
    (hkdf : hash -> bytes -> bytes -> bytes -> nat -> bytes)
    (gcm_seal : bytes -> bytes -> bytes -> bytes -> bytes)
    (gcm_open : bytes -> bytes -> bytes -> bytes -> option bytes)
    (aes_ctr : bytes -> bytes -> bytes -> bytes) (hmac_sha256 : bytes -> bytes -> bytes)
    (siv_seal : bytes -> bytes -> bytes -> bytes) (siv_open : bytes -> bytes -> bytes -> option bytes) : Prop :=
  (* ECDH commutes on genuine public keys *)
  (forall c a b A B, ec_pub c a = Some A -> ec_pub c b = Some B -> ec_dh c a B = ec_dh c b A) /\
  (* a public key is 04 || X || Y, on the curve *)
  (forall c sk P, ec_pub c sk = Some P ->
     length P = (1 + 2 * field_size c)%nat /\ hd 0 P = 4 /\ ec_oncurve c (coord_x c P) (coord_y c P) = true) /\
  (* decompression recovers a point on the curve from X and the parity of Y *)
  (forall c x y, ec_oncurve c x y = true -> length x = field_size c -> length y = field_size c ->
     ec_decompress c ((if N.odd (last y 0) then 3 else 2) :: x) = Some (4 :: x ++ y)) /\
  (* HKDF returns as many bytes as asked *)
  (forall h ikm salt info n, length (hkdf h ikm salt info n) = n) /\
  (* the DEM primitives: Open inverts Seal and accepts nothing else; sizes; CTR is an involution *)
  (forall k iv ad p, gcm_open k iv ad (gcm_seal k iv ad p) = Some p) /\
  (forall k iv ad c p, gcm_open k iv ad c = Some p -> c = gcm_seal k iv ad p) /\
  (forall k iv ad p, length (gcm_seal k iv ad p) = (length p + 16)%nat) /\
  (forall k iv x, aes_ctr k iv (aes_ctr k iv x) = x) /\
  (forall k m, length (hmac_sha256 k m) = 32%nat) /\
  (forall k ad p, siv_open k ad (siv_seal k ad p) = Some p) /\
  (forall k ad c p, siv_open k ad c = Some p -> c = siv_seal k ad p).

Ltac use_ecies_laws HL :=
  destruct HL as (E1 & E2 & E3 & E4 & E5 & E6 & E7 & E8 & E9 & E10 & E11).

(* Round trip for every curve, hash, point format, DEM (AES-GCM, AES-SIV,
   AES-CTR-HMAC), salt, prefix, key pair, ephemeral scalar, DEM IV of the DEM's
   IV length, plaintext and info. *)
Theorem C06_ecies_round_trip :
  forall ec_dh ec_pub ec_oncurve ec_decompress hkdf gcm_seal gcm_open aes_ctr hmac_sha256 siv_seal siv_open,
  ecies_laws ec_dh ec_pub ec_oncurve ec_decompress hkdf gcm_seal gcm_open aes_ctr hmac_sha256 siv_seal siv_open ->
  forall c h f d salt prefix skR pkR eph iv info pt ct,
    ec_pub c skR = Some pkR -> length iv = dem_iv_size d ->
    ecies_encrypt ec_dh ec_pub ec_oncurve hkdf gcm_seal aes_ctr hmac_sha256 siv_seal
      c h f d salt prefix pkR eph iv info pt = Ok ct ->
    ecies_decrypt ec_dh ec_oncurve ec_decompress hkdf gcm_open aes_ctr hmac_sha256 siv_open
      c h f d salt prefix skR ct info = Ok pt.
Proof. intros until siv_open. intros HL. use_ecies_laws HL. intros. eapply ecies_round_trip; eassumption. Qed.
Print Assumptions C06_ecies_round_trip.

(* Encoding then decoding a public point gives the point back, in all three formats. *)
Theorem C06_ecies_point_formats_round_trip :
  forall ec_dh ec_pub ec_oncurve ec_decompress hkdf gcm_seal gcm_open aes_ctr hmac_sha256 siv_seal siv_open,
  ecies_laws ec_dh ec_pub ec_oncurve ec_decompress hkdf gcm_seal gcm_open aes_ctr hmac_sha256 siv_seal siv_open ->
  forall c f sk P e, ec_pub c sk = Some P ->
    point_encode ec_oncurve c f P = Ok e ->
    point_decode ec_oncurve ec_decompress c f e = Ok P /\ encoding_size c f = Ok (length e).
Proof.
  intros until siv_open. intros HL. use_ecies_laws HL. intros c f sk P e Hp He.
  destruct (E2 _ _ _ Hp) as (L & H4 & _).
  split; [exact (point_decode_encode _ _ E3 _ _ _ _ L H4 He)|exact (point_encode_length _ _ E3 _ _ _ _ He L H4)].
Qed.
Print Assumptions C06_ecies_point_formats_round_trip.

(* Exact acceptance: Decrypt returns p exactly for prefix || kem || DEM-frame(key, iv, p)
   with kem of the format's size, key the HKDF of (kem || dh, salt, info) and an
   IV of the DEM's IV size; anything shorter than prefix + header is rejected. *)
Theorem C06_ecies_decrypt_accepts_exactly :
  forall ec_dh ec_pub ec_oncurve ec_decompress hkdf gcm_seal gcm_open aes_ctr hmac_sha256 siv_seal siv_open,
  ecies_laws ec_dh ec_pub ec_oncurve ec_decompress hkdf gcm_seal gcm_open aes_ctr hmac_sha256 siv_seal siv_open ->
  forall c h f d salt prefix skR ct info p, primitive_supported c f d = true ->
    (ecies_decrypt ec_dh ec_oncurve ec_decompress hkdf gcm_open aes_ctr hmac_sha256 siv_open
       c h f d salt prefix skR ct info = Ok p <->
     exists kem key iv, encoding_size c f = Ok (length kem) /\
       ecies_decapsulate ec_dh ec_oncurve ec_decompress hkdf c h f salt info (dem_key_size d) skR kem = Ok key /\
       length iv = dem_iv_size d /\
       ct = prefix ++ kem ++ dem_frame gcm_seal aes_ctr hmac_sha256 siv_seal d key iv p).
Proof. intros until siv_open. intros HL. use_ecies_laws HL. intros. eapply ecies_decrypt_iff; eassumption. Qed.
Print Assumptions C06_ecies_decrypt_accepts_exactly.

(* Symbolic binding: change the KEM bytes and/or the info, leave the DEM
   ciphertext: acceptance exhibits an HKDF collision, or one DEM ciphertext valid
   under two different DEM keys. *)
Theorem C06_ecies_binding_kem_and_info :
  forall ec_dh ec_pub ec_oncurve ec_decompress hkdf gcm_seal gcm_open aes_ctr hmac_sha256 siv_seal siv_open,
  ecies_laws ec_dh ec_pub ec_oncurve ec_decompress hkdf gcm_seal gcm_open aes_ctr hmac_sha256 siv_seal siv_open ->
  forall c h f d salt prefix skR pkR eph iv info pt ct kem body kem' info' p',
    ec_pub c skR = Some pkR ->
    ecies_encrypt ec_dh ec_pub ec_oncurve hkdf gcm_seal aes_ctr hmac_sha256 siv_seal
      c h f d salt prefix pkR eph iv info pt = Ok ct ->
    ct = prefix ++ kem ++ body -> encoding_size c f = Ok (length kem) -> length kem' = length kem ->
    (kem' <> kem \/ info' <> info) ->
    ecies_decrypt ec_dh ec_oncurve ec_decompress hkdf gcm_open aes_ctr hmac_sha256 siv_open
      c h f d salt prefix skR (prefix ++ kem' ++ body) info' = Ok p' ->
    hkdf_collision hkdf \/ dem_key_collision gcm_seal aes_ctr hmac_sha256 siv_seal.
Proof. intros until siv_open. intros HL. use_ecies_laws HL. intros. eapply ecies_binding_kem_info; eassumption. Qed.
Print Assumptions C06_ecies_binding_kem_and_info.

(* The recipient recomputes the sender's ciphertext byte for byte from the KEM
   bytes and DEM IV it carries (what the correspondence evaluates on Tink's output). *)
Theorem C06_ecies_ciphertext_recomputable :
  forall ec_dh ec_pub ec_oncurve ec_decompress hkdf gcm_seal gcm_open aes_ctr hmac_sha256 siv_seal siv_open,
  ecies_laws ec_dh ec_pub ec_oncurve ec_decompress hkdf gcm_seal gcm_open aes_ctr hmac_sha256 siv_seal siv_open ->
  forall c h f d salt prefix skR pkR eph iv info pt ct,
    ec_pub c skR = Some pkR -> length iv = dem_iv_size d ->
    ecies_encrypt ec_dh ec_pub ec_oncurve hkdf gcm_seal aes_ctr hmac_sha256 siv_seal
      c h f d salt prefix pkR eph iv info pt = Ok ct ->
    ecies_recompute ec_dh ec_oncurve ec_decompress hkdf gcm_seal aes_ctr hmac_sha256 siv_seal
      c h f d salt prefix skR ct info pt = Ok ct.
Proof. intros until siv_open. intros HL. use_ecies_laws HL. intros. eapply ecies_recompute_eq; eassumption. Qed.
Print Assumptions C06_ecies_ciphertext_recomputable.

(* Never Panic, for every ciphertext of every length (no law needed). *)
Theorem C06_ecies_decrypt_never_panics :
  forall ec_dh ec_oncurve ec_decompress hkdf gcm_open aes_ctr hmac_sha256 siv_open
         c h f d salt prefix skR ct info,
    ecies_decrypt ec_dh ec_oncurve ec_decompress hkdf gcm_open aes_ctr hmac_sha256 siv_open
      c h f d salt prefix skR ct info <> Panic.
Proof. intros. apply ecies_decrypt_never_panics. Qed.
Print Assumptions C06_ecies_decrypt_never_panics.

Theorem C06_ecies_binding_prefix :
  forall ec_dh ec_oncurve ec_decompress hkdf gcm_open aes_ctr hmac_sha256 siv_open
         c h f d salt prefix skR prefix' rest info,
    length prefix' = length prefix -> prefix' <> prefix ->
    ecies_decrypt ec_dh ec_oncurve ec_decompress hkdf gcm_open aes_ctr hmac_sha256 siv_open
      c h f d salt prefix skR (prefix' ++ rest) info = Err.
Proof. intros. apply ecies_binding_prefix; assumption. Qed.
Print Assumptions C06_ecies_binding_prefix.

Example C06_ecies_nonvacuous :
  ecies_laws toy_ec_dh toy_ec_pub toy_ec_oncurve toy_ec_decompress toy_hkdf toy_gcm_seal toy_gcm_open
    toy_aes_ctr toy_hmac toy_siv_seal toy_siv_open /\
  let skR := zeros 32 in
  let iv := zeros 12 in
  match toy_ec_pub NIST_P256 skR with
  | Some pkR =>
    match ecies_encrypt toy_ec_dh toy_ec_pub toy_ec_oncurve toy_hkdf toy_gcm_seal toy_aes_ctr toy_hmac toy_siv_seal
            NIST_P256 SHA256 COMPRESSED AES128_GCM [5] [0; 0; 0; 0; 7] pkR (zeros 32) iv [1; 2; 3] [10; 20] with
    | Ok ct =>
      ecies_decrypt toy_ec_dh toy_ec_oncurve toy_ec_decompress toy_hkdf toy_gcm_open toy_aes_ctr toy_hmac toy_siv_open
        NIST_P256 SHA256 COMPRESSED AES128_GCM [5] [0; 0; 0; 0; 7] skR ct [1; 2; 3] = Ok [10; 20] /\
      ecies_decrypt toy_ec_dh toy_ec_oncurve toy_ec_decompress toy_hkdf toy_gcm_open toy_aes_ctr toy_hmac toy_siv_open
        NIST_P256 SHA256 COMPRESSED AES128_GCM [5] [0; 0; 0; 0; 7] skR ct [1; 2; 4] = Err
    | _ => False
    end
  | None => False
  end.
Proof.
  split.
  - split; [exact toy_ec_dh_comm|]. split; [exact toy_ec_pub_shape|]. split; [exact toy_ec_decompress_compress|].
    split; [exact toy_hkdf_len|].
    split; [exact toy_gcm_open_seal|]. split; [exact toy_gcm_open_sound|]. split; [exact toy_gcm_seal_len|].
    split; [exact toy_aes_ctr_involutive|]. split; [exact toy_hmac_len|].
    split; [exact toy_siv_open_seal|exact toy_siv_open_sound].
  - vm_compute. split; reflexivity.
Qed.
