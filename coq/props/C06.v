(* C06 — hybrid encryption round-trips, binds context info, follows RFC 9180 / ECIES.
   Statements only; proofs live in proofs/HpkeProofs.v and proofs/EciesProofs.v.
   The models are model/Hpke.v, model/Xwing.v (HPKE base mode, single shot, all
   of Tink's KEM x KDF x AEAD suites and prefix variants) and model/Ecies.v
   (ECIES-AEAD-HKDF, NIST curves x hashes x point formats x DEMs).  The stdlib
   primitives are universally quantified functions; what is assumed about them
   is exactly the two law bundles below. *)
From Coq Require Import String List NArith Bool Arith.
From Tink Require Import Bytes Xwing Hpke Ecies HpkeProofs EciesProofs HpkeBinding EciesBinding HpkeRfc HpkeRfcProofs.
Import ListNotations.
Open Scope N_scope.

(* ---- laws of the stdlib primitives used by the HPKE theorems ---- *)
Definition hpke_laws
    (expand : hash -> bytes -> bytes -> nat -> bytes)
    (dh : kem -> bytes -> bytes -> option bytes) (dh_pub : kem -> bytes -> option bytes)
    (mlkem_decap : kem -> bytes -> bytes -> option bytes)
    (mlkem_encap : kem -> bytes -> bytes -> option (bytes * bytes))
    (mlkem_pub : kem -> bytes -> option bytes)
    (seal : aead -> bytes -> bytes -> bytes -> bytes -> bytes)
    (open : aead -> bytes -> bytes -> bytes -> bytes -> option bytes) : Prop :=
  (* HKDF-Expand returns as many bytes as asked *)
  (forall h prk info n, length (expand h prk info n) = n) /\
  (* Diffie-Hellman commutes on genuine public keys *)
  (forall k a b A B, is_dhkem k = true ->
     dh_pub k a = Some A -> dh_pub k b = Some B -> dh k a B = dh k b A) /\
  (* accepted private keys and their public keys have the lengths of the group *)
  (forall k sk p, is_dhkem k = true -> dh_pub k sk = Some p -> length p = n_pk k /\ length sk = n_sk k) /\
  (* ML-KEM: decapsulation inverts encapsulation; sizes *)
  (forall k seed pk coins ss ct, is_mlkem k = true ->
     mlkem_pub k seed = Some pk -> mlkem_encap k pk coins = Some (ss, ct) ->
     mlkem_decap k seed ct = Some ss /\ length ct = n_enc k) /\
  (forall k seed pk, is_mlkem k = true -> mlkem_pub k seed = Some pk -> length pk = n_pk k /\ length seed = 64%nat) /\
  (* AEAD: Open inverts Seal and accepts nothing else *)
  (forall a k n ad p, open a k n ad (seal a k n ad p) = Some p) /\
  (forall a k n ad c p, open a k n ad c = Some p -> c = seal a k n ad p).

Ltac use_hpke_laws HL :=
  destruct HL as (L1 & L2 & L3 & L4 & L5 & L6 & L7).

(* ================================================================== *)
(* HPKE                                                                *)
(* ================================================================== *)

(* Round trip, every suite, every prefix, every key pair, every ephemeral
   secret, every plaintext and info: whatever Encrypt produces for the public
   key of skR, Decrypt with skR and the same info returns the plaintext. *)
Theorem C06_hpke_round_trip :
  forall extract expand dh dh_pub mlkem_decap mlkem_encap mlkem_pub shake256 sha3_256 seal open,
  hpke_laws expand dh dh_pub mlkem_decap mlkem_encap mlkem_pub seal open ->
  forall k d a prefix skR pkR eph info pt c,
    public_from_private dh_pub mlkem_pub shake256 k skR = Ok pkR ->
    hpke_encrypt extract expand dh dh_pub mlkem_encap sha3_256 seal k d a prefix pkR eph info pt = Ok c ->
    hpke_decrypt extract expand dh dh_pub mlkem_decap shake256 sha3_256 open k d a prefix skR c info = Ok pt.
Proof. intros until open. intros HL. use_hpke_laws HL. intros. eapply hpke_round_trip; eassumption. Qed.
Print Assumptions C06_hpke_round_trip.

(* The KEM law behind it, derived (not assumed) for all seven KEMs: DHKEM from
   DH commutativity with the RFC 9180 ExtractAndExpand over enc || pkR, ML-KEM
   from its correctness, X-Wing from both and the combiner. *)
Theorem C06_kem_decap_inverts_encap :
  forall extract expand dh dh_pub mlkem_decap mlkem_encap mlkem_pub shake256 sha3_256 seal open,
  hpke_laws expand dh dh_pub mlkem_decap mlkem_encap mlkem_pub seal open ->
  forall k skR pkR eph ss enc,
    public_from_private dh_pub mlkem_pub shake256 k skR = Ok pkR ->
    encap extract expand dh dh_pub mlkem_encap sha3_256 k pkR eph = Ok (ss, enc) ->
    decap extract expand dh dh_pub mlkem_decap shake256 sha3_256 k enc skR = Ok ss /\
    length enc = n_enc k /\ length skR = n_sk k.
Proof. intros until open. intros HL. use_hpke_laws HL. intros. eapply kem_law; eassumption. Qed.
Print Assumptions C06_kem_decap_inverts_encap.

(* Exact acceptance: Decrypt returns p exactly for the strings
   prefix || enc || Seal(key, base_nonce, "", p) with |enc| = Nenc and
   (key, base_nonce) the key schedule of Decap(enc, sk) and info.  In
   particular anything shorter than |prefix| + Nenc is rejected. *)
Theorem C06_hpke_decrypt_accepts_exactly :
  forall extract expand dh dh_pub mlkem_decap mlkem_encap mlkem_pub shake256 sha3_256 seal open,
  hpke_laws expand dh dh_pub mlkem_decap mlkem_encap mlkem_pub seal open ->
  forall k d a prefix skR c info p, length skR <> 0%nat ->
    (hpke_decrypt extract expand dh dh_pub mlkem_decap shake256 sha3_256 open k d a prefix skR c info = Ok p <->
     exists enc ss key bn,
       length enc = n_enc k /\
       decap extract expand dh dh_pub mlkem_decap shake256 sha3_256 k enc skR = Ok ss /\
       key_schedule extract expand k d a ss info = Ok (key, bn) /\
       c = prefix ++ enc ++ seal a key bn [] p).
Proof. intros until open. intros HL. use_hpke_laws HL. intros. eapply hpke_decrypt_iff; eassumption. Qed.
Print Assumptions C06_hpke_decrypt_accepts_exactly.

(* No Go slice expression of Decrypt is ever out of range: for every input of
   every length the outcome is Ok or Err, never Panic. *)
Theorem C06_hpke_decrypt_never_panics :
  forall extract expand dh dh_pub mlkem_decap mlkem_encap mlkem_pub shake256 sha3_256 seal open,
  hpke_laws expand dh dh_pub mlkem_decap mlkem_encap mlkem_pub seal open ->
  forall k d a prefix skR c info,
    hpke_decrypt extract expand dh dh_pub mlkem_decap shake256 sha3_256 open k d a prefix skR c info <> Panic.
Proof. intros until open. intros HL. use_hpke_laws HL. intros. eapply hpke_decrypt_never_panics; eassumption. Qed.
Print Assumptions C06_hpke_decrypt_never_panics.

(* ... and neither does Encrypt (X-Wing splits the public key only after its length check). *)
Theorem C06_hpke_encrypt_never_panics :
  forall extract expand dh dh_pub mlkem_decap mlkem_encap mlkem_pub (shake256 : bytes -> nat -> bytes) sha3_256 seal open,
  hpke_laws expand dh dh_pub mlkem_decap mlkem_encap mlkem_pub seal open ->
  forall k d a prefix pkR eph info pt,
    hpke_encrypt extract expand dh dh_pub mlkem_encap sha3_256 seal k d a prefix pkR eph info pt <> Panic.
Proof. intros until open. intros HL. use_hpke_laws HL. intros. eapply hpke_encrypt_never_panics; eassumption. Qed.
Print Assumptions C06_hpke_encrypt_never_panics.

(* The recipient can recompute the sender's ciphertext byte for byte from the
   encapsulated key it carries (this is what the correspondence run evaluates
   on Tink's ciphertexts). *)
Theorem C06_hpke_ciphertext_recomputable :
  forall extract expand dh dh_pub mlkem_decap mlkem_encap mlkem_pub shake256 sha3_256 seal open,
  hpke_laws expand dh dh_pub mlkem_decap mlkem_encap mlkem_pub seal open ->
  forall k d a prefix skR pkR eph info pt c,
    public_from_private dh_pub mlkem_pub shake256 k skR = Ok pkR ->
    hpke_encrypt extract expand dh dh_pub mlkem_encap sha3_256 seal k d a prefix pkR eph info pt = Ok c ->
    hpke_recompute extract expand dh dh_pub mlkem_decap shake256 sha3_256 seal k d a prefix skR c info pt = Ok c.
Proof. intros until open. intros HL. use_hpke_laws HL. intros. eapply hpke_recompute_eq; eassumption. Qed.
Print Assumptions C06_hpke_ciphertext_recomputable.

(* compute_nonce with sequence number 0 (single shot) is the base nonce *)
Theorem C06_nonce_of_first_message_is_base_nonce :
  forall bn, compute_nonce bn 0 = Ok bn.
Proof. exact compute_nonce_seq0. Qed.
Print Assumptions C06_nonce_of_first_message_is_base_nonce.

(* RFC 9180 Appendix A.1.1: the nonces of sequence numbers 1, 2, 4, 255, 256 for
   base_nonce 56d890e5accaaf011cff4b7d, evaluated in the model of computeNonce. *)
Example C06_rfc9180_a11_nonces :
  let bn := [86; 216; 144; 229; 172; 202; 175; 1; 28; 255; 75; 125] in
  compute_nonce bn 1 = Ok [86; 216; 144; 229; 172; 202; 175; 1; 28; 255; 75; 124] /\
  compute_nonce bn 2 = Ok [86; 216; 144; 229; 172; 202; 175; 1; 28; 255; 75; 127] /\
  compute_nonce bn 4 = Ok [86; 216; 144; 229; 172; 202; 175; 1; 28; 255; 75; 121] /\
  compute_nonce bn 255 = Ok [86; 216; 144; 229; 172; 202; 175; 1; 28; 255; 75; 130] /\
  compute_nonce bn 256 = Ok [86; 216; 144; 229; 172; 202; 175; 1; 28; 255; 74; 125] /\
  compute_nonce bn (2 ^ 96) = Err.
Proof. vm_compute. repeat split. Qed.

(* Suite ids: injective over all 7 x 3 x 3 supported suites (finite domain:
   the constructors of kem, kdf, aead), KEM ids injective, and the KEM-level
   and HPKE-level ids are never equal (domain separation of the two HKDF uses). *)
Theorem C06_suite_ids_injective :
  (forall k d a k' d' a', hpke_suite_id k d a = hpke_suite_id k' d' a' -> k = k' /\ d = d' /\ a = a') /\
  (forall k k', kem_suite_id k = kem_suite_id k' -> k = k') /\
  (forall k k' d a, kem_suite_id k <> hpke_suite_id k' d a).
Proof.
  split; [exact hpke_suite_id_inj|]. split; [exact kem_suite_id_inj|exact kem_hpke_suite_id_disjoint].
Qed.
Print Assumptions C06_suite_ids_injective.

(* labelInfo: fails exactly from 2^16 on; otherwise the first two bytes are the
   requested length, big endian, followed by "HPKE-v1" || suite || label || info *)
Theorem C06_label_info_length_field :
  forall label info suite len,
    (65536 <= N.of_nat len -> label_info label info suite len = Err) /\
    (forall b, label_info label info suite len = Ok b ->
       N.of_nat len < 65536 /\ be_val (firstn 2 b) = N.of_nat len /\
       b = be_bytes 2 (N.of_nat len) ++ s_hpke_v1 ++ suite ++ label ++ info).
Proof. intros. split; [apply label_info_err|apply label_info_ok]. Qed.
Print Assumptions C06_label_info_length_field.

(* ---- symbolic binding, explicit form ----
   (An earlier version of these theorems concluded "... \/ expand_collision expand"
   with the output length of the collision existentially quantified: n = 0 makes
   that disjunct provable outright - see C06_old_collision_predicates_hold_outright
   at the end of this section - and even for n > 0 the bare existence of a
   collision of a function with 256^n outputs is a fact of counting.  The
   statements below therefore never say "a collision exists"; they say which
   calls of THIS run coincide.)

   Events (proofs/HpkeBinding.v), each an equation between two calls of one
   primitive on stated, different inputs:
     seal_clash a key bn p key' bn' p'     (key, bn) <> (key', bn')  and  Seal(key, bn, "", p) = Seal(key', bn', "", p')
     expand_clash h prk i prk' i' n        0 < n, (prk, i) <> (prk', i')  and  Expand(prk, i, n) = Expand(prk', i', n)
     extract_clash h x s x' s'             (x, s) <> (x', s')  and  Extract(ikm = x, salt = s) = Extract(x', s')
     ks_clash k d a ss info ss' info'      the key schedules of (ss, info) and (ss', info') meet:
         both  expand_clash (secret, LabeledInfo("key", ctx), Nk)  and  expand_clash (secret, LabeledInfo("base_nonce", ctx), Nn)
         with secret = LabeledExtract(salt = ss, "secret", ""), ctx = mode || psk_id_hash || info_hash (Nk >= 16, Nn = 12),
         or ss <> ss' and extract_clash on the two "secret" extractions,
         or info <> info' and extract_clash on the two "info_hash" extractions
     kem_enc_clash k skR enc enc'          two encapsulated keys, one private key, one shared secret:
         DHKEM   expand_clash of the "shared_secret" Expand (Nh = 32/48/64 bytes) on the KEM contexts enc || pkR <> enc' || pkR
         ML-KEM  mlkem_decap skR enc = mlkem_decap skR enc' = Some ss
         X-Wing  the combiner SHA3-256(ssM || ssX || ctX || pkX || label) collides on different inputs,
                 or ML-KEM-768 gives one secret for two ciphertexts under one key
     kem_key_clash k skR skR' enc          one encapsulated key, two private keys with different public keys, one shared secret
         (same three shapes; DHKEM: KEM contexts enc || pkR <> enc || pkR')
     schedules_meet ... kem_level :=
         seal_clash a key bn pt key' bn' p'
         \/ (key' = key /\ bn' = bn /\ p' = pt /\ (ks_clash k d a ss info ss' info' \/ (ss' = ss /\ info' = info /\ kem_level))) *)

(* 32-byte outputs of ML-KEM-768 and X25519: the X-Wing combiner input parses uniquely *)
Definition xwing_len_laws (dh : kem -> bytes -> bytes -> option bytes)
    (mlkem_decap : kem -> bytes -> bytes -> option bytes) : Prop :=
  (forall seed ct ss, mlkem_decap MLKEM768 seed ct = Some ss -> length ss = 32%nat) /\
  (forall sk pk ss, dh X25519 sk pk = Some ss -> length ss = 32%nat).

(* Change the encapsulated key and/or the info, leave the payload.  If Decrypt
   accepts, then both decapsulations and both key schedules succeed, the one
   payload is Seal under both (key, nonce) pairs, and the two schedules meet in
   one of the named ways.  All seven KEMs. *)
Theorem C06_hpke_binding_enc_and_info :
  forall extract expand dh dh_pub mlkem_decap mlkem_encap mlkem_pub shake256 sha3_256 seal open,
  hpke_laws expand dh dh_pub mlkem_decap mlkem_encap mlkem_pub seal open ->
  xwing_len_laws dh mlkem_decap ->
  forall k d a prefix skR pkR eph info pt c enc payload enc' info' p',
    public_from_private dh_pub mlkem_pub shake256 k skR = Ok pkR ->
    hpke_encrypt extract expand dh dh_pub mlkem_encap sha3_256 seal k d a prefix pkR eph info pt = Ok c ->
    c = prefix ++ enc ++ payload -> length enc = n_enc k -> length enc' = n_enc k ->
    (enc' <> enc \/ info' <> info) ->
    hpke_decrypt extract expand dh dh_pub mlkem_decap shake256 sha3_256 open k d a prefix skR
      (prefix ++ enc' ++ payload) info' = Ok p' ->
    exists ss ss' key bn key' bn',
      decap extract expand dh dh_pub mlkem_decap shake256 sha3_256 k enc skR = Ok ss /\
      decap extract expand dh dh_pub mlkem_decap shake256 sha3_256 k enc' skR = Ok ss' /\
      key_schedule extract expand k d a ss info = Ok (key, bn) /\
      key_schedule extract expand k d a ss' info' = Ok (key', bn') /\
      payload = seal a key bn [] pt /\ payload = seal a key' bn' [] p' /\
      schedules_meet extract expand seal k d a ss info ss' info' key bn key' bn' pt p'
        (enc' <> enc /\ kem_enc_clash extract expand dh dh_pub mlkem_decap shake256 sha3_256 k skR enc enc').
Proof.
  intros until open. intros HL [X1 X2]. use_hpke_laws HL. intros.
  eapply hpke_binding_enc_info_explicit with (mlkem_encap := mlkem_encap) (mlkem_pub := mlkem_pub); eassumption.
Qed.
Print Assumptions C06_hpke_binding_enc_and_info.

(* The same as an outcome: Err, or acceptance with that explanation (never Panic). *)
Theorem C06_hpke_binding_enc_and_info_err :
  forall extract expand dh dh_pub mlkem_decap mlkem_encap mlkem_pub shake256 sha3_256 seal open,
  hpke_laws expand dh dh_pub mlkem_decap mlkem_encap mlkem_pub seal open ->
  xwing_len_laws dh mlkem_decap ->
  forall k d a prefix skR pkR eph info pt c enc payload enc' info',
    public_from_private dh_pub mlkem_pub shake256 k skR = Ok pkR ->
    hpke_encrypt extract expand dh dh_pub mlkem_encap sha3_256 seal k d a prefix pkR eph info pt = Ok c ->
    c = prefix ++ enc ++ payload -> length enc = n_enc k -> length enc' = n_enc k ->
    (enc' <> enc \/ info' <> info) ->
    hpke_decrypt extract expand dh dh_pub mlkem_decap shake256 sha3_256 open k d a prefix skR
      (prefix ++ enc' ++ payload) info' = Err
    \/ exists p' ss ss' key bn key' bn',
      hpke_decrypt extract expand dh dh_pub mlkem_decap shake256 sha3_256 open k d a prefix skR
        (prefix ++ enc' ++ payload) info' = Ok p' /\
      decap extract expand dh dh_pub mlkem_decap shake256 sha3_256 k enc skR = Ok ss /\
      decap extract expand dh dh_pub mlkem_decap shake256 sha3_256 k enc' skR = Ok ss' /\
      key_schedule extract expand k d a ss info = Ok (key, bn) /\
      key_schedule extract expand k d a ss' info' = Ok (key', bn') /\
      payload = seal a key bn [] pt /\ payload = seal a key' bn' [] p' /\
      schedules_meet extract expand seal k d a ss info ss' info' key bn key' bn' pt p'
        (enc' <> enc /\ kem_enc_clash extract expand dh dh_pub mlkem_decap shake256 sha3_256 k skR enc enc').
Proof.
  intros until open. intros HL [X1 X2]. use_hpke_laws HL. intros.
  eapply hpke_binding_enc_info_err with (mlkem_encap := mlkem_encap) (mlkem_pub := mlkem_pub); eassumption.
Qed.
Print Assumptions C06_hpke_binding_enc_and_info_err.

(* Another private key (public key pkR' <> pkR), ciphertext and info untouched, all
   seven KEMs.  Acceptance forces the two schedules to meet; at the KEM level that
   is kem_key_clash: for the Diffie-Hellman KEMs a collision of the "shared_secret"
   Expand on enc || pkR <> enc || pkR'; for ML-KEM the event "both keys decapsulate
   enc to the same secret" (no law of ML-KEM forbids it: implicit rejection makes it
   improbable, not impossible, so it is an event, not a contradiction); for X-Wing
   a combiner collision or that ML-KEM-768 event. *)
Theorem C06_hpke_binding_other_private_key :
  forall extract expand dh dh_pub mlkem_decap mlkem_encap mlkem_pub shake256 sha3_256 seal open,
  hpke_laws expand dh dh_pub mlkem_decap mlkem_encap mlkem_pub seal open ->
  xwing_len_laws dh mlkem_decap ->
  forall k d a prefix skR pkR skR' pkR' eph info pt c p',
    public_from_private dh_pub mlkem_pub shake256 k skR = Ok pkR ->
    public_from_private dh_pub mlkem_pub shake256 k skR' = Ok pkR' -> pkR' <> pkR ->
    hpke_encrypt extract expand dh dh_pub mlkem_encap sha3_256 seal k d a prefix pkR eph info pt = Ok c ->
    hpke_decrypt extract expand dh dh_pub mlkem_decap shake256 sha3_256 open k d a prefix skR' c info = Ok p' ->
    exists enc payload ss ss' key bn key' bn',
      c = prefix ++ enc ++ payload /\ length enc = n_enc k /\
      decap extract expand dh dh_pub mlkem_decap shake256 sha3_256 k enc skR = Ok ss /\
      decap extract expand dh dh_pub mlkem_decap shake256 sha3_256 k enc skR' = Ok ss' /\
      key_schedule extract expand k d a ss info = Ok (key, bn) /\
      key_schedule extract expand k d a ss' info = Ok (key', bn') /\
      payload = seal a key bn [] pt /\ payload = seal a key' bn' [] p' /\
      schedules_meet extract expand seal k d a ss info ss' info key bn key' bn' pt p'
        (kem_key_clash extract expand dh dh_pub mlkem_decap mlkem_pub shake256 sha3_256 k skR skR' enc).
Proof.
  intros until open. intros HL [X1 X2]. use_hpke_laws HL. intros.
  eapply hpke_binding_other_key_explicit with (mlkem_encap := mlkem_encap) (pkR := pkR) (pkR' := pkR'); eassumption.
Qed.
Print Assumptions C06_hpke_binding_other_private_key.

(* Nothing in those conclusions comes for free: every event projects to an
   equation between two outputs of Expand of one positive length (hence non-empty)
   or of Extract, on different inputs. *)
Theorem C06_hpke_binding_events_are_collisions :
  forall (extract : hash -> bytes -> bytes -> bytes) (expand : hash -> bytes -> bytes -> nat -> bytes),
  (forall h prk info n, length (expand h prk info n) = n) ->
  (forall h prk i prk' i' n, expand_clash expand h prk i prk' i' n ->
     (prk, i) <> (prk', i') /\ expand h prk i n = expand h prk' i' n /\
     (0 < length (expand h prk i n))%nat /\ expand h prk i n <> []) /\
  (forall h x s x' s', extract_clash extract h x s x' s' ->
     (x, s) <> (x', s') /\ extract h x s = extract h x' s') /\
  (forall k d a ss info ss' info', ks_clash extract expand k d a ss info ss' info' ->
     (exists h p i p' i' n, (p, i) <> (p', i') /\ (0 < n)%nat /\ expand h p i n = expand h p' i' n /\ expand h p i n <> [])
     \/ (exists h x s x' s', (x, s) <> (x', s') /\ extract h x s = extract h x' s')).
Proof.
  intros extract expand L. split; [|split].
  - intros. eapply expand_clash_is_collision; eassumption.
  - intros. eapply extract_clash_is_collision; eassumption.
  - intros. eapply ks_clash_is_collision; eassumption.
Qed.
Print Assumptions C06_hpke_binding_events_are_collisions.

(* ... and an event is refutable in an instance whose Expand does not collide on
   the inputs at hand (Expand := first n bytes of prk || info || 0...). *)
Example C06_expand_clash_is_not_free : ~ expand_clash inj_expand SHA256 [1] [5] [2] [5] 1.
Proof. exact expand_clash_not_free. Qed.

(* The superseded predicates held outright under the length law / unconditionally. *)
Example C06_old_collision_predicates_hold_outright :
  (forall expand : hash -> bytes -> bytes -> nat -> bytes,
     (forall h prk info n, length (expand h prk info n) = n) -> HpkeProofs.expand_collision expand) /\
  (forall hkdf : hash -> bytes -> bytes -> bytes -> nat -> bytes,
     (forall h ikm salt info n, length (hkdf h ikm salt info n) = n) -> EciesProofs.hkdf_collision hkdf) /\
  (forall gcm_seal aes_ctr hmac_sha256 siv_seal, EciesProofs.dem_key_collision gcm_seal aes_ctr hmac_sha256 siv_seal).
Proof.
  split; [|split].
  - intros. apply old_expand_collision_trivial; assumption.
  - intros. apply old_hkdf_collision_trivial; assumption.
  - intros. apply old_dem_key_collision_trivial.
Qed.

(* Another prefix (other key id, other variant byte) of the same length: Err, unconditionally. *)
Theorem C06_hpke_binding_prefix :
  forall extract expand dh dh_pub mlkem_decap shake256 sha3_256 open k d a prefix skR prefix' rest info,
    length prefix' = length prefix -> prefix' <> prefix ->
    hpke_decrypt extract expand dh dh_pub mlkem_decap shake256 sha3_256 open k d a prefix skR (prefix' ++ rest) info = Err.
Proof. intros. apply hpke_binding_prefix; assumption. Qed.
Print Assumptions C06_hpke_binding_prefix.

(* A changed payload is accepted only if it is itself the Seal, under the very
   key and nonce of the honest ciphertext, of the different plaintext returned
   (producing such a string without the key is AEAD forgery: outside the symbolic model). *)
Theorem C06_hpke_binding_payload :
  forall extract expand dh dh_pub mlkem_decap mlkem_encap mlkem_pub shake256 sha3_256 seal open,
  hpke_laws expand dh dh_pub mlkem_decap mlkem_encap mlkem_pub seal open ->
  forall k d a prefix skR pkR eph info pt c enc payload payload' p',
    public_from_private dh_pub mlkem_pub shake256 k skR = Ok pkR ->
    hpke_encrypt extract expand dh dh_pub mlkem_encap sha3_256 seal k d a prefix pkR eph info pt = Ok c ->
    c = prefix ++ enc ++ payload -> length enc = n_enc k -> payload' <> payload ->
    hpke_decrypt extract expand dh dh_pub mlkem_decap shake256 sha3_256 open k d a prefix skR
      (prefix ++ enc ++ payload') info = Ok p' ->
    exists key bn, payload = seal a key bn [] pt /\ payload' = seal a key bn [] p' /\ p' <> pt.
Proof. intros until open. intros HL. use_hpke_laws HL. intros. eapply hpke_binding_payload; eassumption. Qed.
Print Assumptions C06_hpke_binding_payload.

(* Non-vacuity: the law bundle is satisfied by a toy instance (a "cipher" that
   writes key and nonce before the plaintext, a checksum "HKDF"), with which an
   X25519 / HKDF-SHA256 / AES-128-GCM TINK-prefixed encryption succeeds, decrypts,
   and is rejected under another info. *)
Example C06_hpke_nonvacuous :
  hpke_laws toy_expand toy_dh toy_dh_pub toy_mlkem_decap toy_mlkem_encap toy_mlkem_pub toy_seal toy_open /\
  let prefix := [1; 0; 0; 0; 42] in
  let skR := zeros 32 in
  match public_from_private toy_dh_pub toy_mlkem_pub toy_shake256 X25519 skR with
  | Ok pkR =>
    match hpke_encrypt toy_extract toy_expand toy_dh toy_dh_pub toy_mlkem_encap toy_sha3 toy_seal
            X25519 HKDF_SHA256 AES128GCM prefix pkR (zeros 32) [1; 2; 3] [10; 20] with
    | Ok c =>
      hpke_decrypt toy_extract toy_expand toy_dh toy_dh_pub toy_mlkem_decap toy_shake256 toy_sha3 toy_open
        X25519 HKDF_SHA256 AES128GCM prefix skR c [1; 2; 3] = Ok [10; 20] /\
      hpke_decrypt toy_extract toy_expand toy_dh toy_dh_pub toy_mlkem_decap toy_shake256 toy_sha3 toy_open
        X25519 HKDF_SHA256 AES128GCM prefix skR c [1; 2; 4] = Err
    | _ => False
    end
  | _ => False
  end.
Proof.
  split.
  - split; [exact toy_expand_len|]. split; [exact toy_dh_comm|]. split; [exact toy_dh_pub_len|].
    split; [exact toy_mlkem_correct|]. split; [exact toy_mlkem_pub_len|].
    split; [exact toy_open_seal|exact toy_open_sound].
  - vm_compute. split; reflexivity.
Qed.

(* Non-vacuity of the binding theorems: in a toy instance satisfying both law
   bundles (checksum "HKDF", constant Diffie-Hellman, public key = private key bytes)
   an info with the same byte sum and a private key whose public key has the same
   byte sum ARE accepted - the premises "Decrypt ... = Ok p'" are satisfiable, and
   what the theorems then exhibit is a genuine collision of that weak Expand -
   while an info / key with another byte sum is rejected. *)
Example C06_hpke_binding_nonvacuous :
  hpke_laws toy_expand toy32_dh toy3_dh_pub toy32_mlkem_decap toy32_mlkem_encap toy_mlkem_pub toy_seal toy_open /\
  xwing_len_laws toy32_dh toy32_mlkem_decap /\
  let prefix := [1; 0; 0; 0; 42] in
  let skR := zeros 32 in
  let skR' := [1; 255] ++ zeros 30 in
  let skR'' := 1 :: zeros 31 in
  let dec sk c info := hpke_decrypt toy_extract toy_expand toy32_dh toy3_dh_pub toy32_mlkem_decap toy_shake256 toy_sha3 toy_open
                         X25519 HKDF_SHA256 AES128GCM prefix sk c info in
  match public_from_private toy3_dh_pub toy_mlkem_pub toy_shake256 X25519 skR,
        public_from_private toy3_dh_pub toy_mlkem_pub toy_shake256 X25519 skR',
        public_from_private toy3_dh_pub toy_mlkem_pub toy_shake256 X25519 skR'' with
  | Ok pkR, Ok pkR', Ok pkR'' =>
    pkR' <> pkR /\ pkR'' <> pkR /\
    match hpke_encrypt toy_extract toy_expand toy32_dh toy3_dh_pub toy32_mlkem_encap toy_sha3 toy_seal
            X25519 HKDF_SHA256 AES128GCM prefix pkR (zeros 32) [1; 2; 3] [10; 20] with
    | Ok c =>
      dec skR c [1; 2; 3] = Ok [10; 20] /\
      dec skR c [3; 2; 1] = Ok [10; 20] /\      (* colliding info: accepted *)
      dec skR c [1; 2; 4] = Err /\
      dec skR' c [1; 2; 3] = Ok [10; 20] /\     (* colliding other key: accepted *)
      dec skR'' c [1; 2; 3] = Err
    | _ => False
    end
  | _, _, _ => False
  end.
Proof.
  split; [|split].
  - split; [exact toy_expand_len|]. split; [exact toy3_dh_comm|]. split; [exact toy3_dh_pub_len|].
    split; [exact toy32_mlkem_correct|]. split; [exact toy_mlkem_pub_len|].
    split; [exact toy_open_seal|exact toy_open_sound].
  - split; [exact toy32_mlkem_ss_len|exact toy32_x25519_len].
  - vm_compute. repeat split; try reflexivity; discriminate.
Qed.

(* ================================================================== *)
(* Tink's HPKE = RFC 9180 base mode                                    *)
(* ================================================================== *)
(* model/HpkeRfc.v is a transcription of RFC 9180 written from the RFC (sections
   4, 4.1, 5.1, 5.1.1, 5.2, 6.1, 7.1-7.3; I2OSP of RFC 8017; HKDF = the RFC 5869
   transcription model/Hkdf.v that C15 ties to the code), sharing nothing with
   model/Hpke.v.  The RFC-side primitives (the hash of each KDF, DH / pk() on
   serialized keys, AEAD Seal / Open) are arbitrary; Tink's model is run on the
   primitives they induce (proofs/HpkeRfcProofs.v: t_extract = HKDF-Extract with
   x/crypto's argument order, t_expand = HKDF-Expand, t_dh / t_dh_pub / t_seal /
   t_open = the RFC primitive of the algorithm the Tink identifier names). *)
Definition rfc_laws (Hash : kdf_alg -> bytes -> bytes) (DH : kem_alg -> bytes -> bytes -> option bytes) : Prop :=
  (* the hash of a KDF returns Nh bytes *)
  (forall D x, length (Hash D x) = Nh D) /\
  (* DeserializePrivateKey / DeserializePublicKey accept exactly Nsk / Npk bytes (Table 2) *)
  (forall K sk pk s, DH K sk pk = Some s -> length sk = r_Nsk (kem_table K) /\ length pk = r_Npk (kem_table K)).

(* Identifiers and lengths of the model are those of Tables 2, 3 and 5 of the RFC,
   and of the IANA registry / drafts for ML-KEM and X-Wing; the ASCII labels and
   suite ids are the RFC's.  (proofs/ConstsTieC06.v ties the same literal tables to
   the constants regenerated from hybrid/internal/hpke/hpke.go.) *)
Theorem C06_hpke_identifiers_are_rfc9180 :
  (forall k K, rfc_kem k = Some K ->
     kem_id k = r_id (kem_table K) /\ n_secret k = r_Nsecret (kem_table K) /\ n_enc k = r_Nenc (kem_table K) /\
     n_pk k = r_Npk (kem_table K) /\ n_sk k = r_Nsk (kem_table K) /\
     rfc_kdf_of_hash (kem_hash k) = Some (kem_kdf K) /\ hash_len (kem_hash k) = r_Nsecret (kem_table K)) /\
  (forall k K, rfc_pq_kem k = Some K ->
     kem_id k = r_id (pq_kem_table K) /\ n_secret k = r_Nsecret (pq_kem_table K) /\ n_enc k = r_Nenc (pq_kem_table K) /\
     n_pk k = r_Npk (pq_kem_table K) /\ n_sk k = r_Nsk (pq_kem_table K)) /\
  (forall k, rfc_kem k <> None \/ rfc_pq_kem k <> None) /\
  (forall d, kdf_id d = rfc_kdf_id (rfc_kdf d) /\ rfc_kdf_of_hash (kdf_hash d) = Some (rfc_kdf d) /\
     hash_len (kdf_hash d) = Nh (rfc_kdf d)) /\
  (forall a, aead_id a = rfc_aead_id (rfc_aead a) /\ n_k a = Nk (rfc_aead a) /\ n_n a = Nn (rfc_aead a)) /\
  (forall k K, rfc_kem k = Some K -> kem_suite_id k = dhkem_suite_id K) /\
  (forall k d a, hpke_suite_id k d a = hpke_suite (kem_id k) (rfc_kdf d) (rfc_aead a)) /\
  gcm_max_plaintext = P_MAX AEAD_AES_128_GCM /\ gcm_max_plaintext = P_MAX AEAD_AES_256_GCM.
Proof.
  split; [exact kem_table_rfc|]. split; [exact pq_kem_table_rfc|].
  split; [intros []; simpl; (left; discriminate) || (right; discriminate)|].
  split; [exact kdf_table_rfc|]. split; [exact aead_table_rfc|].
  split; [exact kem_suite_id_rfc|]. split; [exact hpke_suite_id_rfc|]. split; reflexivity.
Qed.
Print Assumptions C06_hpke_identifiers_are_rfc9180.

(* KeySchedule (5.1), every KEM id, KDF and AEAD, all shared secrets and infos:
   Tink's (key, base_nonce) are those of KeySchedule(mode_base, ss, info, "", ""). *)
Theorem C06_hpke_key_schedule_is_rfc9180 :
  forall Hash, (forall D x, length (Hash D x) = Nh D) ->
  forall k d a ss info,
    key_schedule (t_extract Hash) (t_expand Hash) k d a ss info =
    out (option_map (fun c => (c_key c, c_base_nonce c))
           (KeySchedule Hash (kem_id k) (rfc_kdf d) (rfc_aead a) mode_base ss info default_psk default_psk_id)).
Proof. intros. apply key_schedule_rfc. Qed.
Print Assumptions C06_hpke_key_schedule_is_rfc9180.

(* DHKEM(P-256 / P-384 / P-521 / X25519) x HKDF-SHA256/384/512 x AES-128-GCM /
   AES-256-GCM / ChaCha20Poly1305, every recipient key, ephemeral key, info and
   plaintext: Tink's Encrypt is prefix || enc || ct with (enc, ct) = SealBase(pkR,
   info, aad = "", pt) of the RFC (Err exactly when the RFC raises an error); the
   only premise is the plaintext limit of ChaCha20-Poly1305 (RFC 8439), which the
   code leaves to x/crypto. *)
Theorem C06_hpke_encrypt_is_rfc9180_SealBase :
  forall Hash DH PK AeadSeal mlkem_encap sha3_256, rfc_laws Hash DH ->
  forall k K d a prefix pkR eph info pt, rfc_kem k = Some K ->
    (a = CHACHA20POLY1305 -> N.of_nat (length pt) <= P_MAX AEAD_ChaCha20Poly1305) ->
    hpke_encrypt (t_extract Hash) (t_expand Hash) (t_dh DH) (t_dh_pub PK) mlkem_encap sha3_256 (t_seal AeadSeal)
      k d a prefix pkR eph info pt =
    out (option_map (fun r => prefix ++ fst r ++ snd r)
           (SealBase_DHKEM Hash DH PK AeadSeal K (rfc_kdf d) (rfc_aead a) pkR eph info [] pt)).
Proof. intros until sha3_256. intros [L1 L2]. intros. apply hpke_encrypt_is_prefix_SealBase; assumption. Qed.
Print Assumptions C06_hpke_encrypt_is_rfc9180_SealBase.

(* ... and Decrypt of prefix || rest is: Err if rest is shorter than Nenc, otherwise
   OpenBase(enc = rest[0:Nenc], skR, info, aad = "", ct = rest[Nenc:]) of the RFC. *)
Theorem C06_hpke_decrypt_is_rfc9180_OpenBase :
  forall Hash DH PK AeadOpen mlkem_decap shake256 sha3_256, rfc_laws Hash DH ->
  forall k K d a prefix skR rest info, rfc_kem k = Some K ->
    hpke_decrypt (t_extract Hash) (t_expand Hash) (t_dh DH) (t_dh_pub PK) mlkem_decap shake256 sha3_256 (t_open AeadOpen)
      k d a prefix skR (prefix ++ rest) info =
    if Nat.ltb (length rest) (r_Nenc (kem_table K)) then Err else
    out (OpenBase_DHKEM Hash DH PK AeadOpen K (rfc_kdf d) (rfc_aead a)
           (firstn (r_Nenc (kem_table K)) rest) skR info [] (skipn (r_Nenc (kem_table K)) rest)).
Proof. intros until sha3_256. intros [L1 L2]. intros. apply hpke_decrypt_is_prefix_OpenBase; assumption. Qed.
Print Assumptions C06_hpke_decrypt_is_rfc9180_OpenBase.

(* ML-KEM-768 / ML-KEM-1024 (KEM ids 0x0041 / 0x0042, IANA HPKE registry,
   draft-ietf-hpke-pq): RFC 9180 over the KEM itself - the shared secret is
   ML-KEM's own, no DH ExtractAndExpand.  (ML-KEM is a primitive of the stdlib;
   the run-time stand-in for its coins is described in the note.) *)
Theorem C06_hpke_mlkem_is_rfc9180_over_mlkem :
  forall Hash DH PK AeadSeal AeadOpen mlkem_decap mlkem_encap shake256 sha3_256,
  (forall D x, length (Hash D x) = Nh D) ->
  forall k K d a, is_mlkem k = true -> rfc_pq_kem k = Some K ->
    (forall pkR eph info pt,
       (a = CHACHA20POLY1305 -> N.of_nat (length pt) <= P_MAX AEAD_ChaCha20Poly1305) ->
       raw_encrypt (t_extract Hash) (t_expand Hash) (t_dh DH) (t_dh_pub PK) mlkem_encap sha3_256 (t_seal AeadSeal)
         k d a pkR eph info pt =
       if Nat.eqb (length pkR) 0 then Err else
       out (option_map (fun r => fst r ++ snd r)
              (SealBase Hash AeadSeal (r_id (pq_kem_table K)) (mlkem_encap k) (rfc_kdf d) (rfc_aead a) pkR eph info [] pt))) /\
    (forall skR c info,
       raw_decrypt (t_extract Hash) (t_expand Hash) (t_dh DH) (t_dh_pub PK) mlkem_decap shake256 sha3_256 (t_open AeadOpen)
         k d a skR c info =
       if Nat.eqb (length skR) 0 then Err else
       if Nat.ltb (length c) (r_Nenc (pq_kem_table K)) then Err else
       out (OpenBase Hash AeadOpen (r_id (pq_kem_table K)) (fun enc sk => mlkem_decap k sk enc) (rfc_kdf d) (rfc_aead a)
              (firstn (r_Nenc (pq_kem_table K)) c) skR info [] (skipn (r_Nenc (pq_kem_table K)) c))).
Proof.
  intros. split; intros.
  - apply mlkem_raw_encrypt_is_SealBase; assumption.
  - apply mlkem_raw_decrypt_is_OpenBase; assumption.
Qed.
Print Assumptions C06_hpke_mlkem_is_rfc9180_over_mlkem.

(* X-Wing (KEM id 0x647a): model/Xwing.v, written after hybrid/internal/xwing/xwing.go,
   equals EncapsulateDerand / Decapsulate of draft-connolly-cfrg-xwing-kem-10 (the
   model reads its explicit randomness as ek_X || coins, the draft's eseed is
   coins || ek_X), and HPKE is RFC 9180 over that KEM.  Laws: SHAKE-256 returns the
   requested length; ML-KEM-768 KeyGen_internal is total on 64-byte seeds (the draft's
   expandDecapsulationKey runs it, the code does not need pk_M to decapsulate). *)
Theorem C06_hpke_xwing_is_rfc9180_over_xwing_draft :
  forall Hash DH PK AeadSeal AeadOpen mlkem_decap mlkem_encap mlkem_pub shake256 sha3_256,
  (forall D x, length (Hash D x) = Nh D) ->
  (forall m n, length (shake256 m n) = n) ->
  (forall seed, length seed = 64%nat -> mlkem_pub MLKEM768 seed <> None) ->
  let XEncap := XWing_EncapsulateDerand sha3_256 (mlkem_encap MLKEM768) (t_dh DH X25519) (t_dh_pub PK X25519) in
  let XDecap := XWing_Decapsulate shake256 sha3_256 (mlkem_pub MLKEM768) (mlkem_decap MLKEM768) (t_dh DH X25519) (t_dh_pub PK X25519) in
  (forall pk ekX coins, length ekX = 32%nat -> length coins = 32%nat ->
     encap (t_extract Hash) (t_expand Hash) (t_dh DH) (t_dh_pub PK) mlkem_encap sha3_256 XWING pk (ekX ++ coins) =
     out (XEncap pk (coins ++ ekX))) /\
  (forall ct sk,
     decap (t_extract Hash) (t_expand Hash) (t_dh DH) (t_dh_pub PK) mlkem_decap shake256 sha3_256 XWING ct sk =
     out (XDecap ct sk)) /\
  (forall d a pkR ekX coins info pt, length ekX = 32%nat -> length coins = 32%nat ->
     (a = CHACHA20POLY1305 -> N.of_nat (length pt) <= P_MAX AEAD_ChaCha20Poly1305) ->
     raw_encrypt (t_extract Hash) (t_expand Hash) (t_dh DH) (t_dh_pub PK) mlkem_encap sha3_256 (t_seal AeadSeal)
       XWING d a pkR (ekX ++ coins) info pt =
     if Nat.eqb (length pkR) 0 then Err else
     out (option_map (fun r => fst r ++ snd r)
            (SealBase Hash AeadSeal (r_id (pq_kem_table KEM_X_WING)) (fun pk _ => XEncap pk (coins ++ ekX))
               (rfc_kdf d) (rfc_aead a) pkR [] info [] pt))) /\
  (forall d a skR c info,
     raw_decrypt (t_extract Hash) (t_expand Hash) (t_dh DH) (t_dh_pub PK) mlkem_decap shake256 sha3_256 (t_open AeadOpen)
       XWING d a skR c info =
     if Nat.eqb (length skR) 0 then Err else
     if Nat.ltb (length c) (r_Nenc (pq_kem_table KEM_X_WING)) then Err else
     out (OpenBase Hash AeadOpen (r_id (pq_kem_table KEM_X_WING)) XDecap (rfc_kdf d) (rfc_aead a)
            (firstn (r_Nenc (pq_kem_table KEM_X_WING)) c) skR info [] (skipn (r_Nenc (pq_kem_table KEM_X_WING)) c))).
Proof.
  intros until sha3_256. intros L1 L2 L3. cbv zeta. split; [|split; [|split]]; intros.
  - apply xwing_encap_draft; assumption.
  - eapply xwing_decap_draft; eassumption.
  - apply xwing_raw_encrypt_is_SealBase; assumption.
  - eapply xwing_raw_decrypt_is_OpenBase; eassumption.
Qed.
Print Assumptions C06_hpke_xwing_is_rfc9180_over_xwing_draft.

(* Non-vacuity: the two laws hold of a toy instance (constant hash of the right
   length, DH that checks the key lengths), and there the RFC's SealBase succeeds,
   Tink's Encrypt returns its output, and OpenBase / Decrypt return the plaintext. *)
Definition toyr_Hash (D : kdf_alg) (x : bytes) : bytes := repeat (toy_sum x) (Nh D).
Definition toyr_DH (K : kem_alg) (sk pk : bytes) : option bytes :=
  if (Nat.eqb (length sk) (r_Nsk (kem_table K)) && Nat.eqb (length pk) (r_Npk (kem_table K)))%bool then Some [7] else None.
Definition toyr_PK (K : kem_alg) (sk : bytes) : option bytes :=
  if Nat.eqb (length sk) (r_Nsk (kem_table K)) then Some (zeros (r_Npk (kem_table K))) else None.
Definition toyr_Seal (a : aead_alg) (k n ad p : bytes) : bytes := k ++ n ++ p.
Definition toyr_Open (a : aead_alg) (k n ad c : bytes) : option bytes :=
  if beq (firstn (length k + length n) c) (k ++ n) then Some (skipn (length k + length n) c) else None.

Example C06_hpke_rfc9180_nonvacuous :
  rfc_laws toyr_Hash toyr_DH /\
  match SealBase_DHKEM toyr_Hash toyr_DH toyr_PK toyr_Seal KEM_X25519_SHA256 KDF_HKDF_SHA256 AEAD_AES_128_GCM
          (zeros 32) (zeros 32) [1; 2; 3] [] [10; 20] with
  | Some (enc, ct) =>
      hpke_encrypt (t_extract toyr_Hash) (t_expand toyr_Hash) (t_dh toyr_DH) (t_dh_pub toyr_PK) toy_mlkem_encap toy_sha3
        (t_seal toyr_Seal) X25519 HKDF_SHA256 AES128GCM [1; 0; 0; 0; 42] (zeros 32) (zeros 32) [1; 2; 3] [10; 20]
      = Ok ([1; 0; 0; 0; 42] ++ enc ++ ct) /\
      OpenBase_DHKEM toyr_Hash toyr_DH toyr_PK toyr_Open KEM_X25519_SHA256 KDF_HKDF_SHA256 AEAD_AES_128_GCM
        enc (zeros 32) [1; 2; 3] [] ct = Some [10; 20] /\
      hpke_decrypt (t_extract toyr_Hash) (t_expand toyr_Hash) (t_dh toyr_DH) (t_dh_pub toyr_PK) toy_mlkem_decap toy_shake256 toy_sha3
        (t_open toyr_Open) X25519 HKDF_SHA256 AES128GCM [1; 0; 0; 0; 42] (zeros 32) ([1; 0; 0; 0; 42] ++ enc ++ ct) [1; 2; 3]
      = Ok [10; 20]
  | None => False
  end.
Proof.
  split.
  - split.
    + intros. apply repeat_length.
    + intros K sk pk s. unfold toyr_DH.
      destruct (Nat.eqb_spec (length sk) (r_Nsk (kem_table K))); [|discriminate].
      destruct (Nat.eqb_spec (length pk) (r_Npk (kem_table K))); [|discriminate]. auto.
  - vm_compute. repeat split; reflexivity.
Qed.

(* ================================================================== *)
(* ECIES-AEAD-HKDF                                                     *)
(* ================================================================== *)
Definition ecies_laws
    (ec_dh : curve -> bytes -> bytes -> option bytes) (ec_pub : curve -> bytes -> option bytes)
    (ec_oncurve : curve -> bytes -> bytes -> bool) (ec_decompress : curve -> bytes -> option bytes)
    (hkdf : hash -> bytes -> bytes -> bytes -> nat -> bytes)
    (gcm_seal : bytes -> bytes -> bytes -> bytes -> bytes)
    (gcm_open : bytes -> bytes -> bytes -> bytes -> option bytes)
    (aes_ctr : bytes -> bytes -> bytes -> bytes) (hmac_sha256 : bytes -> bytes -> bytes)
    (siv_seal : bytes -> bytes -> bytes -> bytes) (siv_open : bytes -> bytes -> bytes -> option bytes) : Prop :=
  (* ECDH commutes on genuine public keys *)
  (forall c a b A B, ec_pub c a = Some A -> ec_pub c b = Some B -> ec_dh c a B = ec_dh c b A) /\
  (* a public key is 04 || X || Y, on the curve *)
  (forall c sk P, ec_pub c sk = Some P ->
     length P = (1 + 2 * field_size c)%nat /\ hd 0 P = 4 /\ ec_oncurve c (coord_x c P) (coord_y c P) = true) /\
  (* decompression recovers a point on the curve from X and the parity of Y *)
  (forall c x y, ec_oncurve c x y = true -> length x = field_size c -> length y = field_size c ->
     ec_decompress c ((if N.odd (last y 0) then 3 else 2) :: x) = Some (4 :: x ++ y)) /\
  (* HKDF returns as many bytes as asked *)
  (forall h ikm salt info n, length (hkdf h ikm salt info n) = n) /\
  (* the DEM primitives: Open inverts Seal and accepts nothing else; sizes; CTR is an involution *)
  (forall k iv ad p, gcm_open k iv ad (gcm_seal k iv ad p) = Some p) /\
  (forall k iv ad c p, gcm_open k iv ad c = Some p -> c = gcm_seal k iv ad p) /\
  (forall k iv ad p, length (gcm_seal k iv ad p) = (length p + 16)%nat) /\
  (forall k iv x, aes_ctr k iv (aes_ctr k iv x) = x) /\
  (forall k m, length (hmac_sha256 k m) = 32%nat) /\
  (forall k ad p, siv_open k ad (siv_seal k ad p) = Some p) /\
  (forall k ad c p, siv_open k ad c = Some p -> c = siv_seal k ad p).

Ltac use_ecies_laws HL :=
  destruct HL as (E1 & E2 & E3 & E4 & E5 & E6 & E7 & E8 & E9 & E10 & E11).

(* Round trip for every curve, hash, point format, DEM (AES-GCM, AES-SIV,
   AES-CTR-HMAC), salt, prefix, key pair, ephemeral scalar, DEM IV of the DEM's
   IV length, plaintext and info. *)
Theorem C06_ecies_round_trip :
  forall ec_dh ec_pub ec_oncurve ec_decompress hkdf gcm_seal gcm_open aes_ctr hmac_sha256 siv_seal siv_open,
  ecies_laws ec_dh ec_pub ec_oncurve ec_decompress hkdf gcm_seal gcm_open aes_ctr hmac_sha256 siv_seal siv_open ->
  forall c h f d salt prefix skR pkR eph iv info pt ct,
    ec_pub c skR = Some pkR -> length iv = dem_iv_size d ->
    ecies_encrypt ec_dh ec_pub ec_oncurve hkdf gcm_seal aes_ctr hmac_sha256 siv_seal
      c h f d salt prefix pkR eph iv info pt = Ok ct ->
    ecies_decrypt ec_dh ec_oncurve ec_decompress hkdf gcm_open aes_ctr hmac_sha256 siv_open
      c h f d salt prefix skR ct info = Ok pt.
Proof. intros until siv_open. intros HL. use_ecies_laws HL. intros. eapply ecies_round_trip; eassumption. Qed.
Print Assumptions C06_ecies_round_trip.

(* Encoding then decoding a public point gives the point back, in all three formats. *)
Theorem C06_ecies_point_formats_round_trip :
  forall ec_dh ec_pub ec_oncurve ec_decompress hkdf gcm_seal gcm_open aes_ctr hmac_sha256 siv_seal siv_open,
  ecies_laws ec_dh ec_pub ec_oncurve ec_decompress hkdf gcm_seal gcm_open aes_ctr hmac_sha256 siv_seal siv_open ->
  forall c f sk P e, ec_pub c sk = Some P ->
    point_encode ec_oncurve c f P = Ok e ->
    point_decode ec_oncurve ec_decompress c f e = Ok P /\ encoding_size c f = Ok (length e).
Proof.
  intros until siv_open. intros HL. use_ecies_laws HL. intros c f sk P e Hp He.
  destruct (E2 _ _ _ Hp) as (L & H4 & _).
  split; [exact (point_decode_encode _ _ E3 _ _ _ _ L H4 He)|exact (point_encode_length _ _ E3 _ _ _ _ He L H4)].
Qed.
Print Assumptions C06_ecies_point_formats_round_trip.

(* Exact acceptance: Decrypt returns p exactly for prefix || kem || DEM-frame(key, iv, p)
   with kem of the format's size, key the HKDF of (kem || dh, salt, info) and an
   IV of the DEM's IV size; anything shorter than prefix + header is rejected. *)
Theorem C06_ecies_decrypt_accepts_exactly :
  forall ec_dh ec_pub ec_oncurve ec_decompress hkdf gcm_seal gcm_open aes_ctr hmac_sha256 siv_seal siv_open,
  ecies_laws ec_dh ec_pub ec_oncurve ec_decompress hkdf gcm_seal gcm_open aes_ctr hmac_sha256 siv_seal siv_open ->
  forall c h f d salt prefix skR ct info p, primitive_supported c f d = true ->
    (ecies_decrypt ec_dh ec_oncurve ec_decompress hkdf gcm_open aes_ctr hmac_sha256 siv_open
       c h f d salt prefix skR ct info = Ok p <->
     exists kem key iv, encoding_size c f = Ok (length kem) /\
       ecies_decapsulate ec_dh ec_oncurve ec_decompress hkdf c h f salt info (dem_key_size d) skR kem = Ok key /\
       length iv = dem_iv_size d /\
       ct = prefix ++ kem ++ dem_frame gcm_seal aes_ctr hmac_sha256 siv_seal d key iv p).
Proof. intros until siv_open. intros HL. use_ecies_laws HL. intros. eapply ecies_decrypt_iff; eassumption. Qed.
Print Assumptions C06_ecies_decrypt_accepts_exactly.

(* ---- symbolic binding, explicit form (events: proofs/EciesBinding.v) ----
     hkdf_clash h ikm salt info ikm' salt' info' n   0 < n, (ikm, salt, info) <> (ikm', salt', info') and equal HKDF outputs
     dem_clash d key iv p key' iv' p'                 supported DEM, two different keys of the DEM's key size, one frame *)

(* Change the KEM bytes and/or the info, leave the DEM ciphertext.  If Decrypt
   accepts: both points decode, both ECDH calls succeed, the DEM ciphertext is a
   frame under both derived keys, and either the two keys differ (one DEM
   ciphertext valid under two keys) or they are equal, the plaintext is unchanged
   and HKDF, read for the DEM key size (>= 16), collides on kem || dh, info. *)
Theorem C06_ecies_binding_kem_and_info :
  forall ec_dh ec_pub ec_oncurve ec_decompress hkdf gcm_seal gcm_open aes_ctr hmac_sha256 siv_seal siv_open,
  ecies_laws ec_dh ec_pub ec_oncurve ec_decompress hkdf gcm_seal gcm_open aes_ctr hmac_sha256 siv_seal siv_open ->
  forall c h f d salt prefix skR pkR eph iv info pt ct kem body kem' info' p',
    ec_pub c skR = Some pkR -> length iv = dem_iv_size d ->
    ecies_encrypt ec_dh ec_pub ec_oncurve hkdf gcm_seal aes_ctr hmac_sha256 siv_seal
      c h f d salt prefix pkR eph iv info pt = Ok ct ->
    ct = prefix ++ kem ++ body -> encoding_size c f = Ok (length kem) -> length kem' = length kem ->
    (kem' <> kem \/ info' <> info) ->
    ecies_decrypt ec_dh ec_oncurve ec_decompress hkdf gcm_open aes_ctr hmac_sha256 siv_open
      c h f d salt prefix skR (prefix ++ kem' ++ body) info' = Ok p' ->
    exists P s P' s' key key' iv',
      point_decode ec_oncurve ec_decompress c f kem = Ok P /\ ec_dh c skR P = Some s /\
      point_decode ec_oncurve ec_decompress c f kem' = Ok P' /\ ec_dh c skR P' = Some s' /\
      key = hkdf h (kem ++ s) (effective_salt h salt) info (dem_key_size d) /\
      key' = hkdf h (kem' ++ s') (effective_salt h salt) info' (dem_key_size d) /\
      length iv' = dem_iv_size d /\
      body = dem_frame gcm_seal aes_ctr hmac_sha256 siv_seal d key iv pt /\
      body = dem_frame gcm_seal aes_ctr hmac_sha256 siv_seal d key' iv' p' /\
      (dem_clash gcm_seal aes_ctr hmac_sha256 siv_seal d key iv pt key' iv' p'
       \/ (key' = key /\ p' = pt /\
           hkdf_clash hkdf h (kem ++ s) (effective_salt h salt) info (kem' ++ s') (effective_salt h salt) info' (dem_key_size d))).
Proof.
  intros until siv_open. intros HL. use_ecies_laws HL. intros.
  eapply ecies_binding_kem_info_explicit with (ec_pub := ec_pub) (gcm_open := gcm_open) (siv_open := siv_open); eassumption.
Qed.
Print Assumptions C06_ecies_binding_kem_and_info.

(* A changed DEM ciphertext (payload) is accepted only if it is itself a DEM frame,
   under the very DEM key of the honest ciphertext, of the plaintext returned, with
   another plaintext or another IV (producing one without the key is forgery of the
   DEM: outside the symbolic model). *)
Theorem C06_ecies_binding_payload :
  forall ec_dh ec_pub ec_oncurve ec_decompress hkdf gcm_seal gcm_open aes_ctr hmac_sha256 siv_seal siv_open,
  ecies_laws ec_dh ec_pub ec_oncurve ec_decompress hkdf gcm_seal gcm_open aes_ctr hmac_sha256 siv_seal siv_open ->
  forall c h f d salt prefix skR pkR eph iv info pt ct kem body body' p',
    ec_pub c skR = Some pkR ->
    ecies_encrypt ec_dh ec_pub ec_oncurve hkdf gcm_seal aes_ctr hmac_sha256 siv_seal
      c h f d salt prefix pkR eph iv info pt = Ok ct ->
    ct = prefix ++ kem ++ body -> encoding_size c f = Ok (length kem) -> body' <> body ->
    ecies_decrypt ec_dh ec_oncurve ec_decompress hkdf gcm_open aes_ctr hmac_sha256 siv_open
      c h f d salt prefix skR (prefix ++ kem ++ body') info = Ok p' ->
    exists key iv',
      ecies_decapsulate ec_dh ec_oncurve ec_decompress hkdf c h f salt info (dem_key_size d) skR kem = Ok key /\
      length iv' = dem_iv_size d /\
      body = dem_frame gcm_seal aes_ctr hmac_sha256 siv_seal d key iv pt /\
      body' = dem_frame gcm_seal aes_ctr hmac_sha256 siv_seal d key iv' p' /\ (p' <> pt \/ iv' <> iv).
Proof.
  intros until siv_open. intros HL. use_ecies_laws HL. intros.
  eapply ecies_binding_payload with (ec_pub := ec_pub) (pkR := pkR) (eph := eph) (ct := ct); eassumption.
Qed.
Print Assumptions C06_ecies_binding_payload.

(* Another private key, ciphertext and info untouched.
   FULL-STRENGTH CLAUSE OF THE PROPERTY (false, see C06_ecies_other_private_key_refuted):
     forall ... skR' pkR', ec_pub c skR' = Some pkR' -> pkR' <> pkR ->
       ecies_encrypt ... pkR ... = Ok ct -> ecies_decrypt ... skR' ct info = Err   (or a collision of HKDF / the DEM).
   What holds, with the exact exception: if Decrypt under skR' accepts, the DEM
   ciphertext is a frame under both derived keys and either the keys differ
   (dem_clash), or they are equal, the plaintext is the honest one, and either HKDF
   collides on kem || s <> kem || s' or s' = s: BOTH PRIVATE KEYS HAVE THE SAME ECDH
   VALUE ON THE EPHEMERAL POINT.  On a Weierstrass curve x(d'P) = x(dP) for a point P
   of prime order n iff d' = +-d mod n, so the exception set is {skR, n - skR}; the
   recipient public key is not an input of the KDF, and the exception is real (next
   two theorems). *)
Theorem C06_ecies_binding_other_private_key :
  forall ec_dh ec_pub ec_oncurve ec_decompress hkdf gcm_seal gcm_open aes_ctr hmac_sha256 siv_seal siv_open,
  ecies_laws ec_dh ec_pub ec_oncurve ec_decompress hkdf gcm_seal gcm_open aes_ctr hmac_sha256 siv_seal siv_open ->
  forall c h f d salt prefix skR pkR skR' eph iv info pt ct p',
    ec_pub c skR = Some pkR -> length iv = dem_iv_size d ->
    ecies_encrypt ec_dh ec_pub ec_oncurve hkdf gcm_seal aes_ctr hmac_sha256 siv_seal
      c h f d salt prefix pkR eph iv info pt = Ok ct ->
    ecies_decrypt ec_dh ec_oncurve ec_decompress hkdf gcm_open aes_ctr hmac_sha256 siv_open
      c h f d salt prefix skR' ct info = Ok p' ->
    exists kem body P s s' key key' iv',
      ct = prefix ++ kem ++ body /\ encoding_size c f = Ok (length kem) /\
      point_decode ec_oncurve ec_decompress c f kem = Ok P /\ ec_dh c skR P = Some s /\ ec_dh c skR' P = Some s' /\
      key = hkdf h (kem ++ s) (effective_salt h salt) info (dem_key_size d) /\
      key' = hkdf h (kem ++ s') (effective_salt h salt) info (dem_key_size d) /\
      length iv' = dem_iv_size d /\
      body = dem_frame gcm_seal aes_ctr hmac_sha256 siv_seal d key iv pt /\
      body = dem_frame gcm_seal aes_ctr hmac_sha256 siv_seal d key' iv' p' /\
      (dem_clash gcm_seal aes_ctr hmac_sha256 siv_seal d key iv pt key' iv' p'
       \/ (key' = key /\ p' = pt /\
           (s' = s \/
            hkdf_clash hkdf h (kem ++ s) (effective_salt h salt) info (kem ++ s') (effective_salt h salt) info (dem_key_size d)))).
Proof.
  intros until siv_open. intros HL. use_ecies_laws HL. intros.
  eapply ecies_binding_other_key_explicit with (ec_pub := ec_pub) (pkR := pkR) (eph := eph)
    (gcm_open := gcm_open) (siv_open := siv_open); eassumption.
Qed.
Print Assumptions C06_ecies_binding_other_private_key.

(* The exception is real: a private key with the same ECDH function as the
   recipient's (the negated scalar n - d, whose public key is -Q <> Q) decrypts
   exactly what the recipient's key decrypts - in particular every honest
   ciphertext, to the plaintext.  Confirmed on the real code for all three NIST
   curves and all three point formats: findings/ecies_negated_private_key, harness
   mutation n (known finding "ecies negated private key accepted"). *)
Theorem C06_ecies_other_private_key_same_dh_decrypts :
  forall ec_dh ec_pub ec_oncurve ec_decompress hkdf gcm_seal gcm_open aes_ctr hmac_sha256 siv_seal siv_open,
  ecies_laws ec_dh ec_pub ec_oncurve ec_decompress hkdf gcm_seal gcm_open aes_ctr hmac_sha256 siv_seal siv_open ->
  forall c h f d salt prefix skR pkR skR' eph iv info pt ct,
    ec_pub c skR = Some pkR -> length iv = dem_iv_size d ->
    ecies_encrypt ec_dh ec_pub ec_oncurve hkdf gcm_seal aes_ctr hmac_sha256 siv_seal
      c h f d salt prefix pkR eph iv info pt = Ok ct ->
    (forall P, ec_dh c skR' P = ec_dh c skR P) ->
    ecies_decrypt ec_dh ec_oncurve ec_decompress hkdf gcm_open aes_ctr hmac_sha256 siv_open
      c h f d salt prefix skR' ct info = Ok pt /\
    (forall ct' info', 
       ecies_decrypt ec_dh ec_oncurve ec_decompress hkdf gcm_open aes_ctr hmac_sha256 siv_open
         c h f d salt prefix skR' ct' info' =
       ecies_decrypt ec_dh ec_oncurve ec_decompress hkdf gcm_open aes_ctr hmac_sha256 siv_open
         c h f d salt prefix skR ct' info').
Proof.
  intros until siv_open. intros HL. use_ecies_laws HL. intros. split.
  - eapply ecies_other_key_same_dh_decrypts with (ec_pub := ec_pub) (skR := skR) (pkR := pkR) (eph := eph) (iv := iv); eassumption.
  - intros. apply ecies_same_dh_same_decrypt. assumption.
Qed.
Print Assumptions C06_ecies_other_private_key_same_dh_decrypts.

(* Refutation of the unconditional clause: the laws of the primitives do not
   entail "another private key (another public key) yields an error".  Witness: a
   toy group whose public keys differ while the ECDH value is the same - which is
   what the NIST curves do for d and n - d (real-code witness: P-256, SHA-256,
   uncompressed, AES128-GCM, NO_PREFIX, d = 00 11 00..00 05, d' = n - d). *)
Theorem C06_ecies_other_private_key_refuted :
  exists ec_dh ec_pub ec_oncurve ec_decompress hkdf gcm_seal gcm_open aes_ctr hmac_sha256 siv_seal siv_open,
    ecies_laws ec_dh ec_pub ec_oncurve ec_decompress hkdf gcm_seal gcm_open aes_ctr hmac_sha256 siv_seal siv_open /\
    exists c h f d salt prefix skR pkR skR' pkR' eph iv info pt ct,
      ec_pub c skR = Some pkR /\ ec_pub c skR' = Some pkR' /\ pkR' <> pkR /\ length iv = dem_iv_size d /\
      ecies_encrypt ec_dh ec_pub ec_oncurve hkdf gcm_seal aes_ctr hmac_sha256 siv_seal
        c h f d salt prefix pkR eph iv info pt = Ok ct /\
      ecies_decrypt ec_dh ec_oncurve ec_decompress hkdf gcm_open aes_ctr hmac_sha256 siv_open
        c h f d salt prefix skR' ct info = Ok pt.
Proof.
  exists toy_ec_dh, toy2_ec_pub, toy_ec_oncurve, toy_ec_decompress, toy_hkdf, toy_gcm_seal, toy_gcm_open,
    toy_aes_ctr, toy_hmac, toy_siv_seal, toy_siv_open.
  split.
  - split; [exact toy2_ec_dh_comm|]. split; [exact toy2_ec_pub_shape|]. split; [exact toy_ec_decompress_compress|].
    split; [exact toy_hkdf_len|].
    split; [exact toy_gcm_open_seal|]. split; [exact toy_gcm_open_sound|]. split; [exact toy_gcm_seal_len|].
    split; [exact toy_aes_ctr_involutive|]. split; [exact toy_hmac_len|].
    split; [exact toy_siv_open_seal|exact toy_siv_open_sound].
  - exists NIST_P256, SHA256, UNCOMPRESSED, AES128_GCM, [5], [0; 0; 0; 0; 7], (zeros 32), (4 :: zeros 64),
      (1 :: zeros 31), (4 :: (1 :: zeros 31) ++ zeros 32), (zeros 32), (zeros 12), [1; 2; 3], [10; 20].
    eexists. split; [reflexivity|]. split; [reflexivity|]. split; [discriminate|]. split; [reflexivity|].
    split; vm_compute; reflexivity.
Qed.
Print Assumptions C06_ecies_other_private_key_refuted.

(* Events are genuine collisions at a positive length, and refutable in an
   instance whose HKDF does not collide on the inputs at hand. *)
Theorem C06_ecies_binding_events_are_collisions :
  forall hkdf : hash -> bytes -> bytes -> bytes -> nat -> bytes,
  (forall h ikm salt info n, length (hkdf h ikm salt info n) = n) ->
  forall h ikm salt info ikm' salt' info' n,
    hkdf_clash hkdf h ikm salt info ikm' salt' info' n ->
    (ikm, salt, info) <> (ikm', salt', info') /\ hkdf h ikm salt info n = hkdf h ikm' salt' info' n /\
    (0 < length (hkdf h ikm salt info n))%nat /\ hkdf h ikm salt info n <> [].
Proof. intros. eapply hkdf_clash_is_collision; eassumption. Qed.
Print Assumptions C06_ecies_binding_events_are_collisions.

Example C06_hkdf_clash_is_not_free : ~ hkdf_clash inj_hkdf SHA256 [1] [] [5] [2] [] [5] 16.
Proof. exact hkdf_clash_not_free. Qed.

(* The recipient recomputes the sender's ciphertext byte for byte from the KEM
   bytes and DEM IV it carries (what the correspondence evaluates on Tink's output). *)
Theorem C06_ecies_ciphertext_recomputable :
  forall ec_dh ec_pub ec_oncurve ec_decompress hkdf gcm_seal gcm_open aes_ctr hmac_sha256 siv_seal siv_open,
  ecies_laws ec_dh ec_pub ec_oncurve ec_decompress hkdf gcm_seal gcm_open aes_ctr hmac_sha256 siv_seal siv_open ->
  forall c h f d salt prefix skR pkR eph iv info pt ct,
    ec_pub c skR = Some pkR -> length iv = dem_iv_size d ->
    ecies_encrypt ec_dh ec_pub ec_oncurve hkdf gcm_seal aes_ctr hmac_sha256 siv_seal
      c h f d salt prefix pkR eph iv info pt = Ok ct ->
    ecies_recompute ec_dh ec_oncurve ec_decompress hkdf gcm_seal aes_ctr hmac_sha256 siv_seal
      c h f d salt prefix skR ct info pt = Ok ct.
Proof. intros until siv_open. intros HL. use_ecies_laws HL. intros. eapply ecies_recompute_eq; eassumption. Qed.
Print Assumptions C06_ecies_ciphertext_recomputable.

(* Never Panic, for every ciphertext of every length (no law needed). *)
Theorem C06_ecies_decrypt_never_panics :
  forall ec_dh ec_oncurve ec_decompress hkdf gcm_open aes_ctr hmac_sha256 siv_open
         c h f d salt prefix skR ct info,
    ecies_decrypt ec_dh ec_oncurve ec_decompress hkdf gcm_open aes_ctr hmac_sha256 siv_open
      c h f d salt prefix skR ct info <> Panic.
Proof. intros. apply ecies_decrypt_never_panics. Qed.
Print Assumptions C06_ecies_decrypt_never_panics.

Theorem C06_ecies_binding_prefix :
  forall ec_dh ec_oncurve ec_decompress hkdf gcm_open aes_ctr hmac_sha256 siv_open
         c h f d salt prefix skR prefix' rest info,
    length prefix' = length prefix -> prefix' <> prefix ->
    ecies_decrypt ec_dh ec_oncurve ec_decompress hkdf gcm_open aes_ctr hmac_sha256 siv_open
      c h f d salt prefix skR (prefix' ++ rest) info = Err.
Proof. intros. apply ecies_binding_prefix; assumption. Qed.
Print Assumptions C06_ecies_binding_prefix.

Example C06_ecies_nonvacuous :
  ecies_laws toy_ec_dh toy_ec_pub toy_ec_oncurve toy_ec_decompress toy_hkdf toy_gcm_seal toy_gcm_open
    toy_aes_ctr toy_hmac toy_siv_seal toy_siv_open /\
  let skR := zeros 32 in
  let iv := zeros 12 in
  match toy_ec_pub NIST_P256 skR with
  | Some pkR =>
    match ecies_encrypt toy_ec_dh toy_ec_pub toy_ec_oncurve toy_hkdf toy_gcm_seal toy_aes_ctr toy_hmac toy_siv_seal
            NIST_P256 SHA256 COMPRESSED AES128_GCM [5] [0; 0; 0; 0; 7] pkR (zeros 32) iv [1; 2; 3] [10; 20] with
    | Ok ct =>
      ecies_decrypt toy_ec_dh toy_ec_oncurve toy_ec_decompress toy_hkdf toy_gcm_open toy_aes_ctr toy_hmac toy_siv_open
        NIST_P256 SHA256 COMPRESSED AES128_GCM [5] [0; 0; 0; 0; 7] skR ct [1; 2; 3] = Ok [10; 20] /\
      ecies_decrypt toy_ec_dh toy_ec_oncurve toy_ec_decompress toy_hkdf toy_gcm_open toy_aes_ctr toy_hmac toy_siv_open
        NIST_P256 SHA256 COMPRESSED AES128_GCM [5] [0; 0; 0; 0; 7] skR ct [1; 2; 4] = Err /\
      (* an info with the same byte sum is accepted: the premise "Decrypt = Ok p'" of the
         binding theorems is satisfiable (and exhibits a genuine collision of the toy HKDF) *)
      ecies_decrypt toy_ec_dh toy_ec_oncurve toy_ec_decompress toy_hkdf toy_gcm_open toy_aes_ctr toy_hmac toy_siv_open
        NIST_P256 SHA256 COMPRESSED AES128_GCM [5] [0; 0; 0; 0; 7] skR ct [3; 2; 1] = Ok [10; 20]
    | _ => False
    end
  | None => False
  end.
Proof.
  split.
  - split; [exact toy_ec_dh_comm|]. split; [exact toy_ec_pub_shape|]. split; [exact toy_ec_decompress_compress|].
    split; [exact toy_hkdf_len|].
    split; [exact toy_gcm_open_seal|]. split; [exact toy_gcm_open_sound|]. split; [exact toy_gcm_seal_len|].
    split; [exact toy_aes_ctr_involutive|]. split; [exact toy_hmac_len|].
    split; [exact toy_siv_open_seal|exact toy_siv_open_sound].
  - vm_compute. repeat split; reflexivity.
Qed.
