(* C06 — hybrid encryption round-trips, binds context info, follows RFC 9180 / ECIES.
   Statements only; proofs live in proofs/HpkeProofs.v and proofs/EciesProofs.v. *)
From Coq Require Import List NArith Bool.
From Tink Require Import Bytes Xwing Hpke HpkeProofs.
Import ListNotations.
Open Scope N_scope.

(* single-shot: the nonce of the first (only) message is the base nonce *)
Theorem C06_nonce_of_first_message_is_base_nonce :
  forall bn, compute_nonce bn 0 = Ok bn.
Proof. exact compute_nonce_seq0. Qed.
Print Assumptions C06_nonce_of_first_message_is_base_nonce.
