(* C17 — Keyset derivation is a deterministic standard function of (keyset, salt).
   Statements over model/Derive.v: keyderivation.New + DeriveKeyset on top of
   the C11 manager model, with HKDF transcribed from RFC 5869 over an HMAC
   oracle `hmac` (Section variable; the only law used is that its output has
   the hash's length) and `edpub` = Ed25519 public key of a seed.
   Only statements + `exact`; proofs live in proofs/DeriveProofs.v. *)
From Coq Require Import List NArith Bool Arith Lia.
From Tink Require Import Bytes Manager ManagerProofs Derive DeriveProofs.
Import ListNotations.
Open Scope N_scope.

(* 1. SHAPE.  For every valid deriver keyset (distinct ids, exactly one
   primary, which is ENABLED), every salt: the derived keyset holds, in order,
   exactly one key per ENABLED deriver key, with the same key id, status
   ENABLED, the same primary flag, the id requirement / prefix type of the
   derived-key parameters; each derived key is derive_key of its deriver key. *)
Theorem C17_derived_keyset_shape :
  forall hmac edpub, (forall h k m, length (hmac h k m) = hash_len h) ->
  forall ks salt h keys,
    wf_deriver ks ->
    derive_keyset hmac edpub ks salt = DOk h keys ->
    Forall2 (fun e dk => derive_key hmac edpub (d_key e) (d_id e) salt = Some dk) (enabled ks) keys /\
    Forall2 (fun e x =>
               eid x = d_id e /\ est x = Enabled /\ eprim x = d_prim e /\
               ereq x = (if has_id_req (k_type (d_key e)) (k_variant (d_key e)) then Some (d_id e) else None))
            (enabled ks) h /\
    map ekey h = map N.of_nat (seq 0 (length keys)).
Proof. exact derive_keyset_shape. Qed.
Print Assumptions C17_derived_keyset_shape.

(* 2. MATERIAL.  A derived key's material is the leading `consumption type`
   bytes of RFC 5869 HKDF keyed by the deriver's PRF key and PRF salt, with the
   caller's salt as info; its type, id requirement and prefix variant come
   from the derived-key parameters; an Ed25519 key's public key is that of
   the derived seed. *)
Theorem C17_derived_material_is_hkdf :
  forall hmac edpub, (forall h k m, length (hmac h k m) = hash_len h) ->
  forall k id salt dk,
    derive_key hmac edpub k id salt = Some dk ->
    hkdf hmac (k_hash k) (k_ikm k) (k_salt k) salt (consumption (k_type k)) = Some (r_material dk) /\
    length (r_material dk) = consumption (k_type k) /\
    r_type dk = k_type k /\
    r_req dk = (if has_id_req (k_type k) (k_variant k) then Some id else None) /\
    r_variant dk = (if has_id_req (k_type k) (k_variant k) then k_variant k else VRaw) /\
    r_public dk = (match k_type k with DEd25519 => edpub (r_material dk) | _ => [] end).
Proof. exact derive_key_spec. Qed.
Print Assumptions C17_derived_material_is_hkdf.

(* "leading bytes": reading n bytes of the HKDF stream gives the first n
   bytes of any longer read of the same stream. *)
Theorem C17_hkdf_stream_prefix :
  forall hmac, (forall h k m, length (hmac h k m) = hash_len h) ->
  forall h ikm salt info n m okm,
    (n <= m)%nat -> hkdf hmac h ikm salt info m = Some okm ->
    hkdf hmac h ikm salt info n = Some (firstn n okm).
Proof. exact hkdf_prefix. Qed.
Print Assumptions C17_hkdf_stream_prefix.

(* 3. DETERMINISM and salt separation.  derive_keyset is a function of
   (keyset, salt) by construction (it draws nothing from the id tape: the
   manager state it runs on has the empty tape).  The caller's salt reaches
   HMAC as the info of the first expand block, T(1) = HMAC(PRK, salt ‖ 0x01),
   and different salts are different HMAC messages. *)
Theorem C17_salt_is_the_hkdf_info :
  forall hmac h ikm prfsalt salt n,
    (0 < n)%nat -> (n <= hash_len h)%nat ->
    hkdf hmac h ikm prfsalt salt n =
    Some (firstn n (hmac h (hkdf_extract hmac h prfsalt ikm) (salt ++ [1]))).
Proof. exact hkdf_first_block. Qed.
Print Assumptions C17_salt_is_the_hkdf_info.

Theorem C17_different_salts_different_hmac_messages :
  forall salt salt' : bytes, salt ++ [1] = salt' ++ [1] -> salt = salt'.
Proof. exact info_message_injective. Qed.
Print Assumptions C17_different_salts_different_hmac_messages.

Theorem C17_deterministic :
  forall hmac edpub ks salt r1 r2,
    derive_keyset hmac edpub ks salt = r1 -> derive_keyset hmac edpub ks salt = r2 -> r1 = r2.
Proof. intros; congruence. Qed.
Print Assumptions C17_deterministic.

(* 4. The derived keyset is a well-formed handle (C11 invariant: distinct
   ids, exactly one primary, ENABLED, known statuses, requirement-respecting
   ids) — for ANY deriver keyset on which derivation succeeds. *)
Theorem C17_derived_keyset_wellformed :
  forall hmac edpub ks salt h keys,
    derive_keyset hmac edpub ks salt = DOk h keys -> wf_handle h.
Proof. exact derive_keyset_wellformed. Qed.
Print Assumptions C17_derived_keyset_wellformed.

(* 5. Totality: on every valid deriver keyset whose ENABLED keys use a
   supported PRF, derivation succeeds for every salt. *)
Theorem C17_derivation_succeeds :
  forall hmac edpub ks salt,
    wf_deriver ks -> new_ok ks = true ->
    (forall e, In e ks -> (consumption (k_type (d_key e)) <= 255 * hash_len (k_hash (d_key e)))%nat) ->
    exists h keys, derive_keyset hmac edpub ks salt = DOk h keys.
Proof. exact derive_keyset_ok. Qed.
Print Assumptions C17_derivation_succeeds.

(* keyderivation.New fails exactly on an empty handle or an ENABLED key whose
   HKDF PRF is not SHA-256/SHA-512 with at least 32 key bytes. *)
Theorem C17_new_fails_iff :
  forall hmac edpub ks salt,
    derive_keyset hmac edpub ks salt = DNewErr <->
    ks = [] \/ exists e, In e ks /\ d_status e = Enabled /\ prf_ok (d_key e) = false.
Proof. exact new_err_iff. Qed.
Print Assumptions C17_new_fails_iff.

(* Non-vacuity: a toy HMAC of the right length; a two-key deriver keyset with a
   disabled key in between. *)
Example C17_nonvacuous :
  let hmac := fun (h : hash) (k m : bytes) => firstn (hash_len h) (k ++ m ++ zeros 64) in
  let edpub := fun b : bytes => b in
  let k1 := mkDKey SHA256 (repeat 7 32) [] (DAesGcm 16) VTink in
  let k2 := mkDKey SHA512 (repeat 9 32) [1;2] (DHmacPrf 32) VRaw in
  let ks := [mkDEntry 5 Enabled false k1; mkDEntry 6 Disabled false k1; mkDEntry 9 Enabled true k2] in
  (forall h k m, length (hmac h k m) = hash_len h) /\ wf_deriver ks /\
  exists m1 m2,
    derive_keyset hmac edpub ks [42] =
    DOk [mkEntry 5 Enabled false (Some 5) 0; mkEntry 9 Enabled true None 1]
        [mkDerived (DAesGcm 16) VTink (Some 5) m1 []; mkDerived (DHmacPrf 32) VRaw None m2 []].
Proof.
  cbv zeta. split; [|split].
  - intros h k m. rewrite firstn_length_le; auto.
    rewrite !app_length, zeros_length. destruct h; simpl; lia.
  - split.
    + simpl. repeat constructor; simpl; intuition discriminate.
    + eexists. split; [right; right; left; reflexivity|]. repeat split; auto.
      intros e [<-|[<-|[<-|[]]]]; simpl; intros; try discriminate; reflexivity.
  - eexists; eexists. vm_compute. reflexivity.
Qed.
