(* C17 — Keyset derivation is a deterministic standard function of (keyset, salt).
   Statements over model/Derive.v: keyderivation.New + DeriveKeyset on top of
   the C11 manager model, with HKDF transcribed from RFC 5869 over an HMAC
   oracle `hmac` (Section variable; the only law used is that its output has
   the hash's length) and `edpub` = Ed25519 public key of a seed.
   Only statements + `exact`; proofs live in proofs/DeriveProofs.v, DeriveProofs2.v.
   Strengthening round: Derive.hkdf is proved to be THE RFC 5869 function of model/Hkdf.v (the one
   C15 is about) when the oracle is RFC 2104 HMAC, and to be what the x/crypto reader as coded
   (model/HkdfCode.v) delivers to the key deriver's io.ReadFull; salt / PRF-key separation are
   reductions of derive_key to an exhibited truncated-HMAC collision; the literal PRF-key
   separation is refuted (nil salt = HashLen zeros; zero-padded salts). *)
From Coq Require Import List NArith Bool Arith Lia.
From Tink Require Import Bytes Hmac Hkdf HmacCode HkdfCode Manager ManagerProofs Derive DeriveProofs DeriveProofs2.
Import ListNotations.
Open Scope N_scope.

(* 1. SHAPE.  For every valid deriver keyset (distinct ids, exactly one
   primary, which is ENABLED), every salt: the derived keyset holds, in order,
   exactly one key per ENABLED deriver key, with the same key id, status
   ENABLED, the same primary flag, the id requirement / prefix type of the
   derived-key parameters; each derived key is derive_key of its deriver key. *)
Theorem C17_derived_keyset_shape :
  forall hmac edpub, (forall h k m, length (hmac h k m) = hash_len h) ->
  forall ks salt h keys,
    wf_deriver ks ->
    derive_keyset hmac edpub ks salt = DOk h keys ->
    Forall2 (fun e dk => derive_key hmac edpub (d_key e) (d_id e) salt = Some dk) (enabled ks) keys /\
    Forall2 (fun e x =>
               eid x = d_id e /\ est x = Enabled /\ eprim x = d_prim e /\
               ereq x = (if has_id_req (k_type (d_key e)) (k_variant (d_key e)) then Some (d_id e) else None))
            (enabled ks) h /\
    map ekey h = map N.of_nat (seq 0 (length keys)).
Proof. exact derive_keyset_shape. Qed.
Print Assumptions C17_derived_keyset_shape.

(* 2. MATERIAL.  A derived key's material is the leading `consumption type`
   bytes of RFC 5869 HKDF keyed by the deriver's PRF key and PRF salt, with the
   caller's salt as info; its type, id requirement and prefix variant come
   from the derived-key parameters; an Ed25519 key's public key is that of
   the derived seed. *)
Theorem C17_derived_material_is_hkdf :
  forall hmac edpub, (forall h k m, length (hmac h k m) = hash_len h) ->
  forall k id salt dk,
    derive_key hmac edpub k id salt = Some dk ->
    hkdf hmac (k_hash k) (k_ikm k) (k_salt k) salt (consumption (k_type k)) = Some (r_material dk) /\
    length (r_material dk) = consumption (k_type k) /\
    r_type dk = k_type k /\
    r_req dk = (if has_id_req (k_type k) (k_variant k) then Some id else None) /\
    r_variant dk = (if has_id_req (k_type k) (k_variant k) then k_variant k else VRaw) /\
    r_public dk = (match k_type k with DEd25519 => edpub (r_material dk) | _ => [] end).
Proof. exact derive_key_spec. Qed.
Print Assumptions C17_derived_material_is_hkdf.

(* "leading bytes": reading n bytes of the HKDF stream gives the first n
   bytes of any longer read of the same stream. *)
Theorem C17_hkdf_stream_prefix :
  forall hmac, (forall h k m, length (hmac h k m) = hash_len h) ->
  forall h ikm salt info n m okm,
    (n <= m)%nat -> hkdf hmac h ikm salt info m = Some okm ->
    hkdf hmac h ikm salt info n = Some (firstn n okm).
Proof. exact hkdf_prefix. Qed.
Print Assumptions C17_hkdf_stream_prefix.

(* 3. DETERMINISM and salt separation.  derive_keyset is a function of
   (keyset, salt) by construction (it draws nothing from the id tape: the
   manager state it runs on has the empty tape).  The caller's salt reaches
   HMAC as the info of the first expand block, T(1) = HMAC(PRK, salt ‖ 0x01),
   and different salts are different HMAC messages. *)
Theorem C17_salt_is_the_hkdf_info :
  forall hmac h ikm prfsalt salt n,
    (0 < n)%nat -> (n <= hash_len h)%nat ->
    hkdf hmac h ikm prfsalt salt n =
    Some (firstn n (hmac h (hkdf_extract hmac h prfsalt ikm) (salt ++ [1]))).
Proof. exact hkdf_first_block. Qed.
Print Assumptions C17_salt_is_the_hkdf_info.

(* ONE HKDF.  With the HMAC oracle instantiated by RFC 2104 HMAC over the hash functions
   (std_hmac Hash: the obvious instantiation, Derive.hash -> Hmac.hash_alg by name), the HKDF of
   this model is the RFC 5869 function Hkdf.hkdf of model/Hkdf.v -- the function C15 ties to
   RFC 5869 and to the code -- including the empty-salt rule and the 255-block limit. *)
Theorem C17_one_hkdf :
  forall (Hash : hash_alg -> bytes -> bytes) h ikm salt info len,
    Derive.hkdf (std_hmac Hash) h ikm salt info len
    = Hkdf.hkdf (Hash (alg_of h)) (block_size (alg_of h)) (digest_size (alg_of h)) salt ikm info len.
Proof. exact derive_hkdf_is_hkdf. Qed.
Print Assumptions C17_one_hkdf.

(* ... and it is what the CODE's reader hands to a key deriver: streamingprf.Compute(salt) =
   hkdf.New(h, key, prf salt, salt) as coded (x/crypto reader over crypto/hmac as coded, any
   streaming hash computing Hash), then io.ReadFull of n bytes; a nil and an empty PRF salt alike *)
Theorem C17_derive_bytes_as_coded_is_hkdf :
  forall (Hash : hash_alg -> bytes -> bytes), (forall a x, length (Hash a x) = digest_size a) ->
  forall (S : Type) (h_init : S) (h_write : S -> bytes -> S) (h_sum : S -> bytes) (marshalable : bool)
         (h : Derive.hash),
    (forall chunks, h_sum (fold_left h_write chunks h_init) = Hash (alg_of h) (concat chunks)) ->
    forall key prfsalt salt n,
      tink_derive_bytes_code S h_init h_write h_sum (block_size (alg_of h)) marshalable
        (digest_size (alg_of h)) key
        (match prfsalt with [] => None | _ => Some prfsalt end) salt n
      = Derive.hkdf (std_hmac Hash) h key prfsalt salt n
      /\
      tink_derive_bytes_code S h_init h_write h_sum (block_size (alg_of h)) marshalable
        (digest_size (alg_of h)) key (Some prfsalt) salt n
      = Derive.hkdf (std_hmac Hash) h key prfsalt salt n.
Proof. exact derive_bytes_code_is_derive_hkdf. Qed.
Print Assumptions C17_derive_bytes_as_coded_is_hkdf.

(* SALT SEPARATION as a reduction, about derive_key: two derivations from one deriver key with
   different caller salts that yield the same key material of positive length exhibit a
   collision of HMAC truncated to n = min(key length, HashLen) > 0 bytes, under the key PRK,
   on the two different messages salt || 0x01 and salt' || 0x01.
   (Checked against algebraic identities of the construction: ONE key on both sides, so HMAC key
   normalisation is not involved; HMAC / HKDF have no identity on the message side -- the message
   reaches the inner hash verbatim after a fixed-length block; the event is refutable, see
   C17_salt_separation_event_refutable.) *)
Theorem C17_salt_separation_reduction :
  forall hmac edpub, (forall h k m, length (hmac h k m) = hash_len h) ->
  forall k id id' salt salt' dk dk',
    salt <> salt' -> (0 < consumption (k_type k))%nat ->
    derive_key hmac edpub k id salt = Some dk ->
    derive_key hmac edpub k id' salt' = Some dk' ->
    r_material dk = r_material dk' ->
    let prk := Derive.hkdf_extract hmac (k_hash k) (k_salt k) (k_ikm k) in
    let n := Nat.min (consumption (k_type k)) (hash_len (k_hash k)) in
    (0 < n <= hash_len (k_hash k))%nat /\
    salt ++ [1] <> salt' ++ [1] /\
    length (firstn n (hmac (k_hash k) prk (salt ++ [1]))) = n /\
    firstn n (hmac (k_hash k) prk (salt ++ [1])) = firstn n (hmac (k_hash k) prk (salt' ++ [1])).
Proof. exact salt_separation_reduction. Qed.
Print Assumptions C17_salt_separation_reduction.

(* PRF-KEY SEPARATION as a reduction, MODULO HMAC KEY NORMALISATION.  The HMAC is RFC 2104 over an
   arbitrary hash of the right output length (std_hmac Hash), and Extract keys are compared after the
   normalisation RFC 2104 applies to a key (Hmac.hmac_key: hashed if longer than the block, then
   zero-padded to the block size) -- two byte strings with the same normalisation ARE the same HMAC key,
   and HMAC agrees on them by an identity, not by a collision (that class is the refuted one below and
   is excluded here by the premise).  Two deriver keys (same hash, same derived type) whose
   (normalised effective salt, key bytes) differ and that derive the same material of positive length
   for one caller salt exhibit
     either an Extract collision: HMAC agrees on two (key, message) pairs whose NORMALISED keys or
            messages differ (by C17_hmac_collision_is_hash_collision: a collision of the hash itself),
     or     a collision of HMAC truncated to n = min(key length, HashLen) > 0 bytes on salt || 0x01
            under two keys PRK, PRK' whose normalisations differ.
   The premise excludes normalised-EQUAL salts; nothing hides there: C17_prf_key_separation_exhaustive
   splits them into the RFC identities and a located hash collision (two long salts, same hash). *)
Theorem C17_prf_key_separation_reduction :
  forall (Hash : hash_alg -> bytes -> bytes), (forall a x, length (Hash a x) = digest_size a) ->
  forall edpub k k' id id' salt dk dk',
    k_hash k = k_hash k' -> k_type k = k_type k' ->
    let h := k_hash k in
    let H := Hash (alg_of h) in let B := block_size (alg_of h) in
    (hmac_key H B (eff_salt h (k_salt k)), k_ikm k)
      <> (hmac_key H B (eff_salt h (k_salt k')), k_ikm k') ->
    (0 < consumption (k_type k))%nat ->
    derive_key (std_hmac Hash) edpub k id salt = Some dk ->
    derive_key (std_hmac Hash) edpub k' id' salt = Some dk' ->
    r_material dk = r_material dk' ->
    let prk := hmac H B (eff_salt h (k_salt k)) (k_ikm k) in
    let prk' := hmac H B (eff_salt h (k_salt k')) (k_ikm k') in
    let n := Nat.min (consumption (k_type k)) (hash_len h) in
    (0 < n <= hash_len h)%nat /\
    (((hmac_key H B (eff_salt h (k_salt k)) <> hmac_key H B (eff_salt h (k_salt k')) \/ k_ikm k <> k_ikm k') /\
      length prk = hash_len h /\ prk = prk')
     \/
     (hmac_key H B prk <> hmac_key H B prk' /\
      length (firstn n (hmac H B prk (salt ++ [1]))) = n /\
      firstn n (hmac H B prk (salt ++ [1])) = firstn n (hmac H B prk' (salt ++ [1])))).
Proof. exact prf_key_separation_reduction_norm. Qed.
Print Assumptions C17_prf_key_separation_reduction.

(* WHEN ARE TWO BYTE STRINGS THE SAME HMAC KEY?  Exactly in these cases (hash of output length
   HashLen <= B): both within the block and equal up to trailing zero padding; one longer than the
   block and the other equal to its hash up to zero padding (both identities of RFC 2104); or both
   longer than the block with the same hash -- for different strings a located collision of the hash. *)
Theorem C17_hmac_key_equal_cases :
  forall (H : bytes -> bytes) (B HashLen : nat),
    (forall x, length (H x) = HashLen) -> (HashLen <= B)%nat ->
    forall k k',
      hmac_key H B k = hmac_key H B k' <->
      ((length k <= B)%nat /\ (length k' <= B)%nat /\ pad_twins k k') \/
      ((B < length k)%nat /\ (length k' <= B)%nat /\ pad_twins (H k) k') \/
      ((length k <= B)%nat /\ (B < length k')%nat /\ pad_twins k (H k')) \/
      ((B < length k)%nat /\ (B < length k')%nat /\ H k = H k').
Proof. exact hmac_key_eq_cases. Qed.
Print Assumptions C17_hmac_key_equal_cases.

(* EXHAUSTIVE PRF-key separation: the premise "normalised keys differ" of the reduction above hides
   nothing.  Two LITERALLY different PRF keys (same hash, same derived type) that derive the same
   material of positive length for one caller salt fall in exactly one of
     (I)   same key bytes, salts that are the same HMAC key by an RFC identity (zero padding within
           the block incl. absent = HashLen zeros; a salt longer than the block and its hash) -- the
           refuted class: by C17_norm_equal_salts_derive_equal such keys derive equal keys for EVERY
           caller salt, no event;
     (II)  same key bytes, two different salts longer than the block with the same hash: a located
           COLLISION OF THE HASH at (salt, salt') -- an event;
     (III) normalised-different: the reduction events (Extract collision on pairs whose normalised
           keys or messages differ, or truncated HMAC collision under PRKs of different normalisations). *)
Theorem C17_prf_key_separation_exhaustive :
  forall (Hash : hash_alg -> bytes -> bytes), (forall a x, length (Hash a x) = digest_size a) ->
  forall edpub k k' id id' salt dk dk',
    k_hash k = k_hash k' -> k_type k = k_type k' ->
    (k_salt k, k_ikm k) <> (k_salt k', k_ikm k') ->
    (0 < consumption (k_type k))%nat ->
    derive_key (std_hmac Hash) edpub k id salt = Some dk ->
    derive_key (std_hmac Hash) edpub k' id' salt = Some dk' ->
    r_material dk = r_material dk' ->
    let h := k_hash k in
    let H := Hash (alg_of h) in let B := block_size (alg_of h) in
    let s := k_salt k in let s' := k_salt k' in
    let prk := hmac H B (eff_salt h s) (k_ikm k) in
    let prk' := hmac H B (eff_salt h s') (k_ikm k') in
    let n := Nat.min (consumption (k_type k)) (hash_len h) in
    (k_ikm k = k_ikm k' /\ s <> s' /\
       (((length s <= B)%nat /\ (length s' <= B)%nat /\ pad_twins s s') \/
        ((B < length s)%nat /\ (length s' <= B)%nat /\ pad_twins (H s) s') \/
        ((length s <= B)%nat /\ (B < length s')%nat /\ pad_twins s (H s')))) \/
    (k_ikm k = k_ikm k' /\ (B < length s)%nat /\ (B < length s')%nat /\ s <> s' /\ H s = H s') \/
    ((0 < n <= hash_len h)%nat /\
     (((hmac_key H B s <> hmac_key H B s' \/ k_ikm k <> k_ikm k') /\ length prk = hash_len h /\ prk = prk')
      \/
      (hmac_key H B prk <> hmac_key H B prk' /\
       length (firstn n (hmac H B prk (salt ++ [1]))) = n /\
       firstn n (hmac H B prk (salt ++ [1])) = firstn n (hmac H B prk' (salt ++ [1]))))).
Proof. exact prf_key_separation_exhaustive. Qed.
Print Assumptions C17_prf_key_separation_exhaustive.

(* class (I) really is an identity: the same key bytes and the same NORMALISED salt give the same
   derived key for every caller salt, type and id (general form of the two refuted theorems below) *)
Theorem C17_norm_equal_salts_derive_equal :
  forall (Hash : hash_alg -> bytes -> bytes) edpub h ikm s s' t v id salt,
    hmac_key (Hash (alg_of h)) (block_size (alg_of h)) s
      = hmac_key (Hash (alg_of h)) (block_size (alg_of h)) s' ->
    derive_key (std_hmac Hash) edpub (mkDKey h ikm s t v) id salt
    = derive_key (std_hmac Hash) edpub (mkDKey h ikm s' t v) id salt.
Proof. exact norm_equal_salts_derive_equal. Qed.
Print Assumptions C17_norm_equal_salts_derive_equal.

(* the Extract event above is a collision of the HASH on two different, exhibited inputs: the outer
   inputs (K0 xor opad) || H(inner), or -- with equal normalised keys -- the inner inputs (K0 xor ipad) || m *)
Theorem C17_hmac_collision_is_hash_collision :
  forall (Hash : hash_alg -> bytes -> bytes), (forall a x, length (Hash a x) = digest_size a) ->
  forall a k m k' m',
    let H := Hash a in let B := block_size a in
    (hmac_key H B k <> hmac_key H B k' \/ m <> m') ->
    hmac H B k m = hmac H B k' m' ->
    let k0 := hmac_key H B k in let k0' := hmac_key H B k' in
    let inner := xorb k0 (ipad B) ++ m in let inner' := xorb k0' (ipad B) ++ m' in
    let outer := xorb k0 (opad B) ++ H inner in let outer' := xorb k0' (opad B) ++ H inner' in
    (outer <> outer' /\ H outer = H outer') \/
    (k0 = k0' /\ inner <> inner' /\ H inner = H inner').
Proof. exact hmac_collision_is_hash_collision. Qed.
Print Assumptions C17_hmac_collision_is_hash_collision.

(* The LITERAL clause "different PRF keys give different keys" is false of the model (and of the
   code: confirmed by the correspondence run, cases Z of the generator): (1) for every HMAC, a PRF
   key without salt and the same key bytes with HashLen zero bytes as salt derive the same keys;
   (2) with RFC 2104 HMAC, a salt and the same salt followed by a zero byte (up to the block size)
   derive the same keys.  Both are identities of HKDF / HMAC (RFC 5869 2.2, RFC 2104 key padding),
   not collisions; the reduction above therefore compares EFFECTIVE salts. *)
Theorem C17_prf_key_separation_refuted_nil_salt :
  forall hmac edpub h ikm t v id salt,
    let k := mkDKey h ikm [] t v in
    let k' := mkDKey h ikm (zeros (hash_len h)) t v in
    k <> k' /\ derive_key hmac edpub k id salt = derive_key hmac edpub k' id salt.
Proof. exact prf_key_separation_refuted_nil_salt. Qed.
Print Assumptions C17_prf_key_separation_refuted_nil_salt.

Theorem C17_prf_key_separation_refuted_zero_padded_salt :
  forall (Hash : hash_alg -> bytes -> bytes) edpub h ikm s t v id salt,
    (0 < length s)%nat -> (length s < block_size (alg_of h))%nat ->
    let k := mkDKey h ikm s t v in
    let k' := mkDKey h ikm (s ++ [0]) t v in
    k <> k' /\ derive_key (std_hmac Hash) edpub k id salt = derive_key (std_hmac Hash) edpub k' id salt.
Proof. exact prf_key_separation_refuted_zero_padded_salt. Qed.
Print Assumptions C17_prf_key_separation_refuted_zero_padded_salt.

Theorem C17_deterministic :
  forall hmac edpub ks salt r1 r2,
    derive_keyset hmac edpub ks salt = r1 -> derive_keyset hmac edpub ks salt = r2 -> r1 = r2.
Proof. intros; congruence. Qed.
Print Assumptions C17_deterministic.

(* 4. The derived keyset is a well-formed handle (C11 invariant: distinct
   ids, exactly one primary, ENABLED, known statuses, requirement-respecting
   ids) — for ANY deriver keyset on which derivation succeeds. *)
Theorem C17_derived_keyset_wellformed :
  forall hmac edpub ks salt h keys,
    derive_keyset hmac edpub ks salt = DOk h keys -> wf_handle h.
Proof. exact derive_keyset_wellformed. Qed.
Print Assumptions C17_derived_keyset_wellformed.

(* ... and derived keys are usable as ordinary keys: the handle is well-formed (C11 invariant), every
   entry is ENABLED and carries exactly its key's own id requirement, a required id is the entry's
   id, the key has the RAW variant iff it has no requirement, its material has the length its type
   consumes, and an Ed25519 key carries the public key of its seed. *)
Theorem C17_derived_keys_usable :
  forall hmac edpub, (forall h k m, length (hmac h k m) = hash_len h) ->
  forall ks salt hd keys,
    wf_deriver ks ->
    derive_keyset hmac edpub ks salt = DOk hd keys ->
    wf_handle hd /\
    Forall2 (fun x dk =>
               est x = Enabled /\ ereq x = r_req dk /\
               (forall r, r_req dk = Some r -> r = eid x) /\
               (r_req dk = None <-> r_variant dk = VRaw) /\
               length (r_material dk) = consumption (r_type dk) /\
               r_public dk = (match r_type dk with DEd25519 => edpub (r_material dk) | _ => [] end))
            hd keys /\
    map ekey hd = map N.of_nat (seq 0 (length keys)).
Proof. exact derived_keys_usable. Qed.
Print Assumptions C17_derived_keys_usable.

(* 5. Totality: on every valid deriver keyset whose ENABLED keys use a
   supported PRF, derivation succeeds for every salt. *)
Theorem C17_derivation_succeeds :
  forall hmac edpub ks salt,
    wf_deriver ks -> new_ok ks = true ->
    (forall e, In e ks -> (consumption (k_type (d_key e)) <= 255 * hash_len (k_hash (d_key e)))%nat) ->
    exists h keys, derive_keyset hmac edpub ks salt = DOk h keys.
Proof. exact derive_keyset_ok. Qed.
Print Assumptions C17_derivation_succeeds.

(* keyderivation.New fails exactly on an empty handle or an ENABLED key whose
   HKDF PRF is not SHA-256/SHA-512 with at least 32 key bytes. *)
Theorem C17_new_fails_iff :
  forall hmac edpub ks salt,
    derive_keyset hmac edpub ks salt = DNewErr <->
    ks = [] \/ exists e, In e ks /\ d_status e = Enabled /\ prf_ok (d_key e) = false.
Proof. exact new_err_iff. Qed.
Print Assumptions C17_new_fails_iff.

(* Non-vacuity: a toy HMAC of the right length; a two-key deriver keyset with a
   disabled key in between. *)
Example C17_nonvacuous :
  let hmac := fun (h : hash) (k m : bytes) => firstn (hash_len h) (k ++ m ++ zeros 64) in
  let edpub := fun b : bytes => b in
  let k1 := mkDKey SHA256 (repeat 7 32) [] (DAesGcm 16) VTink in
  let k2 := mkDKey SHA512 (repeat 9 32) [1;2] (DHmacPrf 32) VRaw in
  let ks := [mkDEntry 5 Enabled false k1; mkDEntry 6 Disabled false k1; mkDEntry 9 Enabled true k2] in
  (forall h k m, length (hmac h k m) = hash_len h) /\ wf_deriver ks /\
  exists m1 m2,
    derive_keyset hmac edpub ks [42] =
    DOk [mkEntry 5 Enabled false (Some 5) 0; mkEntry 9 Enabled true None 1]
        [mkDerived (DAesGcm 16) VTink (Some 5) m1 []; mkDerived (DHmacPrf 32) VRaw None m2 []].
Proof.
  cbv zeta. split; [|split].
  - intros h k m. rewrite firstn_length_le; auto.
    rewrite !app_length, zeros_length. destruct h; simpl; lia.
  - split.
    + simpl. repeat constructor; simpl; intuition discriminate.
    + eexists. split; [right; right; left; reflexivity|]. repeat split; auto.
      intros e [<-|[<-|[<-|[]]]]; simpl; intros; try discriminate; reflexivity.
  - eexists; eexists. vm_compute. reflexivity.
Qed.

(* Non-vacuity of the reductions: with a (bad) constant HMAC two different salts do derive the same
   16-byte key; the exhibited collision is real (16 equal bytes on
   different inputs).  std_hmac satisfies the length law for any hash of the right output size. *)
Example C17_reduction_hypotheses_met :
  let hmac := fun (h : hash) (_ _ : bytes) => zeros (hash_len h) in
  let edpub := fun b : bytes => b in
  let k := mkDKey SHA256 (repeat 7 32) [] (DAesGcm 16) VTink in
  (forall h a b, length (hmac h a b) = hash_len h) /\
  (exists dk dk', [1] <> [2] /\ derive_key hmac edpub k 5 [1] = Some dk /\
                  derive_key hmac edpub k 5 [2] = Some dk' /\ r_material dk = r_material dk' /\
                  length (r_material dk) = 16%nat).
Proof.
  cbv zeta. split; [intros h a b; apply zeros_length|].
  do 2 eexists. split; [discriminate|]. split; [vm_compute; reflexivity|].
  split; [vm_compute; reflexivity|]. split; reflexivity.
Qed.

(* PRF-key separation: hypotheses met (a constant hash: two keys with different key bytes derive the
   same material; the exhibited Extract collision is on different messages) ... *)
Example C17_prf_key_reduction_hypotheses_met :
  let Hash := fun a (_ : bytes) => zeros (digest_size a) in
  let edpub := fun b : bytes => b in
  let k := mkDKey SHA256 (repeat 7 32) [] (DAesGcm 16) VTink in
  let k' := mkDKey SHA256 (repeat 8 32) [] (DAesGcm 16) VTink in
  (forall a x, length (Hash a x) = digest_size a) /\
  (hmac_key (Hash Hmac.SHA256) 64 (eff_salt SHA256 []), k_ikm k)
    <> (hmac_key (Hash Hmac.SHA256) 64 (eff_salt SHA256 []), k_ikm k') /\
  exists dk dk', derive_key (std_hmac Hash) edpub k 5 [1] = Some dk /\
                 derive_key (std_hmac Hash) edpub k' 5 [1] = Some dk' /\ r_material dk = r_material dk'.
Proof.
  cbv zeta. split; [intros a x; apply zeros_length|]. split.
  - intros E. inversion E.
  - do 2 eexists. split; [vm_compute; reflexivity|]. split; [vm_compute; reflexivity|]. reflexivity.
Qed.

(* ... and the event is REFUTABLE: no identity of HMAC / HKDF makes it free.  On a toy hash that keeps
   the leading bytes of its input (so HMAC keeps the leading bytes of the normalised key), two PRF
   salts with different normalisations give different PRKs and different truncated first blocks:
   both disjuncts of the conclusion are false, hence such keys cannot derive equal material. *)
Example C17_prf_key_separation_event_refutable :
  let Hash := fun a (m : bytes) => firstn (digest_size a) (m ++ zeros (digest_size a)) in
  let H := Hash Hmac.SHA256 in
  let ikm := repeat 7 32 in
  (forall a x, length (Hash a x) = digest_size a) /\
  hmac_key H 64 [1] <> hmac_key H 64 [2] /\
  let prk := hmac H 64 [1] ikm in let prk' := hmac H 64 [2] ikm in
  prk <> prk' /\
  firstn 16 (hmac H 64 prk ([42] ++ [1])) <> firstn 16 (hmac H 64 prk' ([42] ++ [1])) /\
  (* while the zero-padding twins are NOT normalised-different: the premise excludes them *)
  hmac_key H 64 [1] = hmac_key H 64 [1; 0].
Proof.
  cbv zeta. split.
  - intros a x. rewrite firstn_length, app_length, zeros_length. lia.
  - split; [intros E; vm_compute in E; discriminate|].
    split; [intros E; vm_compute in E; discriminate|].
    split; [intros E; vm_compute in E; discriminate|]. vm_compute. reflexivity.
Qed.

(* the salt-separation event is refutable too: an oracle that keeps the leading bytes of the message
   separates salt || 01 from salt' || 01 at every positive truncation *)
Example C17_salt_separation_event_refutable :
  let hmac := fun (h : hash) (_ m : bytes) => firstn (hash_len h) (m ++ zeros (hash_len h)) in
  (forall h a b, length (hmac h a b) = hash_len h) /\
  forall prk, firstn 16 (hmac SHA256 prk ([1] ++ [1])) <> firstn 16 (hmac SHA256 prk ([2] ++ [1])).
Proof.
  cbv zeta. split.
  - intros h a b. rewrite firstn_length, app_length, zeros_length. lia.
  - intros prk E. vm_compute in E. discriminate.
Qed.

(* case (II) of the exhaustive theorem is inhabited and is a real collision: with a constant hash two
   different 65-byte salts (longer than the 64-byte block) hash alike and derive the same key *)
Example C17_exhaustive_case_II_inhabited :
  let Hash := fun a (_ : bytes) => zeros (digest_size a) in
  let edpub := fun b : bytes => b in
  let k := mkDKey SHA256 (repeat 7 32) (repeat 1 65) (DAesGcm 16) VTink in
  let k' := mkDKey SHA256 (repeat 7 32) (repeat 2 65) (DAesGcm 16) VTink in
  (k_salt k, k_ikm k) <> (k_salt k', k_ikm k') /\
  (64 < length (k_salt k))%nat /\ (64 < length (k_salt k'))%nat /\
  Hash Hmac.SHA256 (k_salt k) = Hash Hmac.SHA256 (k_salt k') /\
  exists dk dk', derive_key (std_hmac Hash) edpub k 5 [1] = Some dk /\
                 derive_key (std_hmac Hash) edpub k' 5 [1] = Some dk' /\ r_material dk = r_material dk'.
Proof.
  cbv zeta. split; [intros E; inversion E|]. split; [cbn; lia|]. split; [cbn; lia|]. split; [reflexivity|].
  do 2 eexists. split; [vm_compute; reflexivity|]. split; [vm_compute; reflexivity|]. reflexivity.
Qed.

Example C17_std_hmac_length_law :
  forall (Hash : hash_alg -> bytes -> bytes), (forall a x, length (Hash a x) = digest_size a) ->
  forall h k m, length (std_hmac Hash h k m) = hash_len h.
Proof. exact std_hmac_len. Qed.
