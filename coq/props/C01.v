(* C01 — AEAD decrypts what it encrypts, in the documented standard wire format.
   Only statements + short assemblies; proofs live in proofs/*Proofs.v.
   The standard primitives (AES block, HMAC, cipher.AEAD Seal/Open of AES-GCM,
   ChaCha20-Poly1305, XChaCha20-Poly1305) are universally quantified functions
   constrained by the laws named in the premises; at run time they are answered
   by the Go standard library.  enc functions take the IV that crypto/rand
   supplies as an argument; they return Err where the Go code returns an error
   (over-long plaintext) — so "enc = Ok c -> dec c = Ok p" is the round trip. *)
From Coq Require Import List NArith Bool Lia ZifyN ZifyNat.
From Tink Require Import Bytes AeadFrame AeadFrameProofs Ctr CtrProofs EtM EtMProofs
  Polyval PolyvalProofs PolyvalBytesProofs GcmSiv GcmSivProofs Cmac Xaes XaesProofs Envelope EnvelopeProofs
  GcmSivSpec GcmSivSpecProofs EnvelopeDek EnvelopeProofs2 EnvelopeDekEtm EnvelopeDekEtmProofs.
Import ListNotations.
Open Scope N_scope.

Definition aead_seal := bytes -> bytes -> bytes -> bytes -> bytes.          (* key nonce ad plaintext *)
Definition aead_open := bytes -> bytes -> bytes -> bytes -> option bytes.   (* key nonce ad ciphertext *)

(* ------------------------------------------------------------------------- *)
(* AES-GCM (aead/aesgcm, aead/subtle.AESGCM): every key, key id, variant,
   12-byte IV, plaintext, AD.                                                *)
Theorem C01_aesgcm_round_trip :
  forall (seal : aead_seal) (open_ : aead_open),
    seal_len_law seal 16 -> open_seal_law seal open_ gcm_seal_max ->
    forall v id key iv p ad c,
      length iv = 12%nat ->
      aesgcm_enc seal (output_prefix v id) key iv p ad = Ok c ->
      aesgcm_dec open_ (output_prefix v id) key c ad = Ok p.
Proof.
  intros seal open_ HL HO v id key iv p ad c Hiv He.
  unfold aesgcm_dec. rewrite dec_lenfirst_canon.
  apply (na_round_trip seal open_ 12 16 gcm_seal_max None None gcm_tink_max _ key iv p ad c HL HO);
    [intros m; discriminate | intros m; discriminate | exact Hiv | exact He].
Qed.
Print Assumptions C01_aesgcm_round_trip.

(* wire format: prefix || iv || Seal_GCM(key, iv, ad, p), for every plaintext
   the standard library's GCM accepts (<= 2^36-32 bytes) *)
Theorem C01_aesgcm_wire_format :
  forall (seal : aead_seal) v id key iv p ad,
    lenN p <= 2 ^ 36 - 32 ->
    aesgcm_enc seal (output_prefix v id) key iv p ad =
    Ok (output_prefix v id ++ iv ++ seal key iv ad p).
Proof.
  intros. unfold aesgcm_enc. apply (na_enc_total seal (fun _ _ _ _ => None)); [|exact H].
  rewrite gcm_tink_max_val. unfold lenN in *. lia.
Qed.
Print Assumptions C01_aesgcm_wire_format.

(* ChaCha20-Poly1305 (aead/chacha20poly1305 and aead/subtle) *)
Theorem C01_chacha20poly1305_round_trip :
  forall (seal : aead_seal) (open_ : aead_open),
    seal_len_law seal 16 -> open_seal_law seal open_ chacha_seal_max ->
    forall v id key iv p ad c,
      length iv = 12%nat ->
      (chacha_enc seal (output_prefix v id) key iv p ad = Ok c ->
       chacha_dec open_ (output_prefix v id) key c ad = Ok p) /\
      (chacha_subtle_enc seal key iv p ad = Ok c ->
       chacha_subtle_dec open_ key c ad = Ok p).
Proof.
  intros seal open_ HL HO v id key iv p ad c Hiv. split; intros He.
  - unfold chacha_dec. rewrite dec_prefixfirst_canon.
    apply (na_round_trip seal open_ 12 16 chacha_seal_max (Some chacha_open_max) (Some chacha_tink_ct_max) (chacha_tink_max (output_prefix v id)) _ key iv p ad c HL HO);
      [intros m E; inversion E; reflexivity | intros m E; inversion E; vm_compute; discriminate | exact Hiv | exact He].
  - unfold chacha_subtle_dec. rewrite dec_lenfirst_canon.
    apply (na_round_trip seal open_ 12 16 chacha_seal_max (Some chacha_open_max) (Some chacha_tink_ct_max) chacha_subtle_tink_max _ key iv p ad c HL HO);
      [intros m E; inversion E; reflexivity | intros m E; inversion E; vm_compute; discriminate | exact Hiv | exact He].
Qed.
Print Assumptions C01_chacha20poly1305_round_trip.

(* XChaCha20-Poly1305 (aead/xchacha20poly1305 and aead/subtle), 24-byte nonce *)
Theorem C01_xchacha20poly1305_round_trip :
  forall (seal : aead_seal) (open_ : aead_open),
    seal_len_law seal 16 -> open_seal_law seal open_ chacha_seal_max ->
    forall v id key iv p ad c,
      length iv = 24%nat -> lenN c <= MaxInt ->
      (xchacha_enc seal (output_prefix v id) key iv p ad = Ok c ->
       xchacha_dec open_ (output_prefix v id) key c ad = Ok p) /\
      (xchacha_enc seal [] key iv p ad = Ok c ->
       xchacha_subtle_dec open_ key c ad = Ok p).
Proof.
  intros seal open_ HL HO v id key iv p ad c Hiv Hc. split; intros He.
  - unfold xchacha_dec. rewrite dec_lenprefix_canon by exact Hc.
    apply (na_round_trip seal open_ 24 16 chacha_seal_max (Some chacha_open_max) (Some chacha_tink_ct_max) xchacha_tink_max _ key iv p ad c HL HO);
      [intros m E; inversion E; reflexivity | intros m E; inversion E; vm_compute; discriminate | exact Hiv | exact He].
  - unfold xchacha_subtle_dec. rewrite dec_lenfirst_canon.
    apply (na_round_trip seal open_ 24 16 chacha_seal_max (Some chacha_open_max) (Some chacha_tink_ct_max) xchacha_tink_max _ key iv p ad c HL HO);
      [intros m E; inversion E; reflexivity | intros m E; inversion E; vm_compute; discriminate | exact Hiv | exact He].
Qed.
Print Assumptions C01_xchacha20poly1305_round_trip.

(* ------------------------------------------------------------------------- *)
(* AES-CTR-HMAC (aead/aesctrhmac; aead/subtle.EncryptThenAuthenticate): every
   AES key, HMAC key, IV size, tag size <= digest size, variant, id, IV, p, ad.
   Only the output lengths of AES and HMAC are assumed.                      *)
Theorem C01_aesctrhmac_round_trip :
  forall (aes hmac : bytes -> bytes -> bytes) (hlen : nat),
    (forall k b, length (aes k b) = 16%nat) -> (forall k m, length (hmac k m) = hlen) ->
    forall v id k iv p ad c,
      (ek_tag k <= hlen)%nat -> length iv = ek_iv k ->
      (etm_enc aes hmac (output_prefix v id) k iv p ad = Ok c ->
       etm_dec aes hmac (output_prefix v id) k c ad = Ok p) /\
      (etm_enc aes hmac [] k iv p ad = Ok c -> etm_subtle_dec aes hmac k c ad = Ok p).
Proof.
  intros aes hmac hlen HA HH v id k iv p ad c Ht Hiv. split; intros He.
  - rewrite (etm_dec_is_canon aes hmac hlen HA HH) by exact Ht.
    exact (etm_round_trip aes hmac hlen HA HH _ k iv p ad c Ht Hiv He).
  - rewrite (etm_subtle_dec_eq aes hmac hlen HA HH) by exact Ht.
    rewrite (etm_dec_is_canon aes hmac hlen HA HH) by exact Ht.
    exact (etm_round_trip aes hmac hlen HA HH _ k iv p ad c Ht Hiv He).
Qed.
Print Assumptions C01_aesctrhmac_round_trip.

(* wire format: prefix || iv || AES-CTR(iv||0.., p) || HMAC(ad || iv||ct || be64(8|ad|))[:tag] *)
Theorem C01_aesctrhmac_wire_format :
  forall (aes hmac : bytes -> bytes -> bytes) (hlen : nat),
    (forall k b, length (aes k b) = 16%nat) -> (forall k m, length (hmac k m) = hlen) ->
    forall v id k iv p ad,
      (ek_tag k <= hlen)%nat -> lenN p <= MaxInt - N.of_nat (ek_iv k) ->
      let ct := aes_ctr (aes (ek_aes k)) iv p in
      etm_enc aes hmac (output_prefix v id) k iv p ad =
      Ok (output_prefix v id ++ (iv ++ ct)
          ++ firstn (ek_tag k) (hmac (ek_hmac k) (ad ++ (iv ++ ct) ++ be_bytes 8 (lenN ad * 8)))).
Proof. intros aes hmac hlen HA HH v id k iv p ad Ht Hp. exact (etm_enc_ok aes hmac hlen HA HH _ k iv p ad Ht Hp). Qed.
Print Assumptions C01_aesctrhmac_wire_format.

(* the MAC input determines (ad, iv||ct): no two (ad, ciphertext) pairs collide *)
Theorem C01_etm_mac_input_injective :
  forall ad1 x1 ad2 x2, lenN ad1 < 2 ^ 61 -> lenN ad2 < 2 ^ 61 ->
    mac_input ad1 x1 = mac_input ad2 x2 -> ad1 = ad2 /\ x1 = x2.
Proof. exact mac_input_injective. Qed.
Print Assumptions C01_etm_mac_input_injective.

(* counter mode: the loop of the Go code (encrypt counter, bump, XOR min(len,16)
   bytes, advance) computes data XOR keystream, preserves length and is an
   involution — for any block function with 16-byte output, any counter
   layout and increment (big-endian 128-bit for crypto/cipher CTR,
   little-endian 32-bit with wrap for RFC 8452) *)
Theorem C01_ctr_involutive :
  forall (E : bytes -> bytes) (blk : N -> bytes) (next : N -> N),
    (forall b, length (E b) = 16%nat) ->
    forall c data,
      ctr_apply E blk next c data = ks_xor E blk next c data /\
      length (ctr_apply E blk next c data) = length data /\
      ctr_apply E blk next c (ctr_apply E blk next c data) = data.
Proof.
  intros E blk next HE c data. repeat split.
  - apply ctr_apply_spec; exact HE.
  - apply ctr_apply_length; exact HE.
  - apply ctr_apply_involutive; exact HE.
Qed.
Print Assumptions C01_ctr_involutive.

(* ------------------------------------------------------------------------- *)
(* AES-GCM-SIV (internal/aead/aesgcmsiv.go + aead/aesgcmsiv): deriveKeys,
   POLYVAL kernels, tag, little-endian 32-bit counter mode — only |AES| = 16
   is assumed.                                                               *)
Theorem C01_aesgcmsiv_round_trip :
  forall (aes : bytes -> bytes -> bytes), (forall k b, length (aes k b) = 16%nat) ->
    forall v id key nonce p ad c,
      length nonce = 12%nat ->
      siv_enc aes (output_prefix v id) key nonce p ad = Ok c ->
      siv_dec aes (output_prefix v id) key c ad = Ok p.
Proof. intros aes HA v id key nonce p ad c. apply siv_round_trip. exact HA. Qed.
Print Assumptions C01_aesgcmsiv_round_trip.

(* Encrypt succeeds for every plaintext up to MaxInt32-28 bytes and AD up to MaxInt32 bytes,
   and the ciphertext is prefix || nonce || CTR32LE(encKey, tag|0x80.., p) || tag *)
Theorem C01_aesgcmsiv_wire_format :
  forall (aes : bytes -> bytes -> bytes), (forall k b, length (aes k b) = 16%nat) ->
    forall v id key nonce p ad,
      length nonce = 12%nat -> lenN p <= MaxInt32 - 12 - 16 -> lenN ad <= MaxInt32 ->
      let tag := tagf aes key nonce p ad in
      siv_enc aes (output_prefix v id) key nonce p ad =
      Ok (output_prefix v id ++ nonce ++ sctr aes (dk_enc aes key nonce) tag p ++ tag).
Proof.
  intros aes HA v id key nonce p ad Hn Hp Ha. unfold siv_enc.
  rewrite (siv_raw_enc_ok aes HA) by assumption. reflexivity.
Qed.
Print Assumptions C01_aesgcmsiv_wire_format.

(* ------------------------------------------------------------------------- *)
(* POLYVAL (internal/aead/polyval.go = aead/subtle/polyval.go): the hand-written
   integer kernels mul32 ("multiplication with holes": four masked copies, uint64
   products, no carries between base-16 digits because at most 8 partial products
   meet), mul64 and polyvalDot (Karatsuba, then the folded reduction by
   x^128+x^127+x^126+x^121+1) compute, for EVERY pair of 128-bit field elements,
   dot(a, b) = a * b * x^-128 of RFC 8452 section 3 (carry-less product and
   bit-serial reduction on N).  Proof: GF(2)-bilinearity of the kernels (the no-carry
   argument, for all inputs) and of the specification, plus agreement on the
   128 x 128 monomial pairs (evaluated by the VM).                             *)
Theorem C01_polyvalDot_is_rfc8452_dot :
  forall a b : bytes, wfb a -> wfb b -> length a = 16%nat -> length b = 16%nat ->
    block_of_fe (polyvalDot (fe_of_block a) (fe_of_block b)) = le_bytes 16 (dot_spec (le_val a) (le_val b)).
Proof. exact polyvalDot_blocks. Qed.
Print Assumptions C01_polyvalDot_is_rfc8452_dot.

(* ... hence POLYVAL as coded (NewPolyval(key); Update(piece) for each piece; Finish()) is
   POLYVAL(H, X_1..X_s) of RFC 8452 over the zero-padded 16-byte blocks of the pieces,
   for every 16-byte key and all byte strings — in particular the AES-GCM-SIV tag input
   POLYVAL(authKey, pad(ad) || pad(pt) || le64(8|ad|) || le64(8|pt|)) *)
Theorem C01_polyval_is_rfc8452_polyval :
  forall key pieces, wfb key -> length key = 16%nat -> Forall wfb pieces ->
    polyval_impl key pieces = polyval_spec key (flat_map blocks_of pieces).
Proof. exact polyval_impl_is_spec. Qed.
Print Assumptions C01_polyval_is_rfc8452_polyval.

(* the specification side is anchored: x^-128 really is the inverse of x^128, and the
   RFC 8452 Appendix A example evaluates to the published value *)
Example C01_polyval_spec_anchors :
  gf_mul xinv128 (pmod_fuel 128 (2 ^ 128)) = 1 /\
  polyval_spec [37;98;147;71;88;146;66;118;29;49;248;38;186;75;117;123]
    [[79;79;149;102;140;131;223;182;64;23;98;187;45;1;162;98];
     [209;162;77;221;39;33;208;6;187;228;95;32;211;201;243;98]]
  = [247;163;180;123;132;97;25;250;229;183;134;108;245;229;183;126].
Proof. split; vm_compute; reflexivity. Qed.

(* ------------------------------------------------------------------------- *)
(* XAES-256-GCM (aead/xaesgcm): per-message key = CMAC(00 01 58 00 || salt || 0..) ||
   CMAC(00 02 58 00 || salt || 0..), then AES-GCM.                            *)
Theorem C01_xaesgcm_round_trip :
  forall (aes : bytes -> bytes -> bytes) (seal : aead_seal) (open_ : aead_open),
    (forall k b, length (aes k b) = 16%nat) ->
    seal_len_law seal 16 -> open_seal_law seal open_ gcm_seal_max ->
    forall saltsize v id key saltiv p ad c,
      length saltiv = (saltsize + 12)%nat ->
      xaes_enc aes seal saltsize (output_prefix v id) key saltiv p ad = Ok c ->
      xaes_dec aes open_ saltsize (output_prefix v id) key c ad = Ok p.
Proof.
  intros aes seal open_ HA HL HO ss v id key saltiv p ad c Hl He.
  rewrite (xaes_dec_is_canon aes seal open_ HA).
  exact (xaes_round_trip aes seal open_ HA HL HO ss _ key saltiv p ad c Hl He).
Qed.
Print Assumptions C01_xaesgcm_round_trip.

Theorem C01_xaesgcm_wire_format :
  forall (aes : bytes -> bytes -> bytes) (seal : aead_seal),
    (forall k b, length (aes k b) = 16%nat) ->
    forall saltsize v id key salt iv p ad,
      length salt = saltsize -> (saltsize <= 12)%nat -> lenN p <= 2 ^ 36 - 32 ->
      let k1 := cmac_impl (aes key) ([0; 1; 88; 0] ++ padded_salt salt) in
      let k2 := cmac_impl (aes key) ([0; 2; 88; 0] ++ padded_salt salt) in
      xaes_enc aes seal saltsize (output_prefix v id) key (salt ++ iv) p ad =
      Ok (output_prefix v id ++ salt ++ iv ++ seal (k1 ++ k2) iv ad p).
Proof.
  intros aes seal HA ss v id key salt iv p ad Hs Hss Hp.
  rewrite (xaes_enc_eq aes seal (fun _ _ _ _ => None) HA) by exact Hs.
  rewrite (na_enc_total seal (fun _ _ _ _ => None)); [rewrite <- !app_assoc; reflexivity| |exact Hp].
  pose proof (output_prefix_length v id) as Hl.
  unfold xaes_tink_max, MaxInt, lenN in *. destruct v; lia.
Qed.
Print Assumptions C01_xaesgcm_wire_format.

(* ------------------------------------------------------------------------- *)
(* KMS envelope (aead/kms_envelope_aead.go): be32(|encDEK|) || encDEK || payload *)
Theorem C01_envelope_parse_build :
  forall encDEK payload c, build_envelope encDEK payload = Ok c ->
    parse_envelope c = Ok (encDEK, payload).
Proof. exact parse_build. Qed.
Print Assumptions C01_envelope_parse_build.

(* the envelope AEAD round-trips whenever the key-encryption AEAD and the
   data-key AEAD do (both are instances of the theorems above) *)
Theorem C01_envelope_round_trip :
  forall kek_enc kek_dec dek_enc dek_dec kivlen divlen,
    kek_rt kek_enc kek_dec kivlen -> dek_rt dek_enc dek_dec divlen ->
    forall dek kekiv dekiv p ad c,
      length kekiv = kivlen -> length dekiv = divlen ->
      env_enc kek_enc dek_enc dek kekiv dekiv p ad = Ok c ->
      env_dec kek_dec dek_dec c ad = Ok p.
Proof.
  intros ke kd de dd kl dl HK HD dek kekiv dekiv p ad c H1 H2 H.
  exact (env_round_trip ke kd de dd kl dl dek kekiv dekiv p ad c HK HD H1 H2 H).
Qed.
Print Assumptions C01_envelope_round_trip.

(* ------------------------------------------------------------------------- *)
(* framing: prefix, IV and body are recovered from prefix || iv || body; the
   output prefix is 5 bytes (start byte 1 = TINK, 0 = CRUNCHY/LEGACY, then the
   big-endian key id) or empty (RAW), and determines start byte and key id   *)
Theorem C01_frame_unframe :
  forall (prefix iv body : bytes),
    firstn (length prefix) (prefix ++ iv ++ body) = prefix /\
    firstn (length iv) (skipn (length prefix) (prefix ++ iv ++ body)) = iv /\
    skipn (length prefix + length iv) (prefix ++ iv ++ body) = body.
Proof.
  intros. rewrite firstn_app_exact, skipn_app_exact, firstn_app_exact. repeat split.
  rewrite app_assoc. apply skipn_app_len. rewrite app_length. reflexivity.
Qed.
Print Assumptions C01_frame_unframe.

Theorem C01_output_prefix :
  forall v id,
    output_prefix v id = match v with
                         | VTink => 1 :: be_bytes 4 id
                         | VCrunchy | VLegacy => 0 :: be_bytes 4 id
                         | VRaw => [] end /\
    length (output_prefix v id) = match v with VRaw => 0%nat | _ => 5%nat end /\
    (forall v2 id2, id < 2 ^ 32 -> id2 < 2 ^ 32 -> v <> VRaw ->
       output_prefix v id = output_prefix v2 id2 -> id = id2 /\ (v = VTink <-> v2 = VTink)).
Proof.
  intros v id. split; [destruct v; reflexivity|]. split; [apply output_prefix_length|].
  intros v2 id2 H1 H2 Hr H. exact (output_prefix_inj v v2 id id2 H1 H2 Hr H).
Qed.
Print Assumptions C01_output_prefix.

(* ------------------------------------------------------------------------- *)
(* Non-vacuity: the premises are satisfiable (a toy AEAD p |-> p || 0^16, a
   constant block function and MAC), and a concrete round trip computes.     *)
Example C01_nonvacuous :
  (seal_len_law toy_seal 16 /\ open_seal_law toy_seal (toy_open gcm_seal_max) gcm_seal_max) /\
  (forall k b : bytes, length ((fun _ _ => zeros 16) k b) = 16%nat) /\
  aesgcm_dec (toy_open gcm_seal_max) (output_prefix VTink 258) [7]
    (match aesgcm_enc toy_seal (output_prefix VTink 258) [7] (zeros 12) [1; 2; 3] [9] with Ok c => c | _ => [] end) [9]
  = Ok [1; 2; 3] /\
  siv_dec (fun _ _ => zeros 16) (output_prefix VCrunchy 1) (zeros 16)
    (match siv_enc (fun _ _ => zeros 16) (output_prefix VCrunchy 1) (zeros 16) (zeros 12) [1; 2; 3] [] with Ok c => c | _ => [] end) []
  = Ok [1; 2; 3].
Proof.
  split; [destruct (toy_laws gcm_seal_max) as [A [B _]]; split; assumption|].
  split; [intros; apply zeros_length|]. split; vm_compute; reflexivity.
Qed.

(* ========================================================================= *)
(* Stretch round (audit items 11 and the C01 rows): explicit wire formats of
   ChaCha20-Poly1305 / XChaCha20-Poly1305, AES-GCM-SIV against a whole-scheme
   RFC 8452 specification, the KMS envelope closed over the data-key AEADs.   *)

(* the laws of a standard AEAD with a 16-byte tag (as in C02.v) *)
Definition std_aead (seal : aead_seal) (open_ : aead_open) (seal_max : N) : Prop :=
  seal_len_law seal 16 /\ open_seal_law seal open_ seal_max /\ open_only_seal_law seal open_ seal_max.

(* ChaCha20-Poly1305 (seal = RFC 8439 AEAD, 12-byte nonce) and XChaCha20-Poly1305
   (seal = the XChaCha20 variant, 24-byte nonce): for every plaintext the library
   accepts (<= 2^38-64 bytes) the ciphertext is  prefix || nonce || Seal(key, nonce, ad, p) *)
Theorem C01_chacha20poly1305_wire_format :
  forall (seal : aead_seal) v id key iv p ad,
    lenN p <= 2 ^ 38 - 64 ->
    chacha_enc seal (output_prefix v id) key iv p ad = Ok (output_prefix v id ++ iv ++ seal key iv ad p) /\
    chacha_subtle_enc seal key iv p ad = Ok (iv ++ seal key iv ad p) /\
    xchacha_enc seal (output_prefix v id) key iv p ad = Ok (output_prefix v id ++ iv ++ seal key iv ad p) /\
    xchacha_enc seal [] key iv p ad = Ok (iv ++ seal key iv ad p).
Proof.
  intros seal v id key iv p ad Hp.
  pose proof (output_prefix_length v id) as Hl.
  assert (H5 : lenN (output_prefix v id) <= 5) by (unfold lenN; destruct v; lia).
  repeat split.
  - unfold chacha_enc. apply (na_enc_total seal (fun _ _ _ _ => None)); [|exact Hp].
    unfold chacha_tink_max, chacha_tink_seal_max, MaxInt. lia.
  - unfold chacha_subtle_enc. apply (na_enc_total seal (fun _ _ _ _ => None)); [|exact Hp].
    unfold chacha_subtle_tink_max, chacha_tink_seal_max, MaxInt. lia.
  - unfold xchacha_enc. apply (na_enc_total seal (fun _ _ _ _ => None)); [|exact Hp].
    unfold xchacha_tink_max, chacha_tink_seal_max, MaxInt. lia.
  - unfold xchacha_enc. apply (na_enc_total seal (fun _ _ _ _ => None)); [|exact Hp].
    unfold xchacha_tink_max, chacha_tink_seal_max, MaxInt. lia.
Qed.
Print Assumptions C01_chacha20poly1305_wire_format.

(* ... and Decrypt of exactly that byte string returns p: Tink decrypts what any
   implementation of the standard AEAD produces in this framing *)
Theorem C01_chacha20poly1305_explicit_round_trip :
  forall (seal : aead_seal) (open_ : aead_open), std_aead seal open_ chacha_seal_max ->
    forall v id key p ad, lenN p <= 2 ^ 38 - 64 ->
      (forall iv, length iv = 12%nat ->
         chacha_dec open_ (output_prefix v id) key (output_prefix v id ++ iv ++ seal key iv ad p) ad = Ok p /\
         chacha_subtle_dec open_ key (iv ++ seal key iv ad p) ad = Ok p) /\
      (forall iv, length iv = 24%nat ->
         xchacha_dec open_ (output_prefix v id) key (output_prefix v id ++ iv ++ seal key iv ad p) ad = Ok p /\
         xchacha_subtle_dec open_ key (iv ++ seal key iv ad p) ad = Ok p).
Proof.
  intros seal open_ [HL [HO HU]] v id key p ad Hp.
  split; intros iv Hiv.
  - destruct (C01_chacha20poly1305_wire_format seal v id key iv p ad Hp) as [E1 [E2 _]].
    destruct (C01_chacha20poly1305_round_trip seal open_ HL HO v id key iv p ad (output_prefix v id ++ iv ++ seal key iv ad p) Hiv) as [R1 _].
    destruct (C01_chacha20poly1305_round_trip seal open_ HL HO v id key iv p ad (iv ++ seal key iv ad p) Hiv) as [_ R2].
    split; [exact (R1 E1)|exact (R2 E2)].
  - destruct (C01_chacha20poly1305_wire_format seal v id key iv p ad Hp) as [_ [_ [E1 E2]]].
    assert (Hs : forall pre : bytes, (length pre <= 5)%nat -> lenN (pre ++ iv ++ seal key iv ad p) <= MaxInt).
    { intros pre Hpre. unfold lenN in *. rewrite !app_length, HL, Hiv. unfold MaxInt. lia. }
    split.
    + destruct (C01_xchacha20poly1305_round_trip seal open_ HL HO v id key iv p ad (output_prefix v id ++ iv ++ seal key iv ad p) Hiv) as [R1 _];
        [apply Hs; rewrite output_prefix_length; destruct v; lia|exact (R1 E1)].
    + destruct (C01_xchacha20poly1305_round_trip seal open_ HL HO v id key iv p ad (iv ++ seal key iv ad p) Hiv) as [_ R2];
        [apply (Hs []); cbn [length]; lia|exact (R2 E2)].
Qed.
Print Assumptions C01_chacha20poly1305_explicit_round_trip.

(* ------------------------------------------------------------------------- *)
(* AES-GCM-SIV = RFC 8452.  model/GcmSivSpec.v is a whole-scheme specification written
   from the text of the RFC (key derivation from the nonce; POLYVAL, on GF(2^128), over
   pad16(ad) || pad16(p) || le64(8|ad|) || le64(8|p|); tag = AES(K_enc, (S xor nonce)
   with bit 127 cleared) on 128-bit little-endian integers; keystream block i =
   AES(K_enc, le32((tag[0..3] + i) mod 2^32) || the other 96 bits of tag with bit 127
   set)), independent of the structure of internal/aead/aesgcmsiv.go.  The model of
   the code produces exactly  prefix || nonce || that  for every key, nonce and all
   inputs within the code's size limits (AES any function with 16-byte well-formed
   output), and decrypts it. *)
Theorem C01_aesgcmsiv_is_rfc8452 :
  forall (aes : bytes -> bytes -> bytes),
    (forall k b, length (aes k b) = 16%nat) -> (forall k b, wfb (aes k b)) ->
    forall prefix key nonce p ad,
      wfb nonce -> wfb p -> wfb ad -> length nonce = 12%nat ->
      lenN p <= MaxInt32 - 12 - 16 -> lenN ad <= MaxInt32 ->
      siv_enc aes prefix key nonce p ad = Ok (prefix ++ nonce ++ rfc8452_encrypt aes key nonce p ad) /\
      siv_dec aes prefix key (prefix ++ nonce ++ rfc8452_encrypt aes key nonce p ad) ad = Ok p.
Proof.
  intros aes HA HW prefix key nonce p ad Hn Hp Ha Ln Lp La.
  pose proof (siv_enc_is_rfc8452 aes HA HW prefix key nonce p ad Hn Hp Ha Ln Lp La) as E.
  split; [exact E|]. exact (siv_round_trip aes HA prefix key nonce p ad _ Ln E).
Qed.
Print Assumptions C01_aesgcmsiv_is_rfc8452.

(* the pieces, individually: derived keys; POLYVAL input = the RFC's padded blocks; the
   tag block on integers; the counter mode by block index *)
Theorem C01_aesgcmsiv_rfc8452_components :
  forall (aes : bytes -> bytes -> bytes),
    (forall k b, length (aes k b) = 16%nat) -> (forall k b, wfb (aes k b)) ->
    forall key nonce p ad enc tag,
      (dk_auth aes key nonce = rfc_auth_key aes key nonce /\ dk_enc aes key nonce = rfc_enc_key aes key nonce) /\
      (wfb p -> wfb ad ->
         polyval_impl (dk_auth aes key nonce) [ad; p; length_block p ad] =
         polyval_spec (rfc_auth_key aes key nonce) (chunks 16 (pad16 ad ++ pad16 p ++ rfc_length_block p ad))) /\
      (wfb nonce -> length nonce = 12%nat -> wfb p -> wfb ad ->
         tagf aes key nonce p ad = rfc_tag aes key nonce p ad) /\
      (wfb tag -> length tag = 16%nat -> sctr aes enc tag p = rfc_ctr aes enc tag p).
Proof.
  intros aes HA HW key nonce p ad enc tag. split; [apply rfc_keys_eq|]. split; [apply polyval_part; assumption|].
  split; [apply tagf_eq; assumption|]. apply ctr_part; assumption.
Qed.
Print Assumptions C01_aesgcmsiv_rfc8452_components.

(* ------------------------------------------------------------------------- *)
(* KMS envelope, closed: the data-key AEAD is what registry.Primitive builds from the
   serialised DEK of the template (model/EnvelopeDek.v: AES-GCM, ChaCha20-Poly1305,
   XChaCha20-Poly1305, AES-GCM-SIV with an empty prefix; unparsable or wrongly sized
   DEKs are errors).  Its round trip is PROVED from the theorems above; only the
   key-encryption AEAD (the remote KMS) is abstract, with its round-trip law explicit. *)
Theorem C01_envelope_round_trip_closed :
  forall (aes : bytes -> bytes -> bytes) gcm_seal gcm_open cc_seal cc_open xcc_seal xcc_open,
    (forall k b, length (aes k b) = 16%nat) ->
    std_aead gcm_seal gcm_open gcm_seal_max -> std_aead cc_seal cc_open chacha_seal_max ->
    std_aead xcc_seal xcc_open chacha_seal_max ->
    forall kek_enc kek_dec kivlen, kek_rt kek_enc kek_dec kivlen ->
    forall kd dek kekiv dekiv p ad c,
      length kekiv = kivlen -> length dekiv = dek_ivlen kd ->
      env_enc kek_enc (dek_enc aes gcm_seal cc_seal xcc_seal kd) dek kekiv dekiv p ad = Ok c ->
      env_dec kek_dec (dek_dec aes gcm_open cc_open xcc_open kd) c ad = Ok p.
Proof.
  intros aes gs go cs co xs xo HA HG HC HX ke kd kl HK kind dek kekiv dekiv p ad c H1 H2 He.
  exact (env_round_trip_closed aes gs go cs co xs xo HA HG HC HX ke kd kl kind dek kekiv dekiv p ad c HK H1 H2 He).
Qed.
Print Assumptions C01_envelope_round_trip_closed.

(* wire format: for a data key k of a supported size (newDEK serialises it as
   tag || len || k), the ciphertext is be32(|encDEK|) || encDEK || payload with
   encDEK = KEK.Encrypt(tag || len || k, "") of 1..4096 bytes and payload = the data-key
   AEAD's ciphertext of (p, ad) (whose format the theorems above give) *)
Theorem C01_envelope_wire_format :
  forall (aes : bytes -> bytes -> bytes) (gcm_seal cc_seal xcc_seal : aead_seal)
         (kek_enc : bytes -> bytes -> bytes -> outcome bytes) kd k kekiv dekiv p ad c,
    dek_size_ok kd k = true ->
    env_enc kek_enc (dek_enc aes gcm_seal cc_seal xcc_seal kd) (dek_proto (dek_tag kd) k) kekiv dekiv p ad = Ok c ->
    exists encDEK payload,
      kek_enc kekiv (dek_tag kd :: lenN k :: k) [] = Ok encDEK /\ 1 <= lenN encDEK <= 4096 /\
      dek_prim_enc aes gcm_seal cc_seal xcc_seal kd k dekiv p ad = Ok payload /\
      c = be_bytes 4 (lenN encDEK) ++ encDEK ++ payload.
Proof. exact env_wire_format_closed. Qed.
Print Assumptions C01_envelope_wire_format.

(* KMS envelope over an AES-CTR-HMAC data key (model/EnvelopeDekEtm.v: the nested key proto newDEK
   serialises = ProtoWire.encode; registry.Primitive unmarshals it as protobuf does - ProtoWire.decode, any
   encoding of the message - and validates it; nothing of the template but its type URL is consulted; AES
   and the HMACs of the five hash types are quantified functions, their output lengths the only
   hypotheses): for the fresh key of ANY valid template (IV 12..16, tag 10..digest size) the envelope built
   around it decrypts to the plaintext, and it is be32(|encDEK|) || encDEK || payload with
   1 <= |encDEK| <= 4096 and a payload of exactly IV size + |p| + tag size bytes - as short as 22 bytes:
   no minimum payload length other than that may be imposed by Decrypt.  (lenN ... < 2^64 holds of every
   byte string that exists.) *)
Theorem C01_envelope_ctrhmac_dek_round_trip :
  forall (aes : bytes -> bytes -> bytes) (hmacs : N -> bytes -> bytes -> bytes),
    (forall k b, length (aes k b) = 16%nat) ->
    (forall h hl, hash_len h = Some hl -> forall k m, length (hmacs h k m) = hl) ->
    forall kek_enc kek_dec kivlen, kek_rt kek_enc kek_dec kivlen ->
    forall h hl k kekiv dekiv p ad c,
      hash_len h = Some hl -> etm_valid hl k = true -> lenN (etm_dek_proto h k) < ProtoWire.two64 ->
      length kekiv = kivlen -> length dekiv = ek_iv k ->
      env_enc kek_enc (etm_dek_enc aes hmacs) (etm_dek_proto h k) kekiv dekiv p ad = Ok c ->
      env_dec kek_dec (etm_dek_dec aes hmacs) c ad = Ok p /\
      exists encDEK payload, kek_enc kekiv (etm_dek_proto h k) [] = Ok encDEK /\
        1 <= lenN encDEK <= 4096 /\
        c = be_bytes 4 (lenN encDEK) ++ encDEK ++ payload /\
        length payload = (ek_iv k + length p + ek_tag k)%nat.
Proof.
  intros aes hmacs HA HH ke kd kl HK h hl k kekiv dekiv p ad c Hh Hv Hl H1 H2 He.
  exact (env_round_trip_etm_fresh aes hmacs HA HH ke kd kl h hl k kekiv dekiv p ad c Hh Hv Hl HK H1 H2 He).
Qed.
Print Assumptions C01_envelope_ctrhmac_dek_round_trip.

(* ... and for ANY byte string the key-encryption AEAD hands back as the serialised data key, in any
   protobuf encoding (explicit zero versions, unknown fields, other field order, long varints), made from
   whatever template: if it unmarshals to a valid key (h, k) and Encrypt drew an IV of THAT key's size *)
Theorem C01_envelope_ctrhmac_dek_round_trip_any_dek :
  forall (aes : bytes -> bytes -> bytes) (hmacs : N -> bytes -> bytes -> bytes),
    (forall k b, length (aes k b) = 16%nat) ->
    (forall h hl, hash_len h = Some hl -> forall k m, length (hmacs h k m) = hl) ->
    forall kek_enc kek_dec kivlen, kek_rt kek_enc kek_dec kivlen ->
    forall dek h k kekiv dekiv p ad c,
      etm_dek_parse dek = Some (h, k) ->
      length kekiv = kivlen -> length dekiv = ek_iv k ->
      env_enc kek_enc (etm_dek_enc aes hmacs) dek kekiv dekiv p ad = Ok c ->
      env_dec kek_dec (etm_dek_dec aes hmacs) c ad = Ok p.
Proof.
  intros aes hmacs HA HH ke kd kl HK dek h k kekiv dekiv p ad c Ep H1 H2 He.
  exact (env_round_trip_etm aes hmacs HA HH ke kd kl dek h k kekiv dekiv p ad c HK Ep H1 H2 He).
Qed.
Print Assumptions C01_envelope_ctrhmac_dek_round_trip_any_dek.

(* non-vacuity: AES-128-CTR-HMAC-SHA256 with IV 12 and tag 10 is a valid template whose fresh key
   serialises to the 50 bytes proto.Marshal produces and parses back; other encodings of the same key
   parse to the same key, a key of another IV size is a key all the same, and version 1, a 24-byte AES
   key or a missing HMAC key message are refused *)
Theorem C01_envelope_ctrhmac_dek_small_template_is_valid :
  hash_len 3 = Some 32%nat /\ etm_valid 32 etm_small_key = true /\
  etm_dek_parse (etm_dek_proto 3 etm_small_key) = Some (3, etm_small_key) /\
  etm_dek_proto 3 etm_small_key =
    [18; 22; 18; 2; 8; 12; 26; 16] ++ repeat 1 16 ++ [26; 24; 18; 4; 8; 3; 16; 10; 26; 16] ++ repeat 2 16.
Proof. exact etm_small_valid. Qed.
Print Assumptions C01_envelope_ctrhmac_dek_small_template_is_valid.

Theorem C01_envelope_ctrhmac_dek_encodings :
  let ctr := [18; 22; 18; 2; 8; 12; 26; 16] ++ repeat 1 16 in
  let hm := [26; 24; 18; 4; 8; 3; 16; 10; 26; 16] ++ repeat 2 16 in
  etm_dek_parse ([8; 0] ++ ctr ++ hm) = Some (3, etm_small_key) /\
  etm_dek_parse (ctr ++ hm ++ [40; 1]) = Some (3, etm_small_key) /\
  etm_dek_parse (hm ++ ctr) = Some (3, etm_small_key) /\
  etm_dek_parse (etm_dek_proto 3 (mkEtm (repeat 1 16) (repeat 2 16) 16 10)) = Some (3, mkEtm (repeat 1 16) (repeat 2 16) 16 10) /\
  etm_dek_parse ([8; 1] ++ ctr ++ hm) = None /\
  etm_dek_parse (etm_dek_proto 3 (mkEtm (repeat 1 24) (repeat 2 16) 12 10)) = None /\
  etm_dek_parse ctr = None.
Proof. exact etm_noncanonical_deks_parse. Qed.
Print Assumptions C01_envelope_ctrhmac_dek_encodings.


(* the law asked of the key-encryption AEAD is met by Tink's own AEADs (here AES-GCM with
   any prefix), so the envelope over a local KEK is closed entirely *)
Theorem C01_envelope_kek_law_inhabited :
  forall (seal : aead_seal) (open_ : aead_open), std_aead seal open_ gcm_seal_max ->
    forall prefix key,
      kek_rt (aesgcm_enc seal prefix key) (aesgcm_dec open_ prefix key) 12 /\
      kek_only (aesgcm_enc seal prefix key) (aesgcm_dec open_ prefix key) 12.
Proof. intros seal open_ HL prefix key. exact (aesgcm_is_kek seal open_ prefix key HL). Qed.
Print Assumptions C01_envelope_kek_law_inhabited.

(* the round-trip theorem applied end to end to a concrete instance (toy block function, constant HMACs of
   the right lengths, the toy AEAD under the AES-GCM framing as key-encryption AEAD, whose law is
   C01_envelope_kek_law_inhabited): the 112-byte envelope of [1;2;3] decrypts, and its parts have the
   stated sizes - obtained FROM the theorem, not by evaluating Decrypt *)
Definition toy_hmacs (h : N) (k m : bytes) : bytes := zeros (match hash_len h with Some n => n | None => 0%nat end).
Example C01_envelope_ctrhmac_dek_end_to_end :
  let kenc := aesgcm_enc toy_seal (output_prefix VTink 7) [1] in
  let kdec := aesgcm_dec (toy_open gcm_seal_max) (output_prefix VTink 7) [1] in
  let z := fun _ _ : bytes => zeros 16 in
  exists c, env_enc kenc (etm_dek_enc z toy_hmacs) (etm_dek_proto 3 etm_small_key) (zeros 12) (zeros 12) [1; 2; 3] [9] = Ok c /\
    length c = 112%nat /\
    env_dec kdec (etm_dek_dec z toy_hmacs) c [9] = Ok [1; 2; 3].
Proof.
  cbv zeta.
  destruct (env_enc (aesgcm_enc toy_seal (output_prefix VTink 7) [1]) (etm_dek_enc (fun _ _ : bytes => zeros 16) toy_hmacs)
              (etm_dek_proto 3 etm_small_key) (zeros 12) (zeros 12) [1; 2; 3] [9]) as [c| |] eqn:E;
    [|vm_compute in E; discriminate|vm_compute in E; discriminate].
  exists c. split; [reflexivity|]. split.
  - assert (E' := E). vm_compute in E'. inversion E'. reflexivity.
  - assert (HL : std_aead toy_seal (toy_open gcm_seal_max) gcm_seal_max) by (exact (toy_laws gcm_seal_max)).
    destruct (C01_envelope_kek_law_inhabited toy_seal (toy_open gcm_seal_max) HL (output_prefix VTink 7) [1]) as [HK _].
    refine (proj1 (C01_envelope_ctrhmac_dek_round_trip (fun _ _ => zeros 16) toy_hmacs _ _ _ _ 12%nat HK
                     3 32%nat etm_small_key (zeros 12) (zeros 12) [1; 2; 3] [9] c _ _ _ _ _ E)).
    + intros. apply zeros_length.
    + intros h hl Hh k m. unfold toy_hmacs. rewrite Hh. apply zeros_length.
    + reflexivity.
    + reflexivity.
    + vm_compute. reflexivity.
    + reflexivity.
    + reflexivity.
Qed.

(* Non-vacuity of the stretch theorems: a whole envelope (toy AEAD as KEK and as AES-GCM
   data key) encrypts, has the stated size and decrypts; the RFC 8452 equality on a
   concrete two-block instance with a key- and block-dependent block function *)
Example C01_stretch_nonvacuous :
  (let kenc := aesgcm_enc toy_seal (output_prefix VTink 7) [1] in
   let kdec := aesgcm_dec (toy_open gcm_seal_max) (output_prefix VTink 7) [1] in
   let z := fun _ _ : bytes => zeros 16 in
   match env_enc kenc (dek_enc z toy_seal toy_seal toy_seal DekGcm) (dek_proto (dek_tag DekGcm) (zeros 16))
                 (zeros 12) (zeros 12) [1; 2; 3] [9] with
   | Ok c => env_dec kdec (dek_dec z (toy_open gcm_seal_max) (toy_open chacha_seal_max) (toy_open chacha_seal_max) DekGcm) c [9]
             = Ok [1; 2; 3] /\ length c = (4 + (5 + 12 + 18 + 16) + (12 + 3 + 16))%nat
   | _ => False
   end) /\
  siv_enc toy_aes [1; 0; 0; 0; 7] ex_key ex_nonce ex_pt ex_ad =
    Ok ([1; 0; 0; 0; 7] ++ ex_nonce ++ rfc8452_encrypt toy_aes ex_key ex_nonce ex_pt ex_ad) /\
  std_aead toy_seal (toy_open chacha_seal_max) chacha_seal_max.
Proof.
  split; [exact env_closed_instance|]. split; [exact siv_enc_is_rfc8452_instance|exact (toy_laws chacha_seal_max)].
Qed.
