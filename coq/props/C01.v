(* C01 — AEAD decrypts what it encrypts, in the documented standard wire format.
   Only statements + `exact`; proofs live in proofs/*Proofs.v.  The standard
   primitives are universally quantified functions constrained by the laws
   named in the premises (answered by the Go standard library at run time). *)
From Coq Require Import List NArith Bool.
From Tink Require Import Bytes AeadFrame AeadFrameProofs.
Import ListNotations.
Open Scope N_scope.

(* AES-GCM key type (aead/aesgcm, aead/subtle.AESGCM): for every key, key id,
   prefix variant, 12-byte IV, plaintext and associated data, whenever Encrypt
   returns a ciphertext, Decrypt of it returns exactly the plaintext. *)
Theorem C01_aesgcm_round_trip :
  forall (seal : bytes -> bytes -> bytes -> bytes -> bytes)
         (open_ : bytes -> bytes -> bytes -> bytes -> option bytes),
    seal_len_law seal 16 -> open_seal_law seal open_ gcm_seal_max ->
    forall v id key iv p ad c,
      length iv = 12%nat ->
      aesgcm_enc seal (output_prefix v id) key iv p ad = Ok c ->
      aesgcm_dec open_ (output_prefix v id) key c ad = Ok p.
Proof.
  intros seal open_ HL HO v id key iv p ad c Hiv He.
  unfold aesgcm_dec. rewrite dec_lenfirst_canon.
  apply (na_round_trip seal open_ 12 16 gcm_seal_max None gcm_tink_max _ key iv p ad c HL HO);
    [intros m; discriminate | exact Hiv | exact He].
Qed.
Print Assumptions C01_aesgcm_round_trip.
