(* C09 — JWT verification accepts exactly validly signed, rule-conforming tokens.
   Only statements + `exact`; proofs live in proofs/JwtProofs.v, the
   declarative rules (header_rule, typ_rule, payload_rule, options_rule,
   validator_rule, nodot) in model/JwtSpec.v, the executable model in
   model/Jwt.v and model/Base64url.v; JWK export / import on key material:
   model/Jwk.v, proofs/JwkProofs.v (section "JWK sets"); the JSON TEXT layer
   (bytes -> value, as structpb.Struct.UnmarshalJSON / protojson does it):
   model/Json.v, proofs/JsonLexProofs.v, proofs/JsonProofs.v, proofs/JsonNumProofs.v
   (number literals: what the model decides, what is left to the float oracle),
   proofs/JsonSpecProofs.v (UTF-8, escapes, surrogate pairs against
   specifications written from RFC 3629 / 8259 / 2781) (section "JSON text" at
   the end).

   sig_valid (raw MAC / signature verification of one key) and json_parse
   (structpb JSON parsing) are arbitrary functions: every theorem of the first
   sections holds for all of them.  The last section instantiates json_parse
   with the model's own parser of the JSON text, Json.json_parse_text num.  ONE
   JSON parameter is left, and it DOES decide verdicts: num, the float64 view
   (int64 of the value + shortest decimal text) of a number literal.  The
   theorems of that section hold for every num (num occurs on both sides of
   every iff).  Property C09 is run with num := num_x num0 (json_parse_x):
   there the model itself fixes the view of every literal WITHIN A DIGIT BUDGET
   (at most 800 integer digits; exponent magnitude below 10000 unless the
   mantissa is zero) - in any spelling - whose value is an integer of magnitude
   below 2^53, is zero, rounds to zero, or is out of the float64 range; num0
   (strconv.ParseFloat at run time, the same function protojson calls) is asked
   for values that are not integers, for integers from 2^53 up, and for EVERY
   literal outside the digit budget, because there strconv does not read the
   literal's true value (two deviations of go1.25.11: integer digits beyond the
   800th are dropped without moving the point; exponent digits are dropped once
   the accumulated exponent reaches 10000) (subsection "numbers"): a token whose
   exp / nbf / iat or any other number is written in one of those ways gets
   the verdict the oracle's answer implies, and the model follows it.
   Times: claims in seconds, clock and skew in nanoseconds. *)
From Coq Require Import List NArith ZArith Bool.
From Coq Require String.
From Tink Require Import Bytes Base64url Jwt JwtSpec JwtProofs Jwk JwkProofs Json JsonLexProofs JsonProofs
  JsonNumProofs JsonSpecProofs.
Import ListNotations.
Open Scope N_scope.

(* ---- the decision procedure accepts exactly the conjunction of rules ---- *)

(* VerifyAndDecode / VerifyMACAndDecode returns the verified token r iff:
   NewValidator accepts the options, the token is h.p.s with three dot-free
   parts, s decodes to a non-empty signature valid for "h.p" under an ENABLED
   key of the keyset whose header rule (exact alg, no crit, kid rule) holds,
   h and p decode to JSON objects, typ is absent or a string, the registered
   claims are well-typed, and the validator's typ / iss / aud / exp / nbf /
   iat / skew rules hold; r is the typ header and the decoded payload. *)
Theorem C09_verify_accepts_exactly_the_rule_conforming_tokens :
  forall (sig_valid : N -> bytes -> bytes -> bool) (json_parse : bytes -> option fields)
         (keys : list jkey) (o : vopts) (tok : bytes) (r : rawjwt),
    verify sig_valid json_parse keys o tok = Some (VOk r) <->
    exists v, options_rule o v /\
    exists h p s sg hb pb hdr,
      tok = h ++ dot :: p ++ dot :: s
      /\ nodot h /\ nodot p /\ nodot s
      /\ b64_decode s = Some sg /\ sg <> []
      /\ b64_decode h = Some hb /\ json_parse hb = Some hdr
      /\ b64_decode p = Some pb /\ json_parse pb = Some (r_payload r)
      /\ (exists k, In k keys /\ kenabled k = true
                    /\ sig_valid (kref k) sg (h ++ dot :: p) = true /\ header_rule k hdr)
      /\ typ_rule hdr (r_typ r)
      /\ payload_rule (r_payload r)
      /\ validator_rule v (r_typ r) (r_payload r).
Proof. exact verify_iff_accepts. Qed.
Print Assumptions C09_verify_accepts_exactly_the_rule_conforming_tokens.

(* the same for one full primitive (one key) *)
Theorem C09_single_key_verify_spec :
  forall sig_valid json_parse k v tok r,
    verify_key sig_valid json_parse k v tok = VOk r <->
    exists h p s sg hb pb hdr,
      tok = h ++ dot :: p ++ dot :: s /\ nodot h /\ nodot p /\ nodot s
      /\ b64_decode s = Some sg /\ sg <> []
      /\ b64_decode h = Some hb /\ json_parse hb = Some hdr
      /\ b64_decode p = Some pb /\ json_parse pb = Some (r_payload r)
      /\ sig_valid (kref k) sg (h ++ dot :: p) = true /\ header_rule k hdr
      /\ typ_rule hdr (r_typ r) /\ payload_rule (r_payload r)
      /\ validator_rule v (r_typ r) (r_payload r).
Proof. exact verify_key_spec. Qed.
Print Assumptions C09_single_key_verify_spec.

(* the keyset loop: accepted iff some enabled key accepts; which key does not
   matter for the returned claims; disabled keys never matter *)
Theorem C09_keyset_accepts_iff_some_enabled_key_accepts :
  forall sig_valid json_parse keys v tok interesting r,
    verify_loop sig_valid json_parse keys v tok interesting = VOk r <->
    exists k, In k keys /\ kenabled k = true /\ verify_key sig_valid json_parse k v tok = VOk r.
Proof. exact verify_loop_spec. Qed.
Print Assumptions C09_keyset_accepts_iff_some_enabled_key_accepts.

Theorem C09_claims_do_not_depend_on_the_accepting_key :
  forall sig_valid json_parse k1 k2 v tok r1 r2,
    verify_key sig_valid json_parse k1 v tok = VOk r1 ->
    verify_key sig_valid json_parse k2 v tok = VOk r2 -> r1 = r2.
Proof. exact verify_key_deterministic. Qed.
Print Assumptions C09_claims_do_not_depend_on_the_accepting_key.

Theorem C09_disabled_keys_never_matter :
  forall sig_valid json_parse keys v tok r,
    verify_loop sig_valid json_parse keys v tok false = VOk r <->
    verify_loop sig_valid json_parse (filter kenabled keys) v tok false = VOk r.
Proof. exact verify_loop_enabled_only. Qed.
Print Assumptions C09_disabled_keys_never_matter.

(* ---- the rules are decided exactly (reflection of each executable check) ---- *)

Theorem C09_header_check_is_header_rule :
  forall k hdr,
    validate_header hdr (kalg k) (fst (kid_args (kkid k))) (snd (kid_args (kkid k))) = true
    <-> (lookup s_alg hdr = Some (JStr (kalg k))
         /\ lookup s_crit hdr = None
         /\ match kkid k with
            | KTink id => lookup s_kid hdr = Some (JStr (b64_encode (be_bytes 4 id)))
            | KCustom c => lookup s_kid hdr = None \/ lookup s_kid hdr = Some (JStr c)
            | KIgnored => True
            end).
Proof. exact validate_header_spec. Qed.
Print Assumptions C09_header_check_is_header_rule.

Theorem C09_payload_check_is_payload_rule :
  forall pl, validate_payload pl = true <-> payload_rule pl.
Proof. exact validate_payload_spec. Qed.
Print Assumptions C09_payload_check_is_payload_rule.

Theorem C09_validator_check_is_validator_rule :
  forall v typ pl, payload_rule pl ->
    (validate v (mkRaw typ pl) = true <-> validator_rule v typ pl).
Proof. exact validate_spec. Qed.
Print Assumptions C09_validator_check_is_validator_rule.

(* NewValidator: refuses ExpectedAudiences together with ExpectedAudience,
   Expected* together with Ignore*, and a clock skew above 10 minutes *)
Theorem C09_new_validator_option_rules :
  forall o v, new_validator o = Some v <-> options_rule o v.
Proof. exact new_validator_spec. Qed.
Print Assumptions C09_new_validator_option_rules.

Theorem C09_clock_skew_above_10_minutes_refused :
  forall o, (o_skew o > 600000000000)%Z -> new_validator o = None.
Proof. exact skew_limit. Qed.
Print Assumptions C09_clock_skew_above_10_minutes_refused.

(* validateFieldPresence: the whole truth table *)
Theorem C09_field_presence_truth_table :
  forall ignore present expected,
    field_presence ignore present expected =
    if ignore then Some true
    else match expected, present with
         | false, false => Some true
         | true, true => Some false
         | _, _ => None
         end.
Proof. exact field_presence_table. Qed.
Print Assumptions C09_field_presence_truth_table.

(* ---- boundaries ---- *)

(* exp = now - skew is rejected, one nanosecond (or one second) later is accepted *)
Theorem C09_exp_boundary :
  forall v pl t r, lookup s_exp pl = Some (JNum t r) ->
    (ns t = o_now v - o_skew v -> exp_ok v pl = false)%Z
    /\ (ns t = o_now v - o_skew v + 1 -> exp_ok v pl = true)%Z.
Proof. exact exp_boundary. Qed.
Print Assumptions C09_exp_boundary.

Theorem C09_exp_boundary_whole_seconds :
  forall v pl t r n s,
    lookup s_exp pl = Some (JNum t r) -> o_now v = ns n -> o_skew v = ns s ->
    (t = n - s -> exp_ok v pl = false)%Z /\ (t = n - s + 1 -> exp_ok v pl = true)%Z.
Proof. exact exp_boundary_seconds. Qed.
Print Assumptions C09_exp_boundary_whole_seconds.

(* nbf = now + skew is accepted, one later is rejected; likewise iat when
   ExpectIssuedInThePast *)
Theorem C09_nbf_boundary :
  forall v pl t r, lookup s_nbf pl = Some (JNum t r) ->
    (ns t = o_now v + o_skew v -> nbf_ok v pl = true)%Z
    /\ (ns t = o_now v + o_skew v + 1 -> nbf_ok v pl = false)%Z.
Proof. exact nbf_boundary. Qed.
Print Assumptions C09_nbf_boundary.

Theorem C09_nbf_boundary_whole_seconds :
  forall v pl t r n s,
    lookup s_nbf pl = Some (JNum t r) -> o_now v = ns n -> o_skew v = ns s ->
    (t = n + s -> nbf_ok v pl = true)%Z /\ (t = n + s + 1 -> nbf_ok v pl = false)%Z.
Proof. exact nbf_boundary_seconds. Qed.
Print Assumptions C09_nbf_boundary_whole_seconds.

Theorem C09_iat_boundary :
  forall v pl t r, o_iat_past v = true -> lookup s_iat pl = Some (JNum t r) ->
    (ns t = o_now v + o_skew v -> iat_ok v pl = true)%Z
    /\ (ns t = o_now v + o_skew v + 1 -> iat_ok v pl = false)%Z.
Proof. exact iat_boundary. Qed.
Print Assumptions C09_iat_boundary.

Theorem C09_iat_boundary_whole_seconds :
  forall v pl t r n s,
    o_iat_past v = true -> lookup s_iat pl = Some (JNum t r) -> o_now v = ns n -> o_skew v = ns s ->
    (t = n + s -> iat_ok v pl = true)%Z /\ (t = n + s + 1 -> iat_ok v pl = false)%Z.
Proof. exact iat_boundary_seconds. Qed.
Print Assumptions C09_iat_boundary_whole_seconds.

(* no keyset makes up for a failed time check *)
Theorem C09_accepted_tokens_pass_every_time_check :
  forall sig_valid json_parse keys o v tok r,
    new_validator o = Some v ->
    verify sig_valid json_parse keys o tok = Some (VOk r) ->
    exp_ok v (r_payload r) = true /\ nbf_ok v (r_payload r) = true /\ iat_ok v (r_payload r) = true.
Proof. exact time_check_rejects. Qed.
Print Assumptions C09_accepted_tokens_pass_every_time_check.

(* ---- base64url ---- *)

Theorem C09_b64_decode_encode :
  forall x, wfb x -> b64_decode (b64_encode x) = Some x.
Proof. exact b64_decode_encode. Qed.
Print Assumptions C09_b64_decode_encode.

(* the exact accepted set: alphabet characters only (no padding, no
   whitespace), length mod 4 <> 1; unused trailing bits are NOT checked *)
Theorem C09_b64_decode_accepted_set :
  forall s, b64_decode s <> None <->
            Forall (fun c => b64_val c <> None) s /\ (length s mod 4 <> 1)%nat.
Proof. exact b64_decode_accepts. Qed.
Print Assumptions C09_b64_decode_accepted_set.

Theorem C09_b64_noncanonical_trailing_bits_accepted :
  b64_decode [81; 81] = Some [65] /\ b64_decode [81; 82] = Some [65] /\ b64_encode [65] = [81; 81].
Proof. exact b64_noncanonical_accepted. Qed.
Print Assumptions C09_b64_noncanonical_trailing_bits_accepted.

Theorem C09_b64_encode_injective_and_dot_free :
  forall x y, wfb x -> wfb y ->
    (b64_encode x = b64_encode y -> x = y) /\ ~ In dot (b64_encode x).
Proof. intros x y Wx Wy. split; [apply b64_encode_injective; assumption | apply b64_encode_nodot]. Qed.
Print Assumptions C09_b64_encode_injective_and_dot_free.

Theorem C09_b64_decoded_bytes_are_bytes :
  forall s x, b64_decode s = Some x -> wfb x.
Proof. exact b64_decode_wf. Qed.
Print Assumptions C09_b64_decoded_bytes_are_bytes.

(* an accepted string re-encodes to itself iff its unused trailing bits are
   zero (b64_canonical): the malleable strings are exactly the non-canonical ones *)
Theorem C09_b64_reencode_iff_canonical :
  forall s x, b64_decode s = Some x -> (b64_encode x = s <-> b64_canonical s = true).
Proof. exact b64_reencode. Qed.
Print Assumptions C09_b64_reencode_iff_canonical.

(* ---- consequences for the classic attacks ---- *)

(* a header naming an algorithm no enabled key has ("none", HS256 against an
   RSA/ECDSA keyset, ...) is never accepted, whatever the signature oracle says *)
Theorem C09_foreign_algorithm_never_accepted :
  forall sig_valid json_parse keys o tok r h p s hb hdr a,
    tok = h ++ dot :: p ++ dot :: s -> nodot h -> nodot p -> nodot s ->
    b64_decode h = Some hb -> json_parse hb = Some hdr ->
    lookup s_alg hdr = Some (JStr a) ->
    (forall k, In k keys -> kenabled k = true -> kalg k <> a) ->
    verify sig_valid json_parse keys o tok <> Some (VOk r).
Proof. exact foreign_alg_rejected. Qed.
Print Assumptions C09_foreign_algorithm_never_accepted.

Theorem C09_crit_header_never_accepted :
  forall sig_valid json_parse keys o tok r h p s hb hdr c,
    tok = h ++ dot :: p ++ dot :: s -> nodot h -> nodot p -> nodot s ->
    b64_decode h = Some hb -> json_parse hb = Some hdr ->
    lookup s_crit hdr = Some c ->
    verify sig_valid json_parse keys o tok <> Some (VOk r).
Proof. exact crit_rejected. Qed.
Print Assumptions C09_crit_header_never_accepted.

Theorem C09_empty_signature_never_accepted :
  forall sig_valid json_parse keys o u r,
    verify sig_valid json_parse keys o (u ++ [dot]) <> Some (VOk r).
Proof. exact empty_signature_rejected. Qed.
Print Assumptions C09_empty_signature_never_accepted.

(* adding keys never turns an accepted token into a rejected one *)
Theorem C09_acceptance_monotone_in_keyset :
  forall sig_valid json_parse keys extra1 extra2 o tok r,
    verify sig_valid json_parse keys o tok = Some (VOk r) ->
    verify sig_valid json_parse (extra1 ++ keys ++ extra2) o tok = Some (VOk r).
Proof. exact verify_monotone. Qed.
Print Assumptions C09_acceptance_monotone_in_keyset.

(* the error class of the keyset loop: a validation ("interesting") error iff
   no enabled key accepts and some enabled key fails only at validation *)
Theorem C09_interesting_error_rule :
  forall sig_valid json_parse keys v tok,
    verify_loop sig_valid json_parse keys v tok false = VOther <->
    (forall k r, In k keys -> kenabled k = true -> verify_key sig_valid json_parse k v tok <> VOk r)
    /\ (exists k, In k keys /\ kenabled k = true /\ verify_key sig_valid json_parse k v tok = VOther).
Proof.
  intros. rewrite verify_loop_other. split; intros [H1 H2]; split; auto.
  destruct H2 as [H2|H2]; [discriminate | assumption].
Qed.
Print Assumptions C09_interesting_error_rule.

(* ---- NewRawJWT, encoding and the round trip ---- *)

(* every option of an accepted RawJWTOptions becomes exactly its claim, custom
   claims are kept, nothing else appears, and the payload is rule-conforming *)
Theorem C09_new_raw_jwt_claims :
  forall o r, new_raw_jwt o = Some r ->
    let cc := match ro_custom o with None => [] | Some c => c end in
    let pl := r_payload r in
    r_typ r = ro_typ o
    /\ lookup s_iss pl = jstr (ro_iss o) /\ lookup s_sub pl = jstr (ro_sub o) /\ lookup s_jti pl = jstr (ro_jti o)
    /\ lookup s_iat pl = jtime (ro_iat o) /\ lookup s_exp pl = jtime (ro_exp o) /\ lookup s_nbf pl = jtime (ro_nbf o)
    /\ lookup s_aud pl = match ro_auds o with
                         | Some l => Some (JArr (map JStr l))
                         | None => jstr (ro_aud o)
                         end
    /\ (forall k v, NoDup (map fst cc) -> In (k, v) cc -> lookup k pl = Some v)
    /\ (forall k, is_registered k = false -> ~ In k (map fst cc) -> lookup k pl = None)
    /\ (is_some (ro_exp o) = negb (ro_noexp o))
    /\ payload_rule pl.
Proof. exact new_raw_jwt_claims. Qed.
Print Assumptions C09_new_raw_jwt_claims.

(* the produced header carries exactly the key's algorithm, the raw JWT's typ
   and the kid the key's rule demands *)
Theorem C09_encoded_header_satisfies_the_key :
  forall k r hdr pl, encode_parts k r = Some (hdr, pl) ->
    pl = r_payload r /\ header_rule k hdr /\ typ_rule hdr (r_typ r)
    /\ json_utf8 (JObj hdr) = true /\ json_utf8 (JObj pl) = true.
Proof. exact encode_header_rule. Qed.
Print Assumptions C09_encoded_header_satisfies_the_key.

(* SignAndEncode / ComputeMACAndEncode followed by verification under any
   keyset that holds the key enabled and any validator the claims satisfy
   returns exactly the raw JWT: for every JSON printer/parser pair and every
   signer/verifier pair obeying the four laws below *)
Theorem C09_encode_then_verify_round_trips :
  forall (sig_valid : N -> bytes -> bytes -> bool) (json_parse : bytes -> option fields)
         (json_print : fields -> bytes) (sign : N -> bytes -> bytes),
    (forall f, json_utf8 (JObj f) = true -> json_parse (json_print f) = Some f) ->
    (forall f, wfb (json_print f)) ->
    (forall kr m, sig_valid kr (sign kr m) m = true) ->
    (forall kr m, wfb (sign kr m)) ->
    (forall kr m, sign kr m <> []) ->
    forall keys k o v ro r tok,
      new_raw_jwt ro = Some r ->
      In k keys -> kenabled k = true ->
      encode json_print sign k r = Some tok ->
      new_validator o = Some v -> validate v r = true ->
      verify sig_valid json_parse keys o tok = Some (VOk r).
Proof. exact encode_verify_roundtrip. Qed.
Print Assumptions C09_encode_then_verify_round_trips.

(* the same with the laws required only of the header, payload and signed
   text of the token at hand (used for the non-vacuity example below) *)
Theorem C09_encode_then_verify_round_trips_local :
  forall sig_valid json_parse json_print sign keys k o v ro r hdr pl tok,
    new_raw_jwt ro = Some r ->
    In k keys -> kenabled k = true ->
    encode_parts k r = Some (hdr, pl) ->
    encode json_print sign k r = Some tok ->
    json_parse (json_print hdr) = Some hdr -> json_parse (json_print pl) = Some pl ->
    wfb (json_print hdr) -> wfb (json_print pl) ->
    (forall m, wfb (sign (kref k) m) /\ sign (kref k) m <> [] /\ sig_valid (kref k) (sign (kref k) m) m = true) ->
    new_validator o = Some v -> validate v r = true ->
    verify sig_valid json_parse keys o tok = Some (VOk r).
Proof. exact encode_verify_roundtrip_local. Qed.
Print Assumptions C09_encode_then_verify_round_trips_local.

(* ---- JWK export / import ---- *)

(* whatever the public keyset accepts, the keyset obtained by exporting it to
   a JWK set and importing it back accepts, with the same claims *)
Theorem C09_jwk_export_import_preserves_acceptance :
  forall sig_valid json_parse keys o tok r,
    verify sig_valid json_parse keys o tok = Some (VOk r) ->
    verify sig_valid json_parse (jwk_roundtrip keys) o tok = Some (VOk r).
Proof. exact jwk_roundtrip_preserves. Qed.
Print Assumptions C09_jwk_export_import_preserves_acceptance.

(* ---- non-vacuity: a concrete key, raw JWT, printer, signer and validator ---- *)
Section Example.
  Let k := mkKey 7 true [72; 83; 50; 53; 54] (KTink 16909060).       (* "HS256", TINK id 0x01020304 *)
  Let ro := mkRO (Some [74; 87; 84]) None (Some [[97]; [98]]) None (Some [105]) None
                 None (Some 1700003600%Z) (Some 1700000000%Z) false (Some [([99], JBool true)]).
  (* toy printer: the header prints as "H", the payload as "P" *)
  Let json_print (f : fields) : bytes := if has s_alg f then [72] else [80].
  Let hdr : fields := [(s_alg, JStr (kalg k)); (s_typ, JStr [74; 87; 84]); (s_kid, JStr (tink_kid 16909060))].
  Let json_parse (b : bytes) : option fields :=
    if beq b [72] then Some hdr
    else match new_raw_jwt ro with Some r => Some (r_payload r) | None => None end.
  Let sign (kr : N) (m : bytes) : bytes := kr :: m.
  Let sig_valid (kr : N) (sg m : bytes) : bool := beq sg (kr :: m).
  (* exp = now - skew + 1 s, nbf = now + skew: both boundaries at once *)
  Let o := mkV (Some [74; 87; 84]) (Some [105]) (Some [98]) false false false false false
               5000000000%Z 1699999995000000000%Z None.

  Example C09_nonvacuous :
    exists r tok v,
      new_raw_jwt ro = Some r
      /\ encode json_print sign k r = Some tok
      /\ new_validator o = Some v /\ validate v r = true
      /\ verify sig_valid json_parse [mkKey 1 false [72] KIgnored; k] o tok = Some (VOk r)
      /\ verify sig_valid json_parse [mkKey 1 true [72; 83; 50; 53; 54] KIgnored] o tok = Some VGeneric
      /\ verify sig_valid json_parse (jwk_roundtrip [k]) o tok = Some (VOk r).
  Proof.
    eexists. eexists. eexists.
    split; [vm_compute; reflexivity|].
    split; [vm_compute; reflexivity|].
    split; [vm_compute; reflexivity|].
    split; [vm_compute; reflexivity|].
    split; [vm_compute; reflexivity|].
    split; vm_compute; reflexivity.
  Qed.
End Example.

(* ================= JWK sets: export / import on key material ================= *)

(* model/Jwk.v follows internal/jwk/jwk.go with Ed25519SupportNone (what
   jwt.JWKSetFromPublicKeysetHandle / JWKSetToPublicKeysetHandle pass) over
   PARSED JSON values (objects are read through lookup only: member order is
   irrelevant).  A public key is its algorithm, its material as the Go key
   object stores it (uncompressed point 04||x||y; modulus bytes as given,
   leading zeros kept, and public exponent) and its kid rule.  on_curve (the
   curve-membership answer of crypto/ecdh) is an arbitrary function: every
   theorem holds for all of them.  The key ids a handle draws for imported
   keys are an input (jwk_import_handle). *)

(* ---- import: the exact accepted set ---- *)

(* one element of "keys" is imported as k iff it is an object with: alg one of
   the nine names and (EC) the matching crv; kty EC / RSA; no d (EC), none of
   p q dp dq d qi (RSA); use absent or "sig"; key_ops absent or ["verify"]; kid
   absent (-> IgnoredKID) or a string (-> CustomKID); x, y / n, e strings that
   base64url-decode; (EC) 04||x||y of the curve's length and on the curve;
   (RSA) modulus >= 2048 bit, 65537 <= e <= 2^31-1, e odd; k is exactly that
   algorithm, material and kid rule *)
Theorem C09_jwk_import_key_accepts_exactly :
  forall on_curve v k, import_key on_curve v = Some k <-> jwk_key_rule on_curve v k.
Proof. exact import_key_spec. Qed.
Print Assumptions C09_jwk_import_key_accepts_exactly.

(* the set: an object whose "keys" is a non-empty list of such objects; the
   imported keys are exactly those, in order *)
Theorem C09_jwk_import_set_accepts_exactly :
  forall on_curve j l,
    jwk_import on_curve j = Some l
    <-> exists f vs, j = JObj f /\ lookup s_keys f = Some (JArr vs) /\ vs <> []
                     /\ Forall2 (jwk_key_rule on_curve) vs l.
Proof. exact jwk_import_spec. Qed.
Print Assumptions C09_jwk_import_set_accepts_exactly.

(* the handle: the imported keys in order, all ENABLED, under the drawn ids,
   the last one primary *)
Theorem C09_jwk_import_handle_shape :
  forall on_curve ids j pks,
    jwk_import on_curve j = Some pks -> length ids = length pks ->
    exists ks, jwk_import_handle on_curve ids j = Some (ks, last ids 0)
      /\ map e_key ks = map KPub pks /\ map e_id ks = ids
      /\ Forall (fun en => e_status en = Enabled) ks.
Proof. exact jwk_import_handle_shape. Qed.
Print Assumptions C09_jwk_import_handle_shape.

(* ---- import: what is refused (each for ALL objects) ---- *)

(* "d" present (with any value, null included): never imported *)
Theorem C09_jwk_private_member_d_rejected :
  forall on_curve f, lookup s_d f <> None -> import_key on_curve (JObj f) = None.
Proof. exact reject_d. Qed.
Print Assumptions C09_jwk_private_member_d_rejected.

(* an RS / PS object with any of p, q, dq, dp, d, qi: never imported *)
Theorem C09_jwk_rsa_private_members_rejected :
  forall on_curve f fam a nm,
    lookup s_alg f = Some (JStr (rsa_name fam a)) ->
    In nm [s_p; s_q; s_dq; s_dp; s_d; s_qi] -> lookup nm f <> None ->
    import_key on_curve (JObj f) = None.
Proof. exact reject_rsa_private_member. Qed.
Print Assumptions C09_jwk_rsa_private_members_rejected.

Theorem C09_jwk_use_other_than_sig_rejected :
  forall on_curve f u, lookup s_use f = Some u -> u <> JStr s_sig -> import_key on_curve (JObj f) = None.
Proof. exact reject_use. Qed.
Print Assumptions C09_jwk_use_other_than_sig_rejected.

Theorem C09_jwk_key_ops_other_than_verify_rejected :
  forall on_curve f u,
    lookup s_key_ops f = Some u -> u <> JArr [JStr s_verify] -> import_key on_curve (JObj f) = None.
Proof. exact reject_key_ops. Qed.
Print Assumptions C09_jwk_key_ops_other_than_verify_rejected.

Theorem C09_jwk_kid_not_a_string_rejected :
  forall on_curve f u,
    lookup s_kid f = Some u -> (forall c, u <> JStr c) -> import_key on_curve (JObj f) = None.
Proof. exact reject_kid_not_a_string. Qed.
Print Assumptions C09_jwk_kid_not_a_string_rejected.

(* alg missing, not a string, or any string other than ES256 ES384 ES512 RS256
   RS384 RS512 PS256 PS384 PS512 (EdDSA included: Ed25519SupportNone) *)
Theorem C09_jwk_alg_must_name_a_supported_algorithm :
  forall on_curve f,
    (forall a, lookup s_alg f <> Some (JStr (es_name a))) ->
    (forall fam a, lookup s_alg f <> Some (JStr (rsa_name fam a))) ->
    import_key on_curve (JObj f) = None.
Proof. exact reject_alg. Qed.
Print Assumptions C09_jwk_alg_must_name_a_supported_algorithm.

Theorem C09_jwk_alg_shorter_than_two_or_foreign_prefix_rejected :
  forall on_curve f alg,
    lookup s_alg f = Some (JStr alg) ->
    (length alg < 2)%nat \/ (firstn 2 alg <> s_ES /\ firstn 2 alg <> s_RS /\ firstn 2 alg <> s_PS) ->
    import_key on_curve (JObj f) = None.
Proof.
  intros oc f alg L [H|[H1 [H2 H3]]]; [eapply reject_alg_short | eapply reject_alg_prefix]; eauto.
Qed.
Print Assumptions C09_jwk_alg_shorter_than_two_or_foreign_prefix_rejected.

(* ES256 needs P-256, ES384 P-384, ES512 P-521 *)
Theorem C09_jwk_alg_crv_mismatch_rejected :
  forall on_curve f a,
    lookup s_alg f = Some (JStr (es_name a)) -> lookup s_crv f <> Some (JStr (crv_name a)) ->
    import_key on_curve (JObj f) = None.
Proof. exact reject_crv_mismatch. Qed.
Print Assumptions C09_jwk_alg_crv_mismatch_rejected.

Theorem C09_jwk_kty_wrong_or_missing_rejected :
  forall on_curve f,
    (forall a, lookup s_alg f = Some (JStr (es_name a)) -> lookup s_kty f <> Some (JStr s_EC) ->
               import_key on_curve (JObj f) = None)
    /\ (forall fam a, lookup s_alg f = Some (JStr (rsa_name fam a)) -> lookup s_kty f <> Some (JStr s_RSA) ->
                      import_key on_curve (JObj f) = None).
Proof. intros oc f. split; [apply reject_kty_ec | apply reject_kty_rsa]. Qed.
Print Assumptions C09_jwk_kty_wrong_or_missing_rejected.

(* x, y / n, e missing, not strings, or not base64url (decode_item = None) *)
Theorem C09_jwk_undecodable_number_rejected :
  forall on_curve f,
    (forall a nm, lookup s_alg f = Some (JStr (es_name a)) -> nm = s_x \/ nm = s_y ->
                  decode_item f nm = None -> import_key on_curve (JObj f) = None)
    /\ (forall fam a nm, lookup s_alg f = Some (JStr (rsa_name fam a)) -> nm = s_n \/ nm = s_e ->
                         decode_item f nm = None -> import_key on_curve (JObj f) = None).
Proof. intros oc f. split; [apply reject_ec_coordinate | apply reject_rsa_number]. Qed.
Print Assumptions C09_jwk_undecodable_number_rejected.

Theorem C09_jwk_decode_item_reads_a_base64url_string :
  forall f nm x, decode_item f nm = Some x <-> exists s, lookup nm f = Some (JStr s) /\ b64_decode s = Some x.
Proof. exact decode_item_spec. Qed.
Print Assumptions C09_jwk_decode_item_reads_a_base64url_string.

(* the point: total length of x and y wrong, or 04||x||y not on the curve *)
Theorem C09_jwk_bad_point_rejected :
  forall on_curve f a x y,
    lookup s_alg f = Some (JStr (es_name a)) ->
    decode_item f s_x = Some x -> decode_item f s_y = Some y ->
    (length x + length y)%nat <> (2 * coord_size a)%nat \/ on_curve a (4 :: x ++ y) = false ->
    import_key on_curve (JObj f) = None.
Proof. exact reject_ec_point. Qed.
Print Assumptions C09_jwk_bad_point_rejected.

(* modulus below 2048 bit; exponent below 65537, above 2^31-1, or even *)
Theorem C09_jwk_rsa_parameter_limits :
  forall on_curve f fam a n eb,
    lookup s_alg f = Some (JStr (rsa_name fam a)) ->
    decode_item f s_n = Some n -> decode_item f s_e = Some eb ->
    bitlen n < 2048 \/ be_val eb < 65537 \/ 2147483647 < be_val eb \/ N.odd (be_val eb) = false ->
    import_key on_curve (JObj f) = None.
Proof. exact reject_rsa_parameters. Qed.
Print Assumptions C09_jwk_rsa_parameter_limits.

(* "keys" missing, not a list, or empty; the set not an object; an element
   not an object; one bad key *)
Theorem C09_jwk_set_shape_rejections :
  forall on_curve,
    (forall j, (forall f, j <> JObj f) -> jwk_import on_curve j = None)
    /\ (forall f, (forall l, lookup s_keys f <> Some (JArr l)) -> jwk_import on_curve (JObj f) = None)
    /\ (forall f, lookup s_keys f = Some (JArr []) -> jwk_import on_curve (JObj f) = None)
    /\ (forall v, (forall f, v <> JObj f) -> import_key on_curve v = None)
    /\ (forall f vs v, lookup s_keys f = Some (JArr vs) -> In v vs -> import_key on_curve v = None ->
                       jwk_import on_curve (JObj f) = None).
Proof.
  intros oc. split; [apply jwk_import_not_an_object_rejected|].
  split; [apply jwk_import_keys_not_a_list_rejected|].
  split; [apply jwk_import_empty_list_rejected|].
  split; [apply jwk_import_key_not_an_object | apply jwk_import_one_bad_key].
Qed.
Print Assumptions C09_jwk_set_shape_rejections.

(* ---- export ---- *)

(* FromPublicKeysetHandle succeeds exactly when every ENABLED entry holds one
   of the three public key types, passes the coordinate BitLen test, and has a
   kid that is valid UTF-8 *)
Theorem C09_jwk_export_succeeds_exactly_when :
  forall ks,
    jwk_export ks <> None
    <-> forall en, In en ks -> e_status en = Enabled ->
          exists p, e_key en = KPub p /\ export_key p <> None /\ kid_utf8 (pk_kid p) = true.
Proof. exact jwk_export_succeeds_iff. Qed.
Print Assumptions C09_jwk_export_succeeds_exactly_when.

(* ... and on keysets whose enabled public keys are what the Go constructors
   build (keyset_wf: point of the curve's length starting with 04 and on the
   curve; modulus >= 2048 bit, 65537 <= e <= 2^31-1 odd) the BitLen test never fires *)
Theorem C09_jwk_export_succeeds_exactly_when_constructed :
  forall on_curve ks, keyset_wf on_curve ks ->
    (jwk_export ks <> None
     <-> forall en, In en ks -> e_status en = Enabled ->
           exists p, e_key en = KPub p /\ kid_utf8 (pk_kid p) = true).
Proof. exact jwk_export_succeeds_iff_wf. Qed.
Print Assumptions C09_jwk_export_succeeds_exactly_when_constructed.

(* (b) JWK export refuses private keys: an ENABLED entry holding a private key
   -- or any key that is not a JWT ECDSA / RSA-SSA-PKCS1 / RSA-SSA-PSS public
   key (JWT HMAC, JWT ML-DSA, Ed25519, ...) -- makes the whole export fail *)
Theorem C09_jwk_export_refuses_private_keys :
  forall ks en p secret,
    In en ks -> e_status en = Enabled -> e_key en = KPriv p secret -> jwk_export ks = None.
Proof. exact jwk_export_refuses_private. Qed.
Print Assumptions C09_jwk_export_refuses_private_keys.

Theorem C09_jwk_export_refuses_every_non_public_key :
  forall ks en,
    In en ks -> e_status en = Enabled -> (forall p, e_key en <> KPub p) -> jwk_export ks = None.
Proof.
  intros ks en I S H. apply (jwk_export_refuses_non_public ks en I S). intros [p E]. exact (H p E).
Qed.
Print Assumptions C09_jwk_export_refuses_every_non_public_key.

(* what the code does with entries that are not ENABLED: the loop skips them
   BEFORE looking at the key type, so a DISABLED private (or unsupported) key
   in an otherwise public keyset does not stop the export and is not exported *)
Theorem C09_jwk_export_sees_enabled_entries_only :
  forall ks, jwk_export ks = jwk_export (filter is_enabled ks).
Proof. exact jwk_export_enabled_only. Qed.
Print Assumptions C09_jwk_export_sees_enabled_entries_only.

Theorem C09_jwk_export_ignores_a_disabled_entry_whatever_it_holds :
  forall ks1 ks2 en, e_status en <> Enabled -> jwk_export (ks1 ++ en :: ks2) = jwk_export (ks1 ++ ks2).
Proof. exact jwk_export_ignores_disabled_entry. Qed.
Print Assumptions C09_jwk_export_ignores_a_disabled_entry_whatever_it_holds.

(* ---- export then import ---- *)

(* one key: the exported object is imported back as the same algorithm and
   material with the kid rule  TINK id -> CustomKID base64url(be32 id),
   CustomKID c -> CustomKID c, IgnoredKID -> IgnoredKID *)
Theorem C09_jwk_key_export_then_import :
  forall on_curve p f,
    pubkey_wf on_curve p -> export_key p = Some f -> import_key on_curve (JObj f) = Some (jwk_pub p).
Proof. exact import_export_key. Qed.
Print Assumptions C09_jwk_key_export_then_import.

(* the set: for every constructed keyset whose export succeeds and that has an
   enabled key, import (export ks) = the ENABLED keys of ks in order *)
Theorem C09_jwk_export_then_import :
  forall on_curve ks j,
    keyset_wf on_curve ks -> jwk_export ks = Some j -> enabled_pubs ks <> [] ->
    jwk_import on_curve j = Some (map jwk_pub (enabled_pubs ks)).
Proof. exact jwk_export_import. Qed.
Print Assumptions C09_jwk_export_then_import.

(* a keyset without an enabled key (not constructible through keyset.Manager:
   the primary must be enabled) would export {"keys":[]}, which import refuses *)
Theorem C09_jwk_export_without_enabled_key_is_not_importable :
  forall on_curve ks,
    (forall en, In en ks -> e_status en <> Enabled) ->
    jwk_export ks = Some (JObj [(s_keys, JArr [])])
    /\ jwk_import on_curve (JObj [(s_keys, JArr [])]) = None.
Proof. exact jwk_export_of_no_enabled_key_is_not_importable. Qed.
Print Assumptions C09_jwk_export_without_enabled_key_is_not_importable.

(* ---- link to verification ---- *)

(* kref_of: the raw verifier as a function of the public material alone.  The
   jkey (kref, kalg, kkid -- all that `verify` uses) of the imported key is
   jwk_key of the jkey of the original key *)
Theorem C09_jwk_imported_key_is_jwk_key_of_the_original :
  forall (kref_of : material -> N) b p,
    pk_material (jwk_pub p) = pk_material p /\ alg_name (jwk_pub p) = alg_name p
    /\ jwk_key (jkey_of kref_of b p) = jkey_of kref_of true (jwk_pub p).
Proof.
  intros. split; [apply pk_material_jwk_pub|]. split; [apply alg_name_jwk_pub | apply jwk_key_jkey_of].
Qed.
Print Assumptions C09_jwk_imported_key_is_jwk_key_of_the_original.

(* a public keyset exported to a JWK set and imported back accepts whatever
   the public keyset accepts, with the same claims; the imported keys carry
   the same material and algorithms *)
Theorem C09_jwk_export_import_verifies_what_the_keyset_verifies :
  forall on_curve (kref_of : material -> N) sig_valid json_parse ks j o tok r,
    keyset_wf on_curve ks -> jwk_export ks = Some j ->
    verify sig_valid json_parse (keyset_view kref_of ks) o tok = Some (VOk r) ->
    exists pks, jwk_import on_curve j = Some pks
      /\ map pk_material pks = map pk_material (enabled_pubs ks)
      /\ map alg_name pks = map alg_name (enabled_pubs ks)
      /\ map (jkey_of kref_of true) pks = jwk_roundtrip (keyset_view kref_of ks)
      /\ verify sig_valid json_parse (map (jkey_of kref_of true) pks) o tok = Some (VOk r).
Proof. exact jwk_export_import_preserves_acceptance. Qed.
Print Assumptions C09_jwk_export_import_verifies_what_the_keyset_verifies.

(* ... in particular every token its private keyset signs (same laws on the
   printer / parser and signer / verifier pairs as the round-trip theorem) *)
Theorem C09_jwk_imported_keyset_verifies_every_signed_token :
  forall on_curve (kref_of : material -> N)
         (sig_valid : N -> bytes -> bytes -> bool) (json_parse : bytes -> option fields)
         (json_print : fields -> bytes) (sign : N -> bytes -> bytes),
    (forall f, json_utf8 (JObj f) = true -> json_parse (json_print f) = Some f) ->
    (forall f, wfb (json_print f)) ->
    (forall kr m, sig_valid kr (sign kr m) m = true) ->
    (forall kr m, wfb (sign kr m)) ->
    (forall kr m, sign kr m <> []) ->
    forall ks j p o v ro r tok,
      keyset_wf on_curve ks -> jwk_export ks = Some j -> In p (enabled_pubs ks) ->
      new_raw_jwt ro = Some r ->
      encode json_print sign (jkey_of kref_of true p) r = Some tok ->
      new_validator o = Some v -> validate v r = true ->
      exists pks, jwk_import on_curve j = Some pks
        /\ verify sig_valid json_parse (map (jkey_of kref_of true) pks) o tok = Some (VOk r).
Proof. exact jwk_imported_keyset_verifies_signed_tokens. Qed.
Print Assumptions C09_jwk_imported_keyset_verifies_every_signed_token.

(* ---- non-vacuity: a P-256 key (the base point), an RSA key, a disabled private key ---- *)
Section JwkExample.
  Let g256 : bytes :=
    [4; 107; 23; 209; 242; 225; 44; 66; 71; 248; 188; 230; 229; 99; 164; 64; 242; 119; 3; 125; 129; 45; 235;
     51; 160; 244; 161; 57; 69; 216; 152; 194; 150; 79; 227; 66; 226; 254; 26; 127; 155; 142; 231; 235; 74;
     124; 15; 158; 22; 43; 206; 51; 87; 107; 49; 94; 206; 203; 182; 64; 104; 55; 191; 81; 245].
  (* the only point this on_curve knows *)
  Let oc (a : hsz) (pt : bytes) : bool := match a with H256 => beq pt g256 | _ => false end.
  Let n2048 : bytes := 128 :: repeat 0 255.          (* 2^2047: bit length 2048 *)
  Let es := PubES H256 g256 (KTink 16909060).          (* TINK, id 0x01020304 *)
  Let rs := PubRSA PS H384 (0 :: 0 :: n2048) 65539 (KCustom [107; 49]).   (* leading zeros kept; custom kid "k1" *)
  Let ks : keyset :=
    [mkEntry (KPub es) Enabled 16909060;
     mkEntry (KPriv (PubES H256 g256 KIgnored) [[1]]) Disabled 5;
     mkEntry (KOther 0) Destroyed 6;
     mkEntry (KPub rs) Enabled 7].
  Let x := firstn 32 (tl g256).
  Let y := skipn 32 (tl g256).
  Let obj (xs ys : bytes) (extra : fields) : json :=
    JObj ([(s_kty, JStr s_EC); (s_crv, JStr (crv_name H256)); (s_alg, JStr (es_name H256));
           (s_x, JStr xs); (s_y, JStr ys)] ++ extra).

  Example C09_jwk_nonvacuous :
    keyset_wf oc ks
    /\ enabled_pubs ks = [es; rs]
    /\ (exists j, jwk_export ks = Some j
                  /\ jwk_import oc j = Some [PubES H256 g256 (KCustom (tink_kid 16909060)); rs])
    (* the same keyset with the private key enabled is refused *)
    /\ jwk_export (mkEntry (KPriv (PubES H256 g256 KIgnored) [[1]]) Enabled 5 :: ks) = None
    /\ jwk_export (mkEntry (KOther 0) Enabled 6 :: ks) = None
    (* import: the bare object is accepted; with d, use "enc", key_ops ["sign"] it is not *)
    /\ import_key oc (obj (b64_encode x) (b64_encode y) []) = Some (PubES H256 g256 KIgnored)
    /\ import_key oc (obj (b64_encode x) (b64_encode y) [(s_d, JNull)]) = None
    /\ import_key oc (obj (b64_encode x) (b64_encode y) [(s_use, JStr [101; 110; 99])]) = None
    /\ import_key oc (obj (b64_encode x) (b64_encode y) [(s_key_ops, JArr [JStr [115; 105; 103; 110]])]) = None
    /\ import_key oc (obj (b64_encode x) (b64_encode (firstn 31 y)) []) = None
    (* only the concatenation x||y is checked: 31 + 33 bytes give the same key *)
    /\ import_key oc (obj (b64_encode (firstn 31 x)) (b64_encode (skipn 31 x ++ y)) []) = Some (PubES H256 g256 KIgnored).
  Proof.
    assert (LE : forall a b : N, N.leb a b = true -> a <= b) by (intros a b; apply N.leb_le).
    split.
    { intros en p I S K. unfold ks in I. cbn [In] in I.
      destruct I as [<-|[<-|[<-|[<-|[]]]]]; cbn [e_status e_key] in *; try discriminate; inversion K; subst p.
      - unfold es. cbn [pubkey_wf kid_wf]. split; [apply wfb_check; vm_compute; reflexivity|].
        split; [reflexivity|]. split; [reflexivity|]. split; [vm_compute; reflexivity|]. reflexivity.
      - unfold rs. cbn [pubkey_wf kid_wf]. split; [apply wfb_check; vm_compute; reflexivity|].
        split; [apply LE; vm_compute; reflexivity|].
        split; [split; apply LE; vm_compute; reflexivity|]. split; [reflexivity|].
        apply wfb_check. reflexivity. }
    split; [reflexivity|].
    split; [eexists; split; [vm_compute; reflexivity|]; vm_compute; reflexivity|].
    split; [vm_compute; reflexivity|].
    split; [vm_compute; reflexivity|].
    split; [vm_compute; reflexivity|].
    split; [vm_compute; reflexivity|].
    split; [vm_compute; reflexivity|].
    split; [vm_compute; reflexivity|].
    split; vm_compute; reflexivity.
  Qed.
End JwkExample.

(* ================= JSON text ================= *)
(* json_parse_text num : bytes -> option fields is structpb.Struct.UnmarshalJSON:
   tokenizer (lex) + consumer of the token sequence (parse_tokens).
     toks v          the one token sequence that spells the value v
     nodup_names v   no object inside v (at any depth) has the same name twice
     jdepth v        nesting depth (a scalar is 1; the members of the top-level
                     object sit at depth 1 of the budget recursion_limit = 10000)
     all_ws w        w consists of the bytes 20 09 0A 0D only *)

(* ---- exact acceptance ---- *)

(* a text is accepted with value f  iff  its tokens spell the OBJECT f, no name
   is repeated in any object of f, and f is within the recursion budget *)
Theorem C09_json_text_accepted_exactly :
  forall num s f,
    json_parse_text num s = Some f <->
    lex num s = Some (toks (JObj f)) /\ nodup_names (JObj f) = true
    /\ (jdepth (JObj f) <= recursion_limit)%nat.
Proof. exact json_parse_text_spec. Qed.
Print Assumptions C09_json_text_accepted_exactly.

(* through a declarative relation: spells (JsonLexProofs.v) is an inductive
   token grammar - whitespace, the text of a token (tok_text: punctuation, the
   three literals, a string literal = quote, items of str_item, quote; a number
   literal = num_spells of a well-formed numlit whose float view num gives
   exists), a delimiter or the end after a literal or a number - and nothing
   else.  It is RFC 8259 in STRUCTURE, and it also encodes three things that
   are protojson's rather than the RFC's: the delimiter look-ahead after
   literals and numbers (tok_follow / is_not_delim), the pairing of surrogate
   escapes (a lone surrogate escape is refused), and the float64 range of
   numbers (through num).  Its leaves are shared with the parser (str_item uses
   the parser's byte-range tests, simple_escape, hex4, pair_cp, utf8_enc; is_ws;
   delim_next): subsection "the leaves against the RFCs" below ties each of
   them to a specification written independently (str_item <-> str_item_rfc). *)
Theorem C09_json_accepted_texts_are_exactly_the_spellings_of_good_objects :
  forall num s f,
    json_parse_text num s = Some f <->
    spells num (toks (JObj f)) s /\ nodup_names (JObj f) = true
    /\ (jdepth (JObj f) <= recursion_limit)%nat.
Proof. exact json_text_grammar. Qed.
Print Assumptions C09_json_accepted_texts_are_exactly_the_spellings_of_good_objects.

(* the tokenizer accepts exactly the texts of the token grammar *)
Theorem C09_json_tokenizer_accepts_exactly_the_grammar :
  forall num s ts, lex num s = Some ts <-> spells num ts s.
Proof. exact lex_grammar. Qed.
Print Assumptions C09_json_tokenizer_accepts_exactly_the_grammar.

(* the consumer, on ANY token sequence *)
Theorem C09_json_token_consumer_accepts_exactly_the_spellings :
  forall ts m,
    parse_tokens ts = Some m <->
    ts = toks (JObj m) /\ nodup_names (JObj m) = true /\ (jdepth (JObj m) <= recursion_limit)%nat.
Proof. exact parse_tokens_spec. Qed.
Print Assumptions C09_json_token_consumer_accepts_exactly_the_spellings.

(* one spelling, one value (the token grammar is unambiguous and prefix-free) *)
Theorem C09_json_spelling_determines_the_value :
  forall v v' r r', toks v ++ r = toks v' ++ r' -> v = v' /\ r = r'.
Proof. exact toks_inj. Qed.
Print Assumptions C09_json_spelling_determines_the_value.

(* every accepted text: is valid UTF-8 as a whole, yields only valid UTF-8
   strings and names, no repeated name at any depth, bounded nesting, and
   starts (after whitespace) with '{' *)
Theorem C09_json_accepted_text_shape :
  forall num s f, json_parse_text num s = Some f ->
    utf8_valid s = true /\ json_utf8 (JObj f) = true /\ nodup_names (JObj f) = true
    /\ (jdepth (JObj f) <= recursion_limit)%nat
    /\ exists t, skip_ws s = 123 :: t.
Proof. exact json_accepted_shape. Qed.
Print Assumptions C09_json_accepted_text_shape.

(* ---- what is refused, each for ALL texts ---- *)

Theorem C09_json_invalid_utf8_rejected :
  forall num s, utf8_valid s = false -> json_parse_text num s = None.
Proof. exact json_invalid_utf8_rejected. Qed.
Print Assumptions C09_json_invalid_utf8_rejected.

(* a text that spells (with any whitespace, any escapes) a value in which some
   object, at any depth, has the same member name twice *)
Theorem C09_json_duplicate_member_name_rejected_at_any_depth :
  forall num s v, lex num s = Some (toks v) -> nodup_names v = false -> json_parse_text num s = None.
Proof. exact json_duplicate_name_rejected. Qed.
Print Assumptions C09_json_duplicate_member_name_rejected_at_any_depth.

Theorem C09_json_nesting_beyond_the_recursion_limit_rejected :
  forall num s v, lex num s = Some (toks v) -> (recursion_limit < jdepth v)%nat -> json_parse_text num s = None.
Proof. exact json_too_deep_rejected. Qed.
Print Assumptions C09_json_nesting_beyond_the_recursion_limit_rejected.

(* a top-level array, string, number, true / false / null *)
Theorem C09_json_top_level_must_be_an_object :
  forall num s,
    (forall v, lex num s = Some (toks v) -> (forall f, v <> JObj f) -> json_parse_text num s = None)
    /\ (forall c t, skip_ws s = c :: t -> c <> 123 -> json_parse_text num s = None).
Proof. intros num s. split; [apply json_top_level_not_object_rejected|apply json_first_byte_rejected]. Qed.
Print Assumptions C09_json_top_level_must_be_an_object.

(* the empty text and whitespace alone *)
Theorem C09_json_empty_or_blank_text_rejected :
  forall num w, all_ws w = true -> json_parse_text num w = None.
Proof. exact json_blank_rejected. Qed.
Print Assumptions C09_json_empty_or_blank_text_rejected.

(* an accepted text followed by ANY byte that is not JSON whitespace (and then anything) *)
Theorem C09_json_trailing_data_rejected :
  forall num s f c t,
    json_parse_text num s = Some f -> is_ws c = false -> json_parse_text num (s ++ c :: t) = None.
Proof. exact json_trailing_data_rejected. Qed.
Print Assumptions C09_json_trailing_data_rejected.

(* ---- whitespace ---- *)

(* before and after the text: same verdict, same value (also when rejected) *)
Theorem C09_json_whitespace_around_the_text_is_ignored :
  forall num w s, all_ws w = true ->
    json_parse_text num (w ++ s) = json_parse_text num s
    /\ json_parse_text num (s ++ w) = json_parse_text num s.
Proof. intros num w s H. split; [apply json_leading_ws|apply json_trailing_ws]; exact H. Qed.
Print Assumptions C09_json_whitespace_around_the_text_is_ignored.

(* between tokens: s1 is a sequence of whole tokens, s2 may follow its last
   token directly (a literal or number needs a delimiter) *)
Theorem C09_json_whitespace_between_tokens_is_ignored :
  forall num s1 w s2 ts1,
    lex num s1 = Some ts1 -> ends_ok ts1 s2 = true -> all_ws w = true ->
    json_parse_text num (s1 ++ w ++ s2) = json_parse_text num (s1 ++ s2).
Proof. exact json_ws_between_tokens. Qed.
Print Assumptions C09_json_whitespace_between_tokens_is_ignored.

(* the tokenizer itself: trailing whitespace, and whitespace as a separator *)
Theorem C09_json_tokens_and_whitespace :
  forall num,
    (forall s w, all_ws w = true -> lex num (s ++ w) = lex num s)
    /\ (forall w s, all_ws w = true -> lex num (w ++ s) = lex num s)
    /\ (forall s1 w s2 ts1, all_ws w = true -> w <> [] -> lex num s1 = Some ts1 ->
          lex num (s1 ++ w ++ s2) = match lex num s2 with Some ts2 => Some (ts1 ++ ts2) | None => None end).
Proof.
  intros num. split; [apply lex_trailing_ws|]. split; [intros w s H; apply lex_skip_ws; exact H|apply lex_ws_between].
Qed.
Print Assumptions C09_json_tokens_and_whitespace.

(* the four whitespace bytes, and only they (a restatement of the definition
   of is_ws as a literal set: RFC 8259 section 2; not counted as a result) *)
Theorem C09_json_whitespace_bytes :
  forall c, is_ws c = true <-> c = 32 \/ c = 9 \/ c = 10 \/ c = 13.
Proof. exact is_ws_spec. Qed.
Print Assumptions C09_json_whitespace_bytes.

(* ---- strings and numbers ---- *)

(* the grammar of a string literal, declaratively: the text between the quotes
   is a sequence of items (str_item: an unescaped ASCII byte from 0x20 on other
   than quote and backslash; one well-formed 2-, 3- or 4-byte UTF-8 character;
   backslash + one of quote backslash / b f n r t; \uXXXX with four hex digits
   that is not a surrogate; a high-surrogate escape directly followed by a
   low-surrogate escape), and it denotes the concatenation of what the items
   stand for.  The string lexer accepts EXACTLY that. *)
Theorem C09_json_string_literal_grammar :
  forall s o r,
    lex_string s = Some (o, r) <-> exists body, s = body ++ 34 :: r /\ str_body body o.
Proof. exact lex_string_grammar. Qed.
Print Assumptions C09_json_string_literal_grammar.

(* a string token reads exactly up to its closing quote, does not depend on
   what follows, reads valid UTF-8 and yields valid UTF-8 *)
Theorem C09_json_string_token_is_local :
  forall s o r, lex_string s = Some (o, r) ->
    exists pre, s = pre ++ r /\ last pre 0 = 34 /\ pre <> []
      /\ utf8_valid pre = true /\ utf8_valid o = true
      /\ (forall y, lex_string (pre ++ y) = Some (o, y))
      /\ exists body, pre = body ++ [34] /\ str_body body o.
Proof. exact lex_string_local. Qed.
Print Assumptions C09_json_string_token_is_local.

(* the grammar of a number literal: optional '-', then "0" or a non-zero digit
   and digits, an optional '.' with one or more digits, an optional e / E with an
   optional sign and one or more digits; followed by a delimiter or the end *)
Theorem C09_json_number_literal_grammar :
  forall s l r,
    lex_number s = Some (l, r) <->
    exists txt, s = txt ++ r /\ num_spells l txt /\ lit_ok l /\ delim_next r = true.
Proof. exact lex_number_grammar. Qed.
Print Assumptions C09_json_number_literal_grammar.

(* every valid UTF-8 string is read back from its escaped form *)
Theorem C09_json_escaped_string_reads_back :
  forall s rest, utf8_valid s = true -> lex_string (escape s ++ 34 :: rest) = Some (s, rest).
Proof. intros s rest H. apply lex_string_escape. exact H. Qed.
Print Assumptions C09_json_escaped_string_reads_back.

(* the exact path: the decimal text of an integer of magnitude < 2^53 is the
   number token of that integer, whatever the float oracle says *)
Theorem C09_json_integers_below_2_53_need_no_oracle :
  forall num z, (Z.abs z < 9007199254740992)%Z -> lex num (print_zint z) = Some [TNum z []].
Proof. intros num z H. apply lex_print_zint. apply Z.ltb_lt. exact H. Qed.
Print Assumptions C09_json_integers_below_2_53_need_no_oracle.

(* extensionality in the oracle (near-tautology, not counted as a result; the
   informative statement is C09_json_parse_depends_on_the_oracle_only_at_undecided_literals) *)
Theorem C09_json_parse_is_a_function_of_the_text :
  forall num1 num2 s, (forall l, num1 l = num2 l) -> json_parse_text num1 s = json_parse_text num2 s.
Proof. exact json_parse_text_ext. Qed.
Print Assumptions C09_json_parse_is_a_function_of_the_text.

(* ---- print, then parse ---- *)

(* for every object in the printer's domain (strings and names valid UTF-8, no
   repeated names, numbers = integers below 2^53, nesting within the budget) *)
Theorem C09_json_print_then_parse :
  forall num f, printable (JObj f) = true -> json_parse_text num (json_print_text f) = Some f.
Proof. exact json_print_parse_roundtrip. Qed.
Print Assumptions C09_json_print_then_parse.

Theorem C09_json_printed_text_is_a_byte_string :
  forall v, json_utf8 v = true -> nums_exact v = true -> wfb (print_value v).
Proof. exact print_value_wfb. Qed.
Print Assumptions C09_json_printed_text_is_a_byte_string.

(* ---- numbers: what the model decides, what the float oracle decides ---- *)
(* A number literal l (numlit: sign, integer digits, fraction digits, signed
   exponent digits) has the rational value  (-1)^neg * lit_num l / lit_den l,
     lit_num l = (integer digits ++ fraction digits, read in base 10) * 10^max(e,0)
     lit_den l = 10^max(-e,0)      e = exponent - number of fraction digits.
   lit_class l sorts it, by exact integer arithmetic, into
     NCInt z      the float64 of the literal is the integer z: the view is (z, no residual text)
     NCOverflow   the float64 would be infinite: the text is refused
     NCOracle     the oracle num is asked
   num_x num is the number view property C09 runs with, json_parse_x num =
   json_parse_text (num_x num) the parser.  lit_ok l: the digit strings are
   digit strings (every literal the tokenizer produces is lit_ok:
   C09_json_number_literal_grammar).  THE DIGIT BUDGET of the exact decisions:
   int_digits_ok l (the integer part has at most 800 digits) and exp_digits_ok l
   (the mantissa is zero, or the exponent is below 10000 in magnitude).  Outside
   it strconv.ParseFloat (go1.25.11, pinned by /repo) does NOT read the true
   value of the literal - (1) integer digits beyond the 800th are dropped
   without moving the decimal point when the fast paths do not apply (also on
   go1.23.5 and 1.26.8), (2) the exponent is accumulated with
   `if e < 10000 { e = e*10 + d }`, so "0." ++ 99999 zeros ++ "1e100000" (value
   1) is read as 0 - and the model hands the literal to the oracle, i.e.
   follows strconv. *)

(* how the decimal data is read: the digits before and after the point form
   one integer, the point moves the exponent; a digit string is read in base 10
   from the left (dec_val), an absent exponent is 0 *)
Theorem C09_json_literal_value_reading :
  forall l,
    lit_mant l = dec_val (nl_int l) * 10 ^ N.of_nat (length (nl_frac l)) + dec_val (nl_frac l)
    /\ lit_exp10 l = (exp_val (nl_exp l) - Z.of_nat (length (nl_frac l)))%Z
    /\ lit_num l = lit_mant l * 10 ^ Z.to_N (lit_exp10 l) /\ lit_den l = 10 ^ Z.to_N (- lit_exp10 l)
    /\ (forall ds d, dec_val (ds ++ [d]) = dec_val ds * 10 + (d - 48)) /\ dec_val [] = 0.
Proof.
  intros l. destruct (lit_value_reading l) as [A B]. split; [exact A|]. split; [exact B|].
  split; [reflexivity|]. split; [reflexivity|]. split; [exact dec_val_app|reflexivity].
Qed.
Print Assumptions C09_json_literal_value_reading.

(* EXACTLY the literals whose value is an integer of magnitude below 2^53
   (with the literal's sign; "-0" is 0), or is not zero but at most 2^-1075 (a
   float64 conversion rounds it to zero, without error), are decided as
   integers - whatever the spelling within the digit budget: 1700003600.0,
   17000036e2, 1.7000036E+9, 100e-2, 0e99999999999, 1e-400.  Such an integer is exactly representable as a
   float64, so a correctly rounded conversion returns it and int64 of it is z:
   that strconv.ParseFloat is correctly rounded on these literals is the part
   the correspondence run checks (the harness number family). *)
Theorem C09_json_integer_valued_literals_are_decided_exactly :
  forall l z, lit_ok l -> int_digits_ok l -> exp_digits_ok l ->
    (lit_class l = NCInt z <->
     (Z.abs_N z < 9007199254740992 /\ z = lit_sign l (Z.abs_N z)
      /\ (lit_num l = Z.abs_N z * lit_den l
          \/ (z = 0%Z /\ 0 < lit_num l /\ lit_num l * 2 ^ 1075 <= lit_den l)))).
Proof. intros l z OK LEN EXP. exact (lit_class_int l OK LEN EXP z). Qed.
Print Assumptions C09_json_integer_valued_literals_are_decided_exactly.

(* EXACTLY the literals of magnitude >= 2^1024 - 2^970 (the midpoint of the
   largest finite float64 and 2^1024: round-to-nearest-even gives infinity
   from there on) are refused - within the digit budget (1e9999 is, 1e10000
   goes to the oracle) *)
Theorem C09_json_overflowing_literals_are_decided_exactly :
  forall l, lit_ok l -> int_digits_ok l -> exp_digits_ok l ->
    (lit_class l = NCOverflow <-> (2 ^ 1024 - 2 ^ 970) * lit_den l <= lit_num l)
    /\ 2 * (2 ^ 1024 - 2 ^ 970) = (2 ^ 53 - 1) * 2 ^ 971 + 2 ^ 1024.
Proof. intros l OK LEN EXP. split; [exact (lit_class_overflow l OK LEN EXP)|exact f64_over_is_the_midpoint]. Qed.
Print Assumptions C09_json_overflowing_literals_are_decided_exactly.

(* the oracle is asked exactly for the rest: within the digit budget, values
   that are not integers (and do not round to zero) and integers of magnitude
   >= 2^53 below the overflow bound; and EVERY literal outside the budget -
   more than 800 integer digits, or a non-zero mantissa with an exponent of
   magnitude >= 10000 (strconv.ParseFloat does not read the true value of
   those: see model/Json.v) *)
Theorem C09_json_literals_left_to_the_oracle :
  forall l,
    (lit_ok l -> int_digits_ok l -> exp_digits_ok l ->
       (lit_class l = NCOracle <-> (forall z, ~ lit_is_int l z) /\ ~ lit_overflows l))
    /\ (~ int_digits_ok l -> lit_class l = NCOracle)
    /\ (~ exp_digits_ok l -> lit_class l = NCOracle)
    /\ (exp_digits_ok l <-> lit_mant l = 0 \/ (Z.abs (exp_val (nl_exp l)) < 10000)%Z).
Proof.
  intros l. split; [exact (lit_class_oracle l)|]. split; [exact (lit_class_long l)|].
  split; [exact (lit_class_long_exp l)|reflexivity].
Qed.
Print Assumptions C09_json_literals_left_to_the_oracle.

(* a decided literal has the same view under every oracle; the old exact path
   (integer literal without fraction and exponent, below 2^53) is a special
   case, so num_x num is a legitimate num for every theorem above *)
Theorem C09_json_decided_literals_need_no_oracle :
  forall num,
    (forall l z, lit_class l = NCInt z -> num_x num l = Some (z, []))
    /\ (forall l, lit_class l = NCOverflow -> num_x num l = None)
    /\ (forall l, lit_class l = NCOracle -> num_x num l = num l)
    /\ (forall l z, lit_plain l = Some z -> lit_class l = NCInt z)
    /\ (forall l, num_value (num_x num) l = num_x num l).
Proof.
  intros num. split; [intros l z H; unfold num_x; rewrite H; reflexivity|].
  split; [intros l H; unfold num_x; rewrite H; reflexivity|].
  split; [intros l H; unfold num_x; rewrite H; reflexivity|].
  split; [exact lit_plain_class|exact (num_value_x num)].
Qed.
Print Assumptions C09_json_decided_literals_need_no_oracle.

(* text_lits s: the number literals the tokenizer meets in s, in order;
   oracle_lits s: those of class NCOracle.  The parse of ANY text depends on
   the oracle through its answers on oracle_lits s only *)
Theorem C09_json_parse_depends_on_the_oracle_only_at_undecided_literals :
  forall num1 num2 s,
    (forall l, In l (oracle_lits s) -> num1 l = num2 l) ->
    json_parse_x num1 s = json_parse_x num2 s.
Proof. exact json_parse_x_dep. Qed.
Print Assumptions C09_json_parse_depends_on_the_oracle_only_at_undecided_literals.

(* text_decided s: no literal of s is left to the oracle *)
Theorem C09_json_decided_text_needs_no_oracle :
  forall num1 num2 s, text_decided s = true -> json_parse_x num1 s = json_parse_x num2 s.
Proof. exact json_parse_x_decided. Qed.
Print Assumptions C09_json_decided_text_needs_no_oracle.

(* WHICH VERDICTS DEPEND ON THE ORACLE.  jwt_json_parts tok = the decoded header
   and payload texts verify hands to the JSON parser.  The verdict (accepted /
   generic error / other error) and the returned claims of ANY token under ANY
   keyset and validator depend on the oracle only through its answers on the
   NCOracle literals of those two texts.  The JWT rules read numbers in exp,
   nbf, iat only (payload_rule: 0 <= int64 <= 253402300799; validator_rule:
   the comparisons with now and skew), so what the oracle can decide is: the
   fate of a token whose exp / nbf / iat is written as a non-integer, as an
   integer from 2^53 up, or outside the digit budget (more than 800 integer
   digits, exponent magnitude >= 10000: there strconv's answer need not be the
   literal's value, and the model follows strconv); whether a text containing such a literal ANYWHERE is
   accepted JSON at all (the oracle may answer None); and the value reported
   for such a custom claim.  C09_text_oracle_decides_undecided_timestamps
   below shows that this dependence is real. *)
Theorem C09_text_verdict_depends_on_the_oracle_only_at_undecided_literals :
  forall num1 num2 (sig_valid : N -> bytes -> bytes -> bool) keys o tok,
    (forall part l, In part (jwt_json_parts tok) -> In l (oracle_lits part) -> num1 l = num2 l) ->
    verify sig_valid (json_parse_x num1) keys o tok = verify sig_valid (json_parse_x num2) keys o tok.
Proof. exact verify_x_oracle_dependence. Qed.
Print Assumptions C09_text_verdict_depends_on_the_oracle_only_at_undecided_literals.

(* token_decided tok: every number literal of the header and payload texts - at
   any depth, in ANY spelling within the digit budget (at most 800 integer
   digits; exponent below 10000 in magnitude unless the mantissa is zero) - is
   an integer below 2^53, zero, an underflow or an overflow.  Then the verdict and the claims are the model's alone: the
   same for every two oracles.  The same for a JWK set text. *)
Theorem C09_text_verdict_of_a_decided_token_is_independent_of_the_oracle :
  forall num1 num2 (sig_valid : N -> bytes -> bytes -> bool) keys o tok,
    token_decided tok = true ->
    verify sig_valid (json_parse_x num1) keys o tok = verify sig_valid (json_parse_x num2) keys o tok.
Proof. exact verify_x_decided. Qed.
Print Assumptions C09_text_verdict_of_a_decided_token_is_independent_of_the_oracle.

Theorem C09_text_jwk_import_of_a_decided_text_is_independent_of_the_oracle :
  forall num1 num2 on_curve s,
    text_decided s = true ->
    jwk_import_text (num_x num1) on_curve s = jwk_import_text (num_x num2) on_curve s.
Proof. exact jwk_import_x_decided. Qed.
Print Assumptions C09_text_jwk_import_of_a_decided_text_is_independent_of_the_oracle.

(* ---- the leaves against the RFCs ---- *)
(* The parser and the grammar str_item share their leaf functions.  Each leaf
   is tied here to a specification written from the RFC text alone
   (proofs/JsonSpecProofs.v), so that a wrong range, shift or table entry in
   the shared function would make one of these theorems false. *)

(* UTF-8, RFC 3629 section 3.  utf8_char u b: row by row the table of the RFC
   (value range of the row, bit groups of u laid out in the 0xxxxxxx / 110xxxxx
   10xxxxxx / 1110xxxx 10xxxxxx 10xxxxxx / 11110xxx 10xxxxxx 10xxxxxx 10xxxxxx
   patterns; D800..DFFF excluded; at most 10FFFF).  utf8_decode: a decoder of
   one sequence written from the same table.  The model's encoder utf8_enc
   (used for \u escapes) and the decoder are inverse on ALL scalar values, and
   utf8_enc u is the only encoding of u. *)
Theorem C09_utf8_encoder_and_decoder_against_rfc3629 :
  (forall b u, utf8_decode b = Some u <-> utf8_char u b)
  /\ (forall u, scalar u -> utf8_decode (utf8_enc u) = Some u)
  /\ (forall b u, utf8_decode b = Some u -> utf8_enc u = b /\ scalar u)
  /\ (forall u b, utf8_char u b -> b = utf8_enc u /\ scalar u).
Proof.
  split; [exact utf8_decode_spec|]. split; [exact utf8_decode_enc|]. split; [exact utf8_enc_decode|].
  intros u b H. split; [exact (utf8_char_enc u b H)|exact (utf8_char_scalar u b H)].
Qed.
Print Assumptions C09_utf8_encoder_and_decoder_against_rfc3629.

(* the byte-range tests of the string lexer (and of Jwt.utf8_valid): a 1-, 2-,
   3-, 4-byte sequence passes iff it is the RFC 3629 encoding of some value *)
Theorem C09_json_utf8_byte_tests_are_rfc3629 :
  (forall x, x < 128 <-> utf8_char x [x])
  /\ (forall x y, inr 194 223 x && cont y = true <-> exists u, utf8_char u [x; y])
  /\ (forall x y z,
        inr 224 239 x && ((if x =? 224 then inr 160 191 y else if x =? 237 then inr 128 159 y else cont y) && cont z) = true
        <-> exists u, utf8_char u [x; y; z])
  /\ (forall x y z w,
        inr 240 244 x && ((if x =? 240 then inr 144 191 y else if x =? 244 then inr 128 143 y else cont y) && cont z && cont w) = true
        <-> exists u, utf8_char u [x; y; z; w]).
Proof. split; [exact seq1_spec|]. split; [exact seq2_spec|]. split; [exact seq3_spec|exact seq4_spec]. Qed.
Print Assumptions C09_json_utf8_byte_tests_are_rfc3629.

(* valid UTF-8 (what the tokenizer requires of every text and yields in every
   string) = a concatenation of RFC 3629 sequences = the encoding of a list of
   scalar values *)
Theorem C09_utf8_valid_is_concatenation_of_rfc3629_sequences :
  forall s, (utf8_valid s = true <-> utf8_text s)
            /\ (utf8_valid s = true <-> exists us, Forall scalar us /\ s = concat (map utf8_enc us)).
Proof. intros s. split; [exact (utf8_valid_spec s)|exact (utf8_valid_enc s)]. Qed.
Print Assumptions C09_utf8_valid_is_concatenation_of_rfc3629_sequences.

(* the eight two-character escapes and the hex digits as literal tables
   (RFC 8259 section 7); \uXXXX reads four hex digits in base 16 *)
Theorem C09_json_escape_tables :
  (forall e c, simple_escape e = Some c <->
     In (e, c) [(34, 34); (92, 92); (47, 47); (98, 8); (102, 12); (110, 10); (114, 13); (116, 9)])
  /\ (forall c v, hexval c = Some v <->
        In (c, v) [(48, 0); (49, 1); (50, 2); (51, 3); (52, 4); (53, 5); (54, 6); (55, 7); (56, 8); (57, 9);
                   (97, 10); (98, 11); (99, 12); (100, 13); (101, 14); (102, 15);
                   (65, 10); (66, 11); (67, 12); (68, 13); (69, 14); (70, 15)])
  /\ (forall a b c d u, hex4 a b c d = Some u <-> hex4_rfc a b c d u)
  /\ (forall a b c d u, hex4_rfc a b c d u <->
        exists x y z w, In (a, x) hex_digits /\ In (b, y) hex_digits /\ In (c, z) hex_digits /\ In (d, w) hex_digits
                        /\ u = x * 4096 + y * 256 + z * 16 + w).
Proof.
  split; [exact simple_escape_table|]. split; [exact hexval_table|]. split; [exact hex4_table|].
  intros a b c d u. reflexivity.
Qed.
Print Assumptions C09_json_escape_tables.

(* surrogate pairs: pair_cp is the inverse of the UTF-16 encoder of RFC 2781
   section 2.1 (U' = U - 10000h; W1 = D800h + high ten bits, W2 = DC00h + low
   ten bits), on exactly the high/low ranges; the example of RFC 8259
   section 7 (U+1D11E = 𝄞) *)
Theorem C09_json_surrogate_pairs_are_utf16 :
  (forall hi lo u,
     (is_high hi = true /\ is_low lo = true /\ u = pair_cp hi lo) <->
     (65536 <= u <= 1114111 /\ hi = 55296 + (u - 65536) / 1024 /\ lo = 56320 + (u - 65536) mod 1024))
  /\ (forall u, (is_surrogate u = true <-> 55296 <= u <= 57343)
                /\ (is_high u = true <-> 55296 <= u <= 56319) /\ (is_low u = true <-> 56320 <= u <= 57343))
  /\ pair_cp 55348 56606 = 119070.
Proof. split; [exact pair_cp_spec|]. split; [exact surrogate_tests|reflexivity]. Qed.
Print Assumptions C09_json_surrogate_pairs_are_utf16.

(* protojson's delimiter rule after a literal or a number (isNotDelim), as a literal set *)
Theorem C09_json_not_a_delimiter :
  forall c, is_not_delim c = true <->
    c = 45 \/ c = 43 \/ c = 46 \/ c = 95 \/ 97 <= c <= 122 \/ 65 <= c <= 90 \/ 48 <= c <= 57.
Proof. exact is_not_delim_spec. Qed.
Print Assumptions C09_json_not_a_delimiter.

(* the string-literal grammar stated with the independent specifications only
   (str_item_rfc: an unescaped scalar value from U+0020 on other than quote and
   backslash, written in UTF-8 per utf8_char; backslash + a table entry;
   \uXXXX of a non-surrogate, standing for its utf8_char encoding; a UTF-16
   pair of \u escapes, standing for the utf8_char encoding of the value the
   pair encodes per utf16_pair) is the grammar str_item of the theorems above,
   and the string lexer accepts exactly its bodies *)
Theorem C09_json_string_literal_grammar_from_the_rfcs :
  (forall t o, str_item t o <-> str_item_rfc t o)
  /\ (forall s o r, lex_string s = Some (o, r) <-> exists body, s = body ++ 34 :: r /\ str_body_rfc body o)
  /\ (forall body o, str_body_rfc body o -> utf8_text o).
Proof. split; [exact str_item_rfc_iff|]. split; [exact lex_string_grammar_rfc|exact str_body_rfc_text]. Qed.
Print Assumptions C09_json_string_literal_grammar_from_the_rfcs.

(* ---- the C09 theorems from TEXT ---- *)

(* C09_verify_accepts_exactly_the_rule_conforming_tokens with the JSON parser
   in place, stated through the declarative grammar: the header and payload
   bytes must SPELL (spells) duplicate-free objects within the recursion
   budget.  The one JSON parameter left is num (both sides mention it: the
   grammar admits a number token TNum z x for a literal l iff num_value num l
   = Some (z, x)); with num := num_x num0 that view is fixed by the model for
   every decided literal (subsection "numbers"). *)
Theorem C09_text_verify_accepts_exactly_the_rule_conforming_tokens :
  forall num (sig_valid : N -> bytes -> bytes -> bool) keys o tok r,
    verify sig_valid (json_parse_text num) keys o tok = Some (VOk r) <->
    exists v, options_rule o v /\
    exists h p s sg hb pb hdr,
      tok = h ++ dot :: p ++ dot :: s
      /\ nodot h /\ nodot p /\ nodot s
      /\ b64_decode s = Some sg /\ sg <> []
      /\ b64_decode h = Some hb
      /\ (spells num (toks (JObj hdr)) hb /\ nodup_names (JObj hdr) = true
          /\ (jdepth (JObj hdr) <= recursion_limit)%nat)
      /\ b64_decode p = Some pb
      /\ (spells num (toks (JObj (r_payload r))) pb /\ nodup_names (JObj (r_payload r)) = true
          /\ (jdepth (JObj (r_payload r)) <= recursion_limit)%nat)
      /\ (exists k, In k keys /\ kenabled k = true
                    /\ sig_valid (kref k) sg (h ++ dot :: p) = true /\ header_rule k hdr)
      /\ typ_rule hdr (r_typ r)
      /\ payload_rule (r_payload r)
      /\ validator_rule v (r_typ r) (r_payload r).
Proof. exact verify_text_spells_iff. Qed.
Print Assumptions C09_text_verify_accepts_exactly_the_rule_conforming_tokens.

(* JWKSetToPublicKeysetHandle from the TEXT of the set, through the grammar *)
Theorem C09_text_jwk_import_accepts_exactly :
  forall num on_curve s l,
    jwk_import_text num on_curve s = Some l <->
    exists f vs,
      (spells num (toks (JObj f)) s /\ nodup_names (JObj f) = true
       /\ (jdepth (JObj f) <= recursion_limit)%nat)
      /\ lookup s_keys f = Some (JArr vs) /\ vs <> []
      /\ Forall2 (jwk_key_rule on_curve) vs l.
Proof. exact jwk_import_text_spells. Qed.
Print Assumptions C09_text_jwk_import_accepts_exactly.

(* text that is not accepted JSON (this first conjunct is immediate from the
   definition of jwk_import_text; kept for the list); "keys" missing or not a
   list; empty list; one bad key *)
Theorem C09_text_jwk_import_rejections :
  forall num on_curve s,
    (json_parse_text num s = None -> jwk_import_text num on_curve s = None)
    /\ (forall f, json_parse_text num s = Some f ->
          (forall l, lookup s_keys f <> Some (JArr l)) -> jwk_import_text num on_curve s = None)
    /\ (forall f, json_parse_text num s = Some f ->
          lookup s_keys f = Some (JArr []) -> jwk_import_text num on_curve s = None)
    /\ (forall f vs v, json_parse_text num s = Some f -> lookup s_keys f = Some (JArr vs) -> In v vs ->
          import_key on_curve v = None -> jwk_import_text num on_curve s = None).
Proof. exact jwk_import_text_rejections. Qed.
Print Assumptions C09_text_jwk_import_rejections.

Theorem C09_text_jwk_import_handle_shape :
  forall num on_curve ids s pks,
    jwk_import_text num on_curve s = Some pks -> length ids = length pks ->
    exists ks, jwk_import_handle_text num on_curve ids s = Some (ks, last ids 0)
      /\ map e_key ks = map KPub pks /\ map e_id ks = ids
      /\ Forall (fun en => e_status en = Enabled) ks.
Proof. exact jwk_import_handle_text_shape. Qed.
Print Assumptions C09_text_jwk_import_handle_shape.

(* THE MODEL'S OWN PRINTER, not protojson's Marshal: C09_encode_then_verify_round_trips
   with json_print_text and json_parse_text num in place of the printer /
   parser parameters; the two JSON laws (parse (print f) = Some f; the printed
   text is a byte string) are theorems now.  What remains of them is that the
   payload at hand lies in the printer's domain, a decidable condition on the
   claims; the header always does.  That the text Tink's encoder really emits
   (protojson's output, whose format is deliberately unstable) lies in the
   accepted set and parses to the same claims is NOT a theorem: it is checked
   by the correspondence run, where the model parses the header / payload
   bytes of every token SignAndEncode / ComputeMACAndEncode produced. *)
Theorem C09_text_model_printer_encode_then_verify_round_trips :
  forall num (sig_valid : N -> bytes -> bytes -> bool) (sign : N -> bytes -> bytes),
    (forall kr m, sig_valid kr (sign kr m) m = true) ->
    (forall kr m, wfb (sign kr m)) ->
    (forall kr m, sign kr m <> []) ->
    forall keys k o v ro r tok,
      new_raw_jwt ro = Some r ->
      printable (JObj (r_payload r)) = true ->
      In k keys -> kenabled k = true ->
      encode json_print_text sign k r = Some tok ->
      new_validator o = Some v -> validate v r = true ->
      verify sig_valid (json_parse_text num) keys o tok = Some (VOk r).
Proof. intros num sv sg S1 S2 S3 keys k o v ro r tok. apply (encode_verify_roundtrip_text num sv sg); assumption. Qed.
Print Assumptions C09_text_model_printer_encode_then_verify_round_trips.

(* ---- non-vacuity and concrete texts ---- *)
Section JsonExample.
  (* a float oracle that refuses everything: only the exact path is left *)
  Import String JsonStrings.   (* string literals, in this section only *)
  Let num0 (l : numlit) : option (Z * bytes) := None.
  Let parse := json_parse_text num0.
  Let a : bytes := [97].

  (* nested objects and arrays, every simple escape, \u escapes, a surrogate
     pair, raw UTF-8, whitespace of all four kinds, negative zero *)
  Example C09_json_concrete_texts :
    parse (bs " { ""a"" : [ 1 , -0, {""b"":""\""\\\/\b\f\n\r\té😀""} ],"
           ++ [10; 9; 13] ++ bs """c"":null,"""":[[],{}],""k"":true}")
    = Some [(a, JArr [JNum 1 []; JNum 0 [];
                      JObj [([98], JStr [34; 92; 47; 8; 12; 10; 13; 9; 195; 169; 240; 159; 152; 128])]]);
            ([99], JNull); ([], JArr [JArr []; JObj []]); ([107], JBool true)]
    (* raw two-, three- and four-byte characters *)
    /\ parse (bs "{""a"":""" ++ [195; 169; 226; 130; 172; 240; 159; 152; 128] ++ bs """}")
       = Some [(a, JStr [195; 169; 226; 130; 172; 240; 159; 152; 128])]
    (* duplicate names: at depth 1, at depth 3, spelled with an escape *)
    /\ parse (bs "{""a"":1,""a"":2}") = None
    /\ parse (bs "{""x"":[{""k"":1,""k"":1}]}") = None
    /\ parse (bs "{""a"":1,""\u0061"":2}") = None
    /\ parse (bs "{""a"":1,""A"":2}") = Some [(a, JNum 1 []); ([65], JNum 2 [])]
    (* trailing data / trailing whitespace *)
    /\ parse (bs "{}x") = None /\ parse (bs "{}{}") = None /\ parse (bs "{} ,") = None
    /\ parse (bs "{}" ++ [32; 10; 13; 9]) = Some []
    (* form feed, vertical tab, a byte order mark are not whitespace *)
    /\ parse (12 :: bs "{}") = None /\ parse (bs "{}" ++ [11]) = None /\ parse (239 :: 187 :: 191 :: bs "{}") = None
    (* the top level *)
    /\ parse (bs "[]") = None /\ parse (bs """a""") = None /\ parse (bs "1") = None /\ parse (bs "null") = None
    /\ parse [] = None
    (* invalid UTF-8, lone surrogates, a raw control character, bad escapes *)
    /\ parse (bs "{""a"":""" ++ [255] ++ bs """}") = None
    /\ parse (bs "{""a"":""" ++ [237; 160; 128] ++ bs """}") = None
    /\ parse (bs "{""a"":""\ud83d""}") = None /\ parse (bs "{""a"":""\ude00\ud83d""}") = None
    /\ parse (bs "{""a"":""" ++ [9] ++ bs """}") = None
    /\ parse (bs "{""a"":""\x41""}") = None /\ parse (bs "{""a"":""\u12G4""}") = None
    (* number syntax *)
    /\ parse (bs "{""a"":01}") = None /\ parse (bs "{""a"":+1}") = None /\ parse (bs "{""a"":1.}") = None
    /\ parse (bs "{""a"":.5}") = None /\ parse (bs "{""a"":1e}") = None /\ parse (bs "{""a"":NaN}") = None
    /\ parse (bs "{""a"":-9007199254740991}") = Some [(a, JNum (-9007199254740991) [])]
    (* outside the exact path the float oracle decides (this one refuses) *)
    /\ parse (bs "{""a"":1.5}") = None /\ parse (bs "{""a"":9007199254740992}") = None
    /\ json_parse_text (fun _ => Some (1%Z, [49; 46; 53])) (bs "{""a"":1.5e0}") = Some [(a, JNum 1 [49; 46; 53])]
    (* structure *)
    /\ parse (bs "{""a"":[1,]}") = None /\ parse (bs "{""a"":1,}") = None /\ parse (bs "{""a"" 1}") = None
    /\ parse (bs "{""a"":nul}") = None /\ parse (bs "{""a"":truex}") = None /\ parse (bs "{a:1}") = None.
  Proof. repeat split; vm_compute; reflexivity. Qed.

  (* the recursion budget: 9999 nested arrays under a member are accepted, 10000 are not *)
  Example C09_json_recursion_limit_both_sides :
    is_some (parse (bs "{""a"":" ++ repeat 91 (N.to_nat 9999) ++ repeat 93 (N.to_nat 9999) ++ [125])) = true
    /\ parse (bs "{""a"":" ++ repeat 91 (N.to_nat 10000) ++ repeat 93 (N.to_nat 10000) ++ [125]) = None
    /\ parse (bs "{""a"":" ++ repeat 91 (N.to_nat 9998) ++ [49] ++ repeat 93 (N.to_nat 9998) ++ [125]) <> None
    /\ parse (bs "{""a"":" ++ repeat 91 (N.to_nat 9999) ++ [49] ++ repeat 93 (N.to_nat 9999) ++ [125]) = None.
  Proof.
    split; [vm_compute; reflexivity|]. split; [vm_compute; reflexivity|].
    split; [|vm_compute; reflexivity].
    intros H. assert (X : is_some (parse (bs "{""a"":" ++ repeat 91 (N.to_nat 9998) ++ [49] ++ repeat 93 (N.to_nat 9998) ++ [125])) = true)
      by (vm_compute; reflexivity). rewrite H in X. discriminate.
  Qed.

  (* the premises of the conditional theorems are met by real texts *)
  Example C09_json_nonvacuous :
    (* duplicate-name theorem: a text that spells a value with a repeated name *)
    (lex num0 (bs "{""a"":1, ""a"":2}") = Some (toks (JObj [(a, JNum 1 []); (a, JNum 2 [])]))
     /\ nodup_names (JObj [(a, JNum 1 []); (a, JNum 2 [])]) = false)
    (* top-level theorem: a text that spells an array *)
    /\ lex num0 (bs "[1]") = Some (toks (JArr [JNum 1 []]))
    (* trailing-data theorem *)
    /\ (parse (bs "{""a"":1}") = Some [(a, JNum 1 [])] /\ is_ws 120 = false)
    (* whitespace between tokens: the split before a number's digits end is NOT a boundary *)
    /\ (lex num0 (bs "{""a"":1") = Some [TLBrace; TStr a; TColon; TNum 1 []]
        /\ ends_ok [TLBrace; TStr a; TColon; TNum 1 []] (bs "}") = true
        /\ ends_ok [TLBrace; TStr a; TColon; TNum 1 []] (bs "2}") = false
        /\ parse (bs "{""a"":1" ++ bs " " ++ bs "2}") <> parse (bs "{""a"":1" ++ bs "2}"))
    (* print-then-parse: a value with escapes, raw UTF-8, a negative number, nesting *)
    /\ (let f := [(a, JArr [JNum (-12) []; JStr [10; 34; 92; 195; 169; 0; 127]; JObj [([], JNull)]; JArr []]);
                  ([195; 169], JBool false)] in
        printable (JObj f) = true /\ parse (json_print_text f) = Some f
        /\ json_print_text f = bs "{""a"":[-12,""\u000a\""\\" ++ [195; 169] ++ bs "\u0000" ++ [127] ++ bs """,{"""":null},[]],""" ++ [195; 169] ++ bs """:false}")
    (* outside the domain: a repeated name prints, but does not parse back *)
    /\ (printable (JObj [(a, JNull); (a, JNull)]) = false
        /\ parse (json_print_text [(a, JNull); (a, JNull)]) = None).
  Proof.
    split; [split; vm_compute; reflexivity|].
    split; [vm_compute; reflexivity|].
    split; [split; vm_compute; reflexivity|].
    split.
    { split; [vm_compute; reflexivity|]. split; [vm_compute; reflexivity|]. split; [vm_compute; reflexivity|].
      vm_compute. discriminate. }
    split; [cbv zeta; split; [vm_compute; reflexivity|]; split; vm_compute; reflexivity|].
    split; vm_compute; reflexivity.
  Qed.

  (* a token from text: header {"alg":"HS256"}, payload {"exp":1700003600,"aud":["a"]}
     with whitespace and an escaped name; the same token with a duplicated "exp" *)
  Let k := mkKey 7 true (bs "HS256") KIgnored.
  Let sig_valid (kr : N) (sg m : bytes) : bool := beq sg (kr :: m).
  Let o := mkV None None None true true true false false 0%Z 1700000000000000000%Z None.
  Let tok (payload : bytes) : bytes :=
    let u := b64_encode (bs "{""alg"":""HS256""}") ++ [dot] ++ b64_encode payload in
    u ++ [dot] ++ b64_encode (7 :: u).

  Example C09_text_verify_nonvacuous :
    verify sig_valid parse [k] o (tok (bs " {""exp"" : 1700003600, ""aud"":[""a""]}"))
    = Some (VOk (mkRaw None [([101; 120; 112], JNum 1700003600 []); ([97; 117; 100], JArr [JStr a])]))
    /\ verify sig_valid parse [k] o (tok (bs "{""exp"":1700003600,""aud"":[""a""],""exp"":1700003600}")) = Some VGeneric
    /\ verify sig_valid parse [k] o (tok (bs "{""exp"":1700003600}x")) = Some VGeneric
    /\ verify sig_valid parse [k] o (tok (bs "[{""exp"":1700003600}]")) = Some VGeneric.
  Proof. repeat split; vm_compute; reflexivity. Qed.

  (* the round-trip theorem: a signer / verifier pair that obeys the three
     laws for ALL arguments, a raw JWT with every registered claim kind and a
     nested custom claim, boundaries of exp and nbf at once; the conclusion is
     obtained FROM the theorem (all its premises are met), and the token text
     is what one expects *)
  Let sign2 (kr : N) (m : bytes) : bytes := map (fun x => x mod 256) (kr :: m).
  Let sig_valid2 (kr : N) (sg m : bytes) : bool := beq sg (sign2 kr m).
  Let kt := mkKey 7 true (bs "HS256") (KTink 16909060).
  Let ro := mkRO (Some (bs "JWT")) None (Some [[97]; [98]]) None (Some [105]) None
                 None (Some 1700003600%Z) (Some 1700000000%Z) false
                 (Some [([99], JArr [JBool true; JStr [195; 169; 34]; JNum (-5) []; JObj [([], JNull)]])]).
  Let ov := mkV (Some (bs "JWT")) (Some [105]) (Some [98]) false false false false false
                5000000000%Z 1699999995000000000%Z None.

  (* (no existential variables here: vm_compute would normalise the function
     bodies of this section that an evar's context carries) *)
  Let r0 := match new_raw_jwt ro with Some r => r | None => mkRaw None [] end.
  Let tok0 := match encode json_print_text sign2 kt r0 with Some t => t | None => [] end.

  Example C09_text_round_trip_nonvacuous :
    new_raw_jwt ro = Some r0
    /\ printable (JObj (r_payload r0)) = true
    /\ encode json_print_text sign2 kt r0 = Some tok0
    /\ new_validator ov = Some ov /\ validate ov r0 = true
    /\ verify sig_valid2 parse [kt] ov tok0 = Some (VOk r0)
    /\ json_print_text (r_payload r0)
       = bs "{""iss"":""i"",""nbf"":1700000000,""exp"":1700003600,""aud"":[""a"",""b""],""c"":[true,""" ++ [195; 169]
         ++ bs "\"""",-5,{"""":null}]}".
  Proof.
    assert (H1 : new_raw_jwt ro = Some r0) by (vm_compute; reflexivity).
    assert (H2 : printable (JObj (r_payload r0)) = true) by (vm_compute; reflexivity).
    assert (H3 : encode json_print_text sign2 kt r0 = Some tok0) by (vm_compute; reflexivity).
    assert (H4 : new_validator ov = Some ov) by (vm_compute; reflexivity).
    assert (H5 : validate ov r0 = true) by (vm_compute; reflexivity).
    split; [exact H1|]. split; [exact H2|]. split; [exact H3|]. split; [exact H4|]. split; [exact H5|].
    split; [|vm_compute; reflexivity].
    apply (C09_text_model_printer_encode_then_verify_round_trips num0 sig_valid2 sign2) with (k := kt) (ro := ro) (v := ov);
      try assumption.
    - intros kr m. unfold sig_valid2. apply beq_refl.
    - intros kr m. unfold sign2. apply Forall_forall. intros x Hx. apply in_map_iff in Hx.
      destruct Hx as [y [<- _]]. apply N.mod_lt. discriminate.
    - intros kr m. unfold sign2. discriminate.
    - left. reflexivity.
  Qed.

  (* ---- numbers: the model decides, the oracle decides ---- *)
  Let parse_x := json_parse_x num0.

  (* every spelling of an integer below 2^53, of zero, of an underflow, of an
     overflow is read WITHOUT the oracle (num0 refuses everything); what is
     left to the oracle: 1.5, 2^53 *)
  Example C09_json_number_spellings :
    parse_x (bs "{""a"":[1700003600.0,17000036e2,1.7000036E+9,170000360000e-2,0.00000017000036e16,1e3,100e-2,-12.50e1]}")
    = Some [(a, JArr [JNum 1700003600 []; JNum 1700003600 []; JNum 1700003600 []; JNum 1700003600 [];
                      JNum 1700003600 []; JNum 1000 []; JNum 1 []; JNum (-125) []])]
    /\ parse_x (bs "{""a"":[-0,-0.0e7,0e99999999999999999999,1e-400,-1e-400,2.4e-324,1e-9999]}")
       = Some [(a, JArr [JNum 0 []; JNum 0 []; JNum 0 []; JNum 0 []; JNum 0 []; JNum 0 []; JNum 0 []])]
    /\ parse_x (bs "{""a"":9007199254740991.0}") = Some [(a, JNum 9007199254740991 [])]
    (* out of range: refused by the model *)
    /\ parse_x (bs "{""a"":1e400}") = None /\ parse_x (bs "{""a"":-1e309}") = None
    /\ parse_x (bs "{""a"":1.7976931348623159e308}") = None /\ parse_x (bs "{""a"":1e9999}") = None
    /\ json_parse_x (fun _ => Some (7%Z, [])) (bs "{""a"":[1e400,1e9999]}") = None
    (* outside the digit budget (exponent magnitude >= 10000 on a non-zero
       mantissa): the oracle is asked, whatever the true value *)
    /\ json_parse_x (fun _ => Some (7%Z, [])) (bs "{""a"":[1e10000,1e-10000,0.1e99999999999999999999]}")
       = Some [(a, JArr [JNum 7 []; JNum 7 []; JNum 7 []])]
    /\ text_decided (bs "{""a"":1e10000}") = false /\ text_decided (bs "{""a"":0.000e10000}") = true
    (* left to the oracle: this one refuses, that one answers *)
    /\ parse_x (bs "{""a"":1.5}") = None /\ parse_x (bs "{""a"":9007199254740992}") = None
    /\ parse_x (bs "{""a"":2.5e-324}") = None /\ parse_x (bs "{""a"":1.7976931348623158e308}") = None
    /\ json_parse_x (fun _ => Some (1%Z, [49; 46; 53])) (bs "{""a"":[1.5,3.0]}") = Some [(a, JArr [JNum 1 [49; 46; 53]; JNum 3 []])]
    (* the literals of a text, and those among them the oracle is asked for *)
    /\ text_lits (bs "{""exp"":1.7000036e9,""x"":[1.5,-2]}")
       = [mkLit false [49] [55; 48; 48; 48; 48; 51; 54] (Some (false, [57]));
          mkLit false [49] [53] None; mkLit true [50] [] None]
    /\ oracle_lits (bs "{""exp"":1.7000036e9,""x"":[1.5,-2]}") = [mkLit false [49] [53] None]
    /\ text_decided (bs "{""exp"":1.7000036e9,""x"":[1.5,-2]}") = false
    /\ text_decided (bs "{""exp"":1.7000036e9,""x"":[15e-1,-2]}") = false
    /\ text_decided (bs "{""exp"":1.7000036e9,""x"":[150e-1,-2]}") = true.
  Proof. repeat split; vm_compute; reflexivity. Qed.

  (* the premises of the characterisation theorems are met by real literals:
     1.7000036E+9 is well-formed, its value 17000036 * 10^2 / 1 is the integer
     1700003600; 1e400 overflows; 1.5 is neither *)
  Example C09_json_number_classes_nonvacuous :
    let l1 := mkLit false [49] [55; 48; 48; 48; 48; 51; 54] (Some (false, [57])) in
    let l2 := mkLit true [49] [] (Some (false, [52; 48; 48])) in
    let l3 := mkLit false [49] [53] None in
    (lit_ok l1 /\ int_digits_ok l1 /\ exp_digits_ok l1 /\ lit_num l1 = 1700003600 /\ lit_den l1 = 1
     /\ lit_is_int l1 1700003600 /\ lit_class l1 = NCInt 1700003600)
    /\ (lit_ok l2 /\ int_digits_ok l2 /\ exp_digits_ok l2 /\ lit_overflows l2 /\ lit_class l2 = NCOverflow)
    /\ (lit_ok l3 /\ int_digits_ok l3 /\ exp_digits_ok l3 /\ lit_num l3 = 15 /\ lit_den l3 = 10 /\ lit_class l3 = NCOracle)
    (* more than 800 integer digits: left to the oracle, whatever the value *)
    /\ (let l4 := mkLit false (49 :: repeat 48 800) [] (Some (true, [56; 48; 48])) in
        ~ int_digits_ok l4 /\ lit_class l4 = NCOracle)
    (* exponent 10000 on a non-zero mantissa: left to the oracle (true value 1:
       0.<9999 zeros>1e10000); on a zero mantissa: still decided *)
    /\ (let l5 := mkLit false [48] (repeat 48 9999 ++ [49]) (Some (false, [49; 48; 48; 48; 48])) in
        ~ exp_digits_ok l5 /\ lit_num l5 = 1 /\ lit_den l5 = 1 /\ lit_class l5 = NCOracle)
    /\ (let l6 := mkLit true [48] [48] (Some (false, [49; 48; 48; 48; 48])) in
        exp_digits_ok l6 /\ lit_class l6 = NCInt 0).
  Proof.
    assert (D : forall ds, forallb is_digit ds = true -> digits_ok ds) by (intros ds H; exact H).
    assert (X0 : forall l, (Z.abs (exp_val (nl_exp l)) <? 10000)%Z = true -> exp_digits_ok l)
      by (intros l H; right; apply Z.ltb_lt; exact H).
    cbv zeta. split; [|split; [|split; [|split; [|split]]]].
    - assert (OK : lit_ok (mkLit false [49] [55; 48; 48; 48; 48; 51; 54] (Some (false, [57])))).
      { split; [right; exists 49, []; repeat split; discriminate|]. split; [reflexivity|]. split; [discriminate|reflexivity]. }
      assert (LEN : int_digits_ok (mkLit false [49] [55; 48; 48; 48; 48; 51; 54] (Some (false, [57]))))
        by (unfold int_digits_ok, max_int_digits; cbn; repeat constructor).
      assert (C : lit_class (mkLit false [49] [55; 48; 48; 48; 48; 51; 54] (Some (false, [57]))) = NCInt 1700003600)
        by (vm_compute; reflexivity).
      assert (EXP : exp_digits_ok (mkLit false [49] [55; 48; 48; 48; 48; 51; 54] (Some (false, [57]))))
        by (apply X0; reflexivity).
      split; [exact OK|]. split; [exact LEN|]. split; [exact EXP|]. split; [vm_compute; reflexivity|]. split; [vm_compute; reflexivity|].
      split; [|exact C].
      apply (C09_json_integer_valued_literals_are_decided_exactly _ _ OK LEN EXP). exact C.
    - assert (OK : lit_ok (mkLit true [49] [] (Some (false, [52; 48; 48])))).
      { split; [right; exists 49, []; repeat split; discriminate|]. split; [reflexivity|]. split; [discriminate|reflexivity]. }
      assert (LEN : int_digits_ok (mkLit true [49] [] (Some (false, [52; 48; 48]))))
        by (unfold int_digits_ok, max_int_digits; cbn; repeat constructor).
      assert (C : lit_class (mkLit true [49] [] (Some (false, [52; 48; 48]))) = NCOverflow) by (vm_compute; reflexivity).
      assert (EXP : exp_digits_ok (mkLit true [49] [] (Some (false, [52; 48; 48])))) by (apply X0; reflexivity).
      split; [exact OK|]. split; [exact LEN|]. split; [exact EXP|]. split; [|exact C].
      apply (lit_class_overflow _ OK LEN EXP). exact C.
    - split; [|split; [unfold int_digits_ok, max_int_digits; cbn; repeat constructor|split; [apply X0; reflexivity|repeat split; vm_compute; reflexivity]]].
      split; [right; exists 49, []; repeat split; discriminate|]. split; [reflexivity|exact I].
    - split; [|vm_compute; reflexivity].
      unfold int_digits_ok, max_int_digits. cbn [nl_int]. intros H.
      change (S (List.length (repeat 48 800)) <= 800)%nat in H. rewrite repeat_length in H.
      exact (Nat.nle_succ_diag_l _ H).
    - split; [|split; [vm_compute; reflexivity|split; vm_compute; reflexivity]].
      intros [H|H]; [vm_compute in H; discriminate|]. vm_compute in H. discriminate.
    - split; [left; vm_compute; reflexivity|vm_compute; reflexivity].
  Qed.

  (* THE DEPENDENCE IS REAL.  Header {"alg":"HS256"}, clock at 1700000000 s.
     exp written 1700003600.5 is not an integer: three oracles, three verdicts
     (refusal of the literal -> generic error; a view with int64 0 -> expired;
     the view strconv gives -> accepted).  exp written 1.7000036e9 IS the
     integer 1700003600: the model decides, the same three oracles agree. *)
  Let tok_half := tok (bs "{""exp"":1700003600.5}").
  Let tok_sci := tok (bs "{""exp"":1.7000036e9}").
  Let view_half : bytes := bs "1.7000036005e+09".
  Example C09_text_oracle_decides_undecided_timestamps :
    token_decided tok_half = false
    /\ verify sig_valid (json_parse_x (fun _ => None)) [k] o tok_half = Some VGeneric
    /\ verify sig_valid (json_parse_x (fun _ => Some (0%Z, [48]))) [k] o tok_half = Some VOther
    /\ verify sig_valid (json_parse_x (fun _ => Some (1700003600%Z, view_half))) [k] o tok_half
       = Some (VOk (mkRaw None [([101; 120; 112], JNum 1700003600 view_half)]))
    /\ token_decided tok_sci = true
    /\ verify sig_valid (json_parse_x (fun _ => None)) [k] o tok_sci
       = Some (VOk (mkRaw None [([101; 120; 112], JNum 1700003600 [])]))
    /\ verify sig_valid (json_parse_x (fun _ => Some (0%Z, [48]))) [k] o tok_sci
       = Some (VOk (mkRaw None [([101; 120; 112], JNum 1700003600 [])])).
  Proof. repeat split; vm_compute; reflexivity. Qed.

  (* the independence theorem USED: for EVERY oracle the token with exp
     1.7000036e9 is accepted with exp = 1700003600 *)
  Example C09_text_decided_token_for_every_oracle :
    forall num, verify sig_valid (json_parse_x num) [k] o tok_sci
                = Some (VOk (mkRaw None [([101; 120; 112], JNum 1700003600 [])])).
  Proof.
    intros num.
    rewrite (C09_text_verdict_of_a_decided_token_is_independent_of_the_oracle num num0 sig_valid [k] o tok_sci)
      by (vm_compute; reflexivity).
    vm_compute. reflexivity.
  Qed.

  (* ---- the main text theorem USED: acceptance derived from the rules ---- *)
  (* header {"alg":"HS256"}, payload  {"exp" : 1700003600, "aud":["a"]} (with
     whitespace): every conjunct of the right-hand side is established (the
     spelling through the grammar theorem, the rules through their reflection
     theorems or directly), and the theorem gives the verdict *)
  Example C09_text_acceptance_derived_from_the_rules :
    verify sig_valid parse [k] o (tok (bs " {""exp"" : 1700003600, ""aud"":[""a""]}"))
    = Some (VOk (mkRaw None [([101; 120; 112], JNum 1700003600 []); ([97; 117; 100], JArr [JStr a])])).
  Proof.
    assert (ND : forall s, forallb (fun c => negb (c =? dot)) s = true -> nodot s).
    { intros s H In_. rewrite forallb_forall in H. specialize (H _ In_). rewrite N.eqb_refl in H. discriminate. }
    set (hb := bs "{""alg"":""HS256""}").
    set (pb := bs " {""exp"" : 1700003600, ""aud"":[""a""]}").
    set (pl := [([101; 120; 112], JNum 1700003600 []); ([97; 117; 100], JArr [JStr a])]).
    set (u := b64_encode hb ++ [dot] ++ b64_encode pb).
    apply C09_text_verify_accepts_exactly_the_rule_conforming_tokens.
    exists o. split; [apply C09_new_validator_option_rules; vm_compute; reflexivity|].
    exists (b64_encode hb), (b64_encode pb), (b64_encode (7 :: u)), (7 :: u), hb, pb, [(bs "alg", JStr (bs "HS256"))].
    split; [vm_compute; reflexivity|].
    split; [apply ND; vm_compute; reflexivity|]. split; [apply ND; vm_compute; reflexivity|].
    split; [apply ND; vm_compute; reflexivity|].
    split; [vm_compute; reflexivity|]. split; [discriminate|].
    split; [vm_compute; reflexivity|].
    split.
    { split; [apply C09_json_tokenizer_accepts_exactly_the_grammar; vm_compute; reflexivity|].
      split; [reflexivity|]. apply Nat.leb_le. vm_compute. reflexivity. }
    split; [vm_compute; reflexivity|].
    split.
    { cbn [r_payload]. split; [apply C09_json_tokenizer_accepts_exactly_the_grammar; vm_compute; reflexivity|].
      split; [reflexivity|]. apply Nat.leb_le. vm_compute. reflexivity. }
    split.
    { exists k. split; [left; reflexivity|]. split; [reflexivity|]. split; [vm_compute; reflexivity|].
      split; [vm_compute; reflexivity|]. split; [vm_compute; reflexivity|exact I]. }
    split; [vm_compute; reflexivity|].
    assert (PR : payload_rule pl) by (apply C09_payload_check_is_payload_rule; vm_compute; reflexivity).
    split; [exact PR|].
    apply (C09_validator_check_is_validator_rule o None pl PR). vm_compute. reflexivity.
  Qed.

  (* ---- the text-level JWK theorems on a concrete set ---- *)
  (* the base point of P-256, custom kid "k1", use and key_ops present, with
     whitespace and an escaped member name; on_curve knows this point only *)
  Let g256 : bytes :=
    [4; 107; 23; 209; 242; 225; 44; 66; 71; 248; 188; 230; 229; 99; 164; 64; 242; 119; 3; 125; 129; 45; 235;
     51; 160; 244; 161; 57; 69; 216; 152; 194; 150; 79; 227; 66; 226; 254; 26; 127; 155; 142; 231; 235; 74;
     124; 15; 158; 22; 43; 206; 51; 87; 107; 49; 94; 206; 203; 182; 64; 104; 55; 191; 81; 245].
  Let oc (h : hsz) (pt : bytes) : bool := match h with H256 => beq pt g256 | _ => false end.
  Let jwk_text (extra : bytes) : bytes :=
    bs "{ ""keys"" : [ {""kty"":""EC"",""crv"":""P-256"",""alg"":""ES256"",""x"":""axfR8uEsQkf4vOblY6RA8ncDfYEt6zOg9KE5RdiYwpY"","
    ++ bs """y"":""T-NC4v4af5uO5-tKfA-eFivOM1drMV7Oy7ZAaDe_UfU"",""kid"":""k1"",""use"":""sig"",""key_ops"":[""verify""]"
    ++ extra ++ bs "} ] }".
  Let pk := PubES H256 g256 (KCustom [107; 49]).

  Example C09_text_jwk_nonvacuous :
    jwk_import_text num0 oc (jwk_text []) = Some [pk]
    (* the exact-acceptance theorem, left to right: the text spells an object
       whose "keys" is a one-element list obeying the key rule *)
    /\ (exists f vs,
          (spells num0 (toks (JObj f)) (jwk_text []) /\ nodup_names (JObj f) = true
           /\ (jdepth (JObj f) <= recursion_limit)%nat)
          /\ lookup s_keys f = Some (JArr vs) /\ vs <> [] /\ Forall2 (jwk_key_rule oc) vs [pk])
    (* the handle theorem: one drawn id, the key ENABLED and primary under it *)
    /\ (exists ks, jwk_import_handle_text num0 oc [42] (jwk_text []) = Some (ks, 42)
                   /\ map e_key ks = [KPub pk] /\ map e_id ks = [42]
                   /\ Forall (fun en => e_status en = Enabled) ks)
    (* the rejection theorem: each premise met by a real text *)
    /\ (json_parse_text num0 (jwk_text (bs ",""kid"":""k2""")) = None
        /\ jwk_import_text num0 oc (jwk_text (bs ",""kid"":""k2""")) = None)
    /\ (json_parse_text num0 (bs "{""Keys"":[]}") = Some [(bs "Keys", JArr [])]
        /\ (forall l, lookup s_keys [(bs "Keys", JArr [])] <> Some (JArr l))
        /\ jwk_import_text num0 oc (bs "{""Keys"":[]}") = None)
    /\ (json_parse_text num0 (bs "{""keys"":[]}") = Some [(s_keys, JArr [])]
        /\ jwk_import_text num0 oc (bs "{""keys"":[]}") = None)
    /\ (exists f vs v, json_parse_text num0 (jwk_text (bs ",""d"":""AQ""")) = Some f
                       /\ lookup s_keys f = Some (JArr vs) /\ In v vs /\ import_key oc v = None
                       /\ jwk_import_text num0 oc (jwk_text (bs ",""d"":""AQ""")) = None)
    (* a number in a JWK set: decided by the model, no oracle *)
    /\ text_decided (jwk_text (bs ",""n"":17000036e2")) = true
    /\ jwk_import_text (num_x num0) oc (jwk_text (bs ",""n"":17000036e2")) = Some [pk].
  Proof.
    assert (I1 : jwk_import_text num0 oc (jwk_text []) = Some [pk]) by (vm_compute; reflexivity).
    split; [exact I1|].
    split; [apply C09_text_jwk_import_accepts_exactly; exact I1|].
    split.
    { destruct (C09_text_jwk_import_handle_shape num0 oc [42] (jwk_text []) [pk] I1 eq_refl) as [ks [H1 [H2 [H3 H4]]]].
      exists ks. auto. }
    split.
    { assert (P : json_parse_text num0 (jwk_text (bs ",""kid"":""k2""")) = None) by (vm_compute; reflexivity).
      split; [exact P|]. apply (C09_text_jwk_import_rejections num0 oc). exact P. }
    split.
    { assert (P : json_parse_text num0 (bs "{""Keys"":[]}") = Some [(bs "Keys", JArr [])]) by (vm_compute; reflexivity).
      assert (L : forall l, lookup s_keys [(bs "Keys", JArr [])] <> Some (JArr l)) by (intros l; vm_compute; discriminate).
      split; [exact P|]. split; [exact L|].
      destruct (C09_text_jwk_import_rejections num0 oc (bs "{""Keys"":[]}")) as [_ [R _]]. exact (R _ P L). }
    split.
    { assert (P : json_parse_text num0 (bs "{""keys"":[]}") = Some [(s_keys, JArr [])]) by (vm_compute; reflexivity).
      split; [exact P|].
      destruct (C09_text_jwk_import_rejections num0 oc (bs "{""keys"":[]}")) as [_ [_ [R _]]]. apply (R _ P). vm_compute. reflexivity. }
    split.
    { destruct (json_parse_text num0 (jwk_text (bs ",""d"":""AQ"""))) as [f|] eqn:P; [|vm_compute in P; discriminate].
      destruct (lookup s_keys f) as [[| | | |vs|]|] eqn:L; try (vm_compute in P; inversion P; subst f; vm_compute in L; discriminate).
      destruct vs as [|v vs]; [vm_compute in P; inversion P; subst f; vm_compute in L; discriminate|].
      assert (K : import_key oc v = None).
      { vm_compute in P. inversion P; subst f. vm_compute in L. inversion L; subst v vs. vm_compute. reflexivity. }
      exists f, (v :: vs), v. split; [reflexivity|]. split; [exact L|]. split; [left; reflexivity|]. split; [exact K|].
      destruct (C09_text_jwk_import_rejections num0 oc (jwk_text (bs ",""d"":""AQ"""))) as [_ [_ [_ R]]].
      apply (R f (v :: vs) v P L); [left; reflexivity|exact K]. }
    split; vm_compute; reflexivity.
  Qed.
End JsonExample.
