(* C09 — JWT verification accepts exactly validly signed, rule-conforming tokens.
   Only statements + `exact`; proofs live in proofs/JwtProofs.v, the
   declarative rules (header_rule, typ_rule, payload_rule, options_rule,
   validator_rule, nodot) in model/JwtSpec.v, the executable model in
   model/Jwt.v and model/Base64url.v.

   sig_valid (raw MAC / signature verification of one key) and json_parse
   (structpb JSON parsing) are arbitrary functions: every theorem holds for
   all of them.  Times: claims in seconds, clock and skew in nanoseconds. *)
From Coq Require Import List NArith ZArith Bool.
From Tink Require Import Bytes Base64url Jwt JwtSpec JwtProofs.
Import ListNotations.
Open Scope N_scope.

(* ---- the decision procedure accepts exactly the conjunction of rules ---- *)

(* VerifyAndDecode / VerifyMACAndDecode returns the verified token r iff:
   NewValidator accepts the options, the token is h.p.s with three dot-free
   parts, s decodes to a non-empty signature valid for "h.p" under an ENABLED
   key of the keyset whose header rule (exact alg, no crit, kid rule) holds,
   h and p decode to JSON objects, typ is absent or a string, the registered
   claims are well-typed, and the validator's typ / iss / aud / exp / nbf /
   iat / skew rules hold; r is the typ header and the decoded payload. *)
Theorem C09_verify_accepts_exactly_the_rule_conforming_tokens :
  forall (sig_valid : N -> bytes -> bytes -> bool) (json_parse : bytes -> option fields)
         (keys : list jkey) (o : vopts) (tok : bytes) (r : rawjwt),
    verify sig_valid json_parse keys o tok = Some (VOk r) <->
    exists v, options_rule o v /\
    exists h p s sg hb pb hdr,
      tok = h ++ dot :: p ++ dot :: s
      /\ nodot h /\ nodot p /\ nodot s
      /\ b64_decode s = Some sg /\ sg <> []
      /\ b64_decode h = Some hb /\ json_parse hb = Some hdr
      /\ b64_decode p = Some pb /\ json_parse pb = Some (r_payload r)
      /\ (exists k, In k keys /\ kenabled k = true
                    /\ sig_valid (kref k) sg (h ++ dot :: p) = true /\ header_rule k hdr)
      /\ typ_rule hdr (r_typ r)
      /\ payload_rule (r_payload r)
      /\ validator_rule v (r_typ r) (r_payload r).
Proof. exact verify_iff_accepts. Qed.
Print Assumptions C09_verify_accepts_exactly_the_rule_conforming_tokens.

(* the same for one full primitive (one key) *)
Theorem C09_single_key_verify_spec :
  forall sig_valid json_parse k v tok r,
    verify_key sig_valid json_parse k v tok = VOk r <->
    exists h p s sg hb pb hdr,
      tok = h ++ dot :: p ++ dot :: s /\ nodot h /\ nodot p /\ nodot s
      /\ b64_decode s = Some sg /\ sg <> []
      /\ b64_decode h = Some hb /\ json_parse hb = Some hdr
      /\ b64_decode p = Some pb /\ json_parse pb = Some (r_payload r)
      /\ sig_valid (kref k) sg (h ++ dot :: p) = true /\ header_rule k hdr
      /\ typ_rule hdr (r_typ r) /\ payload_rule (r_payload r)
      /\ validator_rule v (r_typ r) (r_payload r).
Proof. exact verify_key_spec. Qed.
Print Assumptions C09_single_key_verify_spec.

(* the keyset loop: accepted iff some enabled key accepts; which key does not
   matter for the returned claims; disabled keys never matter *)
Theorem C09_keyset_accepts_iff_some_enabled_key_accepts :
  forall sig_valid json_parse keys v tok interesting r,
    verify_loop sig_valid json_parse keys v tok interesting = VOk r <->
    exists k, In k keys /\ kenabled k = true /\ verify_key sig_valid json_parse k v tok = VOk r.
Proof. exact verify_loop_spec. Qed.
Print Assumptions C09_keyset_accepts_iff_some_enabled_key_accepts.

Theorem C09_claims_do_not_depend_on_the_accepting_key :
  forall sig_valid json_parse k1 k2 v tok r1 r2,
    verify_key sig_valid json_parse k1 v tok = VOk r1 ->
    verify_key sig_valid json_parse k2 v tok = VOk r2 -> r1 = r2.
Proof. exact verify_key_deterministic. Qed.
Print Assumptions C09_claims_do_not_depend_on_the_accepting_key.

Theorem C09_disabled_keys_never_matter :
  forall sig_valid json_parse keys v tok r,
    verify_loop sig_valid json_parse keys v tok false = VOk r <->
    verify_loop sig_valid json_parse (filter kenabled keys) v tok false = VOk r.
Proof. exact verify_loop_enabled_only. Qed.
Print Assumptions C09_disabled_keys_never_matter.

(* ---- the rules are decided exactly (reflection of each executable check) ---- *)

Theorem C09_header_check_is_header_rule :
  forall k hdr,
    validate_header hdr (kalg k) (fst (kid_args (kkid k))) (snd (kid_args (kkid k))) = true
    <-> (lookup s_alg hdr = Some (JStr (kalg k))
         /\ lookup s_crit hdr = None
         /\ match kkid k with
            | KTink id => lookup s_kid hdr = Some (JStr (b64_encode (be_bytes 4 id)))
            | KCustom c => lookup s_kid hdr = None \/ lookup s_kid hdr = Some (JStr c)
            | KIgnored => True
            end).
Proof. exact validate_header_spec. Qed.
Print Assumptions C09_header_check_is_header_rule.

Theorem C09_payload_check_is_payload_rule :
  forall pl, validate_payload pl = true <-> payload_rule pl.
Proof. exact validate_payload_spec. Qed.
Print Assumptions C09_payload_check_is_payload_rule.

Theorem C09_validator_check_is_validator_rule :
  forall v typ pl, payload_rule pl ->
    (validate v (mkRaw typ pl) = true <-> validator_rule v typ pl).
Proof. exact validate_spec. Qed.
Print Assumptions C09_validator_check_is_validator_rule.

(* NewValidator: refuses ExpectedAudiences together with ExpectedAudience,
   Expected* together with Ignore*, and a clock skew above 10 minutes *)
Theorem C09_new_validator_option_rules :
  forall o v, new_validator o = Some v <-> options_rule o v.
Proof. exact new_validator_spec. Qed.
Print Assumptions C09_new_validator_option_rules.

Theorem C09_clock_skew_above_10_minutes_refused :
  forall o, (o_skew o > 600000000000)%Z -> new_validator o = None.
Proof. exact skew_limit. Qed.
Print Assumptions C09_clock_skew_above_10_minutes_refused.

(* validateFieldPresence: the whole truth table *)
Theorem C09_field_presence_truth_table :
  forall ignore present expected,
    field_presence ignore present expected =
    if ignore then Some true
    else match expected, present with
         | false, false => Some true
         | true, true => Some false
         | _, _ => None
         end.
Proof. exact field_presence_table. Qed.
Print Assumptions C09_field_presence_truth_table.

(* ---- boundaries ---- *)

(* exp = now - skew is rejected, one nanosecond (or one second) later is accepted *)
Theorem C09_exp_boundary :
  forall v pl t r, lookup s_exp pl = Some (JNum t r) ->
    (ns t = o_now v - o_skew v -> exp_ok v pl = false)%Z
    /\ (ns t = o_now v - o_skew v + 1 -> exp_ok v pl = true)%Z.
Proof. exact exp_boundary. Qed.
Print Assumptions C09_exp_boundary.

Theorem C09_exp_boundary_whole_seconds :
  forall v pl t r n s,
    lookup s_exp pl = Some (JNum t r) -> o_now v = ns n -> o_skew v = ns s ->
    (t = n - s -> exp_ok v pl = false)%Z /\ (t = n - s + 1 -> exp_ok v pl = true)%Z.
Proof. exact exp_boundary_seconds. Qed.
Print Assumptions C09_exp_boundary_whole_seconds.

(* nbf = now + skew is accepted, one later is rejected; likewise iat when
   ExpectIssuedInThePast *)
Theorem C09_nbf_boundary :
  forall v pl t r, lookup s_nbf pl = Some (JNum t r) ->
    (ns t = o_now v + o_skew v -> nbf_ok v pl = true)%Z
    /\ (ns t = o_now v + o_skew v + 1 -> nbf_ok v pl = false)%Z.
Proof. exact nbf_boundary. Qed.
Print Assumptions C09_nbf_boundary.

Theorem C09_nbf_boundary_whole_seconds :
  forall v pl t r n s,
    lookup s_nbf pl = Some (JNum t r) -> o_now v = ns n -> o_skew v = ns s ->
    (t = n + s -> nbf_ok v pl = true)%Z /\ (t = n + s + 1 -> nbf_ok v pl = false)%Z.
Proof. exact nbf_boundary_seconds. Qed.
Print Assumptions C09_nbf_boundary_whole_seconds.

Theorem C09_iat_boundary :
  forall v pl t r, o_iat_past v = true -> lookup s_iat pl = Some (JNum t r) ->
    (ns t = o_now v + o_skew v -> iat_ok v pl = true)%Z
    /\ (ns t = o_now v + o_skew v + 1 -> iat_ok v pl = false)%Z.
Proof. exact iat_boundary. Qed.
Print Assumptions C09_iat_boundary.

Theorem C09_iat_boundary_whole_seconds :
  forall v pl t r n s,
    o_iat_past v = true -> lookup s_iat pl = Some (JNum t r) -> o_now v = ns n -> o_skew v = ns s ->
    (t = n + s -> iat_ok v pl = true)%Z /\ (t = n + s + 1 -> iat_ok v pl = false)%Z.
Proof. exact iat_boundary_seconds. Qed.
Print Assumptions C09_iat_boundary_whole_seconds.

(* no keyset makes up for a failed time check *)
Theorem C09_accepted_tokens_pass_every_time_check :
  forall sig_valid json_parse keys o v tok r,
    new_validator o = Some v ->
    verify sig_valid json_parse keys o tok = Some (VOk r) ->
    exp_ok v (r_payload r) = true /\ nbf_ok v (r_payload r) = true /\ iat_ok v (r_payload r) = true.
Proof. exact time_check_rejects. Qed.
Print Assumptions C09_accepted_tokens_pass_every_time_check.

(* ---- base64url ---- *)

Theorem C09_b64_decode_encode :
  forall x, wfb x -> b64_decode (b64_encode x) = Some x.
Proof. exact b64_decode_encode. Qed.
Print Assumptions C09_b64_decode_encode.

(* the exact accepted set: alphabet characters only (no padding, no
   whitespace), length mod 4 <> 1; unused trailing bits are NOT checked *)
Theorem C09_b64_decode_accepted_set :
  forall s, b64_decode s <> None <->
            Forall (fun c => b64_val c <> None) s /\ (length s mod 4 <> 1)%nat.
Proof. exact b64_decode_accepts. Qed.
Print Assumptions C09_b64_decode_accepted_set.

Theorem C09_b64_noncanonical_trailing_bits_accepted :
  b64_decode [81; 81] = Some [65] /\ b64_decode [81; 82] = Some [65] /\ b64_encode [65] = [81; 81].
Proof. exact b64_noncanonical_accepted. Qed.
Print Assumptions C09_b64_noncanonical_trailing_bits_accepted.

Theorem C09_b64_encode_injective_and_dot_free :
  forall x y, wfb x -> wfb y ->
    (b64_encode x = b64_encode y -> x = y) /\ ~ In dot (b64_encode x).
Proof. intros x y Wx Wy. split; [apply b64_encode_injective; assumption | apply b64_encode_nodot]. Qed.
Print Assumptions C09_b64_encode_injective_and_dot_free.

Theorem C09_b64_decoded_bytes_are_bytes :
  forall s x, b64_decode s = Some x -> wfb x.
Proof. exact b64_decode_wf. Qed.
Print Assumptions C09_b64_decoded_bytes_are_bytes.

(* an accepted string re-encodes to itself iff its unused trailing bits are
   zero (b64_canonical): the malleable strings are exactly the non-canonical ones *)
Theorem C09_b64_reencode_iff_canonical :
  forall s x, b64_decode s = Some x -> (b64_encode x = s <-> b64_canonical s = true).
Proof. exact b64_reencode. Qed.
Print Assumptions C09_b64_reencode_iff_canonical.

(* ---- consequences for the classic attacks ---- *)

(* a header naming an algorithm no enabled key has ("none", HS256 against an
   RSA/ECDSA keyset, ...) is never accepted, whatever the signature oracle says *)
Theorem C09_foreign_algorithm_never_accepted :
  forall sig_valid json_parse keys o tok r h p s hb hdr a,
    tok = h ++ dot :: p ++ dot :: s -> nodot h -> nodot p -> nodot s ->
    b64_decode h = Some hb -> json_parse hb = Some hdr ->
    lookup s_alg hdr = Some (JStr a) ->
    (forall k, In k keys -> kenabled k = true -> kalg k <> a) ->
    verify sig_valid json_parse keys o tok <> Some (VOk r).
Proof. exact foreign_alg_rejected. Qed.
Print Assumptions C09_foreign_algorithm_never_accepted.

Theorem C09_crit_header_never_accepted :
  forall sig_valid json_parse keys o tok r h p s hb hdr c,
    tok = h ++ dot :: p ++ dot :: s -> nodot h -> nodot p -> nodot s ->
    b64_decode h = Some hb -> json_parse hb = Some hdr ->
    lookup s_crit hdr = Some c ->
    verify sig_valid json_parse keys o tok <> Some (VOk r).
Proof. exact crit_rejected. Qed.
Print Assumptions C09_crit_header_never_accepted.

Theorem C09_empty_signature_never_accepted :
  forall sig_valid json_parse keys o u r,
    verify sig_valid json_parse keys o (u ++ [dot]) <> Some (VOk r).
Proof. exact empty_signature_rejected. Qed.
Print Assumptions C09_empty_signature_never_accepted.

(* adding keys never turns an accepted token into a rejected one *)
Theorem C09_acceptance_monotone_in_keyset :
  forall sig_valid json_parse keys extra1 extra2 o tok r,
    verify sig_valid json_parse keys o tok = Some (VOk r) ->
    verify sig_valid json_parse (extra1 ++ keys ++ extra2) o tok = Some (VOk r).
Proof. exact verify_monotone. Qed.
Print Assumptions C09_acceptance_monotone_in_keyset.

(* the error class of the keyset loop: a validation ("interesting") error iff
   no enabled key accepts and some enabled key fails only at validation *)
Theorem C09_interesting_error_rule :
  forall sig_valid json_parse keys v tok,
    verify_loop sig_valid json_parse keys v tok false = VOther <->
    (forall k r, In k keys -> kenabled k = true -> verify_key sig_valid json_parse k v tok <> VOk r)
    /\ (exists k, In k keys /\ kenabled k = true /\ verify_key sig_valid json_parse k v tok = VOther).
Proof.
  intros. rewrite verify_loop_other. split; intros [H1 H2]; split; auto.
  destruct H2 as [H2|H2]; [discriminate | assumption].
Qed.
Print Assumptions C09_interesting_error_rule.

(* ---- NewRawJWT, encoding and the round trip ---- *)

(* every option of an accepted RawJWTOptions becomes exactly its claim, custom
   claims are kept, nothing else appears, and the payload is rule-conforming *)
Theorem C09_new_raw_jwt_claims :
  forall o r, new_raw_jwt o = Some r ->
    let cc := match ro_custom o with None => [] | Some c => c end in
    let pl := r_payload r in
    r_typ r = ro_typ o
    /\ lookup s_iss pl = jstr (ro_iss o) /\ lookup s_sub pl = jstr (ro_sub o) /\ lookup s_jti pl = jstr (ro_jti o)
    /\ lookup s_iat pl = jtime (ro_iat o) /\ lookup s_exp pl = jtime (ro_exp o) /\ lookup s_nbf pl = jtime (ro_nbf o)
    /\ lookup s_aud pl = match ro_auds o with
                         | Some l => Some (JArr (map JStr l))
                         | None => jstr (ro_aud o)
                         end
    /\ (forall k v, NoDup (map fst cc) -> In (k, v) cc -> lookup k pl = Some v)
    /\ (forall k, is_registered k = false -> ~ In k (map fst cc) -> lookup k pl = None)
    /\ (is_some (ro_exp o) = negb (ro_noexp o))
    /\ payload_rule pl.
Proof. exact new_raw_jwt_claims. Qed.
Print Assumptions C09_new_raw_jwt_claims.

(* the produced header carries exactly the key's algorithm, the raw JWT's typ
   and the kid the key's rule demands *)
Theorem C09_encoded_header_satisfies_the_key :
  forall k r hdr pl, encode_parts k r = Some (hdr, pl) ->
    pl = r_payload r /\ header_rule k hdr /\ typ_rule hdr (r_typ r)
    /\ json_utf8 (JObj hdr) = true /\ json_utf8 (JObj pl) = true.
Proof. exact encode_header_rule. Qed.
Print Assumptions C09_encoded_header_satisfies_the_key.

(* SignAndEncode / ComputeMACAndEncode followed by verification under any
   keyset that holds the key enabled and any validator the claims satisfy
   returns exactly the raw JWT: for every JSON printer/parser pair and every
   signer/verifier pair obeying the four laws below *)
Theorem C09_encode_then_verify_round_trips :
  forall (sig_valid : N -> bytes -> bytes -> bool) (json_parse : bytes -> option fields)
         (json_print : fields -> bytes) (sign : N -> bytes -> bytes),
    (forall f, json_utf8 (JObj f) = true -> json_parse (json_print f) = Some f) ->
    (forall f, wfb (json_print f)) ->
    (forall kr m, sig_valid kr (sign kr m) m = true) ->
    (forall kr m, wfb (sign kr m)) ->
    (forall kr m, sign kr m <> []) ->
    forall keys k o v ro r tok,
      new_raw_jwt ro = Some r ->
      In k keys -> kenabled k = true ->
      encode json_print sign k r = Some tok ->
      new_validator o = Some v -> validate v r = true ->
      verify sig_valid json_parse keys o tok = Some (VOk r).
Proof. exact encode_verify_roundtrip. Qed.
Print Assumptions C09_encode_then_verify_round_trips.

(* the same with the laws required only of the header, payload and signed
   text of the token at hand (used for the non-vacuity example below) *)
Theorem C09_encode_then_verify_round_trips_local :
  forall sig_valid json_parse json_print sign keys k o v ro r hdr pl tok,
    new_raw_jwt ro = Some r ->
    In k keys -> kenabled k = true ->
    encode_parts k r = Some (hdr, pl) ->
    encode json_print sign k r = Some tok ->
    json_parse (json_print hdr) = Some hdr -> json_parse (json_print pl) = Some pl ->
    wfb (json_print hdr) -> wfb (json_print pl) ->
    (forall m, wfb (sign (kref k) m) /\ sign (kref k) m <> [] /\ sig_valid (kref k) (sign (kref k) m) m = true) ->
    new_validator o = Some v -> validate v r = true ->
    verify sig_valid json_parse keys o tok = Some (VOk r).
Proof. exact encode_verify_roundtrip_local. Qed.
Print Assumptions C09_encode_then_verify_round_trips_local.

(* ---- JWK export / import ---- *)

(* whatever the public keyset accepts, the keyset obtained by exporting it to
   a JWK set and importing it back accepts, with the same claims *)
Theorem C09_jwk_export_import_preserves_acceptance :
  forall sig_valid json_parse keys o tok r,
    verify sig_valid json_parse keys o tok = Some (VOk r) ->
    verify sig_valid json_parse (jwk_roundtrip keys) o tok = Some (VOk r).
Proof. exact jwk_roundtrip_preserves. Qed.
Print Assumptions C09_jwk_export_import_preserves_acceptance.

(* ---- non-vacuity: a concrete key, raw JWT, printer, signer and validator ---- *)
Section Example.
  Let k := mkKey 7 true [72; 83; 50; 53; 54] (KTink 16909060).       (* "HS256", TINK id 0x01020304 *)
  Let ro := mkRO (Some [74; 87; 84]) None (Some [[97]; [98]]) None (Some [105]) None
                 None (Some 1700003600%Z) (Some 1700000000%Z) false (Some [([99], JBool true)]).
  (* toy printer: the header prints as "H", the payload as "P" *)
  Let json_print (f : fields) : bytes := if has s_alg f then [72] else [80].
  Let hdr : fields := [(s_alg, JStr (kalg k)); (s_typ, JStr [74; 87; 84]); (s_kid, JStr (tink_kid 16909060))].
  Let json_parse (b : bytes) : option fields :=
    if beq b [72] then Some hdr
    else match new_raw_jwt ro with Some r => Some (r_payload r) | None => None end.
  Let sign (kr : N) (m : bytes) : bytes := kr :: m.
  Let sig_valid (kr : N) (sg m : bytes) : bool := beq sg (kr :: m).
  (* exp = now - skew + 1 s, nbf = now + skew: both boundaries at once *)
  Let o := mkV (Some [74; 87; 84]) (Some [105]) (Some [98]) false false false false false
               5000000000%Z 1699999995000000000%Z None.

  Example C09_nonvacuous :
    exists r tok v,
      new_raw_jwt ro = Some r
      /\ encode json_print sign k r = Some tok
      /\ new_validator o = Some v /\ validate v r = true
      /\ verify sig_valid json_parse [mkKey 1 false [72] KIgnored; k] o tok = Some (VOk r)
      /\ verify sig_valid json_parse [mkKey 1 true [72; 83; 50; 53; 54] KIgnored] o tok = Some VGeneric
      /\ verify sig_valid json_parse (jwk_roundtrip [k]) o tok = Some (VOk r).
  Proof.
    eexists. eexists. eexists.
    split; [vm_compute; reflexivity|].
    split; [vm_compute; reflexivity|].
    split; [vm_compute; reflexivity|].
    split; [vm_compute; reflexivity|].
    split; [vm_compute; reflexivity|].
    split; vm_compute; reflexivity.
  Qed.
End Example.
