(* C09 — JWT verification accepts exactly validly signed, rule-conforming tokens.
   Only statements + `exact`; proofs live in proofs/JwtProofs.v. *)
From Coq Require Import List NArith ZArith Bool.
From Tink Require Import Bytes Base64url Jwt JwtProofs.
Import ListNotations.
Open Scope N_scope.

Theorem C09_field_presence_truth_table :
  forall ignore present expected,
    field_presence ignore present expected =
    if ignore then Some true
    else match expected, present with
         | false, false => Some true
         | true, true => Some false
         | _, _ => None
         end.
Proof. exact field_presence_table. Qed.
Print Assumptions C09_field_presence_truth_table.
