(* C05 - keyset primitives use the primary key to produce and any enabled key
   to accept.  Statements only; proofs live in proofs/FactoryProofs.v.

   Reading guide.  ks : list fentry is the keyset in keyset order; an fentry
   carries the entry's id, status, primary flag, the key's prefix type, the id
   the key object carries, whether its primitive is a legacy (non-full) one,
   and a token for the key material.  `valid e x` is an arbitrary predicate
   "the primitive the factory stores for entry e accepts the whole input x";
   every theorem holds for all such predicates, all keysets and all inputs. *)
From Coq Require Import List NArith Bool.
From Tink Require Import Bytes Manager ManagerProofs ManagerProofs2 Prefix Factory FactoryProofs FactoryProofs2.
Import ListNotations.
Open Scope N_scope.

(* Output prefixes: TINK 0x01||be32(id), CRUNCHY and LEGACY 0x00||be32(id), RAW
   empty; 5 bytes or none; for uint32 ids equal non-empty prefixes mean equal
   ids and equal start bytes (TINK and CRUNCHY of one id differ). *)
Theorem C05_prefix_format :
  forall id,
    prefix_bytes PTink id = 1 :: be_bytes 4 id /\
    prefix_bytes PCrunchy id = 0 :: be_bytes 4 id /\
    prefix_bytes PLegacy id = 0 :: be_bytes 4 id /\
    prefix_bytes PRaw id = [] /\
    (forall pt, length (prefix_bytes pt id) = if is_raw pt then 0%nat else 5%nat) /\
    (forall p1 p2 id', is_raw p1 = false -> id < 4294967296 -> id' < 4294967296 ->
        prefix_bytes p1 id = prefix_bytes p2 id' -> id = id' /\ start_byte p1 = start_byte p2).
Proof.
  intros id. do 4 (split; [reflexivity|]). split.
  - intros pt. apply prefix_bytes_length.
  - intros p1 p2 id' R A B H. exact (prefix_bytes_inj p1 p2 id id' R A B H).
Qed.
Print Assumptions C05_prefix_format.

(* The prefix map built by the factory loop, queried as PrimitivesMatchingPrefix
   and iterated, is exactly: enabled non-RAW entries whose prefix equals the
   first 5 bytes of the input (keyset order), then enabled RAW entries. *)
Theorem C05_prefix_map_is_candidate_list :
  forall ks x, pm_matching (pm_build ks) x = candidates ks x.
Proof. exact pm_matching_candidates. Qed.
Print Assumptions C05_prefix_map_is_candidate_list.

(* accept_iff: the wrapped primitive accepts x with entry e  <=>  e is in the
   keyset, ENABLED, RAW or carrying the first 5 bytes of x as its prefix, x is
   valid under e, and e is the first such candidate. *)
Theorem C05_accept_iff :
  forall (valid : fentry -> bytes -> bool) ks x e,
    accept valid ks x = Some e <->
    In e ks /\ fenabled e = true /\ (fraw e = true \/ prefix_of e = firstn 5 x)
    /\ valid e x = true
    /\ exists l1 l2, candidates ks x = l1 ++ e :: l2 /\ valid e x = true
                     /\ forall y, In y l1 -> valid y x = false.
Proof. exact accept_iff. Qed.
Print Assumptions C05_accept_iff.

(* The property as stated: accepted  <=>  valid under SOME enabled key of the
   keyset whose prefix the input carries or which has no prefix. *)
Theorem C05_accepts_iff_valid_under_enabled_key :
  forall (valid : fentry -> bytes -> bool) ks x,
    (exists e, accept valid ks x = Some e) <->
    exists e, In e ks /\ fenabled e = true
              /\ (fraw e = true \/ prefix_of e = firstn 5 x) /\ valid e x = true.
Proof. exact accept_exists_iff. Qed.
Print Assumptions C05_accepts_iff_valid_under_enabled_key.

(* Inputs valid only under DISABLED / DESTROYED keys are rejected ... *)
Theorem C05_rejects_outputs_of_non_enabled_keys :
  forall (valid : fentry -> bytes -> bool) ks x,
    (forall e, In e ks -> valid e x = true -> fenabled e = false) -> accept valid ks x = None.
Proof. exact reject_if_valid_only_under_non_enabled. Qed.
Print Assumptions C05_rejects_outputs_of_non_enabled_keys.

(* ... non-enabled entries are as good as absent, and keys that are not in the
   keyset (removed, foreign) cannot influence the verdict at all: it depends
   on validity under the enabled entries of the keyset only. *)
Theorem C05_only_enabled_keyset_keys_matter :
  forall (valid valid' : fentry -> bytes -> bool) ks x,
    accept valid ks x = accept valid (enabled_entries ks) x /\
    ((forall e, In e ks -> fenabled e = true -> valid e x = valid' e x) ->
     accept valid ks x = accept valid' ks x).
Proof. intros. split; [apply accept_ignores_non_enabled | apply accept_ext]. Qed.
Print Assumptions C05_only_enabled_keyset_keys_matter.

(* For primitives that check their own prefix (every full primitive; legacy
   primitives behind the hybrid, MAC and verifier adapters, which compare the
   prefix before stripping it) the prefix clause follows from validity:
   accepted <=> valid under some ENABLED key of the keyset. *)
Theorem C05_prefix_checking_primitives :
  forall (raw_valid : fentry -> bytes -> bytes -> bool) ad d ks x, ad <> AdStrip ->
    (forall e, In e ks -> flegacy e = false -> raw_valid e x d = true ->
               fraw e = true \/ prefix_of e = firstn 5 x) ->
    ((exists e, accept (entry_valid_b raw_valid ad d) ks x = Some e) <->
     exists e, In e ks /\ fenabled e = true /\ entry_valid_b raw_valid ad d e x = true).
Proof.
  intros raw_valid ad d ks x Had Hfull. apply accept_prefix_checking.
  intros e He V. eapply entry_valid_b_carries; eauto.
Qed.
Print Assumptions C05_prefix_checking_primitives.

(* Monitoring: a success is logged under the id of the accepting entry; with
   distinct ids that id identifies the entry. *)
Theorem C05_logged_id_names_the_accepting_key :
  forall (valid : fentry -> bytes -> bool) ks x id,
    (logged (accept valid ks x) = Some id <-> exists e, accept valid ks x = Some e /\ fid e = id) /\
    (NoDup (map fid ks) -> logged (accept valid ks x) = Some id ->
     forall e, In e ks -> fid e = id -> accept valid ks x = Some e).
Proof.
  intros. split; [apply logged_iff|]. intros ND L e He Hid. eapply logged_identifies; eauto.
Qed.
Print Assumptions C05_logged_id_names_the_accepting_key.

(* MAC factory: tags of 5 bytes or fewer are refused, otherwise the rule is the
   common one (the second pass over the RAW keys changes nothing). *)
Theorem C05_mac_rule :
  forall (valid : fentry -> bytes -> bool) ks x,
    mac_accept valid ks x = if Nat.leb (length x) 5 then None else accept valid ks x.
Proof. exact mac_accept_eq. Qed.
Print Assumptions C05_mac_rule.

(* JWT MAC / JWT verifier / streaming AEAD: every enabled key is tried in
   keyset order, whatever its prefix type. *)
Theorem C05_try_every_enabled_key_rule :
  forall (valid : fentry -> bytes -> bool) ks x,
    (forall e, accept_all valid ks x = Some e <->
       In e ks /\ fenabled e = true /\ valid e x = true /\
       exists l1 l2, enabled_entries ks = l1 ++ e :: l2 /\ valid e x = true
                     /\ forall y, In y l1 -> valid y x = false) /\
    (accept_all valid ks x = None <-> forall e, In e ks -> fenabled e = true -> valid e x = false).
Proof. intros. split; [intros e; apply accept_all_iff | apply accept_all_none_iff]. Qed.
Print Assumptions C05_try_every_enabled_key_rule.

(* PRF set: the map holds exactly the enabled keys under their ids, PrimaryID is
   the primary's id and ComputePrimaryPRF uses the primary. *)
Theorem C05_prf_set :
  forall ks, wf_keyset ks ->
    (forall id e, assoc_get id (prf_map ks) = Some e <-> In e ks /\ fenabled e = true /\ fid e = id) /\
    exists p, In p ks /\ fprim p = true /\ fenabled p = true
              /\ prf_primary_id ks = fid p /\ prf_primary ks = Some p.
Proof.
  intros ks W. split; [intros; apply prf_map_get; apply (wk_nodup ks W) | apply prf_primary_wf; auto].
Qed.
Print Assumptions C05_prf_set.

(* The executable selection with the legacy adapters of each factory (checked
   Go slices) never slices out of range and equals the abstract rule applied
   to the adapter's own validity predicate. *)
Theorem C05_adapters_never_panic :
  forall (raw_valid : fentry -> bytes -> bytes -> bool) ad ks x d,
    accept_o raw_valid ad ks x d = Ok (accept (entry_valid_b raw_valid ad d) ks x) /\
    mac_accept_o raw_valid ks x d = Ok (mac_accept (entry_valid_b raw_valid AdCheckLegacy d) ks x).
Proof. intros. split; [apply accept_o_eq | apply mac_accept_o_eq]. Qed.
Print Assumptions C05_adapters_never_panic.

(* produce_uses_primary: in a well-formed keyset both ways the factories pick
   the primary (loop over enabled entries / handle.Primary()) yield the unique
   primary entry, which is ENABLED; the output is produced with it, logged
   under its id, and - given that full primitives emit their own prefix -
   carries the primary's prefix 0x01/0x00 || be32(id of the primary). *)
Theorem C05_produce_uses_primary :
  forall (raw_produce : fentry -> bytes -> bytes) pk ks m, wf_keyset ks ->
    exists p, In p ks /\ fprim p = true /\ fenabled p = true
      /\ (forall q, In q ks -> fprim q = true -> q = p)
      /\ produce raw_produce pk (primary_loop ks) m = Some (fid p, entry_produce raw_produce pk p m)
      /\ produce raw_produce pk (primary_handle ks) m = Some (fid p, entry_produce raw_produce pk p m)
      /\ ((flegacy p = false -> exists body, raw_produce p m = prefix_of p ++ body) ->
          exists body, entry_produce raw_produce pk p m = prefix_bytes (fpt p) (fid p) ++ body).
Proof.
  intros raw_produce pk ks m W.
  destruct (produce_primary raw_produce pk ks m W) as (p & A & B & C & D & E & F).
  exists p. repeat split; auto. intros H.
  rewrite <- (wf_prefix_of ks p W A). apply entry_produce_carries_prefix. exact H.
Qed.
Print Assumptions C05_produce_uses_primary.

(* Distinct ids => at most one prefixed candidate per 5-byte prefix; the key
   whose prefix the input carries is the one that answers when the input is
   valid under it; a RAW key answers only when no such key accepts. *)
Theorem C05_distinct_ids_one_prefixed_candidate :
  forall (valid : fentry -> bytes -> bool) ks x, wf_keyset ks ->
    (length (filter (cand_prefixed x) ks) <= 1)%nat /\
    (forall e, In e ks -> fenabled e = true -> fraw e = false ->
               prefix_of e = firstn 5 x -> valid e x = true -> accept valid ks x = Some e) /\
    (forall e, accept valid ks x = Some e -> fraw e = true ->
       forall e', In e' ks -> fenabled e' = true -> fraw e' = false ->
                  prefix_of e' = firstn 5 x -> valid e' x = false).
Proof.
  intros valid ks x W. split; [apply prefixed_candidate_unique; auto|]. split.
  - intros e. apply accept_prefixed; auto.
  - intros e. apply accept_raw_only_after_prefixed.
Qed.
Print Assumptions C05_distinct_ids_one_prefixed_candidate.

(* rotation_then_accept: composition with the C11 manager model.  After ANY
   history of Add/AddKey/SetPrimary/Enable/Disable/Delete/Handle/
   NewManagerFromHandle (uint32 ids), starting from an empty manager or any
   well-formed handle, every handle obtained is a well-formed keyset for the
   factories whatever prefix variants and primitive kinds its keys have; so
   the unconditional theorems above apply to it and so do the ones that need
   well-formedness: the output is produced by the unique, enabled primary;
   the key named by the prefix answers; logged ids identify keys. *)
Theorem C05_rotation_then_accept :
  forall h0 tape ops s' rs h (cls : entry -> ptype) (leg : entry -> bool),
    (forall h, h0 = Some h -> wf_handle h) -> (forall h, h0 = Some h -> ents_bounded h) ->
    Forall (fun x => x < 4294967296) tape -> Forall op_bounded ops ->
    run (init_state h0 tape) ops = (s', rs) -> In (RHandle h) rs ->
    let ks := map (lift cls leg) h in
    wf_keyset ks /\
    (exists p, In p ks /\ fprim p = true /\ fenabled p = true
               /\ primary_loop ks = Some p /\ primary_handle ks = Some p
               /\ prf_primary_id ks = fid p) /\
    (forall (valid : fentry -> bytes -> bool) x,
       (forall e, accept valid ks x = Some e ->
                  In e ks /\ fenabled e = true /\ (fraw e = true \/ prefix_of e = firstn 5 x)
                  /\ valid e x = true) /\
       ((forall e, In e ks -> valid e x = true -> fenabled e = false) -> accept valid ks x = None) /\
       (forall e, In e ks -> fenabled e = true -> fraw e = false -> prefix_of e = firstn 5 x ->
                  valid e x = true -> accept valid ks x = Some e /\ logged (accept valid ks x) = Some (fid e))).
Proof.
  intros h0 tape ops s' rs h cls leg W B T O R Hin ks.
  assert (WK : wf_keyset ks) by (eapply rotation_wf; eauto).
  split; [exact WK|]. split.
  - destruct (wf_primary ks WK) as (p & A & B1 & C & _ & E & F).
    destruct (prf_primary_wf ks WK) as (p' & A' & B' & _ & I & _).
    exists p. repeat split; auto.
    destruct (wf_primary ks WK) as (q & _ & _ & _ & U & _ & _).
    rewrite I. f_equal. rewrite (U p' A' B'). symmetry. apply U; auto.
  - intros valid x. split; [|split].
    + intros e H. apply accept_iff in H. tauto.
    + apply reject_if_valid_only_under_non_enabled.
    + intros e A B1 C D E. rewrite (accept_prefixed valid ks x e WK A B1 C D E). auto.
Qed.
Print Assumptions C05_rotation_then_accept.


(* Across key rotation, between two handles of ONE manager: x was valid under key e1 of the
   keyset at the time of the first handle (non-RAW, so x carries e1's prefix).  After ANY
   further history on that manager (no NewManagerFromHandle), the primitive of the later
   keyset (a) accepts x, and with the entry of that very key, if the key is still there and
   ENABLED; (b) rejects x if the key was deleted, disabled or destroyed - unless another
   enabled key of the later keyset accepts it.  cls/leg (prefix variant, legacy flag) and
   validity depend on the key object only; ids are never re-assigned (C11). *)
Theorem C05_rotation_between_two_handles :
  forall (cls : entry -> ptype) (leg : entry -> bool),
    (forall a b, kp a = kp b -> cls a = cls b /\ leg a = leg b) ->
  forall (valid : fentry -> bytes -> bool),
    (forall a b y, same_key a b -> valid a y = valid b y) ->
  forall ops s e1 x,
    SInv s -> Forall (fun o => forall k, o <> OFromHandle k) ops ->
    In e1 (ents (smgr s)) ->
    fraw (lift cls leg e1) = false ->
    prefix_of (lift cls leg e1) = firstn nonraw_prefix_size x ->
    valid (lift cls leg e1) x = true ->
    let l2 := ents (smgr (fst (run s ops))) in
    wf_handle l2 -> ents_bounded l2 ->
    let ks2 := map (lift cls leg) l2 in
    (forall e2, In e2 l2 -> eid e2 = eid e1 -> est e2 = Enabled ->
                accept valid ks2 x = Some (lift cls leg e2)) /\
    ((forall e2, In e2 l2 -> eid e2 = eid e1 -> est e2 <> Enabled) ->
     (forall e, In e l2 -> eid e <> eid e1 -> est e = Enabled -> valid (lift cls leg e) x = false) ->
     accept valid ks2 x = None).
Proof. exact rotation_between_handles. Qed.
Print Assumptions C05_rotation_between_two_handles.

(* the hypotheses of the rotation theorem are met by concrete histories in which the key is
   DELETED resp. DISABLED after the first handle; its second clause gives the rejection *)
Example C05_rotation_theorem_applies_after_delete_and_disable :
  let valid := fun e (x : bytes) => N.eqb (fkey e) (last x 0) in
  let cls := fun _ : entry => PTink in
  let leg := fun _ : entry => false in
  let x := [1; 0; 0; 0; 5; 41] in
  let s := fst (run (init_state None [5; 9]) [OAddKey (Some 5) 41; OSetPrimary 5]) in
  forall ops, In ops [[OAddKey (Some 9) 42; OSetPrimary 9; ODelete 5];
                      [OAddKey (Some 9) 42; OSetPrimary 9; ODisable 5]] ->
  accept valid (map (lift cls leg) (ents (smgr (fst (run s ops))))) x = None.
Proof. exact rotation_theorem_applies_after_delete_and_disable. Qed.



(* Non-vacuity: a concrete well-formed keyset (TINK id 5 primary, CRUNCHY id 5
   impossible next to it so CRUNCHY id 7, a disabled TINK key, a RAW key), a
   concrete validity predicate, and a concrete manager history. *)
Example C05_nonvacuous :
  let ks := [mkF 5 Enabled true PTink 5 false 1; mkF 7 Enabled false PCrunchy 7 true 2;
             mkF 9 Disabled false PTink 9 false 3; mkF 4294967295 Enabled false PRaw 0 false 4] in
  let valid := fun e (x : bytes) => N.eqb (fkey e) (last x 0) in
  wf_keyset ks /\
  accept valid ks [1; 0; 0; 0; 5; 1] = Some (mkF 5 Enabled true PTink 5 false 1) /\
  accept valid ks [0; 0; 0; 0; 7; 2] = Some (mkF 7 Enabled false PCrunchy 7 true 2) /\
  accept valid ks [1; 0; 0; 0; 9; 3] = None /\
  accept valid ks [1; 0; 0; 0; 5; 4] = Some (mkF 4294967295 Enabled false PRaw 0 false 4) /\
  accept valid ks [0; 0; 0; 0; 5; 1] = None /\
  (let h := [mkEntry 5 Enabled true (Some 5) 1; mkEntry 7 Enabled false None 2] in
   snd (run (init_state None [7]) [OAddKey (Some 5) 1; OSetPrimary 5; OAddKey None 2; OHandle])
   = [RId 5; ROk; RId 7; RHandle h]).
Proof.
  split; [|repeat split; vm_compute; reflexivity].
  constructor.
  - simpl. repeat constructor; simpl; intuition discriminate.
  - reflexivity.
  - intros e [<-|[<-|[<-|[<-|[]]]]]; simpl; intros; try discriminate; reflexivity.
  - intros e [<-|[<-|[<-|[<-|[]]]]]; simpl; intros; try discriminate; reflexivity.
  - intros e [<-|[<-|[<-|[<-|[]]]]]; simpl; reflexivity.
Qed.
