(* C05 - keyset primitives use the primary key to produce and any enabled key
   to accept.  Statements only; proofs live in proofs/FactoryProofs.v. *)
From Coq Require Import List NArith Bool.
From Tink Require Import Bytes Manager ManagerProofs Prefix Factory FactoryProofs.
Import ListNotations.
Open Scope N_scope.

Theorem C05_prefix_length :
  forall pt id, length (prefix_bytes pt id) = if is_raw pt then 0%nat else 5%nat.
Proof. exact prefix_bytes_length. Qed.
Print Assumptions C05_prefix_length.
