(* C04 — MAC tags are the standard HMAC / AES-CMAC values and only those verify.

   Statements only; proofs live in proofs/{Cmac,Hmac,Mac,HmacCode}Proofs.v, MacProofs2.v.
   Models: model/Cmac.v (internal/mac/aescmac as coded + RFC 4493 spec),
   model/Hmac.v (RFC 2104 specification in the RFC's words), model/HmacCode.v
   (crypto/hmac and internal/mac/hmac AS CODED: pads by copy + xor loop, long
   keys hashed with the outer hash, streaming Write/Sum/Reset with the
   marshaled-state shortcut, tag truncation, constant-time comparison),
   model/Mac.v (constructors, tag truncation, prefix / LEGACY framing,
   fullMACAdapter, wrappedMAC).
   The hash functions `Hash` and the AES block encryption `AES` are arbitrary
   functions constrained only by the stated length / byte-range premises.

   Determinism of ComputeMAC: in the model `pcompute P` is a Gallina function
   of the message (no state, no randomness), so determinism holds by
   construction; the correspondence run computes every tag twice on the real
   code and compares. *)
From Coq Require Import List NArith Bool Lia.
From Tink Require Import Bytes Cmac Hmac Mac HmacCode CmacProofs HmacProofs MacProofs HmacCodeProofs MacProofs2.
Import ListNotations.
Open Scope N_scope.

(* ---- AES-CMAC as coded = RFC 4493, for every message length ---- *)
Theorem C04_cmac_impl_is_rfc4493 :
  forall (E : bytes -> bytes),
    wfb (E (zeros 16)) -> length (E (zeros 16)) = 16%nat ->
    forall m, cmac_impl E m = cmac_spec E m.
Proof. exact cmac_impl_spec. Qed.
Print Assumptions C04_cmac_impl_is_rfc4493.

(* the byte loop of mulByX is the doubling (L << 1, xor 0x87 on carry) of RFC 4493 2.3 *)
Theorem C04_mulByX_is_rfc4493_doubling :
  forall b, wfb b -> length b = 16%nat -> mulByX b = dbl b.
Proof. exact mulByX_dbl. Qed.
Print Assumptions C04_mulByX_is_rfc4493_doubling.

Theorem C04_cmac_output_is_one_block :
  forall (E : bytes -> bytes), (forall b, length b = 16%nat -> length (E b) = 16%nat) ->
    forall m, length (cmac_impl E m) = 16%nat.
Proof. exact cmac_impl_length. Qed.
Print Assumptions C04_cmac_output_is_one_block.

(* ---- HMAC key handling (RFC 2104) ---- *)
(* a short key and the same key followed by zero bytes give the same HMAC *)
Theorem C04_hmac_short_key_zero_padding :
  forall (H : bytes -> bytes) (B : nat) k n m,
    (length k + n <= B)%nat -> hmac H B (k ++ zeros n) m = hmac H B k m.
Proof. exact hmac_pad. Qed.
Print Assumptions C04_hmac_short_key_zero_padding.

(* a key longer than the block is replaced by its hash *)
Theorem C04_hmac_long_key_hashed :
  forall (H : bytes -> bytes) (B : nat) k m,
    (B < length k)%nat -> (length (H k) <= B)%nat -> hmac H B k m = hmac H B (H k) m.
Proof. exact hmac_long_key. Qed.
Print Assumptions C04_hmac_long_key_hashed.

(* ---- crypto/hmac AS CODED = RFC 2104, for every key length, message, hash ---- *)
(* A hash.Hash is an abstract state machine (h_init = h() = the state after Reset, h_write,
   h_sum = Sum(nil)) with block size B; its only law: Sum returns H of the concatenation of
   what was written since Reset.  Every Sum of every use of the object hmac.New(h, key)
   (Write in any pieces, Sum(in) any number of times, Reset, with or without the
   MarshalBinary shortcut of Reset) returns in || HMAC_RFC2104(key, bytes written since
   New / the last Reset). *)
Theorem C04_crypto_hmac_as_coded_is_rfc2104 :
  forall (S : Type) (h_init : S) (h_write : S -> bytes -> S) (h_sum : S -> bytes)
         (B : nat) (marshalable : bool) (H : bytes -> bytes),
    (forall chunks, h_sum (fold_left h_write chunks h_init) = H (concat chunks)) ->
    forall key ops,
      snd (hm_run S h_init h_write h_sum marshalable (hm_new S h_init h_write h_sum B key) ops)
      = spec_run B H key [] ops.
Proof. exact hmac_object_is_rfc2104. Qed.
Print Assumptions C04_crypto_hmac_as_coded_is_rfc2104.

(* one-shot use (New, Write per piece, Sum(nil)): RFC 2104 of the concatenation, for every
   split of the message and every key length (no length law of H is needed) *)
Theorem C04_crypto_hmac_one_shot_is_rfc2104 :
  forall (S : Type) (h_init : S) (h_write : S -> bytes -> S) (h_sum : S -> bytes)
         (B : nat) (H : bytes -> bytes),
    (forall chunks, h_sum (fold_left h_write chunks h_init) = H (concat chunks)) ->
    forall key data, hmac_code S h_init h_write h_sum B key data = hmac H B key (concat data).
Proof. exact hmac_code_is_rfc2104. Qed.
Print Assumptions C04_crypto_hmac_one_shot_is_rfc2104.

(* hmac.Equal / subtle.ConstantTimeCompare == 1 (length test, or-accumulated xor,
   ConstantTimeByteEq) decides equality of length and contents *)
Theorem C04_constant_time_compare_is_equality :
  forall x y, wfb x -> wfb y -> N.eqb (ct_compare x y) 1 = beq x y.
Proof. exact ct_compare_beq. Qed.
Print Assumptions C04_constant_time_compare_is_equality.

Section C04.
  Variable Hash : hash_alg -> bytes -> bytes.
  Variable AES : bytes -> bytes -> bytes.
  Hypothesis Hash_len : forall h x, length (Hash h x) = digest_size h.
  Hypothesis AES_len : forall k b, length b = 16%nat -> length (AES k b) = 16%nat.
  Hypothesis AES_wf0 : forall k, wfb (AES k (zeros 16)).

  (* Whatever way the MAC object P for one key was obtained (mac/subtle,
     hmac.NewMAC / aescmac.NewMAC, mac.New(handle), mac.NewWithConfig with the
     factory's adapter), for every message: the tag is
     output-prefix || first tag-size bytes of the RFC 2104 / RFC 4493 value
     (over message||0x00 for LEGACY keys) ... *)
  Theorem C04_tag_is_standard_value :
    forall p a key tag v id P, build Hash AES p a key tag v id = Built P ->
    forall m,
      pcompute P m =
        (match p with PSubtle => [] | _ => output_prefix v id end)
        ++ firstn tag (std_mac Hash AES a key
             (match p with
              | PSubtle => m
              | _ => if is_legacy v then m ++ [0] else m
              end)).
  Proof. intros p a key tag v id P HB. exact (proj1 (proj2 (proj2 (build_facts Hash AES Hash_len AES_len AES_wf0 _ _ _ _ _ _ _ HB)))). Qed.

  (* ... VerifyMAC accepts (tag, message) iff tag = ComputeMAC(message) ... *)
  Theorem C04_verify_iff_tag_eq_compute :
    forall p a key tag v id P, build Hash AES p a key tag v id = Built P ->
    forall mac m, pverify P mac m = true <-> mac = pcompute P m.
  Proof. intros p a key tag v id P HB. exact (proj1 (build_facts Hash AES Hash_len AES_len AES_wf0 _ _ _ _ _ _ _ HB)). Qed.

  (* ... tags have length |prefix| + tag size, tag size >= 10 ... *)
  Theorem C04_tag_length :
    forall p a key tag v id P, build Hash AES p a key tag v id = Built P ->
    (10 <= tag)%nat /\
    forall m, length (pcompute P m)
              = (length (match p with PSubtle => [] | _ => output_prefix v id end) + tag)%nat.
  Proof.
    intros p a key tag v id P HB.
    destruct (build_facts Hash AES Hash_len AES_len AES_wf0 _ _ _ _ _ _ _ HB) as [_ [_ [_ [Hl H10]]]].
    split; [exact H10 | exact Hl].
  Qed.

  (* ... so truncated, extended and bit-flipped tags are rejected ... *)
  Theorem C04_mutated_tags_rejected :
    forall p a key tag v id P, build Hash AES p a key tag v id = Built P ->
    forall m,
      (forall n, (n < length (pcompute P m))%nat -> pverify P (firstn n (pcompute P m)) m = false) /\
      (forall ext, ext <> [] -> pverify P (pcompute P m ++ ext) m = false) /\
      (forall i d, (i < length (pcompute P m))%nat -> d <> 0 ->
                   pverify P (flip_at i d (pcompute P m)) m = false) /\
      (forall mac, mac <> pcompute P m -> pverify P mac m = false).
  Proof.
    intros p a key tag v id P HB m.
    pose proof (proj1 (build_facts Hash AES Hash_len AES_len AES_wf0 _ _ _ _ _ _ _ HB)) as Hex.
    repeat split.
    - intros n. apply exact_rejects_truncated. exact Hex.
    - intros ext. apply exact_rejects_extended. exact Hex.
    - intros i d. apply exact_rejects_flipped. exact Hex.
    - intros mac. apply exact_rejects_other. exact Hex.
  Qed.

  (* ... and MODIFIED MESSAGES: a tag computed for m that verifies for another message m'
     exhibits a collision of the standard MAC truncated to tag >= 10 bytes on two DIFFERENT
     MAC inputs (the messages, each with the 0x00 suffix when the key is LEGACY).
     (Checked against algebraic identities of the constructions: the SAME key bytes are on both sides
     of the event here and in the two theorems that follow, so HMAC key normalisation (zero padding,
     hashing of long keys) cannot make it free; on the message side neither HMAC nor AES-CMAC has an identity that
     holds for every hash / block cipher (a CMAC collision between a padded and a complete last block
     needs the key-dependent subkeys K1, K2); the one message-side identity of the stack, LEGACY m versus m || 0x00 under another
     variant, is NOT counted as a collision: it is the `equal MAC inputs` disjunct of
     C04_cross_object_reduction.  The event is refutable: C04_reduction_event_refutable.) *)
  Theorem C04_modified_message_reduction :
    forall p a key tag v id P, build Hash AES p a key tag v id = Built P ->
    forall m m', m <> m' -> pverify P (pcompute P m) m' = true ->
      path_msg p v m <> path_msg p v m' /\
      (10 <= tag)%nat /\
      length (firstn tag (std_mac Hash AES a key (path_msg p v m))) = tag /\
      firstn tag (std_mac Hash AES a key (path_msg p v m))
      = firstn tag (std_mac Hash AES a key (path_msg p v m')).
  Proof. exact (modified_message_reduction Hash AES Hash_len AES_len AES_wf0). Qed.

  (* two objects over the same algorithm, key bytes and tag size (other path, variant, id):
     a tag of P for m accepted by P' for m' means equal output prefixes and either equal MAC
     inputs or a truncated-MAC collision on different MAC inputs *)
  Theorem C04_cross_object_reduction :
    forall p p' a key tag v v' id id' P P',
    build Hash AES p a key tag v id = Built P ->
    build Hash AES p' a key tag v' id' = Built P' ->
    forall m m', pverify P' (pcompute P m) m' = true ->
      path_prefix p v id = path_prefix p' v' id' /\
      (path_msg p v m = path_msg p' v' m' \/
       (path_msg p v m <> path_msg p' v' m' /\
        (10 <= tag)%nat /\
        length (firstn tag (std_mac Hash AES a key (path_msg p v m))) = tag /\
        firstn tag (std_mac Hash AES a key (path_msg p v m))
        = firstn tag (std_mac Hash AES a key (path_msg p' v' m')))).
  Proof. exact (cross_verify_reduction Hash AES Hash_len AES_len AES_wf0). Qed.

  (* the LEGACY 0x00 suffix between variants: the same key as LEGACY and as CRUNCHY with the
     same id (same output prefix).  The LEGACY tag of m IS the CRUNCHY tag of m || 0x00 (equal
     MAC inputs: messages differing only in a trailing 0x00 are not separated across these two
     variants), and it is accepted for any other message only through a collision *)
  Theorem C04_legacy_suffix_cross_variant :
    forall p p' a key tag id P P',
    p <> PSubtle -> p' <> PSubtle ->
    build Hash AES p a key tag VLegacy id = Built P ->
    build Hash AES p' a key tag VCrunchy id = Built P' ->
    forall m,
      pverify P' (pcompute P m) (m ++ [0]) = true /\
      forall m', pverify P' (pcompute P m) m' = true -> m' <> m ++ [0] ->
        (10 <= tag)%nat /\
        firstn tag (std_mac Hash AES a key (m ++ [0])) = firstn tag (std_mac Hash AES a key m').
  Proof. exact (legacy_suffix_cross_variant Hash AES Hash_len AES_len AES_wf0). Qed.

  (* ACCEPTED CONFIGURATIONS, exactly: a MAC object is obtained iff the configuration is inside
     the stated ranges (in_range, proofs/MacProofs2.v: HMAC known hash, 10 <= tag <= digest size,
     key >= 16 bytes; AES-CMAC 10 <= tag <= 16 and key size 16/24/32 via mac/subtle, 32 via
     aescmac.NewMAC and mac.New, 16/32 via a key object behind the factory adapter; NO_PREFIX
     keys have id requirement 0) -- necessity and totality *)
  Theorem C04_accepted_configurations_exact :
    forall p a key tag v id,
      (exists P, build Hash AES p a key tag v id = Built P) <-> in_range p a (length key) tag v id.
  Proof. exact (build_accepts_iff Hash AES). Qed.

  (* internal/mac/hmac AS CODED (ComputeMAC: New, Write per argument, Sum(nil), tag[:tagSize];
     VerifyMAC: hmac.Equal) is the raw MAC object of the model, for any streaming hash that
     computes Hash a *)
  Theorem C04_tink_hmac_as_coded_is_model :
    forall (S : Type) (h_init : S) (h_write : S -> bytes -> S) (h_sum : S -> bytes) (a : hash_alg),
      (forall chunks, h_sum (fold_left h_write chunks h_init) = Hash a (concat chunks)) ->
      forall key tag r, hmac_new Hash (Some a) key tag = Ok r ->
      forall data,
        tink_hmac_compute S h_init h_write h_sum (block_size a) key tag data
        = raw_compute r (concat data) /\
        (forall mac, (forall x, wfb (Hash a x)) -> wfb mac ->
           tink_hmac_verify S h_init h_write h_sum (block_size a) key tag mac data
           = raw_verify r mac (concat data)).
  Proof. exact (tink_hmac_code_is_raw Hash). Qed.

  (* A keyset of several MAC keys through mac.New: the primary's standard tag
     is produced, and exactly the standard tags of the keys of the keyset are accepted. *)
  Theorem C04_keyset_mac :
    forall ks i P, build_set Hash AES ks i = Built P ->
    (exists k, nth_error ks i = Some k /\
       forall m, pcompute P m =
         let '(a, key, tag, v, id) := k in
         output_prefix v id ++ firstn tag (std_mac Hash AES a key (if is_legacy v then m ++ [0] else m))) /\
    (forall mac m, pverify P mac m = true <->
       exists k, In k ks /\
         mac = let '(a, key, tag, v, id) := k in
               output_prefix v id ++ firstn tag (std_mac Hash AES a key (if is_legacy v then m ++ [0] else m))).
  Proof. intros ks i P HB. exact (build_set_facts Hash AES Hash_len AES_len AES_wf0 ks i P HB). Qed.
End C04.
Print Assumptions C04_tag_is_standard_value.
Print Assumptions C04_verify_iff_tag_eq_compute.
Print Assumptions C04_tag_length.
Print Assumptions C04_mutated_tags_rejected.
Print Assumptions C04_modified_message_reduction.
Print Assumptions C04_cross_object_reduction.
Print Assumptions C04_legacy_suffix_cross_variant.
Print Assumptions C04_accepted_configurations_exact.
Print Assumptions C04_tink_hmac_as_coded_is_model.
Print Assumptions C04_keyset_mac.

(* wrappedMAC over arbitrary exact primitives: accepted = longer than 5 bytes
   and computed by some entry *)
Theorem C04_wrapped_verify :
  forall es mac m,
    Forall (fun p => forall mac m, pverify p mac m = true <-> mac = pcompute p m) es ->
    Forall (fun p => forall m, exists t, pcompute p m = pprefix p ++ t) es ->
    Forall (fun p => pprefix p = [] \/ length (pprefix p) = 5%nat) es ->
    (wrapped_verify es mac m = true <->
     (5 < length mac)%nat /\ exists e, In e es /\ mac = pcompute e m).
Proof. exact wrapped_verify_iff. Qed.
Print Assumptions C04_wrapped_verify.

(* the factory's fullMACAdapter is extensionally the per-key full primitive *)
Theorem C04_adapter_is_full :
  forall f mac m, adapter_compute f m = full_compute f m /\ adapter_verify f mac m = full_verify f mac m.
Proof. intros; split; reflexivity. Qed.
Print Assumptions C04_adapter_is_full.

(* Non-vacuity: the premises on the oracles are satisfiable, and each
   construction path yields an object for some configuration. *)
Example C04_nonvacuous :
  let H := fun h (_ : bytes) => zeros (digest_size h) in
  let A := fun (_ _ : bytes) => zeros 16 in
  (forall h x, length (H h x) = digest_size h) /\
  (forall k b, length b = 16%nat -> length (A k b) = 16%nat) /\
  (forall k, wfb (A k (zeros 16))) /\
  (exists P, build H A PFactory ACmac (zeros 32) 16 VLegacy 7 = Built P) /\
  (exists P, build H A PKey (AHmac (Some SHA256)) (zeros 20) 10 VTink 7 = Built P) /\
  (exists P, build H A PAdapter ACmac (zeros 16) 12 VCrunchy 7 = Built P) /\
  (exists P, build H A PSubtle (AHmac (Some SHA512)) (zeros 200) 64 VNoPrefix 0 = Built P) /\
  (exists P, build_set H A [(ACmac, zeros 32, 16%nat, VNoPrefix, 0); (AHmac (Some SHA1), zeros 16, 20%nat, VTink, 5)] 1 = Built P).
Proof.
  cbv zeta. repeat split.
  - intros h x. apply zeros_length.
  - intros k. apply zeros_wf.
  - eexists. vm_compute. reflexivity.
  - eexists. vm_compute. reflexivity.
  - eexists. vm_compute. reflexivity.
  - eexists. vm_compute. reflexivity.
  - eexists. vm_compute. reflexivity.
Qed.

(* Non-vacuity of the new conditional theorems.  (1) the streaming law is satisfied by the
   accumulating hash over any H; (2) in_range holds of ordinary configurations and fails just
   outside; (3) the hypotheses of the reductions are met: with a (bad) constant hash a modified
   message verifies, and the exhibited collision is a real one (10 equal bytes, different inputs). *)
Example C04_stream_law_inhabited :
  forall H : bytes -> bytes,
    forall chunks, H (fold_left acc_write chunks acc_init) = H (concat chunks).
Proof. exact acc_stream_law. Qed.

Example C04_in_range_examples :
  in_range PFactory (AHmac (Some SHA256)) 16 32 VTink 5 /\
  in_range PSubtle ACmac 24 10 VNoPrefix 9 /\
  ~ in_range PKey ACmac 16 16 VTink 5 /\
  ~ in_range PFactory (AHmac (Some SHA1)) 16 21 VTink 5 /\
  ~ in_range PKey (AHmac (Some SHA512)) 15 64 VTink 5 /\
  ~ in_range PKey (AHmac (Some SHA512)) 64 64 VNoPrefix 5.
Proof.
  unfold in_range. cbn [digest_size]. repeat split; try lia; try discriminate; auto;
    intros [[? ?] ?]; try lia.
  assert (5 = 0) by auto. discriminate.
Qed.

Example C04_reduction_hypotheses_met :
  let H := fun h (_ : bytes) => zeros (digest_size h) in
  let A := fun (_ _ : bytes) => zeros 16 in
  exists P, build H A PKey (AHmac (Some SHA256)) (zeros 20) 10 VLegacy 7 = Built P /\
            [1] <> [2] /\ pverify P (pcompute P [1]) [2] = true /\
            [1; 0] <> [2; 0] /\
            firstn 10 (std_mac H A (AHmac (Some SHA256)) (zeros 20) [1; 0]) = zeros 10.
Proof.
  cbv zeta. eexists. split; [vm_compute; reflexivity|].
  split; [discriminate|]. split; [vm_compute; reflexivity|]. split; [discriminate|]. vm_compute. reflexivity.
Qed.

(* the collision event of the reductions is refutable (no identity makes it free): with the identity
   block cipher AES-CMAC of a short message is its 10* padding, so two different one-byte messages
   have different truncated tags, and the modified message is rejected *)
Example C04_reduction_event_refutable :
  let H := fun h (_ : bytes) => zeros (digest_size h) in
  let A := fun (_ b : bytes) => b in
  (forall k b, length b = 16%nat -> length (A k b) = 16%nat) /\ (forall k, wfb (A k (zeros 16))) /\
  firstn 10 (std_mac H A ACmac (zeros 32) [1]) <> firstn 10 (std_mac H A ACmac (zeros 32) [2]) /\
  exists P, build H A PKey ACmac (zeros 32) 10 VTink 7 = Built P /\ pverify P (pcompute P [1]) [2] = false.
Proof.
  cbv zeta. split; [auto|]. split; [intros k; apply zeros_wf|].
  split; [intros E; vm_compute in E; discriminate|].
  eexists. split; [vm_compute; reflexivity|]. vm_compute. reflexivity.
Qed.
