(* C04 — MAC tags are the standard HMAC / AES-CMAC values and only those verify.

   Statements only; proofs live in proofs/{Cmac,Hmac,Mac}Proofs.v.
   Models: model/Cmac.v (internal/mac/aescmac as coded + RFC 4493 spec),
   model/Hmac.v (RFC 2104 transcription), model/Mac.v (constructors, tag
   truncation, prefix / LEGACY framing, fullMACAdapter, wrappedMAC).
   The hash functions `Hash` and the AES block encryption `AES` are arbitrary
   functions constrained only by the stated length / byte-range premises.

   Determinism of ComputeMAC: in the model `pcompute P` is a Gallina function
   of the message (no state, no randomness), so determinism holds by
   construction; the correspondence run computes every tag twice on the real
   code and compares. *)
From Coq Require Import List NArith Bool.
From Tink Require Import Bytes Cmac Hmac Mac CmacProofs HmacProofs MacProofs.
Import ListNotations.
Open Scope N_scope.

(* ---- AES-CMAC as coded = RFC 4493, for every message length ---- *)
Theorem C04_cmac_impl_is_rfc4493 :
  forall (E : bytes -> bytes),
    wfb (E (zeros 16)) -> length (E (zeros 16)) = 16%nat ->
    forall m, cmac_impl E m = cmac_spec E m.
Proof. exact cmac_impl_spec. Qed.
Print Assumptions C04_cmac_impl_is_rfc4493.

(* the byte loop of mulByX is the doubling (L << 1, xor 0x87 on carry) of RFC 4493 2.3 *)
Theorem C04_mulByX_is_rfc4493_doubling :
  forall b, wfb b -> length b = 16%nat -> mulByX b = dbl b.
Proof. exact mulByX_dbl. Qed.
Print Assumptions C04_mulByX_is_rfc4493_doubling.

Theorem C04_cmac_output_is_one_block :
  forall (E : bytes -> bytes), (forall b, length b = 16%nat -> length (E b) = 16%nat) ->
    forall m, length (cmac_impl E m) = 16%nat.
Proof. exact cmac_impl_length. Qed.
Print Assumptions C04_cmac_output_is_one_block.

(* ---- HMAC key handling (RFC 2104) ---- *)
(* a short key and the same key followed by zero bytes give the same HMAC *)
Theorem C04_hmac_short_key_zero_padding :
  forall (H : bytes -> bytes) (B : nat) k n m,
    (length k + n <= B)%nat -> hmac H B (k ++ zeros n) m = hmac H B k m.
Proof. exact hmac_pad. Qed.
Print Assumptions C04_hmac_short_key_zero_padding.

(* a key longer than the block is replaced by its hash *)
Theorem C04_hmac_long_key_hashed :
  forall (H : bytes -> bytes) (B : nat) k m,
    (B < length k)%nat -> (length (H k) <= B)%nat -> hmac H B k m = hmac H B (H k) m.
Proof. exact hmac_long_key. Qed.
Print Assumptions C04_hmac_long_key_hashed.

Section C04.
  Variable Hash : hash_alg -> bytes -> bytes.
  Variable AES : bytes -> bytes -> bytes.
  Hypothesis Hash_len : forall h x, length (Hash h x) = digest_size h.
  Hypothesis AES_len : forall k b, length b = 16%nat -> length (AES k b) = 16%nat.
  Hypothesis AES_wf0 : forall k, wfb (AES k (zeros 16)).

  (* Whatever way the MAC object P for one key was obtained (mac/subtle,
     hmac.NewMAC / aescmac.NewMAC, mac.New(handle), mac.NewWithConfig with the
     factory's adapter), for every message: the tag is
     output-prefix || first tag-size bytes of the RFC 2104 / RFC 4493 value
     (over message||0x00 for LEGACY keys) ... *)
  Theorem C04_tag_is_standard_value :
    forall p a key tag v id P, build Hash AES p a key tag v id = Built P ->
    forall m,
      pcompute P m =
        (match p with PSubtle => [] | _ => output_prefix v id end)
        ++ firstn tag (std_mac Hash AES a key
             (match p with
              | PSubtle => m
              | _ => if is_legacy v then m ++ [0] else m
              end)).
  Proof. intros p a key tag v id P HB. exact (proj1 (proj2 (proj2 (build_facts Hash AES Hash_len AES_len AES_wf0 _ _ _ _ _ _ _ HB)))). Qed.

  (* ... VerifyMAC accepts (tag, message) iff tag = ComputeMAC(message) ... *)
  Theorem C04_verify_iff_tag_eq_compute :
    forall p a key tag v id P, build Hash AES p a key tag v id = Built P ->
    forall mac m, pverify P mac m = true <-> mac = pcompute P m.
  Proof. intros p a key tag v id P HB. exact (proj1 (build_facts Hash AES Hash_len AES_len AES_wf0 _ _ _ _ _ _ _ HB)). Qed.

  (* ... tags have length |prefix| + tag size, tag size >= 10 ... *)
  Theorem C04_tag_length :
    forall p a key tag v id P, build Hash AES p a key tag v id = Built P ->
    (10 <= tag)%nat /\
    forall m, length (pcompute P m)
              = (length (match p with PSubtle => [] | _ => output_prefix v id end) + tag)%nat.
  Proof.
    intros p a key tag v id P HB.
    destruct (build_facts Hash AES Hash_len AES_len AES_wf0 _ _ _ _ _ _ _ HB) as [_ [_ [_ [Hl H10]]]].
    split; [exact H10 | exact Hl].
  Qed.

  (* ... so truncated, extended and bit-flipped tags are rejected ... *)
  Theorem C04_mutated_tags_rejected :
    forall p a key tag v id P, build Hash AES p a key tag v id = Built P ->
    forall m,
      (forall n, (n < length (pcompute P m))%nat -> pverify P (firstn n (pcompute P m)) m = false) /\
      (forall ext, ext <> [] -> pverify P (pcompute P m ++ ext) m = false) /\
      (forall i d, (i < length (pcompute P m))%nat -> d <> 0 ->
                   pverify P (flip_at i d (pcompute P m)) m = false) /\
      (forall mac, mac <> pcompute P m -> pverify P mac m = false).
  Proof.
    intros p a key tag v id P HB m.
    pose proof (proj1 (build_facts Hash AES Hash_len AES_len AES_wf0 _ _ _ _ _ _ _ HB)) as Hex.
    repeat split.
    - intros n. apply exact_rejects_truncated. exact Hex.
    - intros ext. apply exact_rejects_extended. exact Hex.
    - intros i d. apply exact_rejects_flipped. exact Hex.
    - intros mac. apply exact_rejects_other. exact Hex.
  Qed.

  (* ... and a tag verifies for another message only if that message has the same tag *)
  Theorem C04_modified_message_rejected_unless_same_tag :
    forall p a key tag v id P, build Hash AES p a key tag v id = Built P ->
    forall m m', pverify P (pcompute P m) m' = true <-> pcompute P m = pcompute P m'.
  Proof.
    intros p a key tag v id P HB m m'.
    apply exact_other_message. exact (proj1 (build_facts Hash AES Hash_len AES_len AES_wf0 _ _ _ _ _ _ _ HB)).
  Qed.

  (* only configurations within the size rules yield a MAC object *)
  Theorem C04_accepted_configurations :
    forall p a key tag v id P, build Hash AES p a key tag v id = Built P ->
    match a with
    | AHmac h => exists ha, h = Some ha /\ (10 <= tag <= digest_size ha)%nat /\ (16 <= length key)%nat
    | ACmac => (10 <= tag <= 16)%nat /\ (length key = 16 \/ length key = 24 \/ length key = 32)%nat
    end.
  Proof. exact (build_sizes Hash AES Hash_len AES_len AES_wf0). Qed.

  (* A keyset of several MAC keys through mac.New: the primary's standard tag
     is produced, and exactly the standard tags of the keys of the keyset are accepted. *)
  Theorem C04_keyset_mac :
    forall ks i P, build_set Hash AES ks i = Built P ->
    (exists k, nth_error ks i = Some k /\
       forall m, pcompute P m =
         let '(a, key, tag, v, id) := k in
         output_prefix v id ++ firstn tag (std_mac Hash AES a key (if is_legacy v then m ++ [0] else m))) /\
    (forall mac m, pverify P mac m = true <->
       exists k, In k ks /\
         mac = let '(a, key, tag, v, id) := k in
               output_prefix v id ++ firstn tag (std_mac Hash AES a key (if is_legacy v then m ++ [0] else m))).
  Proof. intros ks i P HB. exact (build_set_facts Hash AES Hash_len AES_len AES_wf0 ks i P HB). Qed.
End C04.
Print Assumptions C04_tag_is_standard_value.
Print Assumptions C04_verify_iff_tag_eq_compute.
Print Assumptions C04_tag_length.
Print Assumptions C04_mutated_tags_rejected.
Print Assumptions C04_modified_message_rejected_unless_same_tag.
Print Assumptions C04_accepted_configurations.
Print Assumptions C04_keyset_mac.

(* wrappedMAC over arbitrary exact primitives: accepted = longer than 5 bytes
   and computed by some entry *)
Theorem C04_wrapped_verify :
  forall es mac m,
    Forall (fun p => forall mac m, pverify p mac m = true <-> mac = pcompute p m) es ->
    Forall (fun p => forall m, exists t, pcompute p m = pprefix p ++ t) es ->
    Forall (fun p => pprefix p = [] \/ length (pprefix p) = 5%nat) es ->
    (wrapped_verify es mac m = true <->
     (5 < length mac)%nat /\ exists e, In e es /\ mac = pcompute e m).
Proof. exact wrapped_verify_iff. Qed.
Print Assumptions C04_wrapped_verify.

(* the factory's fullMACAdapter is extensionally the per-key full primitive *)
Theorem C04_adapter_is_full :
  forall f mac m, adapter_compute f m = full_compute f m /\ adapter_verify f mac m = full_verify f mac m.
Proof. intros; split; reflexivity. Qed.
Print Assumptions C04_adapter_is_full.

(* Non-vacuity: the premises on the oracles are satisfiable, and each
   construction path yields an object for some configuration. *)
Example C04_nonvacuous :
  let H := fun h (_ : bytes) => zeros (digest_size h) in
  let A := fun (_ _ : bytes) => zeros 16 in
  (forall h x, length (H h x) = digest_size h) /\
  (forall k b, length b = 16%nat -> length (A k b) = 16%nat) /\
  (forall k, wfb (A k (zeros 16))) /\
  (exists P, build H A PFactory ACmac (zeros 32) 16 VLegacy 7 = Built P) /\
  (exists P, build H A PKey (AHmac (Some SHA256)) (zeros 20) 10 VTink 7 = Built P) /\
  (exists P, build H A PAdapter ACmac (zeros 16) 12 VCrunchy 7 = Built P) /\
  (exists P, build H A PSubtle (AHmac (Some SHA512)) (zeros 200) 64 VNoPrefix 0 = Built P) /\
  (exists P, build_set H A [(ACmac, zeros 32, 16%nat, VNoPrefix, 0); (AHmac (Some SHA1), zeros 16, 20%nat, VTink, 5)] 1 = Built P).
Proof.
  cbv zeta. repeat split.
  - intros h x. apply zeros_length.
  - intros k. apply zeros_wf.
  - eexists. vm_compute. reflexivity.
  - eexists. vm_compute. reflexivity.
  - eexists. vm_compute. reflexivity.
  - eexists. vm_compute. reflexivity.
  - eexists. vm_compute. reflexivity.
Qed.
