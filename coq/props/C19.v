(* C19 — no writes into caller buffers; keys and handles share no memory with
   callers.  PARTIAL by nature: the theorems are about the slice/heap model
   (model/Heap.v, validated against the Go runtime on random slice programs)
   and about the regenerated table of boundary-crossing sites; aliasing inside
   the standard library and the protobuf runtime is outside the model.
   Statements only; proofs in proofs/HeapProofs.v, proofs/HeapProofs2.v,
   proofs/AliasSitesProofs.v. *)
From Coq Require Import List NArith Arith Bool.
From Tink Require Import Heap HeapProofs HeapProofs2 AliasSites AliasSitesProofs.
Import ListNotations.

(* A write through one array never changes what a slice of another array shows. *)
Theorem C19_write_other_array_frame :
  forall h a p vs s, arr s <> a ->
    read (heap_write h a p vs) s = read h s /\ read_cap (heap_write h a p vs) s = read_cap h s.
Proof. exact write_other_array_frame. Qed.
Print Assumptions C19_write_other_array_frame.

(* slices.Concat: every existing array unchanged, result in a fresh array that
   no existing slice shares, contents = concatenation. *)
Theorem C19_concat_frame :
  forall h ss nc,
    let '(h', r) := concat h ss nc in
    (forall a, a < length h -> array h' a = array h a) /\
    arr r = length h /\ (forall s, wf_slice h s -> arr s <> arr r) /\
    read h' r = flat_map (read h) ss.
Proof. exact concat_frame. Qed.
Print Assumptions C19_concat_frame.

Theorem C19_clone_frame :
  forall h s nc, wf_slice h s ->
    let '(h', r) := clone h s nc in
    (forall a, a < length h -> array h' a = array h a) /\
    arr r = length h /\ (forall t, wf_slice h t -> arr t <> arr r) /\
    read h' r = read h s.
Proof. exact clone_frame. Qed.
Print Assumptions C19_clone_frame.

(* append with spare capacity writes into the caller's array beyond the slice *)
Theorem C19_append_in_place_clobbers :
  forall h s x nc, wf_slice h s -> len s < cap s ->
    let '(h', r) := append h s [x] nc in
    arr r = arr s /\ nth (off s + len s) (array h' (arr s)) 0%N = x.
Proof. exact append_in_place_clobbers. Qed.
Print Assumptions C19_append_in_place_clobbers.

Theorem C19_append_on_parameter_refuted :
  exists (h : heap) (caller_buf data : slice) (x : N),
    wf_slice h caller_buf /\ wf_slice h data /\
    read (fst (append h data [x] 0)) caller_buf <> read h caller_buf.
Proof. exact append_on_parameter_refuted. Qed.
Print Assumptions C19_append_on_parameter_refuted.

(* the three framed idioms, for all heaps and slices *)
Theorem C19_suffix_by_concat_framed :
  forall h data suffix nc,
    let '(h', r) := concat h [data; suffix] nc in
    (forall s, wf_slice h s -> read h' s = read h s /\ read_cap h' s = read_cap h s) /\
    (forall s, wf_slice h s -> arr r <> arr s) /\
    read h' r = read h data ++ read h suffix.
Proof. exact suffix_by_concat_framed. Qed.
Print Assumptions C19_suffix_by_concat_framed.

Theorem C19_store_clone_framed :
  forall h param nc caller p vs, wf_slice h param -> wf_slice h caller ->
    let '(h1, stored) := clone h param nc in
    read (heap_write h1 (arr caller) p vs) stored = read h1 stored /\ read h1 stored = read h param.
Proof. exact store_clone_framed. Qed.
Print Assumptions C19_store_clone_framed.

Theorem C19_return_clone_framed :
  forall h field nc p vs, wf_slice h field ->
    let '(h1, ret) := clone h field nc in
    read (heap_write h1 (arr ret) p vs) field = read h field.
Proof. exact return_clone_framed. Qed.
Print Assumptions C19_return_clone_framed.

(* the unframed counterparts really are unsafe (so the premise matters) *)
Theorem C19_store_parameter_refuted :
  exists (h : heap) (param : slice) (i : nat) (v : N),
    wf_slice h param /\
    match set h param i v with Some h' => read h' param <> read h param | None => False end.
Proof. exact store_parameter_refuted. Qed.
Print Assumptions C19_store_parameter_refuted.

(* THE TIE: in the current source no boundary-crossing site uses an unframed
   idiom (table regenerated from /repo on every run). *)
Theorem C19_no_unframed_sites_in_source : c19_unframed_sites = [].
Proof. exact no_unframed_sites. Qed.
Print Assumptions C19_no_unframed_sites_in_source.

(* THE FRAME THEOREM at program level.  Ownership discipline (HeapProofs2.own_step): a
   function may write (s[i] = v, copy(dst, _), append(s, _)) only through slices it obtained
   from its own allocations (make, bytes.Clone, slices.Concat, append on an owned slice,
   sub-slices of those).  For EVERY caller heap, parameter slices and disciplined program that
   runs without panicking: every view the caller has of its memory (up to capacity) reads
   the same afterwards, and everything the function owns lives in arrays allocated during
   the call, disjoint from every slice the caller could have formed before. *)
Theorem C19_disciplined_program_frames_the_caller :
  forall h0 params p h' vars',
    disciplined (map (fun _ => false) params) p = true ->
    run_strict (h0, params) p = Some (h', vars') ->
    (forall s, wf_slice h0 s -> read h' s = read h0 s /\ read_cap h' s = read_cap h0 s) /\
    (exists own', own_run (map (fun _ => false) params) p = Some own' /\
       forall v r, nth_error vars' v = Some r -> nth v own' false = true ->
         List.length h0 <= arr r /\ forall s, wf_slice h0 s -> arr s <> arr r).
Proof. exact disciplined_program_frames_the_caller. Qed.
Print Assumptions C19_disciplined_program_frames_the_caller.

(* The discipline is necessary: append, index assignment and copy applied to a parameter each
   change what the caller sees (witnesses). *)
Theorem C19_undisciplined_programs_refuted :
  (exists h0 param caller h' vars',
      run_strict (h0, [param]) [IAppend 0 [7%N] 0] = Some (h', vars') /\ wf_slice h0 caller /\
      read h' caller <> read h0 caller) /\
  (exists h0 param caller h' vars',
      run_strict (h0, [param]) [ISet 0 0 7%N] = Some (h', vars') /\ wf_slice h0 caller /\
      read h' caller <> read h0 caller) /\
  (exists h0 param other caller h' vars',
      run_strict (h0, [param; other]) [ICopy 0 1] = Some (h', vars') /\ wf_slice h0 caller /\
      read h' caller <> read h0 caller).
Proof. exact undisciplined_programs_refuted. Qed.
Print Assumptions C19_undisciplined_programs_refuted.

(* THE TIE, second form: every place of the current source where a caller's byte slice or
   an object's own byte slice meets slices.Concat / bytes.Clone - and every unframed site, if
   there were one - is emitted by the translator as a program of the slice language (table
   regenerated on every run; 120 entries at the pinned commit).  Each is disciplined and what
   it keeps or returns is owned, so the frame theorem applies to every one of them. *)
Theorem C19_every_site_of_the_source_frames_the_caller :
  forall pkg fn np prog res, In (pkg, fn, np, prog, res) c19_site_programs ->
  forall h0 params h' vars', List.length params = np ->
    run_strict (h0, params) prog = Some (h', vars') ->
    (forall s, wf_slice h0 s -> read h' s = read h0 s /\ read_cap h' s = read_cap h0 s) /\
    (forall r, nth_error vars' res = Some r ->
       List.length h0 <= arr r /\ forall s, wf_slice h0 s -> arr s <> arr r).
Proof. exact every_site_frames_the_caller. Qed.
Print Assumptions C19_every_site_of_the_source_frames_the_caller.
