(* C19 — no writes into caller buffers; keys and handles share no memory with
   callers.  PARTIAL by nature: the theorems are about the slice/heap model
   (model/Heap.v, validated against the Go runtime on random slice programs)
   and about the regenerated table of boundary-crossing sites; aliasing inside
   the standard library and the protobuf runtime is outside the model.
   Statements only; proofs in proofs/HeapProofs.v, proofs/AliasSitesProofs.v. *)
From Coq Require Import List NArith Arith Bool.
From Tink Require Import Heap HeapProofs AliasSites AliasSitesProofs.
Import ListNotations.

(* A write through one array never changes what a slice of another array shows. *)
Theorem C19_write_other_array_frame :
  forall h a p vs s, arr s <> a ->
    read (heap_write h a p vs) s = read h s /\ read_cap (heap_write h a p vs) s = read_cap h s.
Proof. exact write_other_array_frame. Qed.
Print Assumptions C19_write_other_array_frame.

(* slices.Concat: every existing array unchanged, result in a fresh array that
   no existing slice shares, contents = concatenation. *)
Theorem C19_concat_frame :
  forall h ss nc,
    let '(h', r) := concat h ss nc in
    (forall a, a < length h -> array h' a = array h a) /\
    arr r = length h /\ (forall s, wf_slice h s -> arr s <> arr r) /\
    read h' r = flat_map (read h) ss.
Proof. exact concat_frame. Qed.
Print Assumptions C19_concat_frame.

Theorem C19_clone_frame :
  forall h s nc, wf_slice h s ->
    let '(h', r) := clone h s nc in
    (forall a, a < length h -> array h' a = array h a) /\
    arr r = length h /\ (forall t, wf_slice h t -> arr t <> arr r) /\
    read h' r = read h s.
Proof. exact clone_frame. Qed.
Print Assumptions C19_clone_frame.

(* append with spare capacity writes into the caller's array beyond the slice *)
Theorem C19_append_in_place_clobbers :
  forall h s x nc, wf_slice h s -> len s < cap s ->
    let '(h', r) := append h s [x] nc in
    arr r = arr s /\ nth (off s + len s) (array h' (arr s)) 0%N = x.
Proof. exact append_in_place_clobbers. Qed.
Print Assumptions C19_append_in_place_clobbers.

Theorem C19_append_on_parameter_refuted :
  exists (h : heap) (caller_buf data : slice) (x : N),
    wf_slice h caller_buf /\ wf_slice h data /\
    read (fst (append h data [x] 0)) caller_buf <> read h caller_buf.
Proof. exact append_on_parameter_refuted. Qed.
Print Assumptions C19_append_on_parameter_refuted.

(* the three framed idioms, for all heaps and slices *)
Theorem C19_suffix_by_concat_framed :
  forall h data suffix nc,
    let '(h', r) := concat h [data; suffix] nc in
    (forall s, wf_slice h s -> read h' s = read h s /\ read_cap h' s = read_cap h s) /\
    (forall s, wf_slice h s -> arr r <> arr s) /\
    read h' r = read h data ++ read h suffix.
Proof. exact suffix_by_concat_framed. Qed.
Print Assumptions C19_suffix_by_concat_framed.

Theorem C19_store_clone_framed :
  forall h param nc caller p vs, wf_slice h param -> wf_slice h caller ->
    let '(h1, stored) := clone h param nc in
    read (heap_write h1 (arr caller) p vs) stored = read h1 stored /\ read h1 stored = read h param.
Proof. exact store_clone_framed. Qed.
Print Assumptions C19_store_clone_framed.

Theorem C19_return_clone_framed :
  forall h field nc p vs, wf_slice h field ->
    let '(h1, ret) := clone h field nc in
    read (heap_write h1 (arr ret) p vs) field = read h field.
Proof. exact return_clone_framed. Qed.
Print Assumptions C19_return_clone_framed.

(* the unframed counterparts really are unsafe (so the premise matters) *)
Theorem C19_store_parameter_refuted :
  exists (h : heap) (param : slice) (i : nat) (v : N),
    wf_slice h param /\
    match set h param i v with Some h' => read h' param <> read h param | None => False end.
Proof. exact store_parameter_refuted. Qed.
Print Assumptions C19_store_parameter_refuted.

(* THE TIE: in the current source no boundary-crossing site uses an unframed
   idiom (table regenerated from /repo on every run). *)
Theorem C19_no_unframed_sites_in_source : c19_unframed_sites = [].
Proof. exact no_unframed_sites. Qed.
Print Assumptions C19_no_unframed_sites_in_source.
