(* C19 — no writes into caller buffers; keys and handles share no memory with
   callers.  PARTIAL by nature: the theorems are about the slice/heap model
   (model/Heap.v, validated against the Go runtime on random slice programs)
   and about the regenerated table of boundary-crossing sites; aliasing inside
   the standard library and the protobuf runtime is outside the model.
   Statements only; proofs in proofs/HeapProofs.v, proofs/HeapProofs2.v,
   proofs/AliasSitesProofs.v, proofs/HeapProgProofs.v, proofs/AliasBodiesProofs.v. *)
From Coq Require Import List NArith Arith Bool.
From Coq Require String.
Import String.StringSyntax.
From Tink Require Import Heap HeapProofs HeapProofs2 AliasSites AliasSitesProofs.
From Tink Require Import HeapProg HeapProgProofs AliasBodies AliasBodiesProofs.
Import ListNotations.

(* A write through one array never changes what a slice of another array shows. *)
Theorem C19_write_other_array_frame :
  forall h a p vs s, arr s <> a ->
    read (heap_write h a p vs) s = read h s /\ read_cap (heap_write h a p vs) s = read_cap h s.
Proof. exact write_other_array_frame. Qed.
Print Assumptions C19_write_other_array_frame.

(* slices.Concat: every existing array unchanged, result in a fresh array that
   no existing slice shares, contents = concatenation. *)
Theorem C19_concat_frame :
  forall h ss nc,
    let '(h', r) := concat h ss nc in
    (forall a, a < length h -> array h' a = array h a) /\
    arr r = length h /\ (forall s, wf_slice h s -> arr s <> arr r) /\
    read h' r = flat_map (read h) ss.
Proof. exact concat_frame. Qed.
Print Assumptions C19_concat_frame.

Theorem C19_clone_frame :
  forall h s nc, wf_slice h s ->
    let '(h', r) := clone h s nc in
    (forall a, a < length h -> array h' a = array h a) /\
    arr r = length h /\ (forall t, wf_slice h t -> arr t <> arr r) /\
    read h' r = read h s.
Proof. exact clone_frame. Qed.
Print Assumptions C19_clone_frame.

(* append with spare capacity writes into the caller's array beyond the slice *)
Theorem C19_append_in_place_clobbers :
  forall h s x nc, wf_slice h s -> len s < cap s ->
    let '(h', r) := append h s [x] nc in
    arr r = arr s /\ nth (off s + len s) (array h' (arr s)) 0%N = x.
Proof. exact append_in_place_clobbers. Qed.
Print Assumptions C19_append_in_place_clobbers.

Theorem C19_append_on_parameter_refuted :
  exists (h : heap) (caller_buf data : slice) (x : N),
    wf_slice h caller_buf /\ wf_slice h data /\
    read (fst (append h data [x] 0)) caller_buf <> read h caller_buf.
Proof. exact append_on_parameter_refuted. Qed.
Print Assumptions C19_append_on_parameter_refuted.

(* the three framed idioms, for all heaps and slices *)
Theorem C19_suffix_by_concat_framed :
  forall h data suffix nc,
    let '(h', r) := concat h [data; suffix] nc in
    (forall s, wf_slice h s -> read h' s = read h s /\ read_cap h' s = read_cap h s) /\
    (forall s, wf_slice h s -> arr r <> arr s) /\
    read h' r = read h data ++ read h suffix.
Proof. exact suffix_by_concat_framed. Qed.
Print Assumptions C19_suffix_by_concat_framed.

Theorem C19_store_clone_framed :
  forall h param nc caller p vs, wf_slice h param -> wf_slice h caller ->
    let '(h1, stored) := clone h param nc in
    read (heap_write h1 (arr caller) p vs) stored = read h1 stored /\ read h1 stored = read h param.
Proof. exact store_clone_framed. Qed.
Print Assumptions C19_store_clone_framed.

Theorem C19_return_clone_framed :
  forall h field nc p vs, wf_slice h field ->
    let '(h1, ret) := clone h field nc in
    read (heap_write h1 (arr ret) p vs) field = read h field.
Proof. exact return_clone_framed. Qed.
Print Assumptions C19_return_clone_framed.

(* the unframed counterparts really are unsafe (so the premise matters) *)
Theorem C19_store_parameter_refuted :
  exists (h : heap) (param : slice) (i : nat) (v : N),
    wf_slice h param /\
    match set h param i v with Some h' => read h' param <> read h param | None => False end.
Proof. exact store_parameter_refuted. Qed.
Print Assumptions C19_store_parameter_refuted.

(* THE TIE: in the current source no boundary-crossing site uses an unframed
   idiom (table regenerated from /repo on every run). *)
Theorem C19_no_unframed_sites_in_source : c19_unframed_sites = [].
Proof. exact no_unframed_sites. Qed.
Print Assumptions C19_no_unframed_sites_in_source.

(* THE FRAME THEOREM at program level.  Ownership discipline (HeapProofs2.own_step): a
   function may write (s[i] = v, copy(dst, _), append(s, _)) only through slices it obtained
   from its own allocations (make, bytes.Clone, slices.Concat, append on an owned slice,
   sub-slices of those).  For EVERY caller heap, parameter slices and disciplined program that
   runs without panicking: every view the caller has of its memory (up to capacity) reads
   the same afterwards, and everything the function owns lives in arrays allocated during
   the call, disjoint from every slice the caller could have formed before. *)
Theorem C19_disciplined_program_frames_the_caller :
  forall h0 params p h' vars',
    disciplined (map (fun _ => false) params) p = true ->
    run_strict (h0, params) p = Some (h', vars') ->
    (forall s, wf_slice h0 s -> read h' s = read h0 s /\ read_cap h' s = read_cap h0 s) /\
    (exists own', own_run (map (fun _ => false) params) p = Some own' /\
       forall v r, nth_error vars' v = Some r -> nth v own' false = true ->
         List.length h0 <= arr r /\ forall s, wf_slice h0 s -> arr s <> arr r).
Proof. exact disciplined_program_frames_the_caller. Qed.
Print Assumptions C19_disciplined_program_frames_the_caller.

(* The discipline is necessary: append, index assignment and copy applied to a parameter each
   change what the caller sees (witnesses). *)
Theorem C19_undisciplined_programs_refuted :
  (exists h0 param caller h' vars',
      run_strict (h0, [param]) [IAppend 0 [7%N] 0] = Some (h', vars') /\ wf_slice h0 caller /\
      read h' caller <> read h0 caller) /\
  (exists h0 param caller h' vars',
      run_strict (h0, [param]) [ISet 0 0 7%N] = Some (h', vars') /\ wf_slice h0 caller /\
      read h' caller <> read h0 caller) /\
  (exists h0 param other caller h' vars',
      run_strict (h0, [param; other]) [ICopy 0 1] = Some (h', vars') /\ wf_slice h0 caller /\
      read h' caller <> read h0 caller).
Proof. exact undisciplined_programs_refuted. Qed.
Print Assumptions C19_undisciplined_programs_refuted.

(* The copy-site table.  Every place of the current source where a caller's byte slice or an
   object's own byte slice meets slices.Concat / bytes.Clone is emitted as a ONE-instruction program
   ([IClone 0 0] or [IConcat [..] 0]).  NOTE: the selection criterion (the site IS a copy) implies
   the conclusion; this theorem only records that the copy idioms are framed and counts the sites.
   The tie that says something about the source is the body-level one below. *)
Theorem C19_every_single_copy_site_is_framed :
  forall pkg fn np prog res, In (pkg, fn, np, prog, res) c19_site_programs ->
  forall h0 params h' vars', List.length params = np ->
    run_strict (h0, params) prog = Some (h', vars') ->
    (forall s, wf_slice h0 s -> read h' s = read h0 s /\ read_cap h' s = read_cap h0 s) /\
    (forall r, nth_error vars' res = Some r ->
       List.length h0 <= arr r /\ forall s, wf_slice h0 s -> arr s <> arr r).
Proof. exact every_site_frames_the_caller. Qed.
Print Assumptions C19_every_single_copy_site_is_framed.

(* ---- FUNCTION BODIES (model/HeapProg.v) ---------------------------------------------------------
   A structured language for the slice-relevant behaviour of a Go function body: registers holding
   slices (an object register stands for one may-alias class of objects: the classes are computed by the
   translator, OUTSIDE Coq; what Coq checks on the emitted programs is narrower: SSub / SAlias / SPhi / SAppend /
   SConcat / SClone never target an object register, stores go into object registers only, an object register
   that is stored into another object (SStoreObj) or bound to a class (SBind) is dead afterwards, and the register
   of a class of local objects is made once, in the entry prefix), the operations
   of model/Heap.v with freely chosen indices/lengths/bytes, opaque callee writes, stores into objects,
   escapes (return / store in a shared object / kept by a callee), call records, two-way branches, loops with
   break/continue, early return; an execution may also stop before any statement (panic).  `own_stmt` is the
   ownership analysis: three flags per register (may be WRITTEN through / may be KEPT / object is PRIVATE),
   joined with AND at joins, loop heads lowered to a fixpoint. *)

(* THE FRAME THEOREM for bodies: a body that passes the analysis from the write flags wf and keep flags kf
   of its parameters - on EVERY execution - changes no caller array except those of the parameters flagged
   in wf, and lets escape only slices living in arrays allocated during the call or in those of the
   parameters flagged in kf.  "Escape" = what SEscape logs (a value returned by an API function, handed to a
   keeping callee, or - by the translator - put where the function can no longer follow it).  A STORE into an
   object changes neither heap nor log in this semantics: for a store into an object that is not private the
   analysis demands a keepable value, but the conclusion below does not mention stores.  SCOPE: byte memory
   only ([]byte, [N]byte and what reaches them); *big.Int, interface values without a register, function values
   and channels are not modelled. *)
Theorem C19_disciplined_body_frames_the_caller :
  forall h0 regs wf kf prog o h' regs' lg',
    List.length wf = List.length regs -> List.length kf = List.length regs ->
    body_disciplined wf kf prog = true ->
    exec (h0, regs, []) prog o (h', regs', lg') ->
    (forall s, wf_slice h0 s -> ~ In (arr s) (writable regs wf) ->
       read h' s = read h0 s /\ read_cap h' s = read_cap h0 s) /\
    (forall r, In r lg' ->
       (List.length h0 <= arr r /\ forall s, wf_slice h0 s -> arr s <> arr r) \/ In (arr r) (writable regs kf)).
Proof. exact disciplined_body_frames_the_caller. Qed.
Print Assumptions C19_disciplined_body_frames_the_caller.

(* the hypotheses are met by a body with a clone, a loop with `continue`, a write and an escape; and
   each kind of violation (callee write into a parameter, append to a parameter, keeping a parameter)
   has an execution in which the caller's memory changes / the kept slice is the caller's *)
Example C19_disciplined_body_example :
  let h0 := [[1; 2; 3]%N; [9; 9]%N] in
  let regs := [mkSlice 0 0 3 3; mkSlice 1 0 2 2; mkSlice 0 0 0 0] in
  let prog := seq [SClone 2 0; SLoop (seq [SSet 2; SIf SJump SSkip]); SEscape 2; SReturn] in
  body_disciplined [false; false; false] [false; false; false] prog = true /\
  exists h' regs' r, exec (h0, regs, []) prog OReturn (h', regs', [r]) /\ arr r = 2 /\
    firstn 2 h' = h0 /\ read h' r = [7; 2; 3]%N.
Proof. exact disciplined_body_example. Qed.
Print Assumptions C19_disciplined_body_example.

Theorem C19_undisciplined_bodies_refuted :
  (body_disciplined [false] [false] (SWrite 0) = false /\
   exists h0 param caller h' regs' lg',
     exec (h0, [param], []) (SWrite 0) ONormal (h', regs', lg') /\ wf_slice h0 caller /\
     read_cap h' caller <> read_cap h0 caller) /\
  (body_disciplined [false; false] [false; false] (SAppend 1 0) = false /\
   exists h0 param caller h' regs' lg',
     exec (h0, [param; param], []) (SAppend 1 0) ONormal (h', regs', lg') /\ wf_slice h0 caller /\
     read h' caller <> read h0 caller) /\
  (body_disciplined [false] [false] (SEscape 0) = false /\
   exists h0 param h' regs' r,
     exec (h0, [param], []) (SEscape 0) ONormal (h', regs', [r]) /\ wf_slice h0 param /\ arr r = arr param).
Proof. exact undisciplined_bodies_refuted. Qed.
Print Assumptions C19_undisciplined_bodies_refuted.

(* NEGATIVE EXAMPLES: the pointer-alias probes of the third audit (an object register copied, a store
   through the copy, the original returned or written through) are rejected by the check of a table entry -
   as they stand and in the one-register-per-class form the translator emits (the store lowers the class);
   the Read(p) exemption grants write but not keep; a store into an object after it was handed out lets the
   stored value escape. *)
Example C19_alias_probes_are_rejected :
  body_checked [1; 2] [false; false; false] [false; false; false]
    (seq [SMake 1; SAlias 2 1; SStore 2 0; SEscape 1; SReturn]) = false /\
  body_checked [1; 2; 3] [false; false; false; false] [false; false; false; false]
    (seq [SMake 1; SAlias 2 1; SAlias 3 2; SStore 3 0; SEscape 2; SReturn]) = false /\
  body_checked [1; 2; 3; 4; 5] [false; false; false; false; false; false] [false; false; false; false; false; false]
    (seq [SMake 1; SMake 2; SPhi 3 [1; 2]; SAlias 4 3; SLoop (seq [SAlias 5 4; SStore 5 0]); SEscape 4; SReturn]) = false /\
  body_checked [1; 2; 3; 4] [false; false; false; false; false] [false; false; false; false; false]
    (seq [SMake 1; SPhi 2 [1]; SAlias 3 2; SAlias 4 3; SStore 4 0; SSet 3; SReturn]) = false /\
  body_checked [1] [false; false] [false; false] (seq [SMake 1; SStore 1 0; SEscape 1; SReturn]) = false /\
  body_checked [1] [false; false] [false; false] (seq [SMake 1; SStore 1 0; SSet 1; SReturn]) = false /\
  body_checked [1] [false; false; false] [false; false; false]
    (seq [SMake 1; SClone 2 0; SStore 1 2; SEscape 1; SReturn]) = true /\
  body_checked [0] [false; true] [false; false] (seq [SSet 1; SReturn]) = true /\
  body_checked [0] [false; true; false] [false; false; false] (seq [SSub 2 1; SSet 2; SReturn]) = true /\
  body_checked [0] [false; true; false] [false; false; false] (seq [SSub 2 1; SStore 0 2; SReturn]) = false /\
  body_checked [1] [false; false] [false; false] (seq [SMake 1; SEscape 1; SStore 1 0; SReturn]) = false.
Proof. exact alias_probes_are_rejected. Qed.
Print Assumptions C19_alias_probes_are_rejected.

(* ... and the counter-instances of the fourth audit, which the previous version of the check accepted: a
   self-including SPhi from ANOTHER live object register; an object copied into a plain register that is then
   stored into; an object stored into somebody else's object and then filled (it is no longer private); a call
   effect that sits behind a return.  SBind is what the translator emits when a variable is bound to the object
   of a temporary: the temporary is killed. *)
Example C19_fourth_audit_counter_instances_are_rejected :
  body_checked [1; 2] [false; false; false] [false; false; false]
    (seq [SMake 1; SMake 2; SPhi 2 [2; 1]; SStore 2 0; SEscape 1; SReturn]) = false /\
  body_checked [1; 2] [false; false; false] [false; false; false]
    (seq [SMake 1; SMake 2; SPhi 2 [2; 1]; SStore 2 0; SSet 1; SReturn]) = false /\
  body_checked [1; 2] [false; false; false] [false; false; false]
    (seq [SMake 1; SMake 2; SBind 2 1; SStore 2 0; SEscape 1; SReturn]) = false /\
  body_checked [1; 2] [false; false; false] [false; false; false]
    (seq [SMake 1; SMake 2; SBind 2 1; SStore 2 0; SSet 1; SReturn]) = false /\
  body_checked [1] [false; false; false; false] [false; false; false; false]
    (seq [SMake 1; SAlias 3 1; SStore 3 0; SEscape 1; SReturn]) = false /\
  body_checked [1; 2] [false; false; false] [false; false; false]
    (seq [SMake 1; SOpaque 2; SStore 2 1; SStore 1 0; SReturn]) = false /\
  calls_ok (fun _ => ([true], [true])) (SCall 0 [[0]] (seq [SReturn; SWrite 0; SEscape 0])) = false /\
  body_checked [1; 2] [false; false; false; false] [false; false; false; false]
    (seq [SMake 1; SMake 2; SBind 2 1; SClone 3 0; SStore 2 3; SEscape 2; SReturn]) = true /\
  calls_ok (fun _ => ([true], [true])) (SCall 0 [[0]] (seq [SWrite 0; SEscape 0; SReturn])) = true.
Proof. exact fourth_audit_counter_instances_are_rejected. Qed.
Print Assumptions C19_fourth_audit_counter_instances_are_rejected.

(* ... and those of the fifth audit: an object stored into another object and filled afterwards (directly and
   through one private intermediate); a class register that is made a second time. *)
Example C19_fifth_audit_counter_instances_are_rejected :
  body_checked [1; 2] [false; false; false] [false; false; false]
    (seq [SMake 1; SMake 2; SStore 2 1; SStore 1 0; SEscape 2; SReturn]) = false /\
  body_checked [1; 2] [false; false; false] [false; false; false]
    (seq [SMake 1; SMake 2; SStoreObj 2 1; SStore 1 0; SEscape 2; SReturn]) = false /\
  body_checked [1; 2; 3; 4] [false; false; false; false; false] [false; false; false; false; false]
    (seq [SMake 1; SMake 2; SOpaque 3; SStoreObj 2 1; SStoreObj 3 2; SStore 1 0; SReturn]) = false /\
  classes_made_once [1] (seq [SMake 1; SStore 1 0; SMake 1; SEscape 1; SReturn]) = false /\
  body_checked [1; 2] [false; false; false; false] [false; false; false; false]
    (seq [SMake 1; SMake 2; SClone 3 0; SStore 1 3; SStoreObj 2 1; SEscape 2; SReturn]) = true /\
  classes_made_once [1] (seq [SMake 1; SMake 2; SStore 1 0; SReturn]) = true.
Proof. exact fifth_audit_counter_instances_are_rejected. Qed.
Print Assumptions C19_fifth_audit_counter_instances_are_rejected.

(* THE TIE, body level.  gen/AliasBodies.v (regenerated from /repo on every run) holds the translated
   body of every function of the library's scanned packages that takes, keeps or returns byte memory
   - as far as the translator's subset reaches; the others are listed in c19_body_untranslated and are
   NOT covered; neither are the packages the scan skips (generated protobuf code, testutil, testing/*,
   internal/testing/*, internalapi: c19_packages_skipped_other).  Checked by computation on the table
   (every_body_ok): each body passes the analysis from its flags; no object register is copied into another
   register used as an object (the may-alias CLASSES - which variables share a register - are computed by the
   translator, outside Coq); every CALL RECORD names an entry of the table and meets its contract (write /
   keep flags) - a syntactic check of the recorded effect, without induction over the call graph; what a
   RESULT may alias, which argument a callee stores into which, and the table of callees outside the library
   remain trusted.  For EVERY entry outside the exception list: every execution frames the caller up to the
   flagged parameters.  A value returned by an INTERNAL helper is not an escape (its callers account for it);
   stores are covered by the analysis, not by the conclusion (see C19_disciplined_body_frames_the_caller);
   only byte memory is in scope: *big.Int values (e.g. the key that
   signature/subtle.NewECDSASignerFromPrivateKey keeps), interface values without a register, function values
   and channels are invisible. *)
(* The premise `excepted e = false` is not needed by the PROOF (the conclusion is relative to the flags of the
   entry, and the exceptions show up as flags); it restricts the READING: an excepted entry may in addition
   return a view that is not logged as an escape.  The theorem that really depends on the exception list is the
   next one (API functions have no flags at all), together with C19_exception_list_is_pinned. *)
Theorem C19_every_function_body_frames_the_caller :
  forall e, In e c19_bodies -> excepted e = false ->
  forall h0 regs o h' regs' lg', List.length regs = fb_nregs e ->
    exec (h0, regs, []) (fb_prog e) o (h', regs', lg') ->
    (forall s, wf_slice h0 s -> ~ In (arr s) (writable regs (fb_wflags e)) ->
       read h' s = read h0 s /\ read_cap h' s = read_cap h0 s) /\
    (forall r, In r lg' ->
       (List.length h0 <= arr r /\ forall s, wf_slice h0 s -> arr s <> arr r) \/
       In (arr r) (writable regs (fb_kflags e))).
Proof. exact every_body_frames_the_caller. Qed.
Print Assumptions C19_every_function_body_frames_the_caller.

(* ... and an API function (exported function or method of a non-internal package) that is not in the
   explicit exception list c19_body_exceptions has NO flagged parameter: it changes nothing the caller
   can see, and every byte slice that escapes (is returned, or must be keepable because it is stored into an
   object that is not private to the function or handed to a keeping callee) - directly or inside an object
   the analysis follows: an object built in the function, or an object it was handed whose type is NOT in the
   whitelist c19_immutable_types - lives in memory allocated during the call.  (An object of a whitelisted type that the
   function was handed may be kept or returned as a whole: the whitelist is INFERRED BY THE TRANSLATOR - library
   struct types with only unexported byte-reaching fields through whose values no translated function writes,
   stores or hands out a view - plus a few standard-library key types, trusted; only "no entry has a write flag
   on a parameter of such a type" is re-checked in Coq, below.)  Scope as above: byte memory only. *)
Theorem C19_every_api_function_body_frames_the_caller :
  forall e, In e c19_bodies -> fb_api e = true -> excepted e = false ->
  forall h0 regs o h' regs' lg', List.length regs = fb_nregs e ->
    exec (h0, regs, []) (fb_prog e) o (h', regs', lg') ->
    (forall s, wf_slice h0 s -> read h' s = read h0 s /\ read_cap h' s = read_cap h0 s) /\
    (forall r, In r lg' -> List.length h0 <= arr r /\ forall s, wf_slice h0 s -> arr s <> arr r).
Proof. exact every_api_body_frames_the_caller. Qed.
Print Assumptions C19_every_api_function_body_frames_the_caller.

(* the exception list is pinned: 18 entries for 12 functions; a change in the translator's list breaks this *)
Open Scope string_scope.
Theorem C19_exception_list_is_pinned :
  List.length c19_body_exceptions = 18 /\
  map (fun x => (fst (fst x), snd (fst x))) c19_body_exceptions =
    [("keyset", "(*MemReaderWriter).Read");
     ("keyset", "(*MemReaderWriter).ReadEncrypted");
     ("keyset", "(*MemReaderWriter).Write");
     ("keyset", "(*MemReaderWriter).WriteEncrypted");
     ("streamingaead", "(*unreader).Read");
     ("streamingaead", "(*unreader).Read");
     ("streamingaead/subtle", "(aesCTRHMACSegmentDecrypter).DecryptSegmentWithDst");
     ("streamingaead/subtle", "(aesCTRHMACSegmentDecrypter).DecryptSegmentWithDst");
     ("streamingaead/subtle", "(aesCTRHMACSegmentEncrypter).EncryptSegmentWithDst");
     ("streamingaead/subtle", "(aesCTRHMACSegmentEncrypter).EncryptSegmentWithDst");
     ("streamingaead/subtle", "(aesGCMHKDFSegmentDecrypter).DecryptSegmentWithDst");
     ("streamingaead/subtle", "(aesGCMHKDFSegmentDecrypter).DecryptSegmentWithDst");
     ("streamingaead/subtle", "(aesGCMHKDFSegmentEncrypter).EncryptSegmentWithDst");
     ("streamingaead/subtle", "(aesGCMHKDFSegmentEncrypter).EncryptSegmentWithDst");
     ("streamingaead/subtle/noncebased", "(*Reader).Read");
     ("streamingaead/subtle/noncebased", "(*Reader).Read");
     ("streamingaead/subtle/noncebased", "(*Writer).Close");
     ("streamingaead/subtle/noncebased", "(*Writer).Write")].
Proof. split; [rewrite <- (map_length (fun x => (fst (fst x), snd (fst x)))); rewrite exception_list_is_pinned; reflexivity | exact exception_list_is_pinned]. Qed.
Close Scope string_scope.
Print Assumptions C19_exception_list_is_pinned.

(* what the call-site obligation gives for one record *)
Theorem C19_call_record_meets_contract :
  forall wf kf args eff, call_ok_args wf kf args eff = true ->
  forall j a, In a (nth j args []) ->
    (nth j wf false = true -> has_write a eff = true) /\ (nth j kf false = true -> has_escape a eff = true).
Proof. exact call_record_meets_contract. Qed.
Print Assumptions C19_call_record_meets_contract.

Theorem C19_immutable_types_are_not_written : forallb immutable_ok c19_bodies = true.
Proof. exact immutable_types_are_not_written. Qed.
Print Assumptions C19_immutable_types_are_not_written.

(* coverage, as numbers of the regenerated table: considered = translated + untranslated; how many entries
   contain a statement on which the analysis can fail at all; the table is not trivial *)
Theorem C19_body_table_coverage :
  (List.length c19_bodies = c19_bodies_translated /\
   c19_bodies_translated + List.length c19_body_untranslated = c19_bodies_considered /\
   List.length (filter fb_api c19_bodies) = c19_bodies_api /\
   List.length (filter (fun e => can_fail (fb_prog e)) c19_bodies) = c19_bodies_that_can_fail) /\
  (Nat.ltb 1000 c19_bodies_translated = true /\ Nat.ltb 5000 c19_bodies_instructions = true /\
   Nat.ltb 500 c19_bodies_that_can_fail = true /\ Nat.ltb 1000 c19_bodies_call_records = true /\
   Nat.ltb (4 * List.length c19_body_untranslated) c19_bodies_considered = true).
Proof. exact (conj body_counts_add_up body_table_not_trivial). Qed.
Print Assumptions C19_body_table_coverage.
