(* C12 — Keys, parameters and keysets survive serialization unchanged.
   Only statements + `exact`; proofs live in proofs/ProtoWireProofs.v and
   proofs/SerialProofs.v; models in model/ProtoWire.v, model/Serial.v,
   model/SerialTables.v (enum tables extracted from the Go switch statements). *)
From Coq Require Import List NArith Bool.
From Tink Require Import Bytes ProtoWire ProtoWireProofs SerialTables Serial SerialProofs SerialNormProofs.
Import ListNotations.
Open Scope N_scope.

(* ================================================================== *)
(* 1. the protobuf wire codec                                          *)
(* ================================================================== *)

(* Every uint64 survives the varint codec, whatever follows it on the wire. *)
Theorem C12_varint_roundtrip :
  forall x rest, x < 2 ^ 64 -> varint_dec (varint_enc x ++ rest) = Some (x, rest).
Proof. exact varint_roundtrip. Qed.
Print Assumptions C12_varint_roundtrip.

(* For every schema (distinct valid field numbers at every level) and every
   well-typed message value of it whose encoding is shorter than 2^64 bytes:
   decoding the canonical encoding gives the message back. *)
Theorem C12_wire_roundtrip :
  forall (s : schema) (m : msg),
    wf_schema s = true -> wf_msg s m = true -> N.of_nat (length (encode s m)) < 2 ^ 64 ->
    decode s (encode s m) = Some m.
Proof. exact decode_encode. Qed.
Print Assumptions C12_wire_roundtrip.

(* Two well-formed messages with the same bytes are the same message. *)
Theorem C12_wire_encoding_injective :
  forall s m1 m2, wf_schema s = true -> wf_msg s m1 = true -> wf_msg s m2 = true ->
    N.of_nat (length (encode s m1)) < 2 ^ 64 -> encode s m1 = encode s m2 -> m1 = m2.
Proof. exact encode_injective. Qed.
Print Assumptions C12_wire_encoding_injective.

(* Canonical bytes (anything the encoder produces) decode and re-encode to
   exactly the same bytes. *)
Theorem C12_wire_canonical_reencoding :
  forall s m b, wf_schema s = true -> wf_msg s m = true -> b = encode s m -> N.of_nat (length b) < 2 ^ 64 ->
    exists m', decode s b = Some m' /\ encode s m' = b.
Proof. exact canonical_reencode. Qed.
Print Assumptions C12_wire_canonical_reencoding.

(* For ANY accepted input bytes (non-minimal varints, unknown fields, repeated
   occurrences, ...): the decoder's result is well-formed, and re-encoding it
   gives bytes that decode to the same message (so a second re-encoding is
   byte-identical to the first). *)
Theorem C12_wire_decoder_output_wellformed :
  forall s b m, decode s b = Some m -> wf_msg s m = true.
Proof. exact decode_wf. Qed.
Print Assumptions C12_wire_decoder_output_wellformed.

Theorem C12_wire_reencoding_stable :
  forall s b m, wf_schema s = true -> decode s b = Some m -> N.of_nat (length (encode s m)) < 2 ^ 64 ->
    decode s (encode s m) = Some m.
Proof. exact reencode_stable. Qed.
Print Assumptions C12_wire_reencoding_stable.

(* Fields whose number the schema does not know never influence the result. *)
Theorem C12_wire_unknown_fields_ignored :
  forall s a f b, ~ In (fst f) (nums s) -> dec_fields s (a ++ f :: b) = dec_fields s (a ++ b).
Proof. exact unknown_field_ignored. Qed.
Print Assumptions C12_wire_unknown_fields_ignored.

(* ================================================================== *)
(* 2. big integers: internal/ec.BigIntBytesToFixedSizeBuffer            *)
(* ================================================================== *)

(* Success: the result has exactly the requested size, the same big-endian
   value, and differs from the input only by leading zero bytes. *)
Theorem C12_fixed_size_buffer_success :
  forall b size r, fixed_size_buffer b size = Some r ->
    length r = size /\ be_val r = be_val b /\ (exists k, b = zeros k ++ r \/ r = zeros k ++ b).
Proof. exact fixed_size_buffer_some. Qed.
Print Assumptions C12_fixed_size_buffer_success.

(* Failure: exactly when the value does not fit. *)
Theorem C12_fixed_size_buffer_fails_iff_overflow :
  forall b size, wfb b -> (fixed_size_buffer b size = None <-> 256 ^ N.of_nat size <= be_val b).
Proof. exact fixed_size_buffer_none. Qed.
Print Assumptions C12_fixed_size_buffer_fails_iff_overflow.

(* EC coordinates / private scalars (ECDSA, JWT ECDSA, ECIES): whatever leading
   zeros the proto field had, parse-then-serialize yields the value on cs+1
   bytes with one leading zero byte; it fails exactly on overflow. *)
Theorem C12_ec_coordinate_normal_form :
  forall cs b, wfb b ->
    (256 ^ N.of_nat cs <= be_val b -> ec_coord_norm cs b = None) /\
    (be_val b < 256 ^ N.of_nat cs -> ec_coord_norm cs b = Some (0 :: be_bytes cs (be_val b))).
Proof. exact ec_coord_norm_spec. Qed.
Print Assumptions C12_ec_coordinate_normal_form.

Theorem C12_ec_coordinate_normal_form_idempotent :
  forall cs b r, wfb b -> ec_coord_norm cs b = Some r -> ec_coord_norm cs r = Some r.
Proof. exact ec_coord_norm_idem. Qed.
Print Assumptions C12_ec_coordinate_normal_form_idempotent.

(* ================================================================== *)
(* 3. enum maps of every */*/protoserialization.go                      *)
(* ================================================================== *)

(* For every (Go enum -> proto enum, proto enum -> Go enum) pair of switch maps:
   Go -> proto -> Go is the identity (one listed exception: ECIES
   UnspecifiedPointFormat, restored from the curve type instead); proto -> Go
   -> proto is the identity except that OutputPrefixType LEGACY may come back
   as CRUNCHY (the only non-injective case on the proto side); and whatever is
   written back parses to the same Go value again. *)
Theorem C12_enum_maps_roundtrip :
  forall isp to_p from_p, In (isp, to_p, from_p) enum_map_pairs ->
    (forall v p, lookup to_p v = Some p -> In v (fwd_exceptions to_p) \/ lookup from_p p = Some v) /\
    (forall p v, lookup from_p p = Some v ->
       lookup to_p v = Some p \/ (isp = true /\ p = 2 /\ lookup to_p v = Some 4)) /\
    (forall p v, lookup from_p p = Some v -> exists p', lookup to_p v = Some p' /\ lookup from_p p' = Some v).
Proof. exact enum_maps_roundtrip. Qed.
Print Assumptions C12_enum_maps_roundtrip.

(* ================================================================== *)
(* 4. keys and parameters                                              *)
(* ================================================================== *)

(* parse (serialize k) = k for every key of every type, given what the key's
   constructors guarantee (fields well-typed and in normal form, variant known
   to the type's tables). *)
Theorem C12_key_roundtrip :
  forall (T : ktype) (k : gkey) (s : kser),
    wf_schema (kt_schema T) = true ->
    wf_msg (kt_schema T) (gk_fields k) = true ->
    N.of_nat (length (encode (kt_schema T) (gk_fields k))) < 2 ^ 64 ->
    normalise (kt_norm T) (kt_schema T) (gk_fields k) = Some (gk_fields k) ->
    variant_ok T k ->
    serialize_key T k = Some s ->
    parse_key T s = Some k.
Proof. exact parse_serialize_key. Qed.
Print Assumptions C12_key_roundtrip.

(* ... and so the second serialization is byte-identical to the first. *)
Theorem C12_key_second_serialization_identical :
  forall T k s,
    wf_schema (kt_schema T) = true -> wf_msg (kt_schema T) (gk_fields k) = true ->
    N.of_nat (length (encode (kt_schema T) (gk_fields k))) < 2 ^ 64 ->
    normalise (kt_norm T) (kt_schema T) (gk_fields k) = Some (gk_fields k) ->
    variant_ok T k -> serialize_key T k = Some s ->
    exists k', parse_key T s = Some k' /\ serialize_key T k' = Some s.
Proof. exact reserialize_identical. Qed.
Print Assumptions C12_key_second_serialization_identical.

(* For every type URL of the registry the table premise holds (by computation
   over the regenerated tables); what remains is the key's own invariant. *)
Theorem C12_registered_types_tables_ok :
  forall url sch T k, ktype_of url sch = Some T ->
    match kt_prefix T with
    | PTables _ _ => True
    | PJwt custom _ _ _ path => has_path sch (gk_fields k) path = true <-> gk_variant k = custom
    | PIgnored => gk_variant k = 0 /\ gk_id k = 0
    end ->
    variant_ok T k.
Proof. exact registered_variant_ok. Qed.
Print Assumptions C12_registered_types_tables_ok.

(* The big-integer normalisation that parse-then-serialize applies (EC
   coordinates / scalars to cs+1 bytes, RSA integers stripped and re-padded) is
   idempotent, for every type. *)
Theorem C12_bigint_normalisation_idempotent :
  forall k s m m', normalise k s m = Some m' -> normalise k s m' = Some m'.
Proof. exact normalise_idem. Qed.
Print Assumptions C12_bigint_normalisation_idempotent.

(* For every registered type and ANY serialisation s the parser accepts
   (non-canonical wire bytes, big integers with extra or missing leading zeros,
   LEGACY prefix, ...): the re-serialisation s' parses to the same key again, so
   every further serialisation is byte-identical to s'. *)
Theorem C12_reserialization_fixed_point :
  forall url sch T s k s',
    ktype_of url sch = Some T -> wf_schema sch = true ->
    parse_key T s = Some k -> serialize_key T k = Some s' ->
    N.of_nat (length (ks_value s')) < 2 ^ 64 ->
    parse_key T s' = Some k.
Proof. exact reserialization_fixed_point. Qed.
Print Assumptions C12_reserialization_fixed_point.

(* Parameters <-> key template.  For JWT types the premise excludes the
   CustomKID strategy: see the next theorem. *)
Theorem C12_parameters_roundtrip :
  forall T p t,
    wf_schema (kt_schema T) = true -> wf_msg (kt_schema T) (gp_fields p) = true ->
    N.of_nat (length (encode (kt_schema T) (gp_fields p))) < 2 ^ 64 ->
    match kt_prefix T with
    | PTables to_p from_p => forall pr, lookup to_p (gp_variant p) = Some pr -> lookup from_p pr = Some (gp_variant p)
    | PJwt custom to_p from_p _ _ => forall pr, lookup to_p (gp_variant p) = Some pr -> lookup from_p pr = Some (gp_variant p)
    | PIgnored => gp_variant p = 0
    end ->
    serialize_params T p = Some t -> parse_params T t = Some p.
Proof. exact parse_serialize_params. Qed.
Print Assumptions C12_parameters_roundtrip.

(* The tables of all five JWT key types send the CustomKID strategy to a prefix
   that parses (a key template has no custom kid) to a different strategy:
   CustomKID parameters cannot survive serialization.  This is a finding
   against /repo, confirmed on the implementation by the direct checks. *)
Theorem C12_jwt_custom_kid_parameters_do_not_roundtrip :
  forall custom to_p from_p from_kid, In (custom, to_p, from_p, from_kid) jwt_custom_kid_maps ->
    exists pr v', lookup to_p custom = Some pr /\ lookup from_p pr = Some v' /\ v' <> custom.
Proof. exact jwt_custom_kid_parameters_lossy. Qed.
Print Assumptions C12_jwt_custom_kid_parameters_do_not_roundtrip.

(* ================================================================== *)
(* 5. keysets                                                          *)
(* ================================================================== *)

(* tinkpb.Keyset through the binary writer and reader. *)
Theorem C12_proto_keyset_roundtrip :
  forall ks, wf_pkeyset ks = true -> N.of_nat (length (write_keyset ks)) < 2 ^ 64 ->
    read_keyset (write_keyset ks) = Some ks.
Proof. exact read_write_keyset. Qed.
Print Assumptions C12_proto_keyset_roundtrip.

(* entriesToProtoKeyset then keysetToEntries gives back the same entries (keys,
   ids, statuses, primary, order) for every well-formed handle whose keys
   round-trip individually. *)
Theorem C12_entries_roundtrip :
  forall (K : Type) (ser_k : K -> option kser) (par_k : kser -> option K) (es : list (entry K)),
    wf_handle K ser_k par_k es ->
    exists ks, entries_to_proto_keyset K ser_k es = Some ks /\
               keyset_to_entries K par_k ks = Some es /\
               wf_pkeyset ks = true /\ pks_keys ks <> [].
Proof. exact keyset_entries_roundtrip. Qed.
Print Assumptions C12_entries_roundtrip.

(* insecurecleartextkeyset.Write then Read, binary. *)
Theorem C12_cleartext_roundtrip :
  forall K ser_k par_k (es : list (entry K)) b,
    wf_handle K ser_k par_k es -> write_cleartext K ser_k es = Some b -> N.of_nat (length b) < 2 ^ 64 ->
    read_cleartext K par_k b = Some es.
Proof. exact read_write_cleartext. Qed.
Print Assumptions C12_cleartext_roundtrip.

(* Handle.WriteWithAssociatedData then keyset.ReadWithAssociatedData, binary,
   for every AEAD (any function pair with dec ad (enc ad p) = p) and every
   associated data. *)
Theorem C12_encrypted_roundtrip :
  forall K ser_k par_k (aead_enc : bytes -> bytes -> bytes) (aead_dec : bytes -> bytes -> option bytes),
    (forall ad p, aead_dec ad (aead_enc ad p) = Some p) ->
    forall (es : list (entry K)) ad b,
      wf_handle K ser_k par_k es -> write_encrypted K ser_k aead_enc es ad = Some b -> N.of_nat (length b) < 2 ^ 64 ->
      (forall ks, entries_to_proto_keyset K ser_k es = Some ks -> N.of_nat (length (write_keyset ks)) < 2 ^ 64) ->
      read_encrypted K par_k aead_dec b ad = Some es.
Proof. exact read_write_encrypted. Qed.
Print Assumptions C12_encrypted_roundtrip.

(* Public(): ids, statuses, primary flags and order are preserved and every
   key is replaced by its public key; it succeeds on every well-formed handle
   all of whose keys have a public key. *)
Theorem C12_public_preserves_shape :
  forall K (pub_k : K -> option K) (es es' : list (entry K)),
    public_handle K pub_k es = Some es' ->
    map e_id es' = map e_id es /\ map e_status es' = map e_status es /\ map e_primary es' = map e_primary es /\
    Forall2 (fun e e' => pub_k (e_key e) = Some (e_key e')) es es'.
Proof. exact public_handle_preserves. Qed.
Print Assumptions C12_public_preserves_shape.

Theorem C12_public_total :
  forall K ser_k par_k (pub_k : K -> option K) (es : list (entry K)),
    wf_handle K ser_k par_k es -> (forall e, In e es -> pub_k (e_key e) <> None) ->
    exists es', public_handle K pub_k es = Some es'.
Proof. exact public_handle_total. Qed.
Print Assumptions C12_public_total.

(* ================================================================== *)
(* non-vacuity                                                         *)
(* ================================================================== *)
(* a concrete AES-GCM key (TINK, id 2^31) with its registered type *)
Example C12_nonvacuous_key :
  let url := aesgcm_url in
  let sch := SCons 1 TU32 (SCons 3 TBytes SNil) in
  exists T, ktype_of url sch = Some T /\
    let k := mkGkey url 1 1 2147483648 [VInt 0; VBytes [1; 2; 3; 4; 5; 6; 7; 8; 9; 10; 11; 12; 13; 14; 15; 16]] in
    wf_schema sch = true /\ wf_msg sch (gk_fields k) = true /\ variant_ok T k /\
    exists s, serialize_key T k = Some s /\ parse_key T s = Some k /\
      ks_value s = [26; 16; 1; 2; 3; 4; 5; 6; 7; 8; 9; 10; 11; 12; 13; 14; 15; 16] /\ ks_prefix s = 1.
Proof.
  eexists. split; [vm_compute; reflexivity|]. cbv zeta.
  split; [reflexivity|]. split; [reflexivity|]. split.
  - intros p H. vm_compute in H. inversion H. reflexivity.
  - eexists. split; [vm_compute; reflexivity|]. split; [vm_compute; reflexivity|]. split; reflexivity.
Qed.

(* a concrete two-key handle of fallback keys (serialisation = the key) *)
Example C12_nonvacuous_handle :
  let k1 := mkKser [116; 49] [1; 2; 3] 1 1 7 in
  let k2 := mkKser [116; 50] [9] 3 3 0 in
  let es := [mkEntry k1 false 7 Disabled; mkEntry k2 true 4294967295 Enabled] in
  wf_handle kser Some Some es /\
  exists b, write_cleartext kser Some es = Some b /\ read_cleartext kser Some b = Some es /\
    public_handle kser Some es = Some es.
Proof.
  cbv zeta. split.
  - constructor.
    + cbn. repeat constructor; cbn; intuition discriminate.
    + intros e [<-|[<-|[]]]; cbn; reflexivity.
    + exists [mkEntry (mkKser [116; 49] [1; 2; 3] 1 1 7) false 7 Disabled],
        (mkEntry (mkKser [116; 50] [9] 3 3 0) true 4294967295 Enabled), [].
      repeat split. repeat constructor.
    + intros e [<-|[<-|[]]]; cbn; discriminate.
    + intros e [<-|[<-|[]]]; eexists; repeat split; reflexivity.
  - eexists. split; [vm_compute; reflexivity|]. split; vm_compute; reflexivity.
Qed.
