(* C12 — Keys, parameters and keysets survive serialization unchanged.
   Only statements + `exact`; proofs live in proofs/ProtoWireProofs.v,
   proofs/SerialProofs.v. *)
From Coq Require Import List NArith Bool.
From Tink Require Import Bytes ProtoWire ProtoWireProofs.
Import ListNotations.
Open Scope N_scope.

(* Every uint64 survives the varint codec, whatever follows it on the wire. *)
Theorem C12_varint_roundtrip :
  forall x rest, x < 2 ^ 64 -> varint_dec (varint_enc x ++ rest) = Some (x, rest).
Proof. exact varint_roundtrip. Qed.
Print Assumptions C12_varint_roundtrip.
