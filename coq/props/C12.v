(* C12 — Keys, parameters and keysets survive serialization unchanged.
   Only statements + `exact`; proofs live in proofs/ProtoWireProofs.v and
   proofs/SerialProofs.v, proofs/SerialNormProofs.v, proofs/SerialNormalFormProofs.v
   (the explicit big-integer normal form) and proofs/SerialRegistryProofs.v (the
   keyset theorems at the registry); models in model/ProtoWire.v, model/Serial.v,
   model/SerialTables.v (enum tables extracted from the Go switch statements). *)
From Coq Require Import List NArith Bool.
From Tink Require Import Bytes ProtoWire ProtoWireProofs SerialTables Serial SerialProofs SerialNormProofs
  SerialNormalFormProofs SerialRegistryProofs.
Import ListNotations.
Open Scope N_scope.

(* ================================================================== *)
(* 1. the protobuf wire codec                                          *)
(* ================================================================== *)

(* Every uint64 survives the varint codec, whatever follows it on the wire. *)
Theorem C12_varint_roundtrip :
  forall x rest, x < 2 ^ 64 -> varint_dec (varint_enc x ++ rest) = Some (x, rest).
Proof. exact varint_roundtrip. Qed.
Print Assumptions C12_varint_roundtrip.

(* For every schema (distinct valid field numbers at every level) and every
   well-typed message value of it whose encoding is shorter than 2^64 bytes:
   decoding the canonical encoding gives the message back. *)
Theorem C12_wire_roundtrip :
  forall (s : schema) (m : msg),
    wf_schema s = true -> wf_msg s m = true -> N.of_nat (length (encode s m)) < 2 ^ 64 ->
    decode s (encode s m) = Some m.
Proof. exact decode_encode. Qed.
Print Assumptions C12_wire_roundtrip.

(* Two well-formed messages with the same bytes are the same message. *)
Theorem C12_wire_encoding_injective :
  forall s m1 m2, wf_schema s = true -> wf_msg s m1 = true -> wf_msg s m2 = true ->
    N.of_nat (length (encode s m1)) < 2 ^ 64 -> encode s m1 = encode s m2 -> m1 = m2.
Proof. exact encode_injective. Qed.
Print Assumptions C12_wire_encoding_injective.

(* Canonical bytes (anything the encoder produces) decode and re-encode to
   exactly the same bytes. *)
Theorem C12_wire_canonical_reencoding :
  forall s m b, wf_schema s = true -> wf_msg s m = true -> b = encode s m -> N.of_nat (length b) < 2 ^ 64 ->
    exists m', decode s b = Some m' /\ encode s m' = b.
Proof. exact canonical_reencode. Qed.
Print Assumptions C12_wire_canonical_reencoding.

(* For ANY accepted input bytes (non-minimal varints, unknown fields, repeated
   occurrences, ...): the decoder's result is well-formed, and re-encoding it
   gives bytes that decode to the same message (so a second re-encoding is
   byte-identical to the first). *)
Theorem C12_wire_decoder_output_wellformed :
  forall s b m, decode s b = Some m -> wf_msg s m = true.
Proof. exact decode_wf. Qed.
Print Assumptions C12_wire_decoder_output_wellformed.

Theorem C12_wire_reencoding_stable :
  forall s b m, wf_schema s = true -> decode s b = Some m -> N.of_nat (length (encode s m)) < 2 ^ 64 ->
    decode s (encode s m) = Some m.
Proof. exact reencode_stable. Qed.
Print Assumptions C12_wire_reencoding_stable.

(* Fields whose number the schema does not know never influence the result. *)
Theorem C12_wire_unknown_fields_ignored :
  forall s a f b, ~ In (fst f) (nums s) -> dec_fields s (a ++ f :: b) = dec_fields s (a ++ b).
Proof. exact unknown_field_ignored. Qed.
Print Assumptions C12_wire_unknown_fields_ignored.

(* ================================================================== *)
(* 2. big integers: internal/ec.BigIntBytesToFixedSizeBuffer            *)
(* ================================================================== *)

(* Success: the result has exactly the requested size, the same big-endian
   value, and differs from the input only by leading zero bytes. *)
Theorem C12_fixed_size_buffer_success :
  forall b size r, fixed_size_buffer b size = Some r ->
    length r = size /\ be_val r = be_val b /\ (exists k, b = zeros k ++ r \/ r = zeros k ++ b).
Proof. exact fixed_size_buffer_some. Qed.
Print Assumptions C12_fixed_size_buffer_success.

(* Failure: exactly when the value does not fit. *)
Theorem C12_fixed_size_buffer_fails_iff_overflow :
  forall b size, wfb b -> (fixed_size_buffer b size = None <-> 256 ^ N.of_nat size <= be_val b).
Proof. exact fixed_size_buffer_none. Qed.
Print Assumptions C12_fixed_size_buffer_fails_iff_overflow.

(* EC coordinates / private scalars (ECDSA, JWT ECDSA, ECIES): whatever leading
   zeros the proto field had, parse-then-serialize yields the value on cs+1
   bytes with one leading zero byte; it fails exactly on overflow. *)
Theorem C12_ec_coordinate_normal_form :
  forall cs b, wfb b ->
    (256 ^ N.of_nat cs <= be_val b -> ec_coord_norm cs b = None) /\
    (be_val b < 256 ^ N.of_nat cs -> ec_coord_norm cs b = Some (0 :: be_bytes cs (be_val b))).
Proof. exact ec_coord_norm_spec. Qed.
Print Assumptions C12_ec_coordinate_normal_form.

Theorem C12_ec_coordinate_normal_form_idempotent :
  forall cs b r, wfb b -> ec_coord_norm cs b = Some r -> ec_coord_norm cs r = Some r.
Proof. exact ec_coord_norm_idem. Qed.
Print Assumptions C12_ec_coordinate_normal_form_idempotent.

(* ================================================================== *)
(* 3. enum maps of every */*/protoserialization.go                      *)
(* ================================================================== *)

(* For every (Go enum -> proto enum, proto enum -> Go enum) pair of switch maps:
   Go -> proto -> Go is the identity (one listed exception: ECIES
   UnspecifiedPointFormat, restored from the curve type instead); proto -> Go
   -> proto is the identity except that OutputPrefixType LEGACY may come back
   as CRUNCHY (the only non-injective case on the proto side); and whatever is
   written back parses to the same Go value again. *)
Theorem C12_enum_maps_roundtrip :
  forall isp to_p from_p, In (isp, to_p, from_p) enum_map_pairs ->
    (forall v p, lookup to_p v = Some p -> In v (fwd_exceptions to_p) \/ lookup from_p p = Some v) /\
    (forall p v, lookup from_p p = Some v ->
       lookup to_p v = Some p \/ (isp = true /\ p = 2 /\ lookup to_p v = Some 4)) /\
    (forall p v, lookup from_p p = Some v -> exists p', lookup to_p v = Some p' /\ lookup from_p p' = Some v).
Proof. exact enum_maps_roundtrip. Qed.
Print Assumptions C12_enum_maps_roundtrip.

(* ================================================================== *)
(* 4. keys and parameters                                              *)
(* ================================================================== *)

(* parse (serialize k) = k for every key of every type, given what the key's
   constructors guarantee (fields well-typed and in normal form, variant known
   to the type's tables). *)
Theorem C12_key_roundtrip :
  forall (T : ktype) (k : gkey) (s : kser),
    wf_schema (kt_schema T) = true ->
    wf_msg (kt_schema T) (gk_fields k) = true ->
    N.of_nat (length (encode (kt_schema T) (gk_fields k))) < 2 ^ 64 ->
    normalise (kt_norm T) (kt_schema T) (gk_fields k) = Some (gk_fields k) ->
    variant_ok T k ->
    serialize_key T k = Some s ->
    parse_key T s = Some k.
Proof. exact parse_serialize_key. Qed.
Print Assumptions C12_key_roundtrip.

(* ... and so the second serialization is byte-identical to the first. *)
Theorem C12_key_second_serialization_identical :
  forall T k s,
    wf_schema (kt_schema T) = true -> wf_msg (kt_schema T) (gk_fields k) = true ->
    N.of_nat (length (encode (kt_schema T) (gk_fields k))) < 2 ^ 64 ->
    normalise (kt_norm T) (kt_schema T) (gk_fields k) = Some (gk_fields k) ->
    variant_ok T k -> serialize_key T k = Some s ->
    exists k', parse_key T s = Some k' /\ serialize_key T k' = Some s.
Proof. exact reserialize_identical. Qed.
Print Assumptions C12_key_second_serialization_identical.

(* For every type URL of the registry the table premise holds (by computation
   over the regenerated tables); what remains is the key's own invariant. *)
Theorem C12_registered_types_tables_ok :
  forall url sch T k, ktype_of url sch = Some T ->
    match kt_prefix T with
    | PTables _ _ => True
    | PJwt custom _ _ _ path => has_path sch (gk_fields k) path = true <-> gk_variant k = custom
    | PIgnored => gk_variant k = 0 /\ gk_id k = 0
    end ->
    variant_ok T k.
Proof. exact registered_variant_ok. Qed.
Print Assumptions C12_registered_types_tables_ok.

(* The big-integer normalisation that parse-then-serialize applies (EC
   coordinates / scalars to cs+1 bytes, RSA integers stripped and re-padded) is
   idempotent, for every type. *)
Theorem C12_bigint_normalisation_idempotent :
  forall k s m m', normalise k s m = Some m' -> normalise k s m' = Some m'.
Proof. exact normalise_idem. Qed.
Print Assumptions C12_bigint_normalisation_idempotent.

(* For every registered type and ANY serialisation s the parser accepts
   (non-canonical wire bytes, big integers with extra or missing leading zeros,
   LEGACY prefix, ...): the re-serialisation s' parses to the same key again, so
   every further serialisation is byte-identical to s'. *)
Theorem C12_reserialization_fixed_point :
  forall url sch T s k s',
    ktype_of url sch = Some T -> wf_schema sch = true ->
    parse_key T s = Some k -> serialize_key T k = Some s' ->
    N.of_nat (length (ks_value s')) < 2 ^ 64 ->
    parse_key T s' = Some k.
Proof. exact reserialization_fixed_point. Qed.
Print Assumptions C12_reserialization_fixed_point.

(* Parameters <-> key template.  For JWT types the premise excludes the
   CustomKID strategy: see the next theorem. *)
Theorem C12_parameters_roundtrip :
  forall T p t,
    wf_schema (kt_schema T) = true -> wf_msg (kt_schema T) (gp_fields p) = true ->
    N.of_nat (length (encode (kt_schema T) (gp_fields p))) < 2 ^ 64 ->
    match kt_prefix T with
    | PTables to_p from_p => forall pr, lookup to_p (gp_variant p) = Some pr -> lookup from_p pr = Some (gp_variant p)
    | PJwt custom to_p from_p _ _ => forall pr, lookup to_p (gp_variant p) = Some pr -> lookup from_p pr = Some (gp_variant p)
    | PIgnored => gp_variant p = 0
    end ->
    serialize_params T p = Some t -> parse_params T t = Some p.
Proof. exact parse_serialize_params. Qed.
Print Assumptions C12_parameters_roundtrip.

(* The tables of all five JWT key types send the CustomKID strategy to a prefix
   that parses (a key template has no custom kid) to a different strategy:
   CustomKID parameters cannot survive serialization.  This is a finding
   against /repo, confirmed on the implementation by the direct checks. *)
Theorem C12_jwt_custom_kid_parameters_do_not_roundtrip :
  forall custom to_p from_p from_kid, In (custom, to_p, from_p, from_kid) jwt_custom_kid_maps ->
    exists pr v', lookup to_p custom = Some pr /\ lookup from_p pr = Some v' /\ v' <> custom.
Proof. exact jwt_custom_kid_parameters_lossy. Qed.
Print Assumptions C12_jwt_custom_kid_parameters_do_not_roundtrip.

(* ================================================================== *)
(* 5. keysets                                                          *)
(* ================================================================== *)

(* tinkpb.Keyset through the binary writer and reader. *)
Theorem C12_proto_keyset_roundtrip :
  forall ks, wf_pkeyset ks = true -> N.of_nat (length (write_keyset ks)) < 2 ^ 64 ->
    read_keyset (write_keyset ks) = Some ks.
Proof. exact read_write_keyset. Qed.
Print Assumptions C12_proto_keyset_roundtrip.

(* entriesToProtoKeyset then keysetToEntries gives back the same entries (keys,
   ids, statuses, primary, order) for every well-formed handle whose keys
   round-trip individually. *)
Theorem C12_entries_roundtrip :
  forall (K : Type) (ser_k : K -> option kser) (par_k : kser -> option K) (es : list (entry K)),
    wf_handle K ser_k par_k es ->
    exists ks, entries_to_proto_keyset K ser_k es = Some ks /\
               keyset_to_entries K par_k ks = Some es /\
               wf_pkeyset ks = true /\ pks_keys ks <> [].
Proof. exact keyset_entries_roundtrip. Qed.
Print Assumptions C12_entries_roundtrip.

(* insecurecleartextkeyset.Write then Read, binary. *)
Theorem C12_cleartext_roundtrip :
  forall K ser_k par_k (es : list (entry K)) b,
    wf_handle K ser_k par_k es -> write_cleartext K ser_k es = Some b -> N.of_nat (length b) < 2 ^ 64 ->
    read_cleartext K par_k b = Some es.
Proof. exact read_write_cleartext. Qed.
Print Assumptions C12_cleartext_roundtrip.

(* Handle.WriteWithAssociatedData then keyset.ReadWithAssociatedData, binary,
   for every AEAD (any function pair with dec ad (enc ad p) = p) and every
   associated data. *)
Theorem C12_encrypted_roundtrip :
  forall K ser_k par_k (aead_enc : bytes -> bytes -> bytes) (aead_dec : bytes -> bytes -> option bytes),
    (forall ad p, aead_dec ad (aead_enc ad p) = Some p) ->
    forall (es : list (entry K)) ad b,
      wf_handle K ser_k par_k es -> write_encrypted K ser_k aead_enc es ad = Some b -> N.of_nat (length b) < 2 ^ 64 ->
      (forall ks, entries_to_proto_keyset K ser_k es = Some ks -> N.of_nat (length (write_keyset ks)) < 2 ^ 64) ->
      read_encrypted K par_k aead_dec b ad = Some es.
Proof. exact read_write_encrypted. Qed.
Print Assumptions C12_encrypted_roundtrip.

(* Public(): ids, statuses, primary flags and order are preserved and every
   key is replaced by its public key; it succeeds on every well-formed handle
   all of whose keys have a public key. *)
Theorem C12_public_preserves_shape :
  forall K (pub_k : K -> option K) (es es' : list (entry K)),
    public_handle K pub_k es = Some es' ->
    map e_id es' = map e_id es /\ map e_status es' = map e_status es /\ map e_primary es' = map e_primary es /\
    Forall2 (fun e e' => pub_k (e_key e) = Some (e_key e')) es es'.
Proof. exact public_handle_preserves. Qed.
Print Assumptions C12_public_preserves_shape.

Theorem C12_public_total :
  forall K ser_k par_k (pub_k : K -> option K) (es : list (entry K)),
    wf_handle K ser_k par_k es -> (forall e, In e es -> pub_k (e_key e) <> None) ->
    exists es', public_handle K pub_k es = Some es'.
Proof. exact public_handle_total. Qed.
Print Assumptions C12_public_total.

(* ================================================================== *)
(* non-vacuity                                                         *)
(* ================================================================== *)
(* a concrete AES-GCM key (TINK, id 2^31) with its registered type *)
Example C12_nonvacuous_key :
  let url := aesgcm_url in
  let sch := SCons 1 TU32 (SCons 3 TBytes SNil) in
  exists T, ktype_of url sch = Some T /\
    let k := mkGkey url 1 1 2147483648 [VInt 0; VBytes [1; 2; 3; 4; 5; 6; 7; 8; 9; 10; 11; 12; 13; 14; 15; 16]] in
    wf_schema sch = true /\ wf_msg sch (gk_fields k) = true /\ variant_ok T k /\
    exists s, serialize_key T k = Some s /\ parse_key T s = Some k /\
      ks_value s = [26; 16; 1; 2; 3; 4; 5; 6; 7; 8; 9; 10; 11; 12; 13; 14; 15; 16] /\ ks_prefix s = 1.
Proof.
  eexists. split; [vm_compute; reflexivity|]. cbv zeta.
  split; [reflexivity|]. split; [reflexivity|]. split.
  - intros p H. vm_compute in H. inversion H. reflexivity.
  - eexists. split; [vm_compute; reflexivity|]. split; [vm_compute; reflexivity|]. split; reflexivity.
Qed.

(* a concrete two-key handle of fallback keys (serialisation = the key) *)
Example C12_nonvacuous_handle :
  let k1 := mkKser [116; 49] [1; 2; 3] 1 1 7 in
  let k2 := mkKser [116; 50] [9] 3 3 0 in
  let es := [mkEntry k1 false 7 Disabled; mkEntry k2 true 4294967295 Enabled] in
  wf_handle kser Some Some es /\
  exists b, write_cleartext kser Some es = Some b /\ read_cleartext kser Some b = Some es /\
    public_handle kser Some es = Some es.
Proof.
  cbv zeta. split.
  - constructor.
    + cbn. repeat constructor; cbn; intuition discriminate.
    + intros e [<-|[<-|[]]]; cbn; reflexivity.
    + exists [mkEntry (mkKser [116; 49] [1; 2; 3] 1 1 7) false 7 Disabled],
        (mkEntry (mkKser [116; 50] [9] 3 3 0) true 4294967295 Enabled), [].
      repeat split. repeat constructor.
    + intros e [<-|[<-|[]]]; cbn; discriminate.
    + intros e [<-|[<-|[]]]; eexists; repeat split; reflexivity.
  - eexists. split; [vm_compute; reflexivity|]. split; vm_compute; reflexivity.
Qed.

(* ================================================================== *)
(* 6. the big-integer normal form, explicitly (C12_key_roundtrip assumes
      normalise ... = Some (gk_fields k): here is what that means)       *)
(* ================================================================== *)

(* An EC coordinate / private scalar is left unchanged by parse-then-serialize
   exactly when it is cs+1 bytes long with a zero first byte (what
   BigIntBytesToFixedSizeBuffer(_, coordinateSize+1) writes) ... *)
Theorem C12_ec_coordinate_fixed_iff :
  forall cs b, ec_coord_norm cs b = Some b <-> length b = (cs + 1)%nat /\ hd 1 b = 0.
Proof. exact ec_coord_norm_fixed_iff. Qed.
Print Assumptions C12_ec_coordinate_fixed_iff.

(* ... and then it is 0x00 followed by the cs-byte big-endian encoding of its value. *)
Theorem C12_ec_coordinate_fixed_value :
  forall cs b, wfb b -> ec_coord_norm cs b = Some b ->
    b = 0 :: be_bytes cs (be_val b) /\ be_val b < 256 ^ N.of_nat cs.
Proof. exact ec_coord_fixed_value. Qed.
Print Assumptions C12_ec_coordinate_fixed_value.

(* big.Int.Bytes(): unchanged exactly when there is no leading zero byte. *)
Theorem C12_bigint_stripped_iff :
  forall b, strip_zeros b = b <-> b = [] \/ hd 0 b <> 0.
Proof. exact strip_zeros_fixed_iff. Qed.
Print Assumptions C12_bigint_stripped_iff.

(* big.Int.Bytes() then signature.Pad to n bytes (RSA d, dp, dq, crt):
   unchanged exactly when the field is n bytes long. *)
Theorem C12_rsa_padded_iff :
  forall n b, pad_left (strip_zeros b) n = Some b <-> length b = n.
Proof. exact pad_strip_fixed_iff. Qed.
Print Assumptions C12_rsa_padded_iff.

(* For every type: a key message is a fixed point of the normalisation exactly
   when the explicit check nf_msg accepts it (EC: x, y and the scalar in
   coordinate form, the public key message present; RSA: e, p, q (and n for
   signature/) without leading zeros, |d| = |n|, |dp| = |crt| = |p|, |dq| = |q|). *)
Theorem C12_normal_form_iff :
  forall k s m, normalise k s m = Some m <-> nf_msg k s m = true.
Proof. exact normalise_fixed_iff_nf. Qed.
Print Assumptions C12_normal_form_iff.

Theorem C12_normalisation_output_in_normal_form :
  forall k s m m', normalise k s m = Some m' -> nf_msg k s m' = true.
Proof. exact normalise_output_nf. Qed.
Print Assumptions C12_normalisation_output_in_normal_form.

(* C12_key_roundtrip with the explicit form in place of the fixed-point equation. *)
Theorem C12_key_roundtrip_explicit_normal_form :
  forall (T : ktype) (k : gkey) (s : kser),
    wf_schema (kt_schema T) = true ->
    wf_msg (kt_schema T) (gk_fields k) = true ->
    N.of_nat (length (encode (kt_schema T) (gk_fields k))) < 2 ^ 64 ->
    nf_msg (kt_norm T) (kt_schema T) (gk_fields k) = true ->
    variant_ok T k ->
    serialize_key T k = Some s ->
    parse_key T s = Some k.
Proof. exact parse_serialize_key_nf. Qed.
Print Assumptions C12_key_roundtrip_explicit_normal_form.

(* Keys come out of constructors that normalise: for ANY well-formed message m
   (integers with missing or extra leading zeros), the key built from the
   normalised message is in the form and round-trips. *)
Theorem C12_constructed_key_roundtrip :
  forall T url mat v id m m' s,
    wf_schema (kt_schema T) = true ->
    wf_msg (kt_schema T) m = true ->
    normalise (kt_norm T) (kt_schema T) m = Some m' ->
    variant_ok T (mkGkey url mat v id m') ->
    N.of_nat (length (encode (kt_schema T) m')) < 2 ^ 64 ->
    serialize_key T (mkGkey url mat v id m') = Some s ->
    nf_msg (kt_norm T) (kt_schema T) m' = true /\
    wf_msg (kt_schema T) m' = true /\
    parse_key T s = Some (mkGkey url mat v id m').
Proof. exact constructed_key_roundtrip. Qed.
Print Assumptions C12_constructed_key_roundtrip.

(* Whatever the parser accepts, the key object it builds is well-formed and in the form. *)
Theorem C12_parsed_key_in_normal_form :
  forall T s k, parse_key T s = Some k ->
    wf_msg (kt_schema T) (gk_fields k) = true /\ nf_msg (kt_norm T) (kt_schema T) (gk_fields k) = true.
Proof. exact parsed_key_nf. Qed.
Print Assumptions C12_parsed_key_in_normal_form.

(* The public key message inside a private key in the form is in the form of
   the public type. *)
Theorem C12_normal_form_public_part :
  forall k s m ps pm, is_priv_kind k = true -> nf_msg k s m = true ->
    get_field s m 2 = Some (TMsg ps, VMsg (Some pm)) -> nf_msg (pub_kind k) ps pm = true.
Proof. exact nf_priv_public_part. Qed.
Print Assumptions C12_normal_form_public_part.

(* a P-256 ECDSA public key message with a 31-byte x and a 34-byte y is not in
   the form; normalisation yields 33 + 33 bytes, which is, and that key round-trips *)
Example C12_nonvacuous_unnormalised_ecdsa :
  nf_msg NKEcdsaPub ecdsa_pub_schema ex_ecdsa_in = false /\
  normalise NKEcdsaPub ecdsa_pub_schema ex_ecdsa_in = Some ex_ecdsa_nf /\
  nf_msg NKEcdsaPub ecdsa_pub_schema ex_ecdsa_nf = true /\
  ktype_of ecdsa_pub_url ecdsa_pub_schema = Some ecdsa_pub_T /\
  kt_norm ecdsa_pub_T = NKEcdsaPub /\
  serialize_key ecdsa_pub_T ex_ecdsa_key = Some ex_ecdsa_ser /\
  parse_key ecdsa_pub_T ex_ecdsa_ser = Some ex_ecdsa_key /\
  length (ks_value ex_ecdsa_ser) = 78%nat.
Proof. exact ecdsa_p256_unnormalised_input. Qed.
Example C12_nonvacuous_unnormalised_ecdsa_variant : variant_ok ecdsa_pub_T ex_ecdsa_key.
Proof. exact ex_ecdsa_variant_ok. Qed.

(* ================================================================== *)
(* 7. keysets at the registry: K := dkey, ser_k := dser, par_k := dpar of
      the registry  url |-> ktype_of url (schemas url).  The per-key round
      trip is derived; what remains are explicit laws: the descriptors are
      well-formed schemas, the AEAD decrypts what it encrypted, nothing
      reaches 2^64 bytes.                                               *)
(* ================================================================== *)

(* Every key the registry's parser yields from a serialisation s0 (RAW => no id)
   serialises (success included), to the same URL and material type, the same
   id and prefix (LEGACY may come back as CRUNCHY; streaming keys come back as
   RAW/0), and the result parses to the same key again.  The prefix of s0 is one
   keyset.Validate accepts (TINK, LEGACY, RAW, CRUNCHY, WITH_ID_REQUIREMENT):
   derived from the tables, not assumed. *)
Theorem C12_registry_key_reserializes :
  forall (schemas : bytes -> option schema),
    (forall url sch, schemas url = Some sch -> wf_schema sch = true) ->
    forall s0 k,
      (ks_prefix s0 = prefix_raw -> ks_id s0 = 0) ->
      dpar (registry schemas) s0 = Some k ->
      exists s', dser k = Some s' /\
        ks_url s' = ks_url s0 /\ ks_mat s' = ks_mat s0 /\
        ((prefix_rel (ks_prefix s0) (ks_prefix s') /\ ks_id s' = ks_id s0 /\ known_prefix (ks_prefix s0) = true) \/
         (ks_prefix s' = prefix_raw /\ ks_id s' = 0 /\ exists T g, k = DK T g /\ kt_prefix T = PIgnored)) /\
        (N.of_nat (length (ks_value s')) < 2 ^ 64 -> dpar (registry schemas) s' = Some k).
Proof. exact dkey_reserialize. Qed.
Print Assumptions C12_registry_key_reserializes.

(* wf_dhandle (ids distinct and < 2^32, one primary and it is enabled, no unknown
   status, every key in the image of the registry's parser with the entry's id
   as id requirement, serialisations < 2^64 bytes; NO premise on the prefix) implies
   the abstract wf_handle whose key_ok field was an assumption before. *)
Theorem C12_registry_handle_keys_roundtrip :
  forall (schemas : bytes -> option schema),
    (forall url sch, schemas url = Some sch -> wf_schema sch = true) ->
    forall es, wf_dhandle (registry schemas) es -> wf_handle dkey dser (dpar (registry schemas)) es.
Proof. exact wf_dhandle_wf_handle. Qed.
Print Assumptions C12_registry_handle_keys_roundtrip.

Theorem C12_registry_entries_roundtrip :
  forall (schemas : bytes -> option schema),
    (forall url sch, schemas url = Some sch -> wf_schema sch = true) ->
    forall es, wf_dhandle (registry schemas) es ->
      exists ks, entries_to_proto_keyset dkey dser es = Some ks /\
                 keyset_to_entries dkey (dpar (registry schemas)) ks = Some es /\
                 wf_pkeyset ks = true.
Proof. exact registry_entries_roundtrip. Qed.
Print Assumptions C12_registry_entries_roundtrip.

(* insecurecleartextkeyset.Write succeeds and Read gives the same handle back. *)
Theorem C12_registry_cleartext_roundtrip :
  forall (schemas : bytes -> option schema),
    (forall url sch, schemas url = Some sch -> wf_schema sch = true) ->
    forall es, wf_dhandle (registry schemas) es ->
      exists b, write_cleartext dkey dser es = Some b /\
        (N.of_nat (length b) < 2 ^ 64 -> read_cleartext dkey (dpar (registry schemas)) b = Some es).
Proof. exact registry_cleartext_roundtrip. Qed.
Print Assumptions C12_registry_cleartext_roundtrip.

(* WriteWithAssociatedData succeeds and ReadWithAssociatedData gives the same
   handle back, for every AEAD with dec ad (enc ad p) = p and every ad. *)
Theorem C12_registry_encrypted_roundtrip :
  forall (schemas : bytes -> option schema),
    (forall url sch, schemas url = Some sch -> wf_schema sch = true) ->
    forall (aead_enc : bytes -> bytes -> bytes) (aead_dec : bytes -> bytes -> option bytes),
      (forall ad p, aead_dec ad (aead_enc ad p) = Some p) ->
      forall es ad, wf_dhandle (registry schemas) es ->
        exists b, write_encrypted dkey dser aead_enc es ad = Some b /\
          (N.of_nat (length b) < 2 ^ 64 ->
           (forall ks, entries_to_proto_keyset dkey dser es = Some ks -> N.of_nat (length (write_keyset ks)) < 2 ^ 64) ->
           read_encrypted dkey (dpar (registry schemas)) aead_dec b ad = Some es).
Proof. exact registry_encrypted_roundtrip. Qed.
Print Assumptions C12_registry_encrypted_roundtrip.

(* Public() on a handle all of whose keys have a public key. *)
Theorem C12_registry_public :
  forall (schemas : bytes -> option schema),
    (forall url sch, schemas url = Some sch -> wf_schema sch = true) ->
    forall (pub_url : bytes -> option (bytes * N)) es,
      wf_dhandle (registry schemas) es ->
      (forall e, In e es -> dpub (registry schemas) pub_url (e_key e) <> None) ->
      exists es', public_handle dkey (dpub (registry schemas) pub_url) es = Some es' /\
        map e_id es' = map e_id es /\ map e_status es' = map e_status es /\
        map e_primary es' = map e_primary es /\
        Forall2 (fun e e' => dpub (registry schemas) pub_url (e_key e) = Some (e_key e')) es es'.
Proof. exact registry_public. Qed.
Print Assumptions C12_registry_public.

(* The result of Public() is again a handle of the registry (each public key is
   in the image of the parser, same prefix and id requirement), provided the
   (private URL, public URL, public_key field) triples pass the table check
   pub_tables_ok and the public URL's descriptor is the type of that field. *)
Theorem C12_registry_public_is_registry_handle :
  forall (schemas : bytes -> option schema),
    (forall url sch, schemas url = Some sch -> wf_schema sch = true) ->
    forall (pub_url : bytes -> option (bytes * N)),
      (forall url pu pf, pub_url url = Some (pu, pf) -> pub_tables_ok url pu pf = true) ->
      (forall url pu pf sch, pub_url url = Some (pu, pf) -> schemas url = Some sch ->
         exists ps, field_type sch pf = Some (TMsg ps) /\ schemas pu = Some ps) ->
      forall es es',
        wf_dhandle (registry schemas) es ->
        public_handle dkey (dpub (registry schemas) pub_url) es = Some es' ->
        (forall e s, In e es' -> dser (e_key e) = Some s -> N.of_nat (length (ks_value s)) < 2 ^ 64) ->
        wf_dhandle (registry schemas) es'.
Proof. exact registry_public_wf. Qed.
Print Assumptions C12_registry_public_is_registry_handle.

(* ... so the public handle survives the binary writer and reader. *)
Theorem C12_registry_public_roundtrip :
  forall (schemas : bytes -> option schema),
    (forall url sch, schemas url = Some sch -> wf_schema sch = true) ->
    forall (pub_url : bytes -> option (bytes * N)),
      (forall url pu pf, pub_url url = Some (pu, pf) -> pub_tables_ok url pu pf = true) ->
      (forall url pu pf sch, pub_url url = Some (pu, pf) -> schemas url = Some sch ->
         exists ps, field_type sch pf = Some (TMsg ps) /\ schemas pu = Some ps) ->
      forall es es',
        wf_dhandle (registry schemas) es ->
        public_handle dkey (dpub (registry schemas) pub_url) es = Some es' ->
        (forall e s, In e es' -> dser (e_key e) = Some s -> N.of_nat (length (ks_value s)) < 2 ^ 64) ->
        exists b, write_cleartext dkey dser es' = Some b /\
          (N.of_nat (length b) < 2 ^ 64 -> read_cleartext dkey (dpar (registry schemas)) b = Some es').
Proof. exact registry_public_roundtrip. Qed.
Print Assumptions C12_registry_public_roundtrip.

(* The twelve private/public type URL pairs of the repository (with the number
   of the public_key field) pass the table check. *)
Theorem C12_public_url_pairs_pass_table_check :
  forallb (fun x => let '(a, b, c) := x in pub_tables_ok a b c) pub_pairs = true /\ length pub_pairs = 12%nat.
Proof. split; [exact pub_pairs_ok | reflexivity]. Qed.
Print Assumptions C12_public_url_pairs_pass_table_check.

(* Every prefix a parser of a registered type accepts is accepted by keyset.Validate
   (by computation over the tables); this is what removes the prefix premise. *)
Theorem C12_parser_prefixes_pass_validate :
  forallb pm_known prefix_maps = true.
Proof. exact prefix_maps_known. Qed.
Print Assumptions C12_parser_prefixes_pass_validate.

(* OutputPrefixType WITH_ID_REQUIREMENT (5): a handle holding a registered ML-DSA
   private key of the variant NoPrefixWithPrehashID (prefix 5, id requirement 9)
   is a registry handle; cleartext write then read, encrypted write then read and
   Public() + write then read give the same handles back.  This was a finding
   (Write succeeded, every reader refused the bytes), fixed by /repo 4b80d2c:
   keyset.Validate now accepts WITH_ID_REQUIREMENT. *)
Theorem C12_with_id_requirement_prefix_keyset_roundtrips :
  (exists T g, exC_k = DK T g) /\
  wf_dhandle (registry ex_schemas) exC_es /\ wf_dhandle (registry ex_schemas) exC_pub /\
  ks_prefix exC_s = 5 /\ ks_id exC_s = 9 /\
  dpar (registry ex_schemas) exC_s = Some exC_k /\ dser exC_k = Some exC_s /\
  write_cleartext dkey dser exC_es = Some exC_clear /\
  read_cleartext dkey (dpar (registry ex_schemas)) exC_clear = Some exC_es /\
  write_encrypted dkey dser toy_enc exC_es [1; 2; 3] = Some exC_enc /\
  read_encrypted dkey (dpar (registry ex_schemas)) toy_dec exC_enc [1; 2; 3] = Some exC_es /\
  public_handle dkey (dpub (registry ex_schemas) ex_pub_url) exC_es = Some exC_pub /\
  map (fun e => option_map (fun s => (ks_url s, ks_prefix s, ks_id s)) (dser (e_key e))) exC_pub
    = [Some (mldsa_pub_url, 5, 9)] /\
  write_cleartext dkey dser exC_pub = Some exC_pub_clear /\
  read_cleartext dkey (dpar (registry ex_schemas)) exC_pub_clear = Some exC_pub.
Proof. exact with_id_requirement_keyset_roundtrips. Qed.
Print Assumptions C12_with_id_requirement_prefix_keyset_roundtrips.

(* ... while prefix 5 on a registered type whose parser does not know it (AES-GCM)
   or on an unregistered URL (the fallback key knows TINK/LEGACY/RAW/CRUNCHY only)
   passes Validate and is refused when the key is parsed; the same unregistered
   key under CRUNCHY is accepted *)
Example C12_with_id_requirement_prefix_elsewhere_rejected :
  validate exE_ks1 = true /\ handle_from_proto dkey (dpar (registry ex_schemas)) exE_ks1 = None /\
  validate exE_ks2 = true /\ handle_from_proto dkey (dpar (registry ex_schemas)) exE_ks2 = None /\
  handle_from_proto dkey (dpar (registry ex_schemas)) (mkPkeyset 7 [mkPkey (Some (mkKeyData [116; 50] [9] 1)) 1 7 4]) <> None.
Proof. exact exE_facts. Qed.

(* non-vacuity at the registry: handle A = an AES-GCM key (registered type, read
   from a LEGACY serialisation, id 7, written back as CRUNCHY) and a key of an
   unregistered type as primary; the write/read equations hold by computation,
   with a toy AEAD that binds the associated data *)
Example C12_nonvacuous_registry_handle :
  (forall url sch, ex_schemas url = Some sch -> wf_schema sch = true) /\
  wf_dhandle (registry ex_schemas) exA_es /\
  (forall ad p, toy_dec ad (toy_enc ad p) = Some p) /\
  exA_k1 = DK (match registry ex_schemas aesgcm_url with Some T => T | None => mkKtype SNil PIgnored NKNone end)
              (mkGkey aesgcm_url 1 2 7 [VInt 0; VBytes [1; 2; 3; 4; 5; 6; 7; 8; 9; 10; 11; 12; 13; 14; 15; 16]]) /\
  option_map ks_prefix (dser exA_k1) = Some 4 /\
  write_cleartext dkey dser exA_es = Some exA_clear /\
  read_cleartext dkey (dpar (registry ex_schemas)) exA_clear = Some exA_es /\
  write_encrypted dkey dser toy_enc exA_es [1; 2; 3] = Some exA_enc /\
  read_encrypted dkey (dpar (registry ex_schemas)) toy_dec exA_enc [1; 2; 3] = Some exA_es /\
  read_encrypted dkey (dpar (registry ex_schemas)) toy_dec exA_enc [1; 2; 4] = None.
Proof.
  split; [exact ex_schemas_wf|]. split; [exact exA_wf|]. split; [exact toy_aead_correct | exact exA_facts].
Qed.

(* both exceptions in the conclusion of C12_registry_key_reserializes occur: the
   LEGACY AES-GCM key above comes back as CRUNCHY, and a streaming AEAD key read
   from a TINK serialisation with id 5 comes back as RAW without id *)
Example C12_nonvacuous_streaming_key_comes_back_raw :
  dpar (registry ex_schemas) exD_s = Some exD_k /\
  (exists T g, exD_k = DK T g /\ kt_prefix T = PIgnored) /\
  option_map (fun s => (ks_prefix s, ks_id s)) (dser exD_k) = Some (3, 0) /\
  option_map (dpar (registry ex_schemas)) (dser exD_k) = Some (Some exD_k).
Proof. exact exD_facts. Qed.

(* handle B = a P-256 ECDSA private key given with un-normalised integers;
   Public() yields the normalised public key, the laws on the URL pair hold,
   the public handle is a registry handle and survives write/read *)
Example C12_nonvacuous_registry_public :
  wf_dhandle (registry ex_schemas) exB_es /\
  (forall url pu pf, ex_pub_url url = Some (pu, pf) -> pub_tables_ok url pu pf = true) /\
  (forall url pu pf sch, ex_pub_url url = Some (pu, pf) -> ex_schemas url = Some sch ->
     exists ps, field_type sch pf = Some (TMsg ps) /\ ex_schemas pu = Some ps) /\
  wf_dhandle (registry ex_schemas) exB_pub /\
  public_handle dkey (dpub (registry ex_schemas) ex_pub_url) exB_es = Some exB_pub /\
  map (fun e => match e_key e with DK _ g => Some (gk_fields g) | DFallback _ => None end) exB_pub
    = [Some ex_ecdsa_nf] /\
  write_cleartext dkey dser exB_pub = Some exB_pub_clear /\
  read_cleartext dkey (dpar (registry ex_schemas)) exB_pub_clear = Some exB_pub.
Proof.
  split; [exact exB_wf|]. split; [exact ex_pub_url_tables|]. split; [exact ex_pub_url_schema|].
  split; [exact exB_public_wf | exact exB_facts].
Qed.

(* ================================================================== *)
(* bridge to C13: the two transcriptions of proto.Marshal agree        *)
(* ================================================================== *)
(* The keyset encoder of model/Secrets.v (C13, written field by field for the
   writers) produces exactly the bytes of the generic protobuf encoder on the
   tink.proto Keyset schema (write_keyset), for every keyset without nil keys;
   hence the generic reader reads them back.  (Required, not imported:
   model/Untrusted.v and model/Serial.v both define pkey / keyset.) *)
From Tink Require SecretsSerialBridge.
Theorem C12_secrets_writer_bytes_are_the_generic_encoding :
  forall pr pks,
    Secrets.ser_keyset (Untrusted.mkKS pr (map Some pks)) = write_keyset (SecretsSerialBridge.to_pkeyset pr pks).
Proof. exact SecretsSerialBridge.ser_keyset_is_write_keyset. Qed.
Print Assumptions C12_secrets_writer_bytes_are_the_generic_encoding.

Theorem C12_generic_reader_reads_secrets_writer_bytes :
  forall pr pks,
    wf_pkeyset (SecretsSerialBridge.to_pkeyset pr pks) = true ->
    N.of_nat (length (Secrets.ser_keyset (Untrusted.mkKS pr (map Some pks)))) < 2 ^ 64 ->
    read_keyset (Secrets.ser_keyset (Untrusted.mkKS pr (map Some pks))) = Some (SecretsSerialBridge.to_pkeyset pr pks).
Proof. exact SecretsSerialBridge.generic_reader_reads_ser_keyset. Qed.
Print Assumptions C12_generic_reader_reads_secrets_writer_bytes.

(* ================================================================== *)
(* keysets through the JSON writer and reader, as TEXT                  *)
(* ================================================================== *)
(* model/JsonKeyset.v reads the JSON text of a tinkpb.Keyset / EncryptedKeyset as
   keyset.NewJSONReader does (protojson.Unmarshal with default options: the
   tokenizer and value parser of model/Json.v in its protojson-integer-path
   variant, then the two schemas) and prints such messages in TWO forms: a
   canonical form of its own (json_text_of_*: enums as NUMBERS, URL-alphabet
   unpadded base64 - the opposite of protojson.Marshal at every choice) and the
   form protojson.Marshal gives with the options of keyset.NewJSONWriter
   (json_text_pj_of_*: enum NAMES, standard padded base64, every field present,
   unset key data null; without protojson's random white space and with the
   model's string escapes - the harness compares this text with Tink's writer
   output modulo those two).  model/JsonKeysetC12.v carries messages and handles
   of model/Serial.v through both (write_*_json, write_*_json_pj).  The read
   side of the round trips is also stated for ANY text the reader reads as the
   message.  (Imported here, after the statements above: these files reuse names.) *)
From Tink Require Import JsonKeyset JsonKeysetProofs JsonKeysetC12 JsonKeysetC12Proofs.

(* every message of the printers' domain (numbers below 2^32, UTF-8 type URLs,
   byte-string values) is read back from its text - the model's canonical form *)
Theorem C12_json_print_then_read :
  (forall ks, keyset_ok ks = true -> keyset_of_json_text (json_text_of_keyset ks) = Some ks)
  /\ (forall e, encrypted_ok e = true -> encrypted_of_json_text (json_text_of_encrypted e) = Some e).
Proof. split; [exact keyset_text_roundtrip|exact encrypted_text_roundtrip]. Qed.
Print Assumptions C12_json_print_then_read.

(* ... and the form protojson.Marshal gives it (enum names through the name
   tables and name_lookup, standard padded base64 through the padded / standard
   branch of go_b64, null for an unset key data / keyset info): the three name
   tables are consistent (every entry is found under its name), the standard
   padded encoding of every byte string is decoded by protojson's bytes rule *)
Theorem C12_json_protojson_style_print_then_read :
  (forall ks, keyset_ok ks = true -> keyset_of_json_text (json_text_pj_of_keyset ks) = Some ks)
  /\ (forall e, encrypted_ok e = true -> encrypted_of_json_text (json_text_pj_of_encrypted e) = Some e)
  /\ (forall v, Bytes.wfb v -> pj_bytes (b64_std_encode v) = Some v)
  /\ (forall names e, names_ok names = true -> e < JsonKeyset.two32 -> enum_of_json names (enum_pj names e) = Some e)
  /\ names_ok status_names = true /\ names_ok prefix_names = true /\ names_ok material_names = true.
Proof.
  split; [exact keyset_pj_text_roundtrip|]. split; [exact encrypted_pj_text_roundtrip|].
  split; [exact pj_bytes_std_encode|]. split; [exact enum_of_pj|].
  split; [exact status_names_ok|]. split; [exact prefix_names_ok|exact material_names_ok].
Qed.
Print Assumptions C12_json_protojson_style_print_then_read.

(* EVERY enum name of the three tables in one text of protojson's form (six
   keys: UNKNOWN_STATUS ENABLED DISABLED DESTROYED; UNKNOWN_PREFIX TINK LEGACY
   RAW CRUNCHY WITH_ID_REQUIREMENT; UNKNOWN_KEYMATERIAL SYMMETRIC
   ASYMMETRIC_PRIVATE ASYMMETRIC_PUBLIC REMOTE; numbers 7 and -1 where there is no
   name; null key data; base64 with 0, 1, 2 padding characters and '+' '/'):
   the printer produces exactly the literal text EnumNamesExample.text, and the
   reader reads that text as the message; the same for an EncryptedKeyset; each
   table read through name_lookup gives back its values; the dangling exponent
   marker is read as the number (bare and string form), refused at the end of
   the string form and with a sign, and refused by the C09 parser *)
Example C12_json_every_enum_name :
  keyset_ok EnumNamesExample.ks = true
  /\ json_text_pj_of_keyset EnumNamesExample.ks = EnumNamesExample.text
  /\ keyset_of_json_text EnumNamesExample.text = Some EnumNamesExample.ks
  /\ encrypted_ok EnumNamesExample.info = true
  /\ json_text_pj_of_encrypted EnumNamesExample.info = EnumNamesExample.info_text
  /\ encrypted_of_json_text EnumNamesExample.info_text = Some EnumNamesExample.info
  /\ map (fun k => jk_status k) (jks_keys EnumNamesExample.ks) = [0; 1; 2; 3; 7; 4294967295]
  /\ map (fun k => jk_prefix k) (jks_keys EnumNamesExample.ks) = [0; 1; 2; 3; 4; 5]
  /\ map (fun p => name_lookup status_names (fst p)) status_names = map (fun p => Some (snd p)) status_names
  /\ map (fun p => name_lookup prefix_names (fst p)) prefix_names = map (fun p => Some (snd p)) prefix_names
  /\ map (fun p => name_lookup material_names (fst p)) material_names = map (fun p => Some (snd p)) material_names.
Proof.
  destruct EnumNamesExample.facts as (A & B & C & D & E & F & G & H & I & J & K & _).
  repeat (split; [assumption|]). assumption.
Qed.

(* tinkpb.Keyset through the JSON writer and reader: every well-formed proto
   keyset (the domain of C12_proto_keyset_roundtrip) whose key values are byte
   strings - the model's bytes are lists of numbers; a Go []byte cannot be
   anything else - comes back, enums outside their range included *)
Theorem C12_json_proto_keyset_roundtrip :
  forall ks, wf_pkeyset ks = true -> values_are_bytes ks = true ->
    read_keyset_json (write_keyset_json ks) = Some ks.
Proof. exact proto_keyset_json_roundtrip. Qed.
Print Assumptions C12_json_proto_keyset_roundtrip.

(* The READ side, for ANY text: whatever text the JSON reader reads as the proto
   keyset of a well-formed handle - whichever names, enum forms, base64 alphabet,
   padding, white space, member order, escapes it uses; in particular the text
   Tink's writer (protojson.Marshal) really emits, which is not modelled byte
   for byte - insecurecleartextkeyset.Read gives the handle back; the same for
   the encrypted form (any text read as an EncryptedKeyset whose ciphertext is
   the AEAD encryption of the binary keyset) *)
Theorem C12_json_read_any_text_of_the_handle :
  forall K ser_k par_k,
    (forall (es : list (entry K)) ks text,
       wf_handle K ser_k par_k es -> entries_to_proto_keyset K ser_k es = Some ks ->
       read_keyset_json text = Some ks -> read_cleartext_json K par_k text = Some es)
    /\ (forall (aead_enc : bytes -> bytes -> bytes) (aead_dec : bytes -> bytes -> option bytes),
         (forall ad p, aead_dec ad (aead_enc ad p) = Some p) ->
         forall (es : list (entry K)) ks ad text e,
           wf_handle K ser_k par_k es -> entries_to_proto_keyset K ser_k es = Some ks ->
           N.of_nat (length (write_keyset ks)) < 2 ^ 64 ->
           encrypted_of_json_text text = Some e -> je_ct e = aead_enc ad (write_keyset ks) ->
           read_encrypted_json K par_k aead_dec text ad = Some es).
Proof.
  intros K ser_k par_k. split; [exact (json_cleartext_read_any_text K ser_k par_k)|].
  intros enc dec AC. exact (json_encrypted_read_any_text K ser_k par_k enc dec AC).
Qed.
Print Assumptions C12_json_read_any_text_of_the_handle.

(* The handle written as JSON TEXT BY THE MODEL'S PRINTERS and read by the JSON
   reader gives the same handle back (C12_cleartext_roundtrip for JSON): for the
   model's canonical form (write_cleartext_json: enum numbers, URL unpadded
   base64) and for the form of protojson.Marshal (write_cleartext_json_pj: enum
   names, standard padded base64).  This is NOT a statement about the bytes
   insecurecleartextkeyset.Write emits: that text is protojson's (random white
   space, its own escapes); the harness compares it with write_*_json_pj modulo
   those two and feeds it to the model's reader (jt-tink-writer lines), and
   C12_json_read_any_text_of_the_handle covers its read side. *)
Theorem C12_json_cleartext_roundtrip :
  forall K ser_k par_k (es : list (entry K)) text,
    wf_handle K ser_k par_k es ->
    (forall ks, entries_to_proto_keyset K ser_k es = Some ks -> values_are_bytes ks = true) ->
    (write_cleartext_json K ser_k es = Some text \/ write_cleartext_json_pj K ser_k es = Some text) ->
    read_cleartext_json K par_k text = Some es.
Proof.
  intros K ser_k par_k es text W V [H|H];
    [exact (json_cleartext_roundtrip K ser_k par_k es text W V H)|exact (json_cleartext_pj_roundtrip K ser_k par_k es text W V H)].
Qed.
Print Assumptions C12_json_cleartext_roundtrip.

(* Handle.WriteWithAssociatedData then keyset.ReadWithAssociatedData, JSON: the
   text carries the ciphertext of the BINARY keyset and keyset_info; for every
   AEAD with dec ad (enc ad p) = p whose ciphertext of this keyset is a byte string *)
Theorem C12_json_encrypted_roundtrip :
  forall K ser_k par_k (aead_enc : bytes -> bytes -> bytes) (aead_dec : bytes -> bytes -> option bytes),
    (forall ad p, aead_dec ad (aead_enc ad p) = Some p) ->
    forall (es : list (entry K)) ad text,
      wf_handle K ser_k par_k es ->
      (write_encrypted_json K ser_k aead_enc es ad = Some text \/ write_encrypted_json_pj K ser_k aead_enc es ad = Some text) ->
      (forall ks, entries_to_proto_keyset K ser_k es = Some ks ->
         N.of_nat (length (write_keyset ks)) < 2 ^ 64 /\ bytes_okb (aead_enc ad (write_keyset ks)) = true) ->
      read_encrypted_json K par_k aead_dec text ad = Some es.
Proof.
  intros K ser_k par_k enc dec AC es ad text W [H|H] B;
    [exact (json_encrypted_roundtrip K ser_k par_k enc dec AC es ad text W H B)
    |exact (json_encrypted_pj_roundtrip K ser_k par_k enc dec AC es ad text W H B)].
Qed.
Print Assumptions C12_json_encrypted_roundtrip.

(* at the registry (the composition with C12_registry_entries_roundtrip): for
   every well-formed handle of registered keys the JSON writer succeeds and the
   JSON reader gives the handle back.  What is NOT derived: that the key
   serialisations are byte strings (values_are_bytes) - wf_dhandle does not say
   it, the model's bytes carry no bound - it stays a premise. *)
Theorem C12_registry_json_cleartext_roundtrip :
  forall (schemas : bytes -> option schema),
    (forall url sch, schemas url = Some sch -> wf_schema sch = true) ->
    forall es, wf_dhandle (registry schemas) es ->
      (forall ks, entries_to_proto_keyset dkey dser es = Some ks -> values_are_bytes ks = true) ->
      exists text, write_cleartext_json dkey dser es = Some text
        /\ read_cleartext_json dkey (dpar (registry schemas)) text = Some es.
Proof. exact registry_json_cleartext_roundtrip. Qed.
Print Assumptions C12_registry_json_cleartext_roundtrip.

Theorem C12_registry_json_encrypted_roundtrip :
  forall (schemas : bytes -> option schema),
    (forall url sch, schemas url = Some sch -> wf_schema sch = true) ->
    forall (aead_enc : bytes -> bytes -> bytes) (aead_dec : bytes -> bytes -> option bytes),
      (forall ad p, aead_dec ad (aead_enc ad p) = Some p) ->
      forall es ad, wf_dhandle (registry schemas) es ->
        exists text, write_encrypted_json dkey dser aead_enc es ad = Some text
          /\ ((forall ks, entries_to_proto_keyset dkey dser es = Some ks ->
                 N.of_nat (length (write_keyset ks)) < 2 ^ 64 /\ bytes_okb (aead_enc ad (write_keyset ks)) = true) ->
              read_encrypted_json dkey (dpar (registry schemas)) aead_dec text ad = Some es).
Proof. exact registry_json_encrypted_roundtrip. Qed.
Print Assumptions C12_registry_json_encrypted_roundtrip.

(* the JSON reader refuses: an unknown member name or two members for one field in
   any object of the message; trailing data after an accepted text *)
Theorem C12_json_reader_refusals :
  (forall tab f k v seen, In (k, v) f -> field_number tab k = None -> resolve tab f seen = None)
  /\ (forall tab f1 k1 v1 f2 k2 v2 f3 n seen, field_number tab k1 = Some n -> field_number tab k2 = Some n ->
        resolve tab (f1 ++ (k1, v1) :: f2 ++ (k2, v2) :: f3) seen = None)
  /\ (forall s ks c t, keyset_of_json_text s = Some ks -> Json.is_ws c = false -> keyset_of_json_text (s ++ c :: t) = None).
Proof.
  split; [intros tab f k v seen I U; exact (resolve_unknown_field tab f k v I U seen)|].
  split; [intros tab f1 k1 v1 f2 k2 v2 f3 n seen F1 F2; exact (resolve_duplicate_field tab f1 k1 v1 f2 k2 v2 f3 n F1 F2 seen)|].
  exact keyset_text_trailing_data.
Qed.
Print Assumptions C12_json_reader_refusals.

(* handle A of C12_nonvacuous_registry_handle (a LEGACY AES-GCM key, disabled, and an
   enabled primary with id 2^32-1) through the JSON writer and reader, cleartext and
   encrypted with the toy AEAD: all premises of the theorems above are met *)
Example C12_nonvacuous_json_handle :
  write_cleartext_json dkey dser exA_es = Some exA_json /\
  read_cleartext_json dkey (dpar (registry ex_schemas)) exA_json = Some exA_es /\
  (forall ks, entries_to_proto_keyset dkey dser exA_es = Some ks -> values_are_bytes ks = true) /\
  write_encrypted_json dkey dser toy_enc exA_es [1; 2; 3] = Some exA_json_enc /\
  read_encrypted_json dkey (dpar (registry ex_schemas)) toy_dec exA_json_enc [1; 2; 3] = Some exA_es /\
  read_encrypted_json dkey (dpar (registry ex_schemas)) toy_dec exA_json_enc [1; 2; 4] = None /\
  (forall ks, entries_to_proto_keyset dkey dser exA_es = Some ks ->
     N.of_nat (length (write_keyset ks)) < 2 ^ 64 /\ bytes_okb (toy_enc [1; 2; 3] (write_keyset ks)) = true).
Proof. exact exA_json_facts. Qed.
