(* C18 — primitives and handles are safe for concurrent use.  PARTIAL by
   nature: the theorem is about the abstraction "calls are sequences of atomic
   steps that read but never write the shared object"; that the code fits the
   abstraction is the regenerated footprint obligation (syntactic, per method)
   plus the race-detector hammer.  The Go memory model, the completeness of the
   race detector and the soundness of the footprint scan are trusted.
   Statements only; proofs in proofs/SchedProofs.v, proofs/FootprintsProofs.v. *)
From Coq Require Import List Arith Bool.
From Tink Require Import Bytes Manager Prefix Factory Sched SchedProofs SchedProofs2 Footprints FootprintsProofs.
Import ListNotations.

(* Schedule independence: for ANY shared object type, local state type and
   step function that never writes the shared state, ANY number of threads and
   ANY interleaving: once every call has finished, each call holds exactly the
   result it produces when run alone, and the shared object is unchanged. *)
Theorem C18_schedule_independent :
  forall (Shared Local : Type) (step : Shared -> Local -> Shared * Local),
    (forall sh l, fst (step sh l) = sh) ->
    forall sh (calls : list (Local * nat)) (sched : list nat),
      finished Local (snd (run_sched Shared Local step (sh, calls) sched)) ->
      fst (run_sched Shared Local step (sh, calls) sched) = sh /\
      map fst (snd (run_sched Shared Local step (sh, calls) sched))
      = map (fun c => snd (run_alone Shared Local step sh (fst c) (snd c))) calls.
Proof. exact schedule_independent. Qed.
Print Assumptions C18_schedule_independent.

(* The premise is needed: with one shared scratch cell some interleaving gives
   a call another call's data. *)
Theorem C18_shared_scratch_refuted :
  exists (sched : list nat),
    let calls := [((7, 0, 0), 2); ((9, 0, 0), 2)] in
    let final := run_sched nat (nat * nat * nat) scratch_step (0, calls) sched in
    finished _ (snd final) /\
    map fst (snd final) <> map (fun c => snd (run_alone nat (nat * nat * nat) scratch_step 0 (fst c) (snd c))) calls.
Proof. exact shared_scratch_refuted. Qed.
Print Assumptions C18_shared_scratch_refuted.

(* THE TIE: in the current source no method of a primitive type writes through
   its receiver or to a package variable (table regenerated on every run). *)
Theorem C18_no_shared_writes_in_source : forallb no_writes c18_footprints = true.
Proof. exact no_shared_writes_in_source. Qed.
Print Assumptions C18_no_shared_writes_in_source.

(* The theorem instantiated with the model of a keyset primitive (model/Factory.v, the model
   C05 ties to the code): the shared object is the prefix map built at construction, a call of
   Decrypt / Verify / VerifyMAC is "look up the candidates for the input's prefix", then "try
   the next candidate", one atomic step each.  For ANY keyset, ANY validity predicate, ANY
   number of concurrent calls with ANY inputs and ANY interleaving: once all calls have
   finished the prefix map is unchanged and every call holds exactly the verdict of the
   sequential selection rule for ITS OWN input. *)
Theorem C18_concurrent_keyset_primitive_calls :
  forall (valid : fentry -> bytes -> bool) ks (inputs : list bytes) (sched : list nat),
    let sh := pm_build ks in
    let calls := map (fun x => ((x, None, None) : call, S (length (pm_matching sh x)))) inputs in
    let final := run_sched pmap call (prim_step valid) (sh, calls) sched in
    finished call (snd final) ->
    fst final = sh /\
    map (fun t => result_of (fst t)) (snd final) = map (accept valid ks) inputs.
Proof. exact concurrent_calls_are_accept. Qed.
Print Assumptions C18_concurrent_keyset_primitive_calls.
(* Non-vacuity of the premise: a step function that only reads the shared key. *)
Example C18_premise_inhabited :
  let step := fun (key : nat) (l : nat * nat) => (key, (fst l, fst l + key)) in
  (forall sh l, fst (step sh l) = sh) /\
  map fst (snd (run_sched nat (nat * nat) step (5, [((1, 0), 1); ((2, 0), 1)]) [1; 0])) = [(1, 6); (2, 7)].
Proof. split; [reflexivity | vm_compute; reflexivity]. Qed.
