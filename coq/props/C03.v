(* C03 — Signatures verify iff genuinely produced by the private key
   (ECDSA DER / IEEE P1363, Ed25519, RSA-SSA-PKCS1, RSA-SSA-PSS).

   Statements only; proofs live in proofs/DERProofs.v and proofs/SigProofs.v.
   The models are model/DER.v (strict DER of SEQUENCE{INTEGER r, INTEGER s})
   and model/Sig.v (prefix, LEGACY suffix, hash choice, encodings, length and
   key rules).  The standard algorithms are universally quantified function
   parameters (H, raw, ed_raw, pkcs1_raw, pss_raw ...): every theorem holds
   for every instantiation, in particular for the Go standard library. *)
From Coq Require Import List NArith ZArith Bool Lia.
From Tink Require Import Bytes DER DERProofs Sig SigProofs SigProofs2 SigProofs3 Rsa8017 Rsa8017Proofs.
Import ListNotations.
Open Scope N_scope.

(* ---------------- strict DER ---------------- *)

(* Canonical uniqueness: a byte string is accepted by the strict decoder
   (ASN1Decode) with result (r, s) exactly when it IS the encoding of (r, s)
   (r, s any integers, negative included).  Hence non-minimal INTEGERs,
   superfluous leading 00/ff, long-form or indefinite lengths, trailing bytes
   inside or outside the SEQUENCE, wrong tags ... are all rejected.
   [der_fits]: the contents are shorter than 2^32 bytes (4 length octets). *)
Theorem C03_der_canonical_unique :
  forall (b : bytes) (r s : Z), wfb b ->
    (der_decode b = Some (r, s) <-> b = der_encode r s /\ der_fits r s).
Proof. exact der_canonical_unique_proof. Qed.
Print Assumptions C03_der_canonical_unique.

Theorem C03_der_roundtrip :
  forall r s : Z, der_fits r s -> der_decode (der_encode r s) = Some (r, s) /\ wfb (der_encode r s).
Proof. intros r s Hf. split; [apply der_decode_encode|apply der_encode_wf]; exact Hf. Qed.
Print Assumptions C03_der_roundtrip.

(* every pair of naturals below 256^120 (all curve sizes) fits *)
Theorem C03_der_fits_field_sized :
  forall (r s : N) (k : nat), (k <= 120)%nat -> r < 256 ^ N.of_nat k -> s < 256 ^ N.of_nat k ->
    der_fits (Z.of_N r) (Z.of_N s).
Proof. exact der_fits_small. Qed.
Print Assumptions C03_der_fits_field_sized.

Theorem C03_der_trailing_data_rejected :
  forall b r s t, wfb b -> t <> [] ->
    (der_decode b = Some (r, s) -> der_decode (b ++ t) = None) /\
    (N.of_nat (length (der_body r s ++ t)) < 4294967296 ->
     der_decode (enc_tlv SEQ (der_body r s ++ t)) = None).
Proof.
  intros b r s t Hw Ht. split.
  - intros H. eapply der_trailing_rejected; eauto.
  - apply der_trailing_inside_rejected; exact Ht.
Qed.
Print Assumptions C03_der_trailing_data_rejected.

Theorem C03_der_non_minimal_rejected :
  (forall x t, x < 128 -> int_dec (0 :: x :: t) = None) /\
  (forall x t, 128 <= x -> int_dec (255 :: x :: t) = None) /\
  int_dec [] = None /\
  (forall k d rest, length d = k -> be_val d < 128 -> read_len ((128 + N.of_nat k) :: d ++ rest) = None) /\
  (forall rest, read_len (128 :: rest) = None).
Proof.
  repeat split.
  - exact int_lead00_rejected.
  - exact int_leadff_rejected.
  - exact len_long_for_short_rejected.
Qed.
Print Assumptions C03_der_non_minimal_rejected.

(* ASN1Decode as coded (Unmarshal with ANY parser that is right on canonical
   encodings, then re-Marshal and compare): its accept set is exactly the
   image of the encoder, whatever else the parser tolerates; on inputs below
   2^32 bytes it is the strict decoder above. *)
Theorem C03_asn1_decode_reencode_check :
  forall (unmarshal : bytes -> option (Z * Z)),
    (forall r s, unmarshal (der_encode r s) = Some (r, s)) ->
    (forall b r s, asn1_decode_impl unmarshal b = Some (r, s) <-> b = der_encode r s) /\
    (forall b, wfb b -> N.of_nat (length b) < 4294967296 -> asn1_decode_impl unmarshal b = der_decode b).
Proof.
  intros u Hu. split; [apply asn1_decode_impl_spec; exact Hu|apply asn1_decode_impl_is_der_decode; exact Hu].
Qed.
Print Assumptions C03_asn1_decode_reencode_check.

(* the parser inside crypto/ecdsa.VerifyASN1: the same, non-negative only *)
Theorem C03_parse_sig_accept_set :
  forall (b : bytes) (r s : N), wfb b ->
    (parse_sig b = Some (r, s) <-> b = der_encode_N r s /\ der_fits (Z.of_N r) (Z.of_N s)).
Proof. exact parse_sig_iff. Qed.
Print Assumptions C03_parse_sig_accept_set.

Theorem C03_parse_sig_negative_rejected :
  forall r s : Z, (r < 0 \/ s < 0)%Z -> parse_sig (der_encode r s) = None.
Proof. exact parse_sig_negative_rejected. Qed.
Print Assumptions C03_parse_sig_negative_rejected.

(* ---------------- IEEE P1363 ---------------- *)

Theorem C03_p1363_codec :
  forall c (b : bytes) (r s : N),
    (p1363_encode c r s = Some b -> p1363_decode c b = Ok (r, s)) /\
    (wfb b -> p1363_decode c b = Ok (r, s) -> p1363_encode c r s = Some b) /\
    (length b <> p1363_size c -> p1363_decode c b = Err) /\
    p1363_decode c b <> Panic /\ p1363_decode_any b <> Panic /\
    (p1363_size P256 = 64 /\ p1363_size P384 = 96 /\ p1363_size P521 = 132)%nat.
Proof.
  intros c b r s. repeat split.
  - apply p1363_roundtrip.
  - apply p1363_decode_sound.
  - apply p1363_wrong_length.
  - apply p1363_decode_no_panic.
  - apply p1363_decode_any_no_panic.
Qed.
Print Assumptions C03_p1363_codec.

(* ---------------- ECDSA ---------------- *)

(* Exact acceptance set.  For every hash function H, every raw verification
   predicate [raw] and every key k (any curve, hash, encoding, variant, id):
   Verify accepts sig for msg exactly when sig is  prefix || encoding(r, s)
   of a pair that the raw verification accepts for H(msg || legacy suffix). *)
Theorem C03_ecdsa_verify_iff :
  forall (H : hasht -> bytes -> bytes) (raw : curve -> bytes -> bytes -> N -> N -> bool)
         (k : ecdsa_key) (sig msg : bytes), wfb sig ->
    (ecdsa_verify H raw k sig msg = Ok tt <->
     exists r s, ecdsa_frame k r s = Some sig /\ sig_fits k r s /\
       raw (ek_curve k) (ek_pub k) (H (ek_hash k) (msg ++ suffix (ek_variant k))) r s = true).
Proof. exact ecdsa_verify_iff_proof. Qed.
Print Assumptions C03_ecdsa_verify_iff.

(* Sign's output verifies, whenever the raw signing oracle produces pairs the
   raw verification accepts (the law of the standard algorithm). *)
Theorem C03_ecdsa_sign_then_verify :
  forall H raw (sign_rs : curve -> bytes -> bytes -> bytes -> N * N) (pub_of : curve -> bytes -> bytes)
         k sk rnd msg,
    (forall c sk h rnd, raw c (pub_of c sk) h (fst (sign_rs c sk h rnd)) (snd (sign_rs c sk h rnd)) = true) ->
    (forall c sk h rnd, fst (sign_rs c sk h rnd) < 256 ^ N.of_nat (field_size c) /\
                        snd (sign_rs c sk h rnd) < 256 ^ N.of_nat (field_size c)) ->
    ek_pub k = pub_of (ek_curve k) sk ->
    exists sig, ecdsa_sign H sign_rs k sk rnd msg = Some sig /\ wfb sig /\
                ecdsa_verify H raw k sig msg = Ok tt.
Proof. exact ecdsa_sign_verify_proof. Qed.
Print Assumptions C03_ecdsa_sign_then_verify.

Theorem C03_ecdsa_wrong_prefix_or_length_rejected :
  forall H raw k sig msg t,
    ((forall t, sig <> prefix (ek_variant k) (ek_id k) ++ t) -> ecdsa_verify H raw k sig msg = Err) /\
    (ek_enc k = P1363 -> length t <> p1363_size (ek_curve k) ->
     ecdsa_verify H raw k (prefix (ek_variant k) (ek_id k) ++ t) msg = Err).
Proof.
  intros. split; [apply ecdsa_wrong_prefix_proof|apply ecdsa_p1363_wrong_length_proof].
Qed.
Print Assumptions C03_ecdsa_wrong_prefix_or_length_rejected.

(* ---------------- Ed25519 ---------------- *)

Theorem C03_ed25519_verify_iff :
  forall (ed_raw : bytes -> bytes -> bytes -> bool) v id pub sig msg,
    ed25519_verify ed_raw v id pub sig msg = Ok tt <->
    exists body, sig = prefix v id ++ body /\ length body = 64%nat /\
                 ed_raw pub (msg ++ suffix v) body = true.
Proof. exact ed25519_verify_iff_proof. Qed.
Print Assumptions C03_ed25519_verify_iff.

Theorem C03_ed25519_sign_then_verify :
  forall ed_raw (ed_sign : bytes -> bytes -> bytes) (ed_pub_of : bytes -> bytes) v id seed msg,
    (forall seed m, ed_raw (ed_pub_of seed) m (ed_sign seed m) = true) ->
    (forall seed m, length (ed_sign seed m) = 64%nat) ->
    exists sig, ed25519_sign ed_sign v id seed msg = Ok sig /\
                ed25519_verify ed_raw v id (ed_pub_of seed) sig msg = Ok tt.
Proof. exact ed25519_sign_verify_proof. Qed.
Print Assumptions C03_ed25519_sign_then_verify.

(* ---------------- RSA-SSA-PKCS1 / PSS ---------------- *)

Theorem C03_rsa_pkcs1_verify_iff :
  forall H (pkcs1_raw : bytes -> N -> hasht -> bytes -> bytes -> bool) k sig msg,
    pkcs1_verify H pkcs1_raw k sig msg = Ok tt <->
    exists body, sig = prefix (rk_variant k) (rk_id k) ++ body /\
      pkcs1_raw (rk_n k) (rk_e k) (rk_hash k) (H (rk_hash k) (msg ++ suffix (rk_variant k))) body = true.
Proof. exact pkcs1_verify_iff_proof. Qed.
Print Assumptions C03_rsa_pkcs1_verify_iff.

(* salt-length binding: the standard verification is run with exactly the
   key's salt length *)
Theorem C03_rsa_pss_verify_iff :
  forall H (pss_raw : bytes -> N -> hasht -> N -> bytes -> bytes -> bool) k sig msg,
    pss_verify H pss_raw k sig msg = Ok tt <->
    exists body, sig = prefix (rk_variant k) (rk_id k) ++ body /\
      pss_raw (rk_n k) (rk_e k) (rk_hash k) (rk_salt k)
              (H (rk_hash k) (msg ++ suffix (rk_variant k))) body = true.
Proof. exact pss_verify_iff_proof. Qed.
Print Assumptions C03_rsa_pss_verify_iff.

Theorem C03_rsa_sign_then_verify :
  forall H pkcs1_raw pss_raw
         (pkcs1_sign_raw : bytes -> hasht -> bytes -> bytes)
         (pss_sign_raw : bytes -> hasht -> N -> bytes -> bytes -> bytes)
         (rsa_pub_of : bytes -> bytes * N) k sk rnd msg,
    (forall sk h d, pkcs1_raw (fst (rsa_pub_of sk)) (snd (rsa_pub_of sk)) h d (pkcs1_sign_raw sk h d) = true) ->
    (forall sk h salt d rnd,
        pss_raw (fst (rsa_pub_of sk)) (snd (rsa_pub_of sk)) h salt d (pss_sign_raw sk h salt d rnd) = true) ->
    (rk_n k, rk_e k) = rsa_pub_of sk ->
    pkcs1_verify H pkcs1_raw k (pkcs1_sign H pkcs1_sign_raw k sk msg) msg = Ok tt /\
    pss_verify H pss_raw k (pss_sign H pss_sign_raw k sk rnd msg) msg = Ok tt.
Proof.
  intros. split; [eapply pkcs1_sign_verify_proof|eapply pss_sign_verify_proof]; eauto.
Qed.
Print Assumptions C03_rsa_sign_then_verify.

(* ---------------- no panic, key rules ---------------- *)

(* No signature, message or key makes a verifier index out of range: every
   slice expression of the model is a checked slice. *)
Theorem C03_verify_never_panics :
  forall H raw ed_raw pkcs1_raw pss_raw k v id pub rk sig msg,
    ecdsa_verify H raw k sig msg <> Panic /\
    ed25519_verify ed_raw v id pub sig msg <> Panic /\
    pkcs1_verify H pkcs1_raw rk sig msg <> Panic /\
    pss_verify H pss_raw rk sig msg <> Panic.
Proof.
  intros. split; [apply ecdsa_verify_no_panic_proof|].
  split; [apply ed25519_verify_no_panic_proof|]. apply rsa_verify_no_panic_proof.
Qed.
Print Assumptions C03_verify_never_panics.

(* a verifier / signer is constructible only for >= 2048-bit moduli, e = 65537
   and SHA-256/384/512; ECDSA only for the curve/hash pairs of the table *)
Theorem C03_key_rules :
  (forall h n e, rsa_ctor_ok h n e = true <->
     2 ^ 2047 <= be_val n /\ e = 65537 /\ (h = SHA256 \/ h = SHA384 \/ h = SHA512)) /\
  (forall c h, ecdsa_params_ok c h = true <->
     (c = P256 /\ h = SHA256) \/ (c = P384 /\ (h = SHA384 \/ h = SHA512)) \/ (c = P521 /\ h = SHA512)).
Proof. split; [exact rsa_ctor_ok_iff_proof|exact ecdsa_params_ok_iff_proof]. Qed.
Print Assumptions C03_key_rules.

(* ---------------- further consequences ---------------- *)

(* The accepted byte strings are in bijection with the accepted raw
   signatures: no second encoding of the same (r, s) verifies. *)
Theorem C03_ecdsa_encoding_injective :
  forall k r s r' s' sig,
    ecdsa_frame k r s = Some sig -> ecdsa_frame k r' s' = Some sig ->
    sig_fits k r s -> sig_fits k r' s' -> r = r' /\ s = s'.
Proof. exact ecdsa_frame_inj. Qed.
Print Assumptions C03_ecdsa_encoding_injective.

(* A signature accepted under one non-RAW prefix is rejected under any other
   (other variant start byte or other key id). *)
Theorem C03_ecdsa_other_prefix_rejected :
  forall H raw k v' id' sig msg,
    ecdsa_verify H raw k sig msg = Ok tt -> ek_variant k <> VRaw -> v' <> VRaw ->
    prefix (ek_variant k) (ek_id k) <> prefix v' id' ->
    ecdsa_verify H raw (with_variant k v' id') sig msg = Err.
Proof. exact ecdsa_other_prefix_rejected. Qed.
Print Assumptions C03_ecdsa_other_prefix_rejected.

(* LEGACY is CRUNCHY over message || 0x00, for all four schemes. *)
Theorem C03_legacy_is_crunchy_over_suffixed_message :
  forall H raw ed_raw pkcs1_raw pss_raw k id pub rk sig msg,
    ecdsa_verify H raw (with_variant k VLegacy id) sig msg =
      ecdsa_verify H raw (with_variant k VCrunchy id) sig (msg ++ [0]) /\
    ed25519_verify ed_raw VLegacy id pub sig msg = ed25519_verify ed_raw VCrunchy id pub sig (msg ++ [0]) /\
    pkcs1_verify H pkcs1_raw (rsa_with_variant rk VLegacy) sig msg =
      pkcs1_verify H pkcs1_raw (rsa_with_variant rk VCrunchy) sig (msg ++ [0]) /\
    pss_verify H pss_raw (rsa_with_variant rk VLegacy) sig msg =
      pss_verify H pss_raw (rsa_with_variant rk VCrunchy) sig (msg ++ [0]).
Proof.
  intros. split; [apply ecdsa_legacy_is_crunchy|]. split; [apply ed25519_legacy_is_crunchy|].
  apply rsa_legacy_is_crunchy.
Qed.
Print Assumptions C03_legacy_is_crunchy_over_suffixed_message.

Theorem C03_p1363_curveless_decoder_lengths :
  forall b r s, p1363_decode_any b = Ok (r, s) ->
    length b = 64%nat \/ length b = 96%nat \/ length b = 132%nat.
Proof. exact p1363_decode_any_lengths. Qed.
Print Assumptions C03_p1363_curveless_decoder_lengths.

(* ---------------- the premises are inhabited ---------------- *)

Definition toyH (_ : hasht) (m : bytes) : bytes := m.
Definition toy_raw (_ : curve) (_ _ : bytes) (r s : N) : bool := (r =? 7) && (s =? 300).
Definition toy_key (e : sigenc) (v : variant) : ecdsa_key :=
  {| ek_curve := P256; ek_hash := SHA256; ek_enc := e; ek_variant := v; ek_id := 16909060; ek_pub := [4] |}.

(* 30 07 02 01 07 02 02 01 2c under the TINK prefix 01 01 02 03 04 *)
Example C03_example_der :
  ecdsa_frame (toy_key DER VTink) 7 300 = Some [1;1;2;3;4; 48;7; 2;1;7; 2;2;1;44] /\
  ecdsa_verify toyH toy_raw (toy_key DER VTink) [1;1;2;3;4; 48;7; 2;1;7; 2;2;1;44] [9] = Ok tt /\
  (* extra leading zero, long-form length, trailing byte, missing prefix: rejected *)
  ecdsa_verify toyH toy_raw (toy_key DER VTink) [1;1;2;3;4; 48;8; 2;2;0;7; 2;2;1;44] [9] = Err /\
  ecdsa_verify toyH toy_raw (toy_key DER VTink) [1;1;2;3;4; 48;129;7; 2;1;7; 2;2;1;44] [9] = Err /\
  ecdsa_verify toyH toy_raw (toy_key DER VTink) [1;1;2;3;4; 48;7; 2;1;7; 2;2;1;44; 0] [9] = Err /\
  ecdsa_verify toyH toy_raw (toy_key DER VTink) [48;7; 2;1;7; 2;2;1;44] [9] = Err /\
  ecdsa_verify toyH toy_raw (toy_key DER VTink) [1;1] [9] = Err /\
  der_decode [48;6; 2;1;255; 2;1;128] = Some ((-1)%Z, (-128)%Z) /\
  parse_sig [48;6; 2;1;255; 2;1;128] = None.
Proof. vm_compute. repeat split; reflexivity. Qed.

Definition toy_p1363_sig : bytes :=
  [0;1;2;3;4] ++ repeat 0 31 ++ [7] ++ repeat 0 30 ++ [1;44].

Example C03_example_p1363 :
  ecdsa_frame (toy_key P1363 VLegacy) 7 300 = Some toy_p1363_sig /\ length toy_p1363_sig = 69%nat /\
  ecdsa_verify toyH toy_raw (toy_key P1363 VLegacy) toy_p1363_sig [9] = Ok tt /\
  ecdsa_verify toyH toy_raw (toy_key P1363 VLegacy) (toy_p1363_sig ++ [0]) [9] = Err /\
  ecdsa_verify toyH toy_raw (toy_key P1363 VLegacy) (tl toy_p1363_sig) [9] = Err.
Proof. vm_compute. repeat split; reflexivity. Qed.

(* ====================================================================== *)
(* Second round: RSA fixed-length rule, explicit rejections for Ed25519 and
   RSA, LEGACY on Sign, "modified message / other key" in reduction form.
   Proofs: proofs/SigProofs2.v.

   crypto/rsa.VerifyPKCS1v15 / VerifyPSS reject `len(sig) != pub.Size()`
   before the RSA operation; tink-go has no length check of its own.  The
   standard verification is therefore modelled as [std_pkcs1 core] /
   [std_pss core] = length check, then an arbitrary [core] (model/Sig.v); the
   theorems hold for every [core]. *)

(* ---------------- (a) RSA: wrong-length signatures ---------------- *)

(* the signature size is the modulus length in bytes, (BitLen + 7) / 8,
   independent of leading zero bytes in the modulus encoding; accepted keys
   have at least 256 bytes *)
Theorem C03_rsa_sig_len_is_modulus_byte_length :
  (forall n, rsa_sig_len n = N.to_nat ((N.size (be_val n) + 7) / 8)) /\
  (forall n k, (0 < k)%nat ->
     (rsa_sig_len n = k <-> 256 ^ N.of_nat (k - 1) <= be_val n /\ be_val n < 256 ^ N.of_nat k)) /\
  (forall n, rsa_sig_len (0 :: n) = rsa_sig_len n) /\
  (forall n e, rsa_key_ok n e = true -> (256 <= rsa_sig_len n)%nat).
Proof.
  split; [exact rsa_sig_len_bits|]. split; [exact rsa_sig_len_spec|].
  split; [exact rsa_sig_len_lead0|exact rsa_key_ok_sig_len].
Qed.
Print Assumptions C03_rsa_sig_len_is_modulus_byte_length.

(* exact acceptance sets with the length explicit *)
Theorem C03_rsa_verify_iff_with_length :
  forall H pkcs1_core pss_core k sig msg,
    (pkcs1_verify H (std_pkcs1 pkcs1_core) k sig msg = Ok tt <->
     exists body, sig = prefix (rk_variant k) (rk_id k) ++ body /\
       length body = rsa_sig_len (rk_n k) /\
       pkcs1_core (rk_n k) (rk_e k) (rk_hash k) (H (rk_hash k) (msg ++ suffix (rk_variant k))) body = true) /\
    (pss_verify H (std_pss pss_core) k sig msg = Ok tt <->
     exists body, sig = prefix (rk_variant k) (rk_id k) ++ body /\
       length body = rsa_sig_len (rk_n k) /\
       pss_core (rk_n k) (rk_e k) (rk_hash k) (rk_salt k)
                (H (rk_hash k) (msg ++ suffix (rk_variant k))) body = true).
Proof. exact rsa_std_verify_iff. Qed.
Print Assumptions C03_rsa_verify_iff_with_length.

(* every byte string of another total length, and every prefix || body with
   |body| <> modulus length, is rejected: for every key, message, hash and
   core verification *)
Theorem C03_rsa_wrong_length_rejected :
  forall H pkcs1_core pss_core k sig body msg,
    (length sig <> (length (prefix (rk_variant k) (rk_id k)) + rsa_sig_len (rk_n k))%nat ->
     pkcs1_verify H (std_pkcs1 pkcs1_core) k sig msg = Err /\
     pss_verify H (std_pss pss_core) k sig msg = Err) /\
    (length body <> rsa_sig_len (rk_n k) ->
     pkcs1_verify H (std_pkcs1 pkcs1_core) k (prefix (rk_variant k) (rk_id k) ++ body) msg = Err /\
     pss_verify H (std_pss pss_core) k (prefix (rk_variant k) (rk_id k) ++ body) msg = Err).
Proof.
  intros. split; [apply rsa_wrong_length_rejected|apply rsa_wrong_body_length_rejected].
Qed.
Print Assumptions C03_rsa_wrong_length_rejected.

(* the failure mode of "left-pad short signatures": if prefix || 00 || body is
   accepted, then prefix || body (same integer, leading zero stripped) and
   prefix || 00 00 || body are rejected *)
Theorem C03_rsa_zero_stripped_or_padded_rejected :
  forall H pkcs1_core pss_core k body msg,
    pkcs1_verify H (std_pkcs1 pkcs1_core) k (prefix (rk_variant k) (rk_id k) ++ 0 :: body) msg = Ok tt \/
    pss_verify H (std_pss pss_core) k (prefix (rk_variant k) (rk_id k) ++ 0 :: body) msg = Ok tt ->
    be_val (0 :: body) = be_val body /\
    pkcs1_verify H (std_pkcs1 pkcs1_core) k (prefix (rk_variant k) (rk_id k) ++ body) msg = Err /\
    pss_verify H (std_pss pss_core) k (prefix (rk_variant k) (rk_id k) ++ body) msg = Err /\
    pkcs1_verify H (std_pkcs1 pkcs1_core) k (prefix (rk_variant k) (rk_id k) ++ 0 :: 0 :: body) msg = Err /\
    pss_verify H (std_pss pss_core) k (prefix (rk_variant k) (rk_id k) ++ 0 :: 0 :: body) msg = Err.
Proof. exact rsa_zero_stripped_or_padded_rejected. Qed.
Print Assumptions C03_rsa_zero_stripped_or_padded_rejected.

(* Sign returns prefix || body with |body| = modulus length (total length
   5 + k, or k for RAW), for every signing oracle whose outputs the standard
   verification accepts *)
Theorem C03_rsa_sign_has_modulus_length :
  forall H pkcs1_core pss_core
         (pkcs1_sign_raw : bytes -> hasht -> bytes -> bytes)
         (pss_sign_raw : bytes -> hasht -> N -> bytes -> bytes -> bytes)
         (rsa_pub_of : bytes -> bytes * N) k sk rnd msg,
    (forall sk h d, std_pkcs1 pkcs1_core (fst (rsa_pub_of sk)) (snd (rsa_pub_of sk)) h d (pkcs1_sign_raw sk h d) = true) ->
    (forall sk h salt d rnd,
        std_pss pss_core (fst (rsa_pub_of sk)) (snd (rsa_pub_of sk)) h salt d (pss_sign_raw sk h salt d rnd) = true) ->
    (rk_n k, rk_e k) = rsa_pub_of sk ->
    (exists body, pkcs1_sign H pkcs1_sign_raw k sk msg = prefix (rk_variant k) (rk_id k) ++ body /\
                  length body = rsa_sig_len (rk_n k)) /\
    (exists body, pss_sign H pss_sign_raw k sk rnd msg = prefix (rk_variant k) (rk_id k) ++ body /\
                  length body = rsa_sig_len (rk_n k)) /\
    length (pkcs1_sign H pkcs1_sign_raw k sk msg) =
      ((match rk_variant k with VRaw => 0 | _ => 5 end) + rsa_sig_len (rk_n k))%nat /\
    length (pss_sign H pss_sign_raw k sk rnd msg) =
      ((match rk_variant k with VRaw => 0 | _ => 5 end) + rsa_sig_len (rk_n k))%nat.
Proof. exact rsa_sign_length. Qed.
Print Assumptions C03_rsa_sign_has_modulus_length.

(* ---------------- (b) explicit rejections ---------------- *)

(* two keys have the same output prefix iff same start byte and same key id *)
Theorem C03_prefix_determines_start_byte_and_id :
  forall v id v' id', id < 4294967296 -> id' < 4294967296 ->
    (prefix v id = prefix v' id' <-> start_byte v = start_byte v' /\ (v <> VRaw -> id = id')).
Proof. exact prefix_eq_iff. Qed.
Print Assumptions C03_prefix_determines_start_byte_and_id.

(* Ed25519, for every oracle, key, signature and message:
   - a byte string that does not start with the key's output prefix is rejected;
   - every total length other than |prefix| + 64 is rejected;
   - what is accepted under one output prefix is rejected under any other
     (other key id, TINK vs CRUNCHY/LEGACY start byte, RAW key for a prefixed
     signature, prefixed key for a RAW signature), with any key and message;
   - an accepted signature with bytes appended, or cut at the end or at the
     front, is rejected. *)
Theorem C03_ed25519_explicit_rejections :
  forall (ed_raw : bytes -> bytes -> bytes -> bool) v id pub sig msg,
    ((forall t, sig <> prefix v id ++ t) -> ed25519_verify ed_raw v id pub sig msg = Err) /\
    (length sig <> (length (prefix v id) + 64)%nat -> ed25519_verify ed_raw v id pub sig msg = Err) /\
    (ed25519_verify ed_raw v id pub sig msg = Ok tt ->
     (forall v' id' pub' msg', prefix v id <> prefix v' id' ->
        ed25519_verify ed_raw v' id' pub' sig msg' = Err) /\
     (forall t, t <> [] -> ed25519_verify ed_raw v id pub (sig ++ t) msg = Err) /\
     (forall j, (j < length sig)%nat ->
        ed25519_verify ed_raw v id pub (firstn j sig) msg = Err /\
        ed25519_verify ed_raw v id pub (skipn (length sig - j) sig) msg = Err)).
Proof.
  intros. split; [apply ed25519_no_prefix_rejected|]. split; [apply ed25519_wrong_length_rejected|].
  intros Ho. split.
  - intros. eapply ed25519_other_prefix_rejected; eauto.
  - apply ed25519_trailing_truncated_rejected. exact Ho.
Qed.
Print Assumptions C03_ed25519_explicit_rejections.

(* RSA-SSA-PKCS1 / PSS.  The prefix rule holds for every standard
   verification; the other-prefix / trailing / truncated rules use the
   length rule of crypto/rsa. *)
Theorem C03_rsa_explicit_rejections :
  forall H pkcs1_raw pss_raw pkcs1_core pss_core k sig msg,
    ((forall t, sig <> prefix (rk_variant k) (rk_id k) ++ t) ->
     pkcs1_verify H pkcs1_raw k sig msg = Err /\ pss_verify H pss_raw k sig msg = Err) /\
    (forall k' msg', rsa_sig_len (rk_n k') = rsa_sig_len (rk_n k) ->
       prefix (rk_variant k) (rk_id k) <> prefix (rk_variant k') (rk_id k') ->
       (pkcs1_verify H (std_pkcs1 pkcs1_core) k sig msg = Ok tt ->
        pkcs1_verify H (std_pkcs1 pkcs1_core) k' sig msg' = Err) /\
       (pss_verify H (std_pss pss_core) k sig msg = Ok tt ->
        pss_verify H (std_pss pss_core) k' sig msg' = Err)) /\
    (pkcs1_verify H (std_pkcs1 pkcs1_core) k sig msg = Ok tt ->
     (forall t, t <> [] -> pkcs1_verify H (std_pkcs1 pkcs1_core) k (sig ++ t) msg = Err) /\
     (forall j, (j < length sig)%nat ->
        pkcs1_verify H (std_pkcs1 pkcs1_core) k (firstn j sig) msg = Err /\
        pkcs1_verify H (std_pkcs1 pkcs1_core) k (skipn (length sig - j) sig) msg = Err)) /\
    (pss_verify H (std_pss pss_core) k sig msg = Ok tt ->
     (forall t, t <> [] -> pss_verify H (std_pss pss_core) k (sig ++ t) msg = Err) /\
     (forall j, (j < length sig)%nat ->
        pss_verify H (std_pss pss_core) k (firstn j sig) msg = Err /\
        pss_verify H (std_pss pss_core) k (skipn (length sig - j) sig) msg = Err)).
Proof.
  intros. split; [apply rsa_no_prefix_rejected|].
  split; [intros; apply rsa_other_prefix_rejected; assumption|].
  apply rsa_trailing_truncated_rejected.
Qed.
Print Assumptions C03_rsa_explicit_rejections.

(* LEGACY on Sign: the signer signs msg || 00 and frames it with the CRUNCHY
   prefix 00 || id (companion of C03_legacy_is_crunchy_over_suffixed_message) *)
Theorem C03_legacy_sign_is_crunchy_over_suffixed_message :
  forall H (sign_rs : curve -> bytes -> bytes -> bytes -> N * N) (ed_sign : bytes -> bytes -> bytes)
         (pkcs1_sign_raw : bytes -> hasht -> bytes -> bytes)
         (pss_sign_raw : bytes -> hasht -> N -> bytes -> bytes -> bytes)
         k rk id sk seed rnd msg,
    ecdsa_sign H sign_rs (with_variant k VLegacy id) sk rnd msg =
      ecdsa_sign H sign_rs (with_variant k VCrunchy id) sk rnd (msg ++ [0]) /\
    ed25519_sign ed_sign VLegacy id seed msg = ed25519_sign ed_sign VCrunchy id seed (msg ++ [0]) /\
    (forall sig, ed25519_sign ed_sign VLegacy id seed msg = Ok sig ->
       sig = 0 :: be_bytes 4 id ++ ed_sign seed (msg ++ [0])) /\
    pkcs1_sign H pkcs1_sign_raw (rsa_with_variant rk VLegacy) sk msg =
      pkcs1_sign H pkcs1_sign_raw (rsa_with_variant rk VCrunchy) sk (msg ++ [0]) /\
    pss_sign H pss_sign_raw (rsa_with_variant rk VLegacy) sk rnd msg =
      pss_sign H pss_sign_raw (rsa_with_variant rk VCrunchy) sk rnd (msg ++ [0]) /\
    pkcs1_sign H pkcs1_sign_raw (rsa_with_variant rk VLegacy) sk msg =
      0 :: be_bytes 4 (rk_id rk) ++ pkcs1_sign_raw sk (rk_hash rk) (H (rk_hash rk) (msg ++ [0])) /\
    pss_sign H pss_sign_raw (rsa_with_variant rk VLegacy) sk rnd msg =
      0 :: be_bytes 4 (rk_id rk) ++ pss_sign_raw sk (rk_hash rk) (rk_salt rk) (H (rk_hash rk) (msg ++ [0])) rnd.
Proof.
  intros. split; [apply ecdsa_sign_legacy|].
  split; [apply ed25519_sign_legacy|]. split; [apply ed25519_sign_legacy|].
  apply rsa_sign_legacy.
Qed.
Print Assumptions C03_legacy_sign_is_crunchy_over_suffixed_message.

(* ---------------- (c) modified message / other key ---------------- *)
(* Repaired after the second audit (proofs/SigProofs3.v).  No unforgeability
   law is assumed anywhere: a law "the oracle accepts this raw signature for no
   other (key, representative)" is false of every real primitive (ECDSA
   public-key recovery; digest truncation in crypto/ecdsa; RSA duplicate-
   signature key selection with a free exponent; counting).  Proved instead:
   (1) acceptance of a signature Sign produced, under a FIXED other key and / or
       other message, IS a named oracle event (iff), no claim that it is hard;
   (2) same key, other message: acceptance exhibits an oracle acceptance of the
       genuine raw signature under the SAME key for another representative
       (the EUF-CMA shaped event) or a hash collision on two distinct strings.
       The second conjunct of these theorems is only a CASE LABEL (the digests
       differ, or they are equal and the strings are not): it is a tautology
       given msg' <> msg; the content is the first conjunct.  "Another digest"
       is another byte string: for P-384 with SHA-512 crypto/ecdsa uses only
       the leftmost 384 bits of the digest, so there the event includes a
       collision of the TRUNCATED hash (two distinct 64-byte digests with the
       same first 48 bytes verify alike);
   (3) other key, ECDSA: the literal clause is FALSE for keys computed from the
       signature (recovery law). *)

(* Ed25519 *)
Theorem C03_ed25519_genuine_signature_accepted_iff_oracle_event :
  forall ed_raw (ed_sign : bytes -> bytes -> bytes) v id seed msg sig pub' msg',
    ed25519_sign ed_sign v id seed msg = Ok sig ->
    (ed25519_verify ed_raw v id pub' sig msg' = Ok tt <->
     ed_raw pub' (msg' ++ suffix v) (ed_sign seed (msg ++ suffix v)) = true) /\
    (ed25519_verify ed_raw v id pub' sig msg' = Err <->
     ed_raw pub' (msg' ++ suffix v) (ed_sign seed (msg ++ suffix v)) = false).
Proof.
  intros. split; [eapply ed25519_genuine_accept_iff|eapply ed25519_genuine_reject_iff]; eassumption.
Qed.
Print Assumptions C03_ed25519_genuine_signature_accepted_iff_oracle_event.

Theorem C03_ed25519_same_key_other_message_is_oracle_forgery :
  forall ed_raw (ed_sign : bytes -> bytes -> bytes) v id seed pub msg sig msg',
    ed25519_sign ed_sign v id seed msg = Ok sig ->
    ed25519_verify ed_raw v id pub sig msg' = Ok tt ->
    msg' <> msg ->
    ed_raw pub (msg' ++ suffix v) (ed_sign seed (msg ++ suffix v)) = true /\
    msg' ++ suffix v <> msg ++ suffix v.
Proof. exact ed25519_same_key_other_message_reduction. Qed.
Print Assumptions C03_ed25519_same_key_other_message_is_oracle_forgery.

(* RSA-SSA-PKCS1: k' is any key with the same output prefix (modulus, exponent
   and hash may differ) *)
Theorem C03_rsa_pkcs1_genuine_signature_accepted_iff_oracle_event :
  forall H pkcs1_raw (pkcs1_sign_raw : bytes -> hasht -> bytes -> bytes) k k' sk msg msg',
    rsa_same_prefix k k' ->
    let sfx := suffix (rk_variant k) in
    let body := pkcs1_sign_raw sk (rk_hash k) (H (rk_hash k) (msg ++ sfx)) in
    (pkcs1_verify H pkcs1_raw k' (pkcs1_sign H pkcs1_sign_raw k sk msg) msg' = Ok tt <->
     pkcs1_raw (rk_n k') (rk_e k') (rk_hash k') (H (rk_hash k') (msg' ++ sfx)) body = true) /\
    (pkcs1_verify H pkcs1_raw k' (pkcs1_sign H pkcs1_sign_raw k sk msg) msg' = Err <->
     pkcs1_raw (rk_n k') (rk_e k') (rk_hash k') (H (rk_hash k') (msg' ++ sfx)) body = false).
Proof. exact pkcs1_genuine_accept_iff. Qed.
Print Assumptions C03_rsa_pkcs1_genuine_signature_accepted_iff_oracle_event.

Theorem C03_rsa_pkcs1_same_key_other_message_is_oracle_forgery :
  forall H pkcs1_raw (pkcs1_sign_raw : bytes -> hasht -> bytes -> bytes) k sk msg msg',
    pkcs1_verify H pkcs1_raw k (pkcs1_sign H pkcs1_sign_raw k sk msg) msg' = Ok tt ->
    msg' <> msg ->
    let sfx := suffix (rk_variant k) in
    let body := pkcs1_sign_raw sk (rk_hash k) (H (rk_hash k) (msg ++ sfx)) in
    pkcs1_raw (rk_n k) (rk_e k) (rk_hash k) (H (rk_hash k) (msg' ++ sfx)) body = true /\
    (H (rk_hash k) (msg' ++ sfx) <> H (rk_hash k) (msg ++ sfx) \/
     (H (rk_hash k) (msg' ++ sfx) = H (rk_hash k) (msg ++ sfx) /\ msg' ++ sfx <> msg ++ sfx)).
Proof. exact pkcs1_same_key_other_message_reduction. Qed.
Print Assumptions C03_rsa_pkcs1_same_key_other_message_is_oracle_forgery.

(* RSA-SSA-PSS: the salt length belongs to the key *)
Theorem C03_rsa_pss_genuine_signature_accepted_iff_oracle_event :
  forall H pss_raw (pss_sign_raw : bytes -> hasht -> N -> bytes -> bytes -> bytes) k k' sk rnd msg msg',
    rsa_same_prefix k k' ->
    let sfx := suffix (rk_variant k) in
    let body := pss_sign_raw sk (rk_hash k) (rk_salt k) (H (rk_hash k) (msg ++ sfx)) rnd in
    (pss_verify H pss_raw k' (pss_sign H pss_sign_raw k sk rnd msg) msg' = Ok tt <->
     pss_raw (rk_n k') (rk_e k') (rk_hash k') (rk_salt k') (H (rk_hash k') (msg' ++ sfx)) body = true) /\
    (pss_verify H pss_raw k' (pss_sign H pss_sign_raw k sk rnd msg) msg' = Err <->
     pss_raw (rk_n k') (rk_e k') (rk_hash k') (rk_salt k') (H (rk_hash k') (msg' ++ sfx)) body = false).
Proof. exact pss_genuine_accept_iff. Qed.
Print Assumptions C03_rsa_pss_genuine_signature_accepted_iff_oracle_event.

Theorem C03_rsa_pss_same_key_other_message_is_oracle_forgery :
  forall H pss_raw (pss_sign_raw : bytes -> hasht -> N -> bytes -> bytes -> bytes) k sk rnd msg msg',
    pss_verify H pss_raw k (pss_sign H pss_sign_raw k sk rnd msg) msg' = Ok tt ->
    msg' <> msg ->
    let sfx := suffix (rk_variant k) in
    let body := pss_sign_raw sk (rk_hash k) (rk_salt k) (H (rk_hash k) (msg ++ sfx)) rnd in
    pss_raw (rk_n k) (rk_e k) (rk_hash k) (rk_salt k) (H (rk_hash k) (msg' ++ sfx)) body = true /\
    (H (rk_hash k) (msg' ++ sfx) <> H (rk_hash k) (msg ++ sfx) \/
     (H (rk_hash k) (msg' ++ sfx) = H (rk_hash k) (msg ++ sfx) /\ msg' ++ sfx <> msg ++ sfx)).
Proof. exact pss_same_key_other_message_reduction. Qed.
Print Assumptions C03_rsa_pss_same_key_other_message_is_oracle_forgery.

(* ECDSA (both encodings).  The verifying key keeps curve, encoding and prefix
   and has any public point and hash. *)
Theorem C03_ecdsa_genuine_signature_accepted_iff_oracle_event :
  forall H raw (sign_rs : curve -> bytes -> bytes -> bytes -> N * N),
    (forall c sk h rnd, fst (sign_rs c sk h rnd) < 256 ^ N.of_nat (field_size c) /\
                        snd (sign_rs c sk h rnd) < 256 ^ N.of_nat (field_size c)) ->
    forall k sk rnd msg sig pub' h' msg',
    ecdsa_sign H sign_rs k sk rnd msg = Some sig ->
    let sfx := suffix (ek_variant k) in
    let rs := sign_rs (ek_curve k) sk (H (ek_hash k) (msg ++ sfx)) rnd in
    (ecdsa_verify H raw (ecdsa_with_pub_hash k pub' h') sig msg' = Ok tt <->
     raw (ek_curve k) pub' (H h' (msg' ++ sfx)) (fst rs) (snd rs) = true) /\
    (ecdsa_verify H raw (ecdsa_with_pub_hash k pub' h') sig msg' = Err <->
     raw (ek_curve k) pub' (H h' (msg' ++ sfx)) (fst rs) (snd rs) = false).
Proof. exact ecdsa_genuine_accept_iff. Qed.
Print Assumptions C03_ecdsa_genuine_signature_accepted_iff_oracle_event.

Theorem C03_ecdsa_same_key_other_message_is_oracle_forgery :
  forall H raw (sign_rs : curve -> bytes -> bytes -> bytes -> N * N),
    (forall c sk h rnd, fst (sign_rs c sk h rnd) < 256 ^ N.of_nat (field_size c) /\
                        snd (sign_rs c sk h rnd) < 256 ^ N.of_nat (field_size c)) ->
    forall k sk rnd msg sig msg',
    ecdsa_sign H sign_rs k sk rnd msg = Some sig ->
    ecdsa_verify H raw k sig msg' = Ok tt ->
    msg' <> msg ->
    let sfx := suffix (ek_variant k) in
    let rs := sign_rs (ek_curve k) sk (H (ek_hash k) (msg ++ sfx)) rnd in
    raw (ek_curve k) (ek_pub k) (H (ek_hash k) (msg' ++ sfx)) (fst rs) (snd rs) = true /\
    (H (ek_hash k) (msg' ++ sfx) <> H (ek_hash k) (msg ++ sfx) \/
     (H (ek_hash k) (msg' ++ sfx) = H (ek_hash k) (msg ++ sfx) /\ msg' ++ sfx <> msg ++ sfx)).
Proof. exact ecdsa_same_key_other_message_reduction. Qed.
Print Assumptions C03_ecdsa_same_key_other_message_is_oracle_forgery.

(* "Signatures are rejected under other keys" is REFUTED for ECDSA.  First
   form: the premises are what public-key recovery provides (a point p' other
   than the signer's that verifies the genuine (r, s) for the digest of ANY
   message msg' -- p' = r^-1 (s R - d' G), R a point with abscissa r; the
   harness computes it with crypto/elliptic and the Example's toy oracle has
   it); conclusion: it is NOT the case that every other key rejects.  Second
   form: from an existence law on the oracle that real ECDSA satisfies (the key
   recovered from the second candidate -R verifies the same digest), for the
   genuine message itself.  This is a property of ECDSA, not of tink-go: "other
   key rejected" holds for independently generated keys only up to the
   primitive (C03_ecdsa_genuine_signature_accepted_iff_oracle_event names the
   event). *)
Theorem C03_ecdsa_other_key_rejected_refuted :
  forall H raw (sign_rs : curve -> bytes -> bytes -> bytes -> N * N),
    (forall c sk h rnd, fst (sign_rs c sk h rnd) < 256 ^ N.of_nat (field_size c) /\
                        snd (sign_rs c sk h rnd) < 256 ^ N.of_nat (field_size c)) ->
    forall k sk rnd msg sig h' msg' p',
    ecdsa_sign H sign_rs k sk rnd msg = Some sig ->
    let sfx := suffix (ek_variant k) in
    let rs := sign_rs (ek_curve k) sk (H (ek_hash k) (msg ++ sfx)) rnd in
    raw (ek_curve k) p' (H h' (msg' ++ sfx)) (fst rs) (snd rs) = true ->
    p' <> ek_pub k ->
    ~ (forall pub', pub' <> ek_pub k ->
         ecdsa_verify H raw (ecdsa_with_pub_hash k pub' h') sig msg' = Err).
Proof. exact ecdsa_other_key_rejected_refuted. Qed.
Print Assumptions C03_ecdsa_other_key_rejected_refuted.

Theorem C03_ecdsa_other_key_rejected_refuted_by_existence_law :
  forall H raw (sign_rs : curve -> bytes -> bytes -> bytes -> N * N),
    (forall c sk h rnd, fst (sign_rs c sk h rnd) < 256 ^ N.of_nat (field_size c) /\
                        snd (sign_rs c sk h rnd) < 256 ^ N.of_nat (field_size c)) ->
    forall k sk rnd msg sig,
    (forall c p d r s, raw c p d r s = true -> exists p', p' <> p /\ raw c p' d r s = true) ->
    ecdsa_sign H sign_rs k sk rnd msg = Some sig ->
    ecdsa_verify H raw k sig msg = Ok tt ->
    ~ (forall pub', pub' <> ek_pub k ->
         ecdsa_verify H raw (ecdsa_with_pub_hash k pub' (ek_hash k)) sig msg = Err).
Proof. exact ecdsa_other_key_rejected_refuted_by_existence. Qed.
Print Assumptions C03_ecdsa_other_key_rejected_refuted_by_existence_law.

(* ---------------- the premises of the second round are inhabited ---------------- *)

(* a 2048-bit modulus 80 00..00 (256 bytes); a "signature" 00 07..07 whose
   first byte is zero; a core verification that only looks at the INTEGER the
   signature denotes (what a verifier that left-pads short signatures does) *)
Definition n2048 : bytes := 128 :: repeat 0 255.
Definition zsig : bytes := 0 :: repeat 7 255.
Definition toy_rsa (v : variant) (n : bytes) (h : hasht) : rsa_key :=
  {| rk_hash := h; rk_variant := v; rk_id := 16909060; rk_n := n; rk_e := 65537; rk_salt := 32 |}.
Definition toy_pkcs1_core (_ : bytes) (_ : N) (_ : hasht) (_ sig : bytes) : bool := be_val sig =? be_val zsig.
Definition toy_pss_core (_ : bytes) (_ : N) (_ : hasht) (_ : N) (_ sig : bytes) : bool := be_val sig =? be_val zsig.
Definition toy_pkcs1_sign (_ : bytes) (_ : hasht) (_ : bytes) : bytes := zsig.
Definition toy_pss_sign (_ : bytes) (_ : hasht) (_ : N) (_ _ : bytes) : bytes := zsig.
Definition toy_rsa_pub_of (_ : bytes) : bytes * N := (n2048, 65537).

Example C03_example_rsa_length :
  rsa_sig_len n2048 = 256%nat /\ rsa_sig_len (0 :: 0 :: n2048) = 256%nat /\ rsa_key_ok n2048 65537 = true /\
  length zsig = 256%nat /\
  (* the genuine 256-byte signature is accepted ... *)
  pkcs1_verify toyH (std_pkcs1 toy_pkcs1_core) (toy_rsa VTink n2048 SHA256) ([1;1;2;3;4] ++ zsig) [9] = Ok tt /\
  pss_verify toyH (std_pss toy_pss_core) (toy_rsa VRaw n2048 SHA256) zsig [9] = Ok tt /\
  (* ... its zero-stripped 255-byte form denotes the same integer and the core
     alone would take it, but Verify rejects it, and 257 bytes as well *)
  toy_pkcs1_core n2048 65537 SHA256 [9] (tl zsig) = true /\
  pkcs1_verify toyH (std_pkcs1 toy_pkcs1_core) (toy_rsa VTink n2048 SHA256) ([1;1;2;3;4] ++ tl zsig) [9] = Err /\
  pkcs1_verify toyH (std_pkcs1 toy_pkcs1_core) (toy_rsa VTink n2048 SHA256) ([1;1;2;3;4] ++ 0 :: zsig) [9] = Err /\
  pss_verify toyH (std_pss toy_pss_core) (toy_rsa VRaw n2048 SHA256) (tl zsig) [9] = Err /\
  pss_verify toyH (std_pss toy_pss_core) (toy_rsa VRaw n2048 SHA256) (zsig ++ [0]) [9] = Err /\
  (* a TINK signature under the RAW key of the same modulus, and conversely *)
  pkcs1_verify toyH (std_pkcs1 toy_pkcs1_core) (toy_rsa VRaw n2048 SHA256) ([1;1;2;3;4] ++ zsig) [9] = Err /\
  pkcs1_verify toyH (std_pkcs1 toy_pkcs1_core) (toy_rsa VTink n2048 SHA256) zsig [9] = Err.
Proof. vm_compute. repeat split; reflexivity. Qed.

(* the laws of C03_rsa_sign_has_modulus_length hold for the toy oracles *)
Example C03_example_rsa_sign_law :
  (forall sk h d, std_pkcs1 toy_pkcs1_core (fst (toy_rsa_pub_of sk)) (snd (toy_rsa_pub_of sk)) h d (toy_pkcs1_sign sk h d) = true) /\
  (forall sk h salt d rnd,
      std_pss toy_pss_core (fst (toy_rsa_pub_of sk)) (snd (toy_rsa_pub_of sk)) h salt d (toy_pss_sign sk h salt d rnd) = true) /\
  (rk_n (toy_rsa VLegacy n2048 SHA256), rk_e (toy_rsa VLegacy n2048 SHA256)) = toy_rsa_pub_of [5] /\
  length (pkcs1_sign toyH toy_pkcs1_sign (toy_rsa VLegacy n2048 SHA256) [5] [9]) = 261%nat.
Proof. repeat split; intros; vm_compute; reflexivity. Qed.

(* Ed25519: an accepted signature (premise of the explicit rejections); a lax
   oracle under which a modified message IS accepted (premises of the
   reduction); a strict oracle satisfying the no-forgery hypothesis *)
Definition toy_ed_sign (_ _ : bytes) : bytes := repeat 1 64.
Definition toy_ed_lax (_ _ _ : bytes) : bool := true.
Definition toy_ed_strict (p m s : bytes) : bool := beq p [7] && beq m [9] && beq s (repeat 1 64).
Definition toy_ed_sig : bytes := [1;1;2;3;4] ++ repeat 1 64.

Example C03_example_ed25519 :
  ed25519_sign toy_ed_sign VTink 16909060 [5] [9] = Ok toy_ed_sig /\
  ed25519_verify toy_ed_strict VTink 16909060 [7] toy_ed_sig [9] = Ok tt /\
  ed25519_verify toy_ed_strict VTink 16909060 [7] (toy_ed_sig ++ [0]) [9] = Err /\
  ed25519_verify toy_ed_strict VTink 16909060 [7] (firstn 68 toy_ed_sig) [9] = Err /\
  ed25519_verify toy_ed_strict VTink 16909061 [7] toy_ed_sig [9] = Err /\
  ed25519_verify toy_ed_strict VCrunchy 16909060 [7] toy_ed_sig [9] = Err /\
  ed25519_verify toy_ed_strict VRaw 16909060 [7] toy_ed_sig [9] = Err /\
  ed25519_verify toy_ed_strict VTink 16909060 [7] (skipn 5 toy_ed_sig) [9] = Err /\
  (* lax oracle: the modified message is accepted under the same key (premises
     of the same-key reduction), and under another key (the named event) *)
  ed25519_verify toy_ed_lax VTink 16909060 [7] toy_ed_sig [10] = Ok tt /\ [10] <> ([9] : bytes) /\
  ed25519_verify toy_ed_lax VTink 16909060 [8] toy_ed_sig [9] = Ok tt /\
  (* strict oracle: the event does not occur and Verify rejects *)
  toy_ed_strict [7] ([10] ++ suffix VTink) (toy_ed_sign [5] ([9] ++ suffix VTink)) = false /\
  ed25519_verify toy_ed_strict VTink 16909060 [7] toy_ed_sig [10] = Err.
Proof. repeat split; try (vm_compute; reflexivity); discriminate. Qed.

(* RSA: with the lax core a modified message is accepted under the same key
   (premises of the same-key reduction, first disjunct: another digest); with a
   constant hash the second disjunct is a collision of two DISTINCT strings;
   another key (modulus and hash) with the same prefix: the named event; a
   strict oracle: the event does not occur and Verify rejects *)
Definition toyHconst (_ : hasht) (_ : bytes) : bytes := [0].
Definition hash_is256 (h : hasht) : bool := match h with SHA256 => true | _ => false end.
Definition toy_pkcs1_strict (n : bytes) (e : N) (h : hasht) (d sig : bytes) : bool :=
  beq n n2048 && (e =? 65537) && hash_is256 h && beq d [9] && beq sig zsig.
Definition toy_pss_strict (n : bytes) (e : N) (h : hasht) (s : N) (d sig : bytes) : bool :=
  beq n n2048 && (e =? 65537) && hash_is256 h && (s =? 32) && beq d [9] && beq sig zsig.

Example C03_example_rsa_reduction :
  let k := toy_rsa VTink n2048 SHA256 in
  let k' := toy_rsa VTink (129 :: repeat 0 255) SHA384 in
  rsa_same_prefix k k' /\
  pkcs1_verify toyH toy_pkcs1_core k (pkcs1_sign toyH toy_pkcs1_sign k [5] [9]) [10] = Ok tt /\
  [10] <> ([9] : bytes) /\
  toyH SHA256 ([10] ++ suffix VTink) <> toyH SHA256 ([9] ++ suffix VTink) /\
  pss_verify toyH toy_pss_core k (pss_sign toyH toy_pss_sign k [5] [6] [9]) [10] = Ok tt /\
  pkcs1_verify toyHconst toy_pkcs1_core k (pkcs1_sign toyHconst toy_pkcs1_sign k [5] [9]) [10] = Ok tt /\
  toyHconst SHA256 ([10] ++ suffix VTink) = toyHconst SHA256 ([9] ++ suffix VTink) /\
  [10] ++ suffix VTink <> [9] ++ suffix VTink /\
  pkcs1_verify toyH toy_pkcs1_core k' (pkcs1_sign toyH toy_pkcs1_sign k [5] [9]) [9] = Ok tt /\
  pkcs1_verify toyH toy_pkcs1_strict k (pkcs1_sign toyH toy_pkcs1_sign k [5] [9]) [9] = Ok tt /\
  pkcs1_verify toyH toy_pkcs1_strict k (pkcs1_sign toyH toy_pkcs1_sign k [5] [9]) [10] = Err /\
  pkcs1_verify toyH toy_pkcs1_strict k' (pkcs1_sign toyH toy_pkcs1_sign k [5] [9]) [9] = Err /\
  pss_verify toyH toy_pss_strict k (pss_sign toyH toy_pss_sign k [5] [6] [9]) [9] = Ok tt /\
  pss_verify toyH toy_pss_strict k (pss_sign toyH toy_pss_sign k [5] [6] [9]) [10] = Err.
Proof. cbv zeta. repeat split; try (vm_compute; reflexivity); discriminate. Qed.

(* ECDSA: toy_raw ignores point and digest, so a modified message is accepted
   under the same key (premises of the same-key reduction).  A toy oracle WITH
   recovery: toy_raw_rec accepts (r, s) for digest d exactly under the point
   04 || d; recovery returns that point, its law holds, and the genuine
   signature for message [9] is accepted for message [10] under the recovered
   key, which differs from the signer's key. *)
Definition toy_sign_rs (_ : curve) (_ _ _ : bytes) : N * N := (7, 300).
(* verifies (7, 300) for digest d under the two points 04 || d and 05 || d *)
Definition toy_raw_rec (_ : curve) (p d : bytes) (r s : N) : bool :=
  (beq p (4 :: d) || beq p (5 :: d)) && (r =? 7) && (s =? 300).

Example C03_example_ecdsa_reduction :
  (forall c sk h rnd, fst (toy_sign_rs c sk h rnd) < 256 ^ N.of_nat (field_size c) /\
                      snd (toy_sign_rs c sk h rnd) < 256 ^ N.of_nat (field_size c)) /\
  ecdsa_sign toyH toy_sign_rs (toy_key DER VTink) [5] [6] [9] = Some [1;1;2;3;4; 48;7; 2;1;7; 2;2;1;44] /\
  ecdsa_verify toyH toy_raw (toy_key DER VTink) [1;1;2;3;4; 48;7; 2;1;7; 2;2;1;44] [10] = Ok tt /\
  [10] <> ([9] : bytes) /\
  (* first form: the signer's key is 04 09; the point 04 0a verifies the genuine
     (r, s) for the digest of message [10], and it is another key *)
  (let k := ecdsa_with_pub_hash (toy_key DER VTink) [4; 9] SHA256 in
   ecdsa_sign toyH toy_sign_rs k [5] [6] [9] = Some [1;1;2;3;4; 48;7; 2;1;7; 2;2;1;44] /\
   ecdsa_verify toyH toy_raw_rec k [1;1;2;3;4; 48;7; 2;1;7; 2;2;1;44] [9] = Ok tt /\
   toy_raw_rec P256 [4; 10] (toyH SHA256 ([10] ++ suffix VTink)) 7 300 = true /\
   [4; 10] <> ek_pub k /\
   ecdsa_verify toyH toy_raw_rec (ecdsa_with_pub_hash k [4; 10] SHA256) [1;1;2;3;4; 48;7; 2;1;7; 2;2;1;44] [10] = Ok tt /\
   (* under the signer's own key the other message is rejected by this oracle *)
   ecdsa_verify toyH toy_raw_rec k [1;1;2;3;4; 48;7; 2;1;7; 2;2;1;44] [10] = Err /\
   (* second form: the genuine message under the other point 05 09 *)
   ecdsa_verify toyH toy_raw_rec (ecdsa_with_pub_hash k [5; 9] SHA256) [1;1;2;3;4; 48;7; 2;1;7; 2;2;1;44] [9] = Ok tt) /\
  (* the existence law holds for this oracle *)
  (forall c p d r s, toy_raw_rec c p d r s = true -> exists p', p' <> p /\ toy_raw_rec c p' d r s = true).
Proof.
  split; [intros c sk h rnd; destruct c; vm_compute; split; reflexivity|].
  cbv zeta. repeat split; try (vm_compute; reflexivity); try discriminate.
  intros c p d r s Hc. unfold toy_raw_rec in *.
  apply andb_true_iff in Hc. destruct Hc as [Hc Hs]. apply andb_true_iff in Hc. destruct Hc as [Hp Hr].
  rewrite Hr, Hs. apply orb_true_iff in Hp. destruct Hp as [Hp|Hp]; apply beq_eq in Hp; subst p.
  - exists (5 :: d). split; [discriminate|]. rewrite (beq_refl (5 :: d)), orb_true_r. reflexivity.
  - exists (4 :: d). split; [discriminate|]. rewrite (beq_refl (4 :: d)). reflexivity.
Qed.

(* ====================================================================== *)
(* Third round: RFC 8017 written from the RFC (model/Rsa8017.v: I2OSP, OS2IP,
   RSAVP1, EMSA-PKCS1-v1_5 with the DigestInfo prefixes, MGF1, EMSA-PSS-ENCODE /
   -VERIFY, RSASSA-PSS / RSASSA-PKCS1-v1_5 sign and verify), over the oracles
   Hash, rsaep (x^e mod n) and rsadp (x^d mod n).  This is the "independent
   strict verifier" of the property for RSA, in Coq; the extracted functions
   rfc_pkcs1_verify / rfc_pss_verify ARE what the model run uses as the
   standard verification (ocaml/c03.ml), with only the hash and s^e mod n
   answered by the standard library.  Proofs: proofs/Rsa8017Proofs.v. *)

(* I2OSP as run (digits read off the bits of the number) is the reference
   definition by division, and the octet length k = ceil(modBits/8) is
   rsa_sig_len *)
Theorem C03_rfc8017_i2osp_and_k_are_the_reference_definitions :
  (forall len x, i2osp len x = if x <? 256 ^ N.of_nat len then Some (be_bytes len x) else None) /\
  (forall n, k_octets n = rsa_sig_len n).
Proof. split; [exact i2osp_spec|exact k_octets_eq]. Qed.
Print Assumptions C03_rfc8017_i2osp_and_k_are_the_reference_definitions.

(* the RFC verifications are "length check, then core": every theorem about
   std_pkcs1 / std_pss above (wrong length, zero-stripped, other prefix,
   trailing, truncated) holds for them *)
Theorem C03_rfc8017_verify_is_length_check_then_core :
  forall Hash rsaep n e h sl d sig,
    rfc_pkcs1_verify rsaep n e h d sig = std_pkcs1 (rfc_pkcs1_core rsaep) n e h d sig /\
    rfc_pss_verify Hash rsaep n e h sl d sig = std_pss (rfc_pss_core Hash rsaep) n e h sl d sig.
Proof. intros. split; [apply rfc_pkcs1_is_std|apply rfc_pss_is_std]. Qed.
Print Assumptions C03_rfc8017_verify_is_length_check_then_core.

(* EMSA-PSS-VERIFY (9.1.2) accepts EXACTLY the EMSA-PSS-ENCODE (9.1.1)
   encodings of mHash with a salt of exactly sLen octets: the salt length is
   bound, and an encoded message determines its salt.  Only law: the hash
   returns hLen octets. *)
Theorem C03_rfc8017_emsa_pss_verify_accepts_exactly_the_encodings :
  forall Hash, (forall h m, length (Hash h m) = hlen h) ->
  forall h mHash EM emBits sLen,
    (emsa_pss_verify Hash h mHash EM emBits sLen = true <->
     exists salt, length salt = sLen /\ emsa_pss_encode Hash h mHash emBits salt = Some EM) /\
    (forall salt salt', emsa_pss_encode Hash h mHash emBits salt = Some EM ->
                        emsa_pss_encode Hash h mHash emBits salt' = Some EM -> salt' = salt).
Proof.
  intros Hash HL h mHash EM emBits sLen. split; [apply emsa_pss_verify_iff; exact HL|].
  intros salt salt'. apply emsa_pss_salt_length_is_bound. exact HL.
Qed.
Print Assumptions C03_rfc8017_emsa_pss_verify_accepts_exactly_the_encodings.

(* RSASSA sign-then-verify, from the RFC algorithms alone.  Laws: the hash
   returns hLen octets below 256; rsadp / rsaep are inverse permutations of
   [0, n).  No law about the verification result is assumed any more. *)
Theorem C03_rfc8017_sign_then_verify :
  forall Hash rsaep rsadp,
    (forall h m, length (Hash h m) = hlen h) -> (forall h m, wfb (Hash h m)) ->
  forall n e sk,
    (forall m, m < be_val n -> rsadp sk m < be_val n /\ rsaep n e (rsadp sk m) = m) ->
  forall h digest salt,
    wfb digest -> length digest = hlen h ->
    ((length (digest_info h) + hlen h + 11 <= rsa_sig_len n)%nat ->
     exists sig, rfc_pkcs1_sign rsadp n sk h digest = Some sig /\
                 rfc_pkcs1_verify rsaep n e h digest sig = true) /\
    (wfb salt -> (1 <= mod_bits n)%nat -> (hlen h + length salt + 2 <= (mod_bits n - 1 + 7) / 8)%nat ->
     exists sig, rfc_pss_sign Hash rsadp n sk h digest salt = Some sig /\
                 rfc_pss_verify Hash rsaep n e h (N.of_nat (length salt)) digest sig = true).
Proof.
  intros Hash rsaep rsadp HL HW n e sk HP h digest salt Wd Ld. split.
  - intros Hk. eapply rfc_pkcs1_sign_then_verify; eauto.
  - intros Ws Hm Hs. eapply rfc_pss_sign_then_verify; eauto.
Qed.
Print Assumptions C03_rfc8017_sign_then_verify.

(* ---- crypto/rsa as tink-go calls it ----
   pkcs1_verify / pss_verify are parametric in the standard verification.  The
   instance below is a MODEL of the calls tink-go makes, written over the RFC
   functions (it is not derived from the source of crypto/rsa; what ties it to
   crypto/rsa is the differential run, in which exactly these extracted
   functions stand for the library):
     rsa.VerifyPKCS1v15(pub, hash, digest, sig)           := rfc_pkcs1_verify
     rsa.VerifyPSS(pub, hash, digest, sig, {SaltLength: sl}) := go_pss_verify sl
   where go_pss_verify transcribes the option handling of crypto/rsa: a
   positive sl is the strict sLen; sl = 0 is PSSSaltLengthAuto, i.e. the salt
   length is detected from the position of the 0x01 separator.  tink-go passes
   the key's SaltLengthBytes unchanged, so for keys with salt length 0 the salt
   length is NOT bound -- the known finding "rsassapss saltlen=0 not bound" is
   part of this model and of the theorems below. *)

(* the option handling: positive = strict; 0 = some salt length *)
Theorem C03_go_pss_salt_length_option :
  forall Hash rsaep, (forall h m, length (Hash h m) = hlen h) ->
  forall n e h sl d sig,
    (sl <> 0 -> go_pss_verify Hash rsaep n e h sl d sig = rfc_pss_verify Hash rsaep n e h sl d sig) /\
    (go_pss_verify Hash rsaep n e h 0 d sig = true <->
     exists sl' : N, rfc_pss_verify Hash rsaep n e h sl' d sig = true) /\
    go_pss_verify Hash rsaep n e h sl d sig = std_pss (go_pss_verify Hash rsaep) n e h sl d sig.
Proof.
  intros Hash rsaep HL n e h sl d sig. split; [apply go_pss_verify_positive|].
  split; [apply go_pss_verify_zero_iff; exact HL|apply go_pss_is_std; exact HL].
Qed.
Print Assumptions C03_go_pss_salt_length_option.

(* accept sets of tink-go over this model of the library calls *)
Theorem C03_rsa_accept_set_with_go_calls_over_rfc8017 :
  forall Hash rsaep, (forall h m, length (Hash h m) = hlen h) ->
  forall k sig msg,
    let d := Hash (rk_hash k) (msg ++ suffix (rk_variant k)) in
    (pkcs1_verify Hash (rfc_pkcs1_verify rsaep) k sig msg = Ok tt <->
     exists body, sig = prefix (rk_variant k) (rk_id k) ++ body /\
       rfc_pkcs1_verify rsaep (rk_n k) (rk_e k) (rk_hash k) d body = true) /\
    (* a key with a positive salt length: exactly that salt length *)
    (rk_salt k <> 0 ->
     (pss_verify Hash (go_pss_verify Hash rsaep) k sig msg = Ok tt <->
      exists body, sig = prefix (rk_variant k) (rk_id k) ++ body /\
        rfc_pss_verify Hash rsaep (rk_n k) (rk_e k) (rk_hash k) (rk_salt k) d body = true)) /\
    (* a key with salt length 0: ANY salt length (the known finding) *)
    (rk_salt k = 0 ->
     (pss_verify Hash (go_pss_verify Hash rsaep) k sig msg = Ok tt <->
      exists body sl, sig = prefix (rk_variant k) (rk_id k) ++ body /\
        rfc_pss_verify Hash rsaep (rk_n k) (rk_e k) (rk_hash k) sl d body = true)).
Proof.
  intros Hash rsaep HL k sig msg d. split; [apply pkcs1_verify_iff_proof|]. split.
  - intros Hs. rewrite pss_verify_iff_proof. fold d. split; intros [body [E V]]; exists body; split; auto.
    + rewrite <- go_pss_verify_positive by exact Hs. exact V.
    + rewrite go_pss_verify_positive by exact Hs. exact V.
  - intros Hs. rewrite pss_verify_iff_proof. fold d. rewrite Hs. split.
    + intros [body [E V]]. apply (go_pss_verify_zero_iff Hash rsaep HL) in V. destruct V as [sl V].
      exists body, sl. auto.
    + intros [body [sl [E V]]]. exists body. split; [exact E|].
      apply (go_pss_verify_zero_iff Hash rsaep HL). exists sl. exact V.
Qed.
Print Assumptions C03_rsa_accept_set_with_go_calls_over_rfc8017.

(* The known finding as a theorem: for a key whose salt length is 0, an
   encoding made with ANY non-empty salt is accepted by the auto-detecting
   verification although the strict EMSA-PSS-VERIFY with sLen = 0 rejects it. *)
Theorem C03_rsa_pss_salt_length_zero_is_not_bound :
  forall Hash, (forall h m, length (Hash h m) = hlen h) ->
  forall h mHash emBits salt EM,
    emsa_pss_encode Hash h mHash emBits salt = Some EM -> salt <> [] ->
    emsa_pss_verify_auto Hash h mHash EM emBits = true /\
    emsa_pss_verify Hash h mHash EM emBits 0 = false.
Proof.
  intros Hash HL h mHash emBits salt EM He Hne. split.
  - apply (emsa_pss_verify_auto_iff Hash HL). exists (length salt).
    apply emsa_pss_verify_encode; assumption.
  - destruct (emsa_pss_verify Hash h mHash EM emBits 0) eqn:Ev; [exfalso|reflexivity].
    apply (emsa_pss_verify_only_encodings Hash HL) in Ev. destruct Ev as [s0 [L0 E0]].
    pose proof (emsa_pss_salt_length_is_bound Hash HL h mHash emBits salt s0 EM He E0) as Es.
    subst s0. destruct salt; [contradiction|discriminate].
Qed.
Print Assumptions C03_rsa_pss_salt_length_zero_is_not_bound.

(* what the RFC signer produces for Hash(msg || suffix), framed with the key's
   prefix, is accepted by tink-go over the modelled library calls: PKCS1 always;
   PSS when the salt has the key's salt length, or ANY length (that fits) when
   the key's salt length is 0 -- crypto/rsa.SignPSS then uses the maximal
   length go_pss_salt_len = emLen - 2 - hLen *)
Theorem C03_rsa_rfc8017_signature_verifies_under_tink :
  forall Hash rsaep rsadp,
    (forall h m, length (Hash h m) = hlen h) -> (forall h m, wfb (Hash h m)) ->
  forall k sk,
    (forall m, m < be_val (rk_n k) -> rsadp sk m < be_val (rk_n k) /\ rsaep (rk_n k) (rk_e k) (rsadp sk m) = m) ->
    rsa_key_ok (rk_n k) (rk_e k) = true ->
  forall msg salt,
    let d := Hash (rk_hash k) (msg ++ suffix (rk_variant k)) in
    (exists body, rfc_pkcs1_sign rsadp (rk_n k) sk (rk_hash k) d = Some body /\
       pkcs1_verify Hash (rfc_pkcs1_verify rsaep) k (prefix (rk_variant k) (rk_id k) ++ body) msg = Ok tt) /\
    (wfb salt -> (rk_salt k = 0 \/ N.of_nat (length salt) = rk_salt k) ->
     (hlen (rk_hash k) + length salt + 2 <= (mod_bits (rk_n k) - 1 + 7) / 8)%nat ->
     exists body, rfc_pss_sign Hash rsadp (rk_n k) sk (rk_hash k) d salt = Some body /\
       pss_verify Hash (go_pss_verify Hash rsaep) k (prefix (rk_variant k) (rk_id k) ++ body) msg = Ok tt) /\
    (rk_salt k = 0 ->
     (hlen (rk_hash k) + go_pss_salt_len (rk_n k) (rk_hash k) (rk_salt k) + 2 = (mod_bits (rk_n k) - 1 + 7) / 8)%nat).
Proof.
  intros Hash rsaep rsadp HL HW k sk HP Hok msg salt d.
  pose proof (rsa_key_ok_sig_len _ _ Hok) as Hk.
  assert (Hm : (2048 <= mod_bits (rk_n k))%nat).
  { unfold rsa_key_ok in Hok. apply andb_true_iff in Hok. destruct Hok as [Hb _].
    apply N.leb_le in Hb. unfold mod_bits. lia. }
  split; [|split].
  - destruct (rfc_pkcs1_sign_then_verify Hash rsaep rsadp HL HW (rk_n k) (rk_e k) sk HP (rk_hash k) d
                (HW _ _) (HL _ _)) as [body [S V]].
    { destruct (rk_hash k); cbn [digest_info hlen length]; lia. }
    exists body. split; [exact S|]. apply pkcs1_verify_iff_proof. exists body. auto.
  - intros Ws Es Hs.
    destruct (rfc_pss_sign_then_verify Hash rsaep rsadp HL HW (rk_n k) (rk_e k) sk HP (rk_hash k) d salt
                (HW _ _) Ws (HL _ _) ltac:(lia) Hs) as [body [S V]].
    exists body. split; [exact S|]. apply pss_verify_iff_proof. exists body. split; [reflexivity|].
    fold d. destruct Es as [E0|Es].
    + rewrite E0. apply (go_pss_verify_zero_iff Hash rsaep HL). eexists. exact V.
    + destruct (N.eq_dec (rk_salt k) 0) as [E0|En].
      * rewrite E0. apply (go_pss_verify_zero_iff Hash rsaep HL). eexists. exact V.
      * rewrite go_pss_verify_positive by exact En. rewrite <- Es. exact V.
  - intros E0. unfold go_pss_salt_len. rewrite E0. cbn [N.eqb].
    assert (Hh : (hlen (rk_hash k) <= 64)%nat) by (destruct (rk_hash k); cbn; lia).
    assert (Hd : (255 <= (mod_bits (rk_n k) - 1 + 7) / 8)%nat).
    { apply Nat.div_le_lower_bound; lia. }
    lia.
Qed.
Print Assumptions C03_rsa_rfc8017_signature_verifies_under_tink.

(* the laws are inhabited: identity "RSA" permutation, a toy hash of the right
   length; a PSS signature is produced and verified by computation, a salt of
   another length and a flipped bit are rejected *)
Definition toyHashL (h : hasht) (m : bytes) : bytes :=
  firstn (hlen h) (map (fun x => x mod 256) m ++ zeros (hlen h)).
Definition toy_ep (_ : bytes) (_ : N) (x : N) : N := x.
Definition toy_dp (_ : bytes) (x : N) : N := x.

Example C03_example_rfc8017 :
  (forall h m, length (toyHashL h m) = hlen h) /\ (forall h m, wfb (toyHashL h m)) /\
  (forall m, m < be_val n2048 -> toy_dp [5] m < be_val n2048 /\ toy_ep n2048 65537 (toy_dp [5] m) = m) /\
  mod_bits n2048 = 2048%nat /\
  (let d := toyHashL SHA256 [9] in
   let salt := [1; 2; 3; 4] in
   match rfc_pss_sign toyHashL toy_dp n2048 [5] SHA256 d salt, rfc_pkcs1_sign toy_dp n2048 [5] SHA256 d with
   | Some s, Some s1 =>
       length s = 256%nat /\
       rfc_pss_verify toyHashL toy_ep n2048 65537 SHA256 4 d s = true /\
       rfc_pss_verify toyHashL toy_ep n2048 65537 SHA256 3 d s = false /\
       rfc_pss_verify toyHashL toy_ep n2048 65537 SHA256 5 d s = false /\
       (* crypto/rsa's option handling: SaltLength 4 strict, SaltLength 0 auto-detects *)
       go_pss_verify toyHashL toy_ep n2048 65537 SHA256 4 d s = true /\
       go_pss_verify toyHashL toy_ep n2048 65537 SHA256 3 d s = false /\
       go_pss_verify toyHashL toy_ep n2048 65537 SHA256 0 d s = true /\
       rfc_pss_verify toyHashL toy_ep n2048 65537 SHA256 0 d s = false /\
       go_pss_verify toyHashL toy_ep n2048 65537 SHA256 0 d (tl s) = false /\
       go_pss_salt_len n2048 SHA256 0 = 222%nat /\
       rfc_pss_verify toyHashL toy_ep n2048 65537 SHA256 4 (toyHashL SHA256 [10]) s = false /\
       rfc_pss_verify toyHashL toy_ep n2048 65537 SHA256 4 d (tl s) = false /\
       rfc_pkcs1_verify toy_ep n2048 65537 SHA256 d s1 = true /\
       rfc_pkcs1_verify toy_ep n2048 65537 SHA384 d s1 = false /\
       rfc_pkcs1_verify toy_ep n2048 65537 SHA256 d s = false
   | _, _ => False
   end).
Proof.
  split.
  { intros h m. unfold toyHashL. rewrite firstn_length, app_length, map_length, zeros_length. lia. }
  split.
  { intros h m. unfold toyHashL. apply wfb_firstn. apply wfb_app. split; [|apply zeros_wf].
    unfold wfb. apply Forall_forall. intros y Hy. apply in_map_iff in Hy. destruct Hy as [x [<- _]].
    apply N.mod_lt. discriminate. }
  split; [intros m Hm; unfold toy_dp, toy_ep; auto|].
  split; [vm_compute; reflexivity|].
  vm_compute. repeat split; reflexivity.
Qed.
