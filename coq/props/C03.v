(* C03 — Signatures verify iff genuinely produced by the private key
   (ECDSA DER / IEEE P1363, Ed25519, RSA-SSA-PKCS1, RSA-SSA-PSS).

   Statements only; proofs live in proofs/DERProofs.v and proofs/SigProofs.v.
   The models are model/DER.v (strict DER of SEQUENCE{INTEGER r, INTEGER s})
   and model/Sig.v (prefix, LEGACY suffix, hash choice, encodings, length and
   key rules).  The standard algorithms are universally quantified function
   parameters (H, raw, ed_raw, pkcs1_raw, pss_raw ...): every theorem holds
   for every instantiation, in particular for the Go standard library. *)
From Coq Require Import List NArith ZArith Bool.
From Tink Require Import Bytes DER DERProofs Sig SigProofs SigProofs2.
Import ListNotations.
Open Scope N_scope.

(* ---------------- strict DER ---------------- *)

(* Canonical uniqueness: a byte string is accepted by the strict decoder
   (ASN1Decode) with result (r, s) exactly when it IS the encoding of (r, s)
   (r, s any integers, negative included).  Hence non-minimal INTEGERs,
   superfluous leading 00/ff, long-form or indefinite lengths, trailing bytes
   inside or outside the SEQUENCE, wrong tags ... are all rejected.
   [der_fits]: the contents are shorter than 2^32 bytes (4 length octets). *)
Theorem C03_der_canonical_unique :
  forall (b : bytes) (r s : Z), wfb b ->
    (der_decode b = Some (r, s) <-> b = der_encode r s /\ der_fits r s).
Proof. exact der_canonical_unique_proof. Qed.
Print Assumptions C03_der_canonical_unique.

Theorem C03_der_roundtrip :
  forall r s : Z, der_fits r s -> der_decode (der_encode r s) = Some (r, s) /\ wfb (der_encode r s).
Proof. intros r s Hf. split; [apply der_decode_encode|apply der_encode_wf]; exact Hf. Qed.
Print Assumptions C03_der_roundtrip.

(* every pair of naturals below 256^120 (all curve sizes) fits *)
Theorem C03_der_fits_field_sized :
  forall (r s : N) (k : nat), (k <= 120)%nat -> r < 256 ^ N.of_nat k -> s < 256 ^ N.of_nat k ->
    der_fits (Z.of_N r) (Z.of_N s).
Proof. exact der_fits_small. Qed.
Print Assumptions C03_der_fits_field_sized.

Theorem C03_der_trailing_data_rejected :
  forall b r s t, wfb b -> t <> [] ->
    (der_decode b = Some (r, s) -> der_decode (b ++ t) = None) /\
    (N.of_nat (length (der_body r s ++ t)) < 4294967296 ->
     der_decode (enc_tlv SEQ (der_body r s ++ t)) = None).
Proof.
  intros b r s t Hw Ht. split.
  - intros H. eapply der_trailing_rejected; eauto.
  - apply der_trailing_inside_rejected; exact Ht.
Qed.
Print Assumptions C03_der_trailing_data_rejected.

Theorem C03_der_non_minimal_rejected :
  (forall x t, x < 128 -> int_dec (0 :: x :: t) = None) /\
  (forall x t, 128 <= x -> int_dec (255 :: x :: t) = None) /\
  int_dec [] = None /\
  (forall k d rest, length d = k -> be_val d < 128 -> read_len ((128 + N.of_nat k) :: d ++ rest) = None) /\
  (forall rest, read_len (128 :: rest) = None).
Proof.
  repeat split.
  - exact int_lead00_rejected.
  - exact int_leadff_rejected.
  - exact len_long_for_short_rejected.
Qed.
Print Assumptions C03_der_non_minimal_rejected.

(* ASN1Decode as coded (Unmarshal with ANY parser that is right on canonical
   encodings, then re-Marshal and compare): its accept set is exactly the
   image of the encoder, whatever else the parser tolerates; on inputs below
   2^32 bytes it is the strict decoder above. *)
Theorem C03_asn1_decode_reencode_check :
  forall (unmarshal : bytes -> option (Z * Z)),
    (forall r s, unmarshal (der_encode r s) = Some (r, s)) ->
    (forall b r s, asn1_decode_impl unmarshal b = Some (r, s) <-> b = der_encode r s) /\
    (forall b, wfb b -> N.of_nat (length b) < 4294967296 -> asn1_decode_impl unmarshal b = der_decode b).
Proof.
  intros u Hu. split; [apply asn1_decode_impl_spec; exact Hu|apply asn1_decode_impl_is_der_decode; exact Hu].
Qed.
Print Assumptions C03_asn1_decode_reencode_check.

(* the parser inside crypto/ecdsa.VerifyASN1: the same, non-negative only *)
Theorem C03_parse_sig_accept_set :
  forall (b : bytes) (r s : N), wfb b ->
    (parse_sig b = Some (r, s) <-> b = der_encode_N r s /\ der_fits (Z.of_N r) (Z.of_N s)).
Proof. exact parse_sig_iff. Qed.
Print Assumptions C03_parse_sig_accept_set.

Theorem C03_parse_sig_negative_rejected :
  forall r s : Z, (r < 0 \/ s < 0)%Z -> parse_sig (der_encode r s) = None.
Proof. exact parse_sig_negative_rejected. Qed.
Print Assumptions C03_parse_sig_negative_rejected.

(* ---------------- IEEE P1363 ---------------- *)

Theorem C03_p1363_codec :
  forall c (b : bytes) (r s : N),
    (p1363_encode c r s = Some b -> p1363_decode c b = Ok (r, s)) /\
    (wfb b -> p1363_decode c b = Ok (r, s) -> p1363_encode c r s = Some b) /\
    (length b <> p1363_size c -> p1363_decode c b = Err) /\
    p1363_decode c b <> Panic /\ p1363_decode_any b <> Panic /\
    (p1363_size P256 = 64 /\ p1363_size P384 = 96 /\ p1363_size P521 = 132)%nat.
Proof.
  intros c b r s. repeat split.
  - apply p1363_roundtrip.
  - apply p1363_decode_sound.
  - apply p1363_wrong_length.
  - apply p1363_decode_no_panic.
  - apply p1363_decode_any_no_panic.
Qed.
Print Assumptions C03_p1363_codec.

(* ---------------- ECDSA ---------------- *)

(* Exact acceptance set.  For every hash function H, every raw verification
   predicate [raw] and every key k (any curve, hash, encoding, variant, id):
   Verify accepts sig for msg exactly when sig is  prefix || encoding(r, s)
   of a pair that the raw verification accepts for H(msg || legacy suffix). *)
Theorem C03_ecdsa_verify_iff :
  forall (H : hasht -> bytes -> bytes) (raw : curve -> bytes -> bytes -> N -> N -> bool)
         (k : ecdsa_key) (sig msg : bytes), wfb sig ->
    (ecdsa_verify H raw k sig msg = Ok tt <->
     exists r s, ecdsa_frame k r s = Some sig /\ sig_fits k r s /\
       raw (ek_curve k) (ek_pub k) (H (ek_hash k) (msg ++ suffix (ek_variant k))) r s = true).
Proof. exact ecdsa_verify_iff_proof. Qed.
Print Assumptions C03_ecdsa_verify_iff.

(* Sign's output verifies, whenever the raw signing oracle produces pairs the
   raw verification accepts (the law of the standard algorithm). *)
Theorem C03_ecdsa_sign_then_verify :
  forall H raw (sign_rs : curve -> bytes -> bytes -> bytes -> N * N) (pub_of : curve -> bytes -> bytes)
         k sk rnd msg,
    (forall c sk h rnd, raw c (pub_of c sk) h (fst (sign_rs c sk h rnd)) (snd (sign_rs c sk h rnd)) = true) ->
    (forall c sk h rnd, fst (sign_rs c sk h rnd) < 256 ^ N.of_nat (field_size c) /\
                        snd (sign_rs c sk h rnd) < 256 ^ N.of_nat (field_size c)) ->
    ek_pub k = pub_of (ek_curve k) sk ->
    exists sig, ecdsa_sign H sign_rs k sk rnd msg = Some sig /\ wfb sig /\
                ecdsa_verify H raw k sig msg = Ok tt.
Proof. exact ecdsa_sign_verify_proof. Qed.
Print Assumptions C03_ecdsa_sign_then_verify.

Theorem C03_ecdsa_wrong_prefix_or_length_rejected :
  forall H raw k sig msg t,
    ((forall t, sig <> prefix (ek_variant k) (ek_id k) ++ t) -> ecdsa_verify H raw k sig msg = Err) /\
    (ek_enc k = P1363 -> length t <> p1363_size (ek_curve k) ->
     ecdsa_verify H raw k (prefix (ek_variant k) (ek_id k) ++ t) msg = Err).
Proof.
  intros. split; [apply ecdsa_wrong_prefix_proof|apply ecdsa_p1363_wrong_length_proof].
Qed.
Print Assumptions C03_ecdsa_wrong_prefix_or_length_rejected.

(* ---------------- Ed25519 ---------------- *)

Theorem C03_ed25519_verify_iff :
  forall (ed_raw : bytes -> bytes -> bytes -> bool) v id pub sig msg,
    ed25519_verify ed_raw v id pub sig msg = Ok tt <->
    exists body, sig = prefix v id ++ body /\ length body = 64%nat /\
                 ed_raw pub (msg ++ suffix v) body = true.
Proof. exact ed25519_verify_iff_proof. Qed.
Print Assumptions C03_ed25519_verify_iff.

Theorem C03_ed25519_sign_then_verify :
  forall ed_raw (ed_sign : bytes -> bytes -> bytes) (ed_pub_of : bytes -> bytes) v id seed msg,
    (forall seed m, ed_raw (ed_pub_of seed) m (ed_sign seed m) = true) ->
    (forall seed m, length (ed_sign seed m) = 64%nat) ->
    exists sig, ed25519_sign ed_sign v id seed msg = Ok sig /\
                ed25519_verify ed_raw v id (ed_pub_of seed) sig msg = Ok tt.
Proof. exact ed25519_sign_verify_proof. Qed.
Print Assumptions C03_ed25519_sign_then_verify.

(* ---------------- RSA-SSA-PKCS1 / PSS ---------------- *)

Theorem C03_rsa_pkcs1_verify_iff :
  forall H (pkcs1_raw : bytes -> N -> hasht -> bytes -> bytes -> bool) k sig msg,
    pkcs1_verify H pkcs1_raw k sig msg = Ok tt <->
    exists body, sig = prefix (rk_variant k) (rk_id k) ++ body /\
      pkcs1_raw (rk_n k) (rk_e k) (rk_hash k) (H (rk_hash k) (msg ++ suffix (rk_variant k))) body = true.
Proof. exact pkcs1_verify_iff_proof. Qed.
Print Assumptions C03_rsa_pkcs1_verify_iff.

(* salt-length binding: the standard verification is run with exactly the
   key's salt length *)
Theorem C03_rsa_pss_verify_iff :
  forall H (pss_raw : bytes -> N -> hasht -> N -> bytes -> bytes -> bool) k sig msg,
    pss_verify H pss_raw k sig msg = Ok tt <->
    exists body, sig = prefix (rk_variant k) (rk_id k) ++ body /\
      pss_raw (rk_n k) (rk_e k) (rk_hash k) (rk_salt k)
              (H (rk_hash k) (msg ++ suffix (rk_variant k))) body = true.
Proof. exact pss_verify_iff_proof. Qed.
Print Assumptions C03_rsa_pss_verify_iff.

Theorem C03_rsa_sign_then_verify :
  forall H pkcs1_raw pss_raw
         (pkcs1_sign_raw : bytes -> hasht -> bytes -> bytes)
         (pss_sign_raw : bytes -> hasht -> N -> bytes -> bytes -> bytes)
         (rsa_pub_of : bytes -> bytes * N) k sk rnd msg,
    (forall sk h d, pkcs1_raw (fst (rsa_pub_of sk)) (snd (rsa_pub_of sk)) h d (pkcs1_sign_raw sk h d) = true) ->
    (forall sk h salt d rnd,
        pss_raw (fst (rsa_pub_of sk)) (snd (rsa_pub_of sk)) h salt d (pss_sign_raw sk h salt d rnd) = true) ->
    (rk_n k, rk_e k) = rsa_pub_of sk ->
    pkcs1_verify H pkcs1_raw k (pkcs1_sign H pkcs1_sign_raw k sk msg) msg = Ok tt /\
    pss_verify H pss_raw k (pss_sign H pss_sign_raw k sk rnd msg) msg = Ok tt.
Proof.
  intros. split; [eapply pkcs1_sign_verify_proof|eapply pss_sign_verify_proof]; eauto.
Qed.
Print Assumptions C03_rsa_sign_then_verify.

(* ---------------- no panic, key rules ---------------- *)

(* No signature, message or key makes a verifier index out of range: every
   slice expression of the model is a checked slice. *)
Theorem C03_verify_never_panics :
  forall H raw ed_raw pkcs1_raw pss_raw k v id pub rk sig msg,
    ecdsa_verify H raw k sig msg <> Panic /\
    ed25519_verify ed_raw v id pub sig msg <> Panic /\
    pkcs1_verify H pkcs1_raw rk sig msg <> Panic /\
    pss_verify H pss_raw rk sig msg <> Panic.
Proof.
  intros. split; [apply ecdsa_verify_no_panic_proof|].
  split; [apply ed25519_verify_no_panic_proof|]. apply rsa_verify_no_panic_proof.
Qed.
Print Assumptions C03_verify_never_panics.

(* a verifier / signer is constructible only for >= 2048-bit moduli, e = 65537
   and SHA-256/384/512; ECDSA only for the curve/hash pairs of the table *)
Theorem C03_key_rules :
  (forall h n e, rsa_ctor_ok h n e = true <->
     2 ^ 2047 <= be_val n /\ e = 65537 /\ (h = SHA256 \/ h = SHA384 \/ h = SHA512)) /\
  (forall c h, ecdsa_params_ok c h = true <->
     (c = P256 /\ h = SHA256) \/ (c = P384 /\ (h = SHA384 \/ h = SHA512)) \/ (c = P521 /\ h = SHA512)).
Proof. split; [exact rsa_ctor_ok_iff_proof|exact ecdsa_params_ok_iff_proof]. Qed.
Print Assumptions C03_key_rules.

(* ---------------- further consequences ---------------- *)

(* The accepted byte strings are in bijection with the accepted raw
   signatures: no second encoding of the same (r, s) verifies. *)
Theorem C03_ecdsa_encoding_injective :
  forall k r s r' s' sig,
    ecdsa_frame k r s = Some sig -> ecdsa_frame k r' s' = Some sig ->
    sig_fits k r s -> sig_fits k r' s' -> r = r' /\ s = s'.
Proof. exact ecdsa_frame_inj. Qed.
Print Assumptions C03_ecdsa_encoding_injective.

(* A signature accepted under one non-RAW prefix is rejected under any other
   (other variant start byte or other key id). *)
Theorem C03_ecdsa_other_prefix_rejected :
  forall H raw k v' id' sig msg,
    ecdsa_verify H raw k sig msg = Ok tt -> ek_variant k <> VRaw -> v' <> VRaw ->
    prefix (ek_variant k) (ek_id k) <> prefix v' id' ->
    ecdsa_verify H raw (with_variant k v' id') sig msg = Err.
Proof. exact ecdsa_other_prefix_rejected. Qed.
Print Assumptions C03_ecdsa_other_prefix_rejected.

(* LEGACY is CRUNCHY over message || 0x00, for all four schemes. *)
Theorem C03_legacy_is_crunchy_over_suffixed_message :
  forall H raw ed_raw pkcs1_raw pss_raw k id pub rk sig msg,
    ecdsa_verify H raw (with_variant k VLegacy id) sig msg =
      ecdsa_verify H raw (with_variant k VCrunchy id) sig (msg ++ [0]) /\
    ed25519_verify ed_raw VLegacy id pub sig msg = ed25519_verify ed_raw VCrunchy id pub sig (msg ++ [0]) /\
    pkcs1_verify H pkcs1_raw (rsa_with_variant rk VLegacy) sig msg =
      pkcs1_verify H pkcs1_raw (rsa_with_variant rk VCrunchy) sig (msg ++ [0]) /\
    pss_verify H pss_raw (rsa_with_variant rk VLegacy) sig msg =
      pss_verify H pss_raw (rsa_with_variant rk VCrunchy) sig (msg ++ [0]).
Proof.
  intros. split; [apply ecdsa_legacy_is_crunchy|]. split; [apply ed25519_legacy_is_crunchy|].
  apply rsa_legacy_is_crunchy.
Qed.
Print Assumptions C03_legacy_is_crunchy_over_suffixed_message.

Theorem C03_p1363_curveless_decoder_lengths :
  forall b r s, p1363_decode_any b = Ok (r, s) ->
    length b = 64%nat \/ length b = 96%nat \/ length b = 132%nat.
Proof. exact p1363_decode_any_lengths. Qed.
Print Assumptions C03_p1363_curveless_decoder_lengths.

(* ---------------- the premises are inhabited ---------------- *)

Definition toyH (_ : hasht) (m : bytes) : bytes := m.
Definition toy_raw (_ : curve) (_ _ : bytes) (r s : N) : bool := (r =? 7) && (s =? 300).
Definition toy_key (e : sigenc) (v : variant) : ecdsa_key :=
  {| ek_curve := P256; ek_hash := SHA256; ek_enc := e; ek_variant := v; ek_id := 16909060; ek_pub := [4] |}.

(* 30 07 02 01 07 02 02 01 2c under the TINK prefix 01 01 02 03 04 *)
Example C03_example_der :
  ecdsa_frame (toy_key DER VTink) 7 300 = Some [1;1;2;3;4; 48;7; 2;1;7; 2;2;1;44] /\
  ecdsa_verify toyH toy_raw (toy_key DER VTink) [1;1;2;3;4; 48;7; 2;1;7; 2;2;1;44] [9] = Ok tt /\
  (* extra leading zero, long-form length, trailing byte, missing prefix: rejected *)
  ecdsa_verify toyH toy_raw (toy_key DER VTink) [1;1;2;3;4; 48;8; 2;2;0;7; 2;2;1;44] [9] = Err /\
  ecdsa_verify toyH toy_raw (toy_key DER VTink) [1;1;2;3;4; 48;129;7; 2;1;7; 2;2;1;44] [9] = Err /\
  ecdsa_verify toyH toy_raw (toy_key DER VTink) [1;1;2;3;4; 48;7; 2;1;7; 2;2;1;44; 0] [9] = Err /\
  ecdsa_verify toyH toy_raw (toy_key DER VTink) [48;7; 2;1;7; 2;2;1;44] [9] = Err /\
  ecdsa_verify toyH toy_raw (toy_key DER VTink) [1;1] [9] = Err /\
  der_decode [48;6; 2;1;255; 2;1;128] = Some ((-1)%Z, (-128)%Z) /\
  parse_sig [48;6; 2;1;255; 2;1;128] = None.
Proof. vm_compute. repeat split; reflexivity. Qed.

Definition toy_p1363_sig : bytes :=
  [0;1;2;3;4] ++ repeat 0 31 ++ [7] ++ repeat 0 30 ++ [1;44].

Example C03_example_p1363 :
  ecdsa_frame (toy_key P1363 VLegacy) 7 300 = Some toy_p1363_sig /\ length toy_p1363_sig = 69%nat /\
  ecdsa_verify toyH toy_raw (toy_key P1363 VLegacy) toy_p1363_sig [9] = Ok tt /\
  ecdsa_verify toyH toy_raw (toy_key P1363 VLegacy) (toy_p1363_sig ++ [0]) [9] = Err /\
  ecdsa_verify toyH toy_raw (toy_key P1363 VLegacy) (tl toy_p1363_sig) [9] = Err.
Proof. vm_compute. repeat split; reflexivity. Qed.

(* ====================================================================== *)
(* Second round: RSA fixed-length rule, explicit rejections for Ed25519 and
   RSA, LEGACY on Sign, "modified message / other key" in reduction form.
   Proofs: proofs/SigProofs2.v.

   crypto/rsa.VerifyPKCS1v15 / VerifyPSS reject `len(sig) != pub.Size()`
   before the RSA operation; tink-go has no length check of its own.  The
   standard verification is therefore modelled as [std_pkcs1 core] /
   [std_pss core] = length check, then an arbitrary [core] (model/Sig.v); the
   theorems hold for every [core]. *)

(* ---------------- (a) RSA: wrong-length signatures ---------------- *)

(* the signature size is the modulus length in bytes, (BitLen + 7) / 8,
   independent of leading zero bytes in the modulus encoding; accepted keys
   have at least 256 bytes *)
Theorem C03_rsa_sig_len_is_modulus_byte_length :
  (forall n, rsa_sig_len n = N.to_nat ((N.size (be_val n) + 7) / 8)) /\
  (forall n k, (0 < k)%nat ->
     (rsa_sig_len n = k <-> 256 ^ N.of_nat (k - 1) <= be_val n /\ be_val n < 256 ^ N.of_nat k)) /\
  (forall n, rsa_sig_len (0 :: n) = rsa_sig_len n) /\
  (forall n e, rsa_key_ok n e = true -> (256 <= rsa_sig_len n)%nat).
Proof.
  split; [exact rsa_sig_len_bits|]. split; [exact rsa_sig_len_spec|].
  split; [exact rsa_sig_len_lead0|exact rsa_key_ok_sig_len].
Qed.
Print Assumptions C03_rsa_sig_len_is_modulus_byte_length.

(* exact acceptance sets with the length explicit *)
Theorem C03_rsa_verify_iff_with_length :
  forall H pkcs1_core pss_core k sig msg,
    (pkcs1_verify H (std_pkcs1 pkcs1_core) k sig msg = Ok tt <->
     exists body, sig = prefix (rk_variant k) (rk_id k) ++ body /\
       length body = rsa_sig_len (rk_n k) /\
       pkcs1_core (rk_n k) (rk_e k) (rk_hash k) (H (rk_hash k) (msg ++ suffix (rk_variant k))) body = true) /\
    (pss_verify H (std_pss pss_core) k sig msg = Ok tt <->
     exists body, sig = prefix (rk_variant k) (rk_id k) ++ body /\
       length body = rsa_sig_len (rk_n k) /\
       pss_core (rk_n k) (rk_e k) (rk_hash k) (rk_salt k)
                (H (rk_hash k) (msg ++ suffix (rk_variant k))) body = true).
Proof. exact rsa_std_verify_iff. Qed.
Print Assumptions C03_rsa_verify_iff_with_length.

(* every byte string of another total length, and every prefix || body with
   |body| <> modulus length, is rejected: for every key, message, hash and
   core verification *)
Theorem C03_rsa_wrong_length_rejected :
  forall H pkcs1_core pss_core k sig body msg,
    (length sig <> (length (prefix (rk_variant k) (rk_id k)) + rsa_sig_len (rk_n k))%nat ->
     pkcs1_verify H (std_pkcs1 pkcs1_core) k sig msg = Err /\
     pss_verify H (std_pss pss_core) k sig msg = Err) /\
    (length body <> rsa_sig_len (rk_n k) ->
     pkcs1_verify H (std_pkcs1 pkcs1_core) k (prefix (rk_variant k) (rk_id k) ++ body) msg = Err /\
     pss_verify H (std_pss pss_core) k (prefix (rk_variant k) (rk_id k) ++ body) msg = Err).
Proof.
  intros. split; [apply rsa_wrong_length_rejected|apply rsa_wrong_body_length_rejected].
Qed.
Print Assumptions C03_rsa_wrong_length_rejected.

(* the failure mode of "left-pad short signatures": if prefix || 00 || body is
   accepted, then prefix || body (same integer, leading zero stripped) and
   prefix || 00 00 || body are rejected *)
Theorem C03_rsa_zero_stripped_or_padded_rejected :
  forall H pkcs1_core pss_core k body msg,
    pkcs1_verify H (std_pkcs1 pkcs1_core) k (prefix (rk_variant k) (rk_id k) ++ 0 :: body) msg = Ok tt \/
    pss_verify H (std_pss pss_core) k (prefix (rk_variant k) (rk_id k) ++ 0 :: body) msg = Ok tt ->
    be_val (0 :: body) = be_val body /\
    pkcs1_verify H (std_pkcs1 pkcs1_core) k (prefix (rk_variant k) (rk_id k) ++ body) msg = Err /\
    pss_verify H (std_pss pss_core) k (prefix (rk_variant k) (rk_id k) ++ body) msg = Err /\
    pkcs1_verify H (std_pkcs1 pkcs1_core) k (prefix (rk_variant k) (rk_id k) ++ 0 :: 0 :: body) msg = Err /\
    pss_verify H (std_pss pss_core) k (prefix (rk_variant k) (rk_id k) ++ 0 :: 0 :: body) msg = Err.
Proof. exact rsa_zero_stripped_or_padded_rejected. Qed.
Print Assumptions C03_rsa_zero_stripped_or_padded_rejected.

(* Sign returns prefix || body with |body| = modulus length (total length
   5 + k, or k for RAW), for every signing oracle whose outputs the standard
   verification accepts *)
Theorem C03_rsa_sign_has_modulus_length :
  forall H pkcs1_core pss_core
         (pkcs1_sign_raw : bytes -> hasht -> bytes -> bytes)
         (pss_sign_raw : bytes -> hasht -> N -> bytes -> bytes -> bytes)
         (rsa_pub_of : bytes -> bytes * N) k sk rnd msg,
    (forall sk h d, std_pkcs1 pkcs1_core (fst (rsa_pub_of sk)) (snd (rsa_pub_of sk)) h d (pkcs1_sign_raw sk h d) = true) ->
    (forall sk h salt d rnd,
        std_pss pss_core (fst (rsa_pub_of sk)) (snd (rsa_pub_of sk)) h salt d (pss_sign_raw sk h salt d rnd) = true) ->
    (rk_n k, rk_e k) = rsa_pub_of sk ->
    (exists body, pkcs1_sign H pkcs1_sign_raw k sk msg = prefix (rk_variant k) (rk_id k) ++ body /\
                  length body = rsa_sig_len (rk_n k)) /\
    (exists body, pss_sign H pss_sign_raw k sk rnd msg = prefix (rk_variant k) (rk_id k) ++ body /\
                  length body = rsa_sig_len (rk_n k)) /\
    length (pkcs1_sign H pkcs1_sign_raw k sk msg) =
      ((match rk_variant k with VRaw => 0 | _ => 5 end) + rsa_sig_len (rk_n k))%nat /\
    length (pss_sign H pss_sign_raw k sk rnd msg) =
      ((match rk_variant k with VRaw => 0 | _ => 5 end) + rsa_sig_len (rk_n k))%nat.
Proof. exact rsa_sign_length. Qed.
Print Assumptions C03_rsa_sign_has_modulus_length.

(* ---------------- (b) explicit rejections ---------------- *)

(* two keys have the same output prefix iff same start byte and same key id *)
Theorem C03_prefix_determines_start_byte_and_id :
  forall v id v' id', id < 4294967296 -> id' < 4294967296 ->
    (prefix v id = prefix v' id' <-> start_byte v = start_byte v' /\ (v <> VRaw -> id = id')).
Proof. exact prefix_eq_iff. Qed.
Print Assumptions C03_prefix_determines_start_byte_and_id.

(* Ed25519, for every oracle, key, signature and message:
   - a byte string that does not start with the key's output prefix is rejected;
   - every total length other than |prefix| + 64 is rejected;
   - what is accepted under one output prefix is rejected under any other
     (other key id, TINK vs CRUNCHY/LEGACY start byte, RAW key for a prefixed
     signature, prefixed key for a RAW signature), with any key and message;
   - an accepted signature with bytes appended, or cut at the end or at the
     front, is rejected. *)
Theorem C03_ed25519_explicit_rejections :
  forall (ed_raw : bytes -> bytes -> bytes -> bool) v id pub sig msg,
    ((forall t, sig <> prefix v id ++ t) -> ed25519_verify ed_raw v id pub sig msg = Err) /\
    (length sig <> (length (prefix v id) + 64)%nat -> ed25519_verify ed_raw v id pub sig msg = Err) /\
    (ed25519_verify ed_raw v id pub sig msg = Ok tt ->
     (forall v' id' pub' msg', prefix v id <> prefix v' id' ->
        ed25519_verify ed_raw v' id' pub' sig msg' = Err) /\
     (forall t, t <> [] -> ed25519_verify ed_raw v id pub (sig ++ t) msg = Err) /\
     (forall j, (j < length sig)%nat ->
        ed25519_verify ed_raw v id pub (firstn j sig) msg = Err /\
        ed25519_verify ed_raw v id pub (skipn (length sig - j) sig) msg = Err)).
Proof.
  intros. split; [apply ed25519_no_prefix_rejected|]. split; [apply ed25519_wrong_length_rejected|].
  intros Ho. split.
  - intros. eapply ed25519_other_prefix_rejected; eauto.
  - apply ed25519_trailing_truncated_rejected. exact Ho.
Qed.
Print Assumptions C03_ed25519_explicit_rejections.

(* RSA-SSA-PKCS1 / PSS.  The prefix rule holds for every standard
   verification; the other-prefix / trailing / truncated rules use the
   length rule of crypto/rsa. *)
Theorem C03_rsa_explicit_rejections :
  forall H pkcs1_raw pss_raw pkcs1_core pss_core k sig msg,
    ((forall t, sig <> prefix (rk_variant k) (rk_id k) ++ t) ->
     pkcs1_verify H pkcs1_raw k sig msg = Err /\ pss_verify H pss_raw k sig msg = Err) /\
    (forall k' msg', rsa_sig_len (rk_n k') = rsa_sig_len (rk_n k) ->
       prefix (rk_variant k) (rk_id k) <> prefix (rk_variant k') (rk_id k') ->
       (pkcs1_verify H (std_pkcs1 pkcs1_core) k sig msg = Ok tt ->
        pkcs1_verify H (std_pkcs1 pkcs1_core) k' sig msg' = Err) /\
       (pss_verify H (std_pss pss_core) k sig msg = Ok tt ->
        pss_verify H (std_pss pss_core) k' sig msg' = Err)) /\
    (pkcs1_verify H (std_pkcs1 pkcs1_core) k sig msg = Ok tt ->
     (forall t, t <> [] -> pkcs1_verify H (std_pkcs1 pkcs1_core) k (sig ++ t) msg = Err) /\
     (forall j, (j < length sig)%nat ->
        pkcs1_verify H (std_pkcs1 pkcs1_core) k (firstn j sig) msg = Err /\
        pkcs1_verify H (std_pkcs1 pkcs1_core) k (skipn (length sig - j) sig) msg = Err)) /\
    (pss_verify H (std_pss pss_core) k sig msg = Ok tt ->
     (forall t, t <> [] -> pss_verify H (std_pss pss_core) k (sig ++ t) msg = Err) /\
     (forall j, (j < length sig)%nat ->
        pss_verify H (std_pss pss_core) k (firstn j sig) msg = Err /\
        pss_verify H (std_pss pss_core) k (skipn (length sig - j) sig) msg = Err)).
Proof.
  intros. split; [apply rsa_no_prefix_rejected|].
  split; [intros; apply rsa_other_prefix_rejected; assumption|].
  apply rsa_trailing_truncated_rejected.
Qed.
Print Assumptions C03_rsa_explicit_rejections.

(* LEGACY on Sign: the signer signs msg || 00 and frames it with the CRUNCHY
   prefix 00 || id (companion of C03_legacy_is_crunchy_over_suffixed_message) *)
Theorem C03_legacy_sign_is_crunchy_over_suffixed_message :
  forall H (sign_rs : curve -> bytes -> bytes -> bytes -> N * N) (ed_sign : bytes -> bytes -> bytes)
         (pkcs1_sign_raw : bytes -> hasht -> bytes -> bytes)
         (pss_sign_raw : bytes -> hasht -> N -> bytes -> bytes -> bytes)
         k rk id sk seed rnd msg,
    ecdsa_sign H sign_rs (with_variant k VLegacy id) sk rnd msg =
      ecdsa_sign H sign_rs (with_variant k VCrunchy id) sk rnd (msg ++ [0]) /\
    ed25519_sign ed_sign VLegacy id seed msg = ed25519_sign ed_sign VCrunchy id seed (msg ++ [0]) /\
    (forall sig, ed25519_sign ed_sign VLegacy id seed msg = Ok sig ->
       sig = 0 :: be_bytes 4 id ++ ed_sign seed (msg ++ [0])) /\
    pkcs1_sign H pkcs1_sign_raw (rsa_with_variant rk VLegacy) sk msg =
      pkcs1_sign H pkcs1_sign_raw (rsa_with_variant rk VCrunchy) sk (msg ++ [0]) /\
    pss_sign H pss_sign_raw (rsa_with_variant rk VLegacy) sk rnd msg =
      pss_sign H pss_sign_raw (rsa_with_variant rk VCrunchy) sk rnd (msg ++ [0]) /\
    pkcs1_sign H pkcs1_sign_raw (rsa_with_variant rk VLegacy) sk msg =
      0 :: be_bytes 4 (rk_id rk) ++ pkcs1_sign_raw sk (rk_hash rk) (H (rk_hash rk) (msg ++ [0])) /\
    pss_sign H pss_sign_raw (rsa_with_variant rk VLegacy) sk rnd msg =
      0 :: be_bytes 4 (rk_id rk) ++ pss_sign_raw sk (rk_hash rk) (rk_salt rk) (H (rk_hash rk) (msg ++ [0])) rnd.
Proof.
  intros. split; [apply ecdsa_sign_legacy|].
  split; [apply ed25519_sign_legacy|]. split; [apply ed25519_sign_legacy|].
  apply rsa_sign_legacy.
Qed.
Print Assumptions C03_legacy_sign_is_crunchy_over_suffixed_message.

(* ---------------- (c) modified message / other key: reduction form ---------------- *)

(* Ed25519.  If the signature Sign produced for (seed, msg) is accepted for
   another (public key, message), then the Ed25519 oracle has accepted the
   genuine raw signature for a DIFFERENT (key, message) pair: a forgery
   against the primitive.  No law is assumed. *)
Theorem C03_ed25519_modified_or_other_key_is_oracle_forgery :
  forall ed_raw (ed_sign : bytes -> bytes -> bytes) v id seed pub msg sig pub' msg',
    ed25519_sign ed_sign v id seed msg = Ok sig ->
    ed25519_verify ed_raw v id pub' sig msg' = Ok tt ->
    (pub', msg') <> (pub, msg) ->
    ed_raw pub' (msg' ++ suffix v) (ed_sign seed (msg ++ suffix v)) = true /\
    (pub', msg' ++ suffix v) <> (pub, msg ++ suffix v).
Proof. exact ed25519_forgery_reduction. Qed.
Print Assumptions C03_ed25519_modified_or_other_key_is_oracle_forgery.

(* the same under the unforgeability law for THIS signature: if the oracle
   accepts the genuine raw signature for no other (key, message), Verify
   rejects every other key and every other message *)
Theorem C03_ed25519_modified_or_other_key_rejected :
  forall ed_raw (ed_sign : bytes -> bytes -> bytes) v id seed pub msg sig pub' msg',
    ed25519_sign ed_sign v id seed msg = Ok sig ->
    (forall p m, ed_raw p m (ed_sign seed (msg ++ suffix v)) = true -> (p, m) = (pub, msg ++ suffix v)) ->
    (pub', msg') <> (pub, msg) ->
    ed25519_verify ed_raw v id pub' sig msg' = Err.
Proof. exact ed25519_modified_rejected_unless_forgery. Qed.
Print Assumptions C03_ed25519_modified_or_other_key_rejected.

(* RSA-SSA-PKCS1.  k' is any key with the same output prefix (modulus,
   exponent and hash may differ).  The message representative is the digest:
   acceptance of a genuine signature under another (modulus, exponent, hash,
   message) exhibits an oracle acceptance of the genuine raw signature on a
   different (modulus, exponent, hash, digest), or a collision of the hash on
   two distinct strings. *)
Theorem C03_rsa_pkcs1_modified_or_other_key_is_oracle_forgery :
  forall H pkcs1_raw (pkcs1_sign_raw : bytes -> hasht -> bytes -> bytes) k k' sk msg msg',
    rsa_same_prefix k k' ->
    pkcs1_verify H pkcs1_raw k' (pkcs1_sign H pkcs1_sign_raw k sk msg) msg' = Ok tt ->
    (rk_n k', rk_e k', rk_hash k', msg') <> (rk_n k, rk_e k, rk_hash k, msg) ->
    let sfx := suffix (rk_variant k) in
    let body := pkcs1_sign_raw sk (rk_hash k) (H (rk_hash k) (msg ++ sfx)) in
    pkcs1_raw (rk_n k') (rk_e k') (rk_hash k') (H (rk_hash k') (msg' ++ sfx)) body = true /\
    ((rk_n k', rk_e k', rk_hash k', H (rk_hash k') (msg' ++ sfx)) <>
       (rk_n k, rk_e k, rk_hash k, H (rk_hash k) (msg ++ sfx)) \/
     (H (rk_hash k) (msg' ++ sfx) = H (rk_hash k) (msg ++ sfx) /\ msg' ++ sfx <> msg ++ sfx)).
Proof. exact pkcs1_forgery_reduction. Qed.
Print Assumptions C03_rsa_pkcs1_modified_or_other_key_is_oracle_forgery.

Theorem C03_rsa_pkcs1_modified_or_other_key_rejected :
  forall H pkcs1_raw (pkcs1_sign_raw : bytes -> hasht -> bytes -> bytes) k k' sk msg msg',
    rsa_same_prefix k k' ->
    let sfx := suffix (rk_variant k) in
    let body := pkcs1_sign_raw sk (rk_hash k) (H (rk_hash k) (msg ++ sfx)) in
    (forall n e h d, pkcs1_raw n e h d body = true ->
       (n, e, h, d) = (rk_n k, rk_e k, rk_hash k, H (rk_hash k) (msg ++ sfx))) ->
    (H (rk_hash k) (msg' ++ sfx) = H (rk_hash k) (msg ++ sfx) -> msg' ++ sfx = msg ++ sfx) ->
    (rk_n k', rk_e k', rk_hash k', msg') <> (rk_n k, rk_e k, rk_hash k, msg) ->
    pkcs1_verify H pkcs1_raw k' (pkcs1_sign H pkcs1_sign_raw k sk msg) msg' = Err.
Proof. exact pkcs1_modified_rejected_unless_forgery. Qed.
Print Assumptions C03_rsa_pkcs1_modified_or_other_key_rejected.

(* RSA-SSA-PSS: the salt length is part of the key side of the pair *)
Theorem C03_rsa_pss_modified_or_other_key_is_oracle_forgery :
  forall H pss_raw (pss_sign_raw : bytes -> hasht -> N -> bytes -> bytes -> bytes) k k' sk rnd msg msg',
    rsa_same_prefix k k' ->
    pss_verify H pss_raw k' (pss_sign H pss_sign_raw k sk rnd msg) msg' = Ok tt ->
    (rk_n k', rk_e k', rk_hash k', rk_salt k', msg') <> (rk_n k, rk_e k, rk_hash k, rk_salt k, msg) ->
    let sfx := suffix (rk_variant k) in
    let body := pss_sign_raw sk (rk_hash k) (rk_salt k) (H (rk_hash k) (msg ++ sfx)) rnd in
    pss_raw (rk_n k') (rk_e k') (rk_hash k') (rk_salt k') (H (rk_hash k') (msg' ++ sfx)) body = true /\
    ((rk_n k', rk_e k', rk_hash k', rk_salt k', H (rk_hash k') (msg' ++ sfx)) <>
       (rk_n k, rk_e k, rk_hash k, rk_salt k, H (rk_hash k) (msg ++ sfx)) \/
     (H (rk_hash k) (msg' ++ sfx) = H (rk_hash k) (msg ++ sfx) /\ msg' ++ sfx <> msg ++ sfx)).
Proof. exact pss_forgery_reduction. Qed.
Print Assumptions C03_rsa_pss_modified_or_other_key_is_oracle_forgery.

Theorem C03_rsa_pss_modified_or_other_key_rejected :
  forall H pss_raw (pss_sign_raw : bytes -> hasht -> N -> bytes -> bytes -> bytes) k k' sk rnd msg msg',
    rsa_same_prefix k k' ->
    let sfx := suffix (rk_variant k) in
    let body := pss_sign_raw sk (rk_hash k) (rk_salt k) (H (rk_hash k) (msg ++ sfx)) rnd in
    (forall n e h s d, pss_raw n e h s d body = true ->
       (n, e, h, s, d) = (rk_n k, rk_e k, rk_hash k, rk_salt k, H (rk_hash k) (msg ++ sfx))) ->
    (H (rk_hash k) (msg' ++ sfx) = H (rk_hash k) (msg ++ sfx) -> msg' ++ sfx = msg ++ sfx) ->
    (rk_n k', rk_e k', rk_hash k', rk_salt k', msg') <> (rk_n k, rk_e k, rk_hash k, rk_salt k, msg) ->
    pss_verify H pss_raw k' (pss_sign H pss_sign_raw k sk rnd msg) msg' = Err.
Proof. exact pss_modified_rejected_unless_forgery. Qed.
Print Assumptions C03_rsa_pss_modified_or_other_key_rejected.

(* ECDSA (both encodings): the verifying key keeps curve, encoding and prefix
   and has any public point and hash.  Acceptance for another (point, hash,
   message) exhibits a raw verification of the genuine (r, s) on a different
   (point, digest), or two distinct (hash, string) pairs with one digest. *)
Theorem C03_ecdsa_modified_or_other_key_is_oracle_forgery :
  forall H raw (sign_rs : curve -> bytes -> bytes -> bytes -> N * N) k sk rnd msg sig pub' h' msg',
    (forall c sk h rnd, fst (sign_rs c sk h rnd) < 256 ^ N.of_nat (field_size c) /\
                        snd (sign_rs c sk h rnd) < 256 ^ N.of_nat (field_size c)) ->
    ecdsa_sign H sign_rs k sk rnd msg = Some sig ->
    ecdsa_verify H raw (ecdsa_with_pub_hash k pub' h') sig msg' = Ok tt ->
    (pub', h', msg') <> (ek_pub k, ek_hash k, msg) ->
    let sfx := suffix (ek_variant k) in
    let rs := sign_rs (ek_curve k) sk (H (ek_hash k) (msg ++ sfx)) rnd in
    raw (ek_curve k) pub' (H h' (msg' ++ sfx)) (fst rs) (snd rs) = true /\
    ((pub', H h' (msg' ++ sfx)) <> (ek_pub k, H (ek_hash k) (msg ++ sfx)) \/
     (H h' (msg' ++ sfx) = H (ek_hash k) (msg ++ sfx) /\ (h', msg' ++ sfx) <> (ek_hash k, msg ++ sfx))).
Proof. exact ecdsa_forgery_reduction. Qed.
Print Assumptions C03_ecdsa_modified_or_other_key_is_oracle_forgery.

Theorem C03_ecdsa_modified_or_other_key_rejected :
  forall H raw (sign_rs : curve -> bytes -> bytes -> bytes -> N * N) k sk rnd msg sig pub' h' msg',
    (forall c sk h rnd, fst (sign_rs c sk h rnd) < 256 ^ N.of_nat (field_size c) /\
                        snd (sign_rs c sk h rnd) < 256 ^ N.of_nat (field_size c)) ->
    ecdsa_sign H sign_rs k sk rnd msg = Some sig ->
    let sfx := suffix (ek_variant k) in
    let rs := sign_rs (ek_curve k) sk (H (ek_hash k) (msg ++ sfx)) rnd in
    (forall p d, raw (ek_curve k) p d (fst rs) (snd rs) = true -> (p, d) = (ek_pub k, H (ek_hash k) (msg ++ sfx))) ->
    (H h' (msg' ++ sfx) = H (ek_hash k) (msg ++ sfx) -> (h', msg' ++ sfx) = (ek_hash k, msg ++ sfx)) ->
    (pub', h', msg') <> (ek_pub k, ek_hash k, msg) ->
    ecdsa_verify H raw (ecdsa_with_pub_hash k pub' h') sig msg' = Err.
Proof. exact ecdsa_modified_rejected_unless_forgery. Qed.
Print Assumptions C03_ecdsa_modified_or_other_key_rejected.

(* ---------------- the premises of the second round are inhabited ---------------- *)

(* a 2048-bit modulus 80 00..00 (256 bytes); a "signature" 00 07..07 whose
   first byte is zero; a core verification that only looks at the INTEGER the
   signature denotes (what a verifier that left-pads short signatures does) *)
Definition n2048 : bytes := 128 :: repeat 0 255.
Definition zsig : bytes := 0 :: repeat 7 255.
Definition toy_rsa (v : variant) (n : bytes) (h : hasht) : rsa_key :=
  {| rk_hash := h; rk_variant := v; rk_id := 16909060; rk_n := n; rk_e := 65537; rk_salt := 32 |}.
Definition toy_pkcs1_core (_ : bytes) (_ : N) (_ : hasht) (_ sig : bytes) : bool := be_val sig =? be_val zsig.
Definition toy_pss_core (_ : bytes) (_ : N) (_ : hasht) (_ : N) (_ sig : bytes) : bool := be_val sig =? be_val zsig.
Definition toy_pkcs1_sign (_ : bytes) (_ : hasht) (_ : bytes) : bytes := zsig.
Definition toy_pss_sign (_ : bytes) (_ : hasht) (_ : N) (_ _ : bytes) : bytes := zsig.
Definition toy_rsa_pub_of (_ : bytes) : bytes * N := (n2048, 65537).

Example C03_example_rsa_length :
  rsa_sig_len n2048 = 256%nat /\ rsa_sig_len (0 :: 0 :: n2048) = 256%nat /\ rsa_key_ok n2048 65537 = true /\
  length zsig = 256%nat /\
  (* the genuine 256-byte signature is accepted ... *)
  pkcs1_verify toyH (std_pkcs1 toy_pkcs1_core) (toy_rsa VTink n2048 SHA256) ([1;1;2;3;4] ++ zsig) [9] = Ok tt /\
  pss_verify toyH (std_pss toy_pss_core) (toy_rsa VRaw n2048 SHA256) zsig [9] = Ok tt /\
  (* ... its zero-stripped 255-byte form denotes the same integer and the core
     alone would take it, but Verify rejects it, and 257 bytes as well *)
  toy_pkcs1_core n2048 65537 SHA256 [9] (tl zsig) = true /\
  pkcs1_verify toyH (std_pkcs1 toy_pkcs1_core) (toy_rsa VTink n2048 SHA256) ([1;1;2;3;4] ++ tl zsig) [9] = Err /\
  pkcs1_verify toyH (std_pkcs1 toy_pkcs1_core) (toy_rsa VTink n2048 SHA256) ([1;1;2;3;4] ++ 0 :: zsig) [9] = Err /\
  pss_verify toyH (std_pss toy_pss_core) (toy_rsa VRaw n2048 SHA256) (tl zsig) [9] = Err /\
  pss_verify toyH (std_pss toy_pss_core) (toy_rsa VRaw n2048 SHA256) (zsig ++ [0]) [9] = Err /\
  (* a TINK signature under the RAW key of the same modulus, and conversely *)
  pkcs1_verify toyH (std_pkcs1 toy_pkcs1_core) (toy_rsa VRaw n2048 SHA256) ([1;1;2;3;4] ++ zsig) [9] = Err /\
  pkcs1_verify toyH (std_pkcs1 toy_pkcs1_core) (toy_rsa VTink n2048 SHA256) zsig [9] = Err.
Proof. vm_compute. repeat split; reflexivity. Qed.

(* the laws of C03_rsa_sign_has_modulus_length hold for the toy oracles *)
Example C03_example_rsa_sign_law :
  (forall sk h d, std_pkcs1 toy_pkcs1_core (fst (toy_rsa_pub_of sk)) (snd (toy_rsa_pub_of sk)) h d (toy_pkcs1_sign sk h d) = true) /\
  (forall sk h salt d rnd,
      std_pss toy_pss_core (fst (toy_rsa_pub_of sk)) (snd (toy_rsa_pub_of sk)) h salt d (toy_pss_sign sk h salt d rnd) = true) /\
  (rk_n (toy_rsa VLegacy n2048 SHA256), rk_e (toy_rsa VLegacy n2048 SHA256)) = toy_rsa_pub_of [5] /\
  length (pkcs1_sign toyH toy_pkcs1_sign (toy_rsa VLegacy n2048 SHA256) [5] [9]) = 261%nat.
Proof. repeat split; intros; vm_compute; reflexivity. Qed.

(* Ed25519: an accepted signature (premise of the explicit rejections); a lax
   oracle under which a modified message IS accepted (premises of the
   reduction); a strict oracle satisfying the no-forgery hypothesis *)
Definition toy_ed_sign (_ _ : bytes) : bytes := repeat 1 64.
Definition toy_ed_lax (_ _ _ : bytes) : bool := true.
Definition toy_ed_strict (p m s : bytes) : bool := beq p [7] && beq m [9] && beq s (repeat 1 64).
Definition toy_ed_sig : bytes := [1;1;2;3;4] ++ repeat 1 64.

Example C03_example_ed25519 :
  ed25519_sign toy_ed_sign VTink 16909060 [5] [9] = Ok toy_ed_sig /\
  ed25519_verify toy_ed_strict VTink 16909060 [7] toy_ed_sig [9] = Ok tt /\
  ed25519_verify toy_ed_strict VTink 16909060 [7] (toy_ed_sig ++ [0]) [9] = Err /\
  ed25519_verify toy_ed_strict VTink 16909060 [7] (firstn 68 toy_ed_sig) [9] = Err /\
  ed25519_verify toy_ed_strict VTink 16909061 [7] toy_ed_sig [9] = Err /\
  ed25519_verify toy_ed_strict VCrunchy 16909060 [7] toy_ed_sig [9] = Err /\
  ed25519_verify toy_ed_strict VRaw 16909060 [7] toy_ed_sig [9] = Err /\
  ed25519_verify toy_ed_strict VTink 16909060 [7] (skipn 5 toy_ed_sig) [9] = Err /\
  (* lax oracle: the modified message and the other key are accepted *)
  ed25519_verify toy_ed_lax VTink 16909060 [8] toy_ed_sig [10] = Ok tt /\
  ([8], [10]) <> ([7], [9] : bytes) /\
  (* strict oracle: the no-forgery hypothesis holds, and the genuine pair verifies *)
  (forall p m, toy_ed_strict p m (toy_ed_sign [5] ([9] ++ suffix VTink)) = true -> (p, m) = ([7], [9] ++ suffix VTink)).
Proof.
  repeat split; try (vm_compute; reflexivity); try discriminate.
  intros p m Hc. unfold toy_ed_strict in Hc. apply andb_true_iff in Hc. destruct Hc as [Hc _].
  apply andb_true_iff in Hc. destruct Hc as [Hp Hm]. apply beq_eq in Hp, Hm. subst. reflexivity.
Qed.

(* RSA reduction: with the lax core a modified message is accepted (premises
   inhabited, first disjunct: another digest); with a constant hash the second
   disjunct is a collision of two DISTINCT strings; a strict oracle satisfies
   the no-forgery hypothesis *)
Definition toyHconst (_ : hasht) (_ : bytes) : bytes := [0].
Definition hash_is256 (h : hasht) : bool := match h with SHA256 => true | _ => false end.
Definition toy_pkcs1_strict (n : bytes) (e : N) (h : hasht) (d sig : bytes) : bool :=
  beq n n2048 && (e =? 65537) && hash_is256 h && beq d [9] && beq sig zsig.
Definition toy_pss_strict (n : bytes) (e : N) (h : hasht) (s : N) (d sig : bytes) : bool :=
  beq n n2048 && (e =? 65537) && hash_is256 h && (s =? 32) && beq d [9] && beq sig zsig.

Example C03_example_rsa_reduction :
  let k := toy_rsa VTink n2048 SHA256 in
  rsa_same_prefix k (toy_rsa VTink (129 :: repeat 0 255) SHA384) /\
  (* modified message, identity hash: accepted by the lax core, digests differ *)
  pkcs1_verify toyH toy_pkcs1_core k (pkcs1_sign toyH toy_pkcs1_sign k [5] [9]) [10] = Ok tt /\
  toyH SHA256 ([10] ++ suffix VTink) <> toyH SHA256 ([9] ++ suffix VTink) /\
  (* other key (modulus and hash) *)
  pkcs1_verify toyH toy_pkcs1_core (toy_rsa VTink (129 :: repeat 0 255) SHA384) (pkcs1_sign toyH toy_pkcs1_sign k [5] [9]) [9] = Ok tt /\
  pss_verify toyH toy_pss_core k (pss_sign toyH toy_pss_sign k [5] [6] [9]) [10] = Ok tt /\
  (* constant hash: the collision disjunct, on distinct strings *)
  pkcs1_verify toyHconst toy_pkcs1_core k (pkcs1_sign toyHconst toy_pkcs1_sign k [5] [9]) [10] = Ok tt /\
  toyHconst SHA256 ([10] ++ suffix VTink) = toyHconst SHA256 ([9] ++ suffix VTink) /\
  [10] ++ suffix VTink <> [9] ++ suffix VTink /\
  (* strict oracles: genuine accepted, no-forgery hypotheses hold *)
  pkcs1_verify toyH toy_pkcs1_strict k (pkcs1_sign toyH toy_pkcs1_sign k [5] [9]) [9] = Ok tt /\
  (forall n e h d, toy_pkcs1_strict n e h d (toy_pkcs1_sign [5] SHA256 (toyH SHA256 ([9] ++ suffix VTink))) = true ->
     (n, e, h, d) = (rk_n k, rk_e k, rk_hash k, toyH (rk_hash k) ([9] ++ suffix VTink))) /\
  (forall n e h s d, toy_pss_strict n e h s d (toy_pss_sign [5] SHA256 32 (toyH SHA256 ([9] ++ suffix VTink)) [6]) = true ->
     (n, e, h, s, d) = (rk_n k, rk_e k, rk_hash k, rk_salt k, toyH (rk_hash k) ([9] ++ suffix VTink))).
Proof.
  cbv zeta. repeat split; try (vm_compute; reflexivity); try discriminate.
  - intros n e h d Hc. unfold toy_pkcs1_strict in Hc.
    repeat (apply andb_true_iff in Hc; let X := fresh "X" in destruct Hc as [Hc X]).
    apply beq_eq in Hc, X0. apply N.eqb_eq in X2. destruct h; try discriminate X1. subst. reflexivity.
  - intros n e h s d Hc. unfold toy_pss_strict in Hc.
    repeat (apply andb_true_iff in Hc; let X := fresh "X" in destruct Hc as [Hc X]).
    apply beq_eq in Hc, X0. apply N.eqb_eq in X1, X3. destruct h; try discriminate X2. subst. reflexivity.
Qed.

(* ECDSA reduction: toy_raw ignores point and digest, so a modified message is
   accepted (premises inhabited); a strict raw verification satisfies the
   no-forgery hypothesis *)
Definition toy_sign_rs (_ : curve) (_ _ _ : bytes) : N * N := (7, 300).
Definition toy_raw_strict (_ : curve) (p d : bytes) (r s : N) : bool :=
  beq p [4] && beq d [9] && (r =? 7) && (s =? 300).

Example C03_example_ecdsa_reduction :
  (forall c sk h rnd, fst (toy_sign_rs c sk h rnd) < 256 ^ N.of_nat (field_size c) /\
                      snd (toy_sign_rs c sk h rnd) < 256 ^ N.of_nat (field_size c)) /\
  ecdsa_sign toyH toy_sign_rs (toy_key DER VTink) [5] [6] [9] = Some [1;1;2;3;4; 48;7; 2;1;7; 2;2;1;44] /\
  ecdsa_verify toyH toy_raw (ecdsa_with_pub_hash (toy_key DER VTink) [4] SHA256)
               [1;1;2;3;4; 48;7; 2;1;7; 2;2;1;44] [10] = Ok tt /\
  ecdsa_verify toyH toy_raw_strict (toy_key DER VTink) [1;1;2;3;4; 48;7; 2;1;7; 2;2;1;44] [9] = Ok tt /\
  (forall p d, toy_raw_strict P256 p d 7 300 = true -> (p, d) = ([4], toyH SHA256 ([9] ++ suffix VTink))).
Proof.
  split; [intros c sk h rnd; destruct c; vm_compute; split; reflexivity|].
  repeat split; try (vm_compute; reflexivity).
  intros p d Hc. unfold toy_raw_strict in Hc.
  repeat (apply andb_true_iff in Hc; let X := fresh "X" in destruct Hc as [Hc X]).
  apply beq_eq in Hc, X1. subst. reflexivity.
Qed.
