(* C03 — Signatures verify iff genuinely produced by the private key
   (ECDSA DER / IEEE P1363, Ed25519, RSA-SSA-PKCS1, RSA-SSA-PSS).

   Statements only; proofs live in proofs/DERProofs.v and proofs/SigProofs.v.
   The models are model/DER.v (strict DER of SEQUENCE{INTEGER r, INTEGER s})
   and model/Sig.v (prefix, LEGACY suffix, hash choice, encodings, length and
   key rules).  The standard algorithms are universally quantified function
   parameters (H, raw, ed_raw, pkcs1_raw, pss_raw ...): every theorem holds
   for every instantiation, in particular for the Go standard library. *)
From Coq Require Import List NArith ZArith Bool.
From Tink Require Import Bytes DER DERProofs Sig SigProofs.
Import ListNotations.
Open Scope N_scope.

(* ---------------- strict DER ---------------- *)

(* Canonical uniqueness: a byte string is accepted by the strict decoder
   (ASN1Decode) with result (r, s) exactly when it IS the encoding of (r, s)
   (r, s any integers, negative included).  Hence non-minimal INTEGERs,
   superfluous leading 00/ff, long-form or indefinite lengths, trailing bytes
   inside or outside the SEQUENCE, wrong tags ... are all rejected.
   [der_fits]: the contents are shorter than 2^32 bytes (4 length octets). *)
Theorem C03_der_canonical_unique :
  forall (b : bytes) (r s : Z), wfb b ->
    (der_decode b = Some (r, s) <-> b = der_encode r s /\ der_fits r s).
Proof. exact der_canonical_unique_proof. Qed.
Print Assumptions C03_der_canonical_unique.

Theorem C03_der_roundtrip :
  forall r s : Z, der_fits r s -> der_decode (der_encode r s) = Some (r, s) /\ wfb (der_encode r s).
Proof. intros r s Hf. split; [apply der_decode_encode|apply der_encode_wf]; exact Hf. Qed.
Print Assumptions C03_der_roundtrip.

(* every pair of naturals below 256^120 (all curve sizes) fits *)
Theorem C03_der_fits_field_sized :
  forall (r s : N) (k : nat), (k <= 120)%nat -> r < 256 ^ N.of_nat k -> s < 256 ^ N.of_nat k ->
    der_fits (Z.of_N r) (Z.of_N s).
Proof. exact der_fits_small. Qed.
Print Assumptions C03_der_fits_field_sized.

Theorem C03_der_trailing_data_rejected :
  forall b r s t, wfb b -> t <> [] ->
    (der_decode b = Some (r, s) -> der_decode (b ++ t) = None) /\
    (N.of_nat (length (der_body r s ++ t)) < 4294967296 ->
     der_decode (enc_tlv SEQ (der_body r s ++ t)) = None).
Proof.
  intros b r s t Hw Ht. split.
  - intros H. eapply der_trailing_rejected; eauto.
  - apply der_trailing_inside_rejected; exact Ht.
Qed.
Print Assumptions C03_der_trailing_data_rejected.

Theorem C03_der_non_minimal_rejected :
  (forall x t, x < 128 -> int_dec (0 :: x :: t) = None) /\
  (forall x t, 128 <= x -> int_dec (255 :: x :: t) = None) /\
  int_dec [] = None /\
  (forall k d rest, length d = k -> be_val d < 128 -> read_len ((128 + N.of_nat k) :: d ++ rest) = None) /\
  (forall rest, read_len (128 :: rest) = None).
Proof.
  repeat split.
  - exact int_lead00_rejected.
  - exact int_leadff_rejected.
  - exact len_long_for_short_rejected.
Qed.
Print Assumptions C03_der_non_minimal_rejected.

(* ASN1Decode as coded (Unmarshal with ANY parser that is right on canonical
   encodings, then re-Marshal and compare): its accept set is exactly the
   image of the encoder, whatever else the parser tolerates; on inputs below
   2^32 bytes it is the strict decoder above. *)
Theorem C03_asn1_decode_reencode_check :
  forall (unmarshal : bytes -> option (Z * Z)),
    (forall r s, unmarshal (der_encode r s) = Some (r, s)) ->
    (forall b r s, asn1_decode_impl unmarshal b = Some (r, s) <-> b = der_encode r s) /\
    (forall b, wfb b -> N.of_nat (length b) < 4294967296 -> asn1_decode_impl unmarshal b = der_decode b).
Proof.
  intros u Hu. split; [apply asn1_decode_impl_spec; exact Hu|apply asn1_decode_impl_is_der_decode; exact Hu].
Qed.
Print Assumptions C03_asn1_decode_reencode_check.

(* the parser inside crypto/ecdsa.VerifyASN1: the same, non-negative only *)
Theorem C03_parse_sig_accept_set :
  forall (b : bytes) (r s : N), wfb b ->
    (parse_sig b = Some (r, s) <-> b = der_encode_N r s /\ der_fits (Z.of_N r) (Z.of_N s)).
Proof. exact parse_sig_iff. Qed.
Print Assumptions C03_parse_sig_accept_set.

Theorem C03_parse_sig_negative_rejected :
  forall r s : Z, (r < 0 \/ s < 0)%Z -> parse_sig (der_encode r s) = None.
Proof. exact parse_sig_negative_rejected. Qed.
Print Assumptions C03_parse_sig_negative_rejected.

(* ---------------- IEEE P1363 ---------------- *)

Theorem C03_p1363_codec :
  forall c (b : bytes) (r s : N),
    (p1363_encode c r s = Some b -> p1363_decode c b = Ok (r, s)) /\
    (wfb b -> p1363_decode c b = Ok (r, s) -> p1363_encode c r s = Some b) /\
    (length b <> p1363_size c -> p1363_decode c b = Err) /\
    p1363_decode c b <> Panic /\ p1363_decode_any b <> Panic /\
    (p1363_size P256 = 64 /\ p1363_size P384 = 96 /\ p1363_size P521 = 132)%nat.
Proof.
  intros c b r s. repeat split.
  - apply p1363_roundtrip.
  - apply p1363_decode_sound.
  - apply p1363_wrong_length.
  - apply p1363_decode_no_panic.
  - apply p1363_decode_any_no_panic.
Qed.
Print Assumptions C03_p1363_codec.

(* ---------------- ECDSA ---------------- *)

(* Exact acceptance set.  For every hash function H, every raw verification
   predicate [raw] and every key k (any curve, hash, encoding, variant, id):
   Verify accepts sig for msg exactly when sig is  prefix || encoding(r, s)
   of a pair that the raw verification accepts for H(msg || legacy suffix). *)
Theorem C03_ecdsa_verify_iff :
  forall (H : hasht -> bytes -> bytes) (raw : curve -> bytes -> bytes -> N -> N -> bool)
         (k : ecdsa_key) (sig msg : bytes), wfb sig ->
    (ecdsa_verify H raw k sig msg = Ok tt <->
     exists r s, ecdsa_frame k r s = Some sig /\ sig_fits k r s /\
       raw (ek_curve k) (ek_pub k) (H (ek_hash k) (msg ++ suffix (ek_variant k))) r s = true).
Proof. exact ecdsa_verify_iff_proof. Qed.
Print Assumptions C03_ecdsa_verify_iff.

(* Sign's output verifies, whenever the raw signing oracle produces pairs the
   raw verification accepts (the law of the standard algorithm). *)
Theorem C03_ecdsa_sign_then_verify :
  forall H raw (sign_rs : curve -> bytes -> bytes -> bytes -> N * N) (pub_of : curve -> bytes -> bytes)
         k sk rnd msg,
    (forall c sk h rnd, raw c (pub_of c sk) h (fst (sign_rs c sk h rnd)) (snd (sign_rs c sk h rnd)) = true) ->
    (forall c sk h rnd, fst (sign_rs c sk h rnd) < 256 ^ N.of_nat (field_size c) /\
                        snd (sign_rs c sk h rnd) < 256 ^ N.of_nat (field_size c)) ->
    ek_pub k = pub_of (ek_curve k) sk ->
    exists sig, ecdsa_sign H sign_rs k sk rnd msg = Some sig /\ wfb sig /\
                ecdsa_verify H raw k sig msg = Ok tt.
Proof. exact ecdsa_sign_verify_proof. Qed.
Print Assumptions C03_ecdsa_sign_then_verify.

Theorem C03_ecdsa_wrong_prefix_or_length_rejected :
  forall H raw k sig msg t,
    ((forall t, sig <> prefix (ek_variant k) (ek_id k) ++ t) -> ecdsa_verify H raw k sig msg = Err) /\
    (ek_enc k = P1363 -> length t <> p1363_size (ek_curve k) ->
     ecdsa_verify H raw k (prefix (ek_variant k) (ek_id k) ++ t) msg = Err).
Proof.
  intros. split; [apply ecdsa_wrong_prefix_proof|apply ecdsa_p1363_wrong_length_proof].
Qed.
Print Assumptions C03_ecdsa_wrong_prefix_or_length_rejected.

(* ---------------- Ed25519 ---------------- *)

Theorem C03_ed25519_verify_iff :
  forall (ed_raw : bytes -> bytes -> bytes -> bool) v id pub sig msg,
    ed25519_verify ed_raw v id pub sig msg = Ok tt <->
    exists body, sig = prefix v id ++ body /\ length body = 64%nat /\
                 ed_raw pub (msg ++ suffix v) body = true.
Proof. exact ed25519_verify_iff_proof. Qed.
Print Assumptions C03_ed25519_verify_iff.

Theorem C03_ed25519_sign_then_verify :
  forall ed_raw (ed_sign : bytes -> bytes -> bytes) (ed_pub_of : bytes -> bytes) v id seed msg,
    (forall seed m, ed_raw (ed_pub_of seed) m (ed_sign seed m) = true) ->
    (forall seed m, length (ed_sign seed m) = 64%nat) ->
    exists sig, ed25519_sign ed_sign v id seed msg = Ok sig /\
                ed25519_verify ed_raw v id (ed_pub_of seed) sig msg = Ok tt.
Proof. exact ed25519_sign_verify_proof. Qed.
Print Assumptions C03_ed25519_sign_then_verify.

(* ---------------- RSA-SSA-PKCS1 / PSS ---------------- *)

Theorem C03_rsa_pkcs1_verify_iff :
  forall H (pkcs1_raw : bytes -> N -> hasht -> bytes -> bytes -> bool) k sig msg,
    pkcs1_verify H pkcs1_raw k sig msg = Ok tt <->
    exists body, sig = prefix (rk_variant k) (rk_id k) ++ body /\
      pkcs1_raw (rk_n k) (rk_e k) (rk_hash k) (H (rk_hash k) (msg ++ suffix (rk_variant k))) body = true.
Proof. exact pkcs1_verify_iff_proof. Qed.
Print Assumptions C03_rsa_pkcs1_verify_iff.

(* salt-length binding: the standard verification is run with exactly the
   key's salt length *)
Theorem C03_rsa_pss_verify_iff :
  forall H (pss_raw : bytes -> N -> hasht -> N -> bytes -> bytes -> bool) k sig msg,
    pss_verify H pss_raw k sig msg = Ok tt <->
    exists body, sig = prefix (rk_variant k) (rk_id k) ++ body /\
      pss_raw (rk_n k) (rk_e k) (rk_hash k) (rk_salt k)
              (H (rk_hash k) (msg ++ suffix (rk_variant k))) body = true.
Proof. exact pss_verify_iff_proof. Qed.
Print Assumptions C03_rsa_pss_verify_iff.

Theorem C03_rsa_sign_then_verify :
  forall H pkcs1_raw pss_raw
         (pkcs1_sign_raw : bytes -> hasht -> bytes -> bytes)
         (pss_sign_raw : bytes -> hasht -> N -> bytes -> bytes -> bytes)
         (rsa_pub_of : bytes -> bytes * N) k sk rnd msg,
    (forall sk h d, pkcs1_raw (fst (rsa_pub_of sk)) (snd (rsa_pub_of sk)) h d (pkcs1_sign_raw sk h d) = true) ->
    (forall sk h salt d rnd,
        pss_raw (fst (rsa_pub_of sk)) (snd (rsa_pub_of sk)) h salt d (pss_sign_raw sk h salt d rnd) = true) ->
    (rk_n k, rk_e k) = rsa_pub_of sk ->
    pkcs1_verify H pkcs1_raw k (pkcs1_sign H pkcs1_sign_raw k sk msg) msg = Ok tt /\
    pss_verify H pss_raw k (pss_sign H pss_sign_raw k sk rnd msg) msg = Ok tt.
Proof.
  intros. split; [eapply pkcs1_sign_verify_proof|eapply pss_sign_verify_proof]; eauto.
Qed.
Print Assumptions C03_rsa_sign_then_verify.

(* ---------------- no panic, key rules ---------------- *)

(* No signature, message or key makes a verifier index out of range: every
   slice expression of the model is a checked slice. *)
Theorem C03_verify_never_panics :
  forall H raw ed_raw pkcs1_raw pss_raw k v id pub rk sig msg,
    ecdsa_verify H raw k sig msg <> Panic /\
    ed25519_verify ed_raw v id pub sig msg <> Panic /\
    pkcs1_verify H pkcs1_raw rk sig msg <> Panic /\
    pss_verify H pss_raw rk sig msg <> Panic.
Proof.
  intros. split; [apply ecdsa_verify_no_panic_proof|].
  split; [apply ed25519_verify_no_panic_proof|]. apply rsa_verify_no_panic_proof.
Qed.
Print Assumptions C03_verify_never_panics.

(* a verifier / signer is constructible only for >= 2048-bit moduli, e = 65537
   and SHA-256/384/512; ECDSA only for the curve/hash pairs of the table *)
Theorem C03_key_rules :
  (forall h n e, rsa_ctor_ok h n e = true <->
     2 ^ 2047 <= be_val n /\ e = 65537 /\ (h = SHA256 \/ h = SHA384 \/ h = SHA512)) /\
  (forall c h, ecdsa_params_ok c h = true <->
     (c = P256 /\ h = SHA256) \/ (c = P384 /\ (h = SHA384 \/ h = SHA512)) \/ (c = P521 /\ h = SHA512)).
Proof. split; [exact rsa_ctor_ok_iff_proof|exact ecdsa_params_ok_iff_proof]. Qed.
Print Assumptions C03_key_rules.

(* ---------------- further consequences ---------------- *)

(* The accepted byte strings are in bijection with the accepted raw
   signatures: no second encoding of the same (r, s) verifies. *)
Theorem C03_ecdsa_encoding_injective :
  forall k r s r' s' sig,
    ecdsa_frame k r s = Some sig -> ecdsa_frame k r' s' = Some sig ->
    sig_fits k r s -> sig_fits k r' s' -> r = r' /\ s = s'.
Proof. exact ecdsa_frame_inj. Qed.
Print Assumptions C03_ecdsa_encoding_injective.

(* A signature accepted under one non-RAW prefix is rejected under any other
   (other variant start byte or other key id). *)
Theorem C03_ecdsa_other_prefix_rejected :
  forall H raw k v' id' sig msg,
    ecdsa_verify H raw k sig msg = Ok tt -> ek_variant k <> VRaw -> v' <> VRaw ->
    prefix (ek_variant k) (ek_id k) <> prefix v' id' ->
    ecdsa_verify H raw (with_variant k v' id') sig msg = Err.
Proof. exact ecdsa_other_prefix_rejected. Qed.
Print Assumptions C03_ecdsa_other_prefix_rejected.

(* LEGACY is CRUNCHY over message || 0x00, for all four schemes. *)
Theorem C03_legacy_is_crunchy_over_suffixed_message :
  forall H raw ed_raw pkcs1_raw pss_raw k id pub rk sig msg,
    ecdsa_verify H raw (with_variant k VLegacy id) sig msg =
      ecdsa_verify H raw (with_variant k VCrunchy id) sig (msg ++ [0]) /\
    ed25519_verify ed_raw VLegacy id pub sig msg = ed25519_verify ed_raw VCrunchy id pub sig (msg ++ [0]) /\
    pkcs1_verify H pkcs1_raw (rsa_with_variant rk VLegacy) sig msg =
      pkcs1_verify H pkcs1_raw (rsa_with_variant rk VCrunchy) sig (msg ++ [0]) /\
    pss_verify H pss_raw (rsa_with_variant rk VLegacy) sig msg =
      pss_verify H pss_raw (rsa_with_variant rk VCrunchy) sig (msg ++ [0]).
Proof.
  intros. split; [apply ecdsa_legacy_is_crunchy|]. split; [apply ed25519_legacy_is_crunchy|].
  apply rsa_legacy_is_crunchy.
Qed.
Print Assumptions C03_legacy_is_crunchy_over_suffixed_message.

Theorem C03_p1363_curveless_decoder_lengths :
  forall b r s, p1363_decode_any b = Ok (r, s) ->
    length b = 64%nat \/ length b = 96%nat \/ length b = 132%nat.
Proof. exact p1363_decode_any_lengths. Qed.
Print Assumptions C03_p1363_curveless_decoder_lengths.

(* ---------------- the premises are inhabited ---------------- *)

Definition toyH (_ : hasht) (m : bytes) : bytes := m.
Definition toy_raw (_ : curve) (_ _ : bytes) (r s : N) : bool := (r =? 7) && (s =? 300).
Definition toy_key (e : sigenc) (v : variant) : ecdsa_key :=
  {| ek_curve := P256; ek_hash := SHA256; ek_enc := e; ek_variant := v; ek_id := 16909060; ek_pub := [4] |}.

(* 30 07 02 01 07 02 02 01 2c under the TINK prefix 01 01 02 03 04 *)
Example C03_example_der :
  ecdsa_frame (toy_key DER VTink) 7 300 = Some [1;1;2;3;4; 48;7; 2;1;7; 2;2;1;44] /\
  ecdsa_verify toyH toy_raw (toy_key DER VTink) [1;1;2;3;4; 48;7; 2;1;7; 2;2;1;44] [9] = Ok tt /\
  (* extra leading zero, long-form length, trailing byte, missing prefix: rejected *)
  ecdsa_verify toyH toy_raw (toy_key DER VTink) [1;1;2;3;4; 48;8; 2;2;0;7; 2;2;1;44] [9] = Err /\
  ecdsa_verify toyH toy_raw (toy_key DER VTink) [1;1;2;3;4; 48;129;7; 2;1;7; 2;2;1;44] [9] = Err /\
  ecdsa_verify toyH toy_raw (toy_key DER VTink) [1;1;2;3;4; 48;7; 2;1;7; 2;2;1;44; 0] [9] = Err /\
  ecdsa_verify toyH toy_raw (toy_key DER VTink) [48;7; 2;1;7; 2;2;1;44] [9] = Err /\
  ecdsa_verify toyH toy_raw (toy_key DER VTink) [1;1] [9] = Err /\
  der_decode [48;6; 2;1;255; 2;1;128] = Some ((-1)%Z, (-128)%Z) /\
  parse_sig [48;6; 2;1;255; 2;1;128] = None.
Proof. vm_compute. repeat split; reflexivity. Qed.

Definition toy_p1363_sig : bytes :=
  [0;1;2;3;4] ++ repeat 0 31 ++ [7] ++ repeat 0 30 ++ [1;44].

Example C03_example_p1363 :
  ecdsa_frame (toy_key P1363 VLegacy) 7 300 = Some toy_p1363_sig /\ length toy_p1363_sig = 69%nat /\
  ecdsa_verify toyH toy_raw (toy_key P1363 VLegacy) toy_p1363_sig [9] = Ok tt /\
  ecdsa_verify toyH toy_raw (toy_key P1363 VLegacy) (toy_p1363_sig ++ [0]) [9] = Err /\
  ecdsa_verify toyH toy_raw (toy_key P1363 VLegacy) (tl toy_p1363_sig) [9] = Err.
Proof. vm_compute. repeat split; reflexivity. Qed.
