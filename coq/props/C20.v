(* C20 — Randomized operations draw fresh, full-length randomness on every call.
   PARTIAL BY NATURE: the theorems are about the tape semantics of
   model/Rand.v (crypto/rand.Reader = a byte tape; every rand.Read = the
   next bytes of it).  They show that the code's use of its randomness is
   the identity on disjoint, contiguous, full-length windows — so whatever
   distribution the reader has, the IV / nonce / salt / nonce-prefix / key-id
   / key fields have it too, byte for byte.  The entropy of crypto/rand
   itself and the draws made inside the standard library (P-256 ECDH key
   generation, ECDSA / hedged signing, ML-KEM encapsulation) are outside.
   Only statements + `exact`; proofs live in proofs/RandProofs.v. *)
From Coq Require Import List NArith Bool Arith.
From Tink Require Import Bytes Manager ManagerProofs Rand RandProofs.
Import ListNotations.
Open Scope N_scope.

(* 1. No byte reused, none skipped: over ANY history of randomized calls
   (encryptions, stream writers, hybrid encryptions, key generations, id
   draws incl. rejected ones, signatures), the windows read, in order,
   followed by the unread rest, are exactly the tape. *)
Theorem C20_tape_consumed_contiguously :
  forall pub cs s res s',
    run pub cs s = Some (res, s') ->
    r_tape s = concat (traces res) ++ r_tape s'.
Proof. exact run_partition. Qed.
Print Assumptions C20_tape_consumed_contiguously.

(* 2. Windows of distinct reads are pairwise disjoint byte ranges: the j-th
   window read in a history is tape[off_j, off_j + len_j) with
   off_(j+1) = off_j + len_j, and for i < j, off_i + len_i <= off_j. *)
Theorem C20_windows_pairwise_disjoint :
  forall pub cs s res s',
    run pub cs s = Some (res, s') ->
    let ws := traces res in
    let off j := length (concat (firstn j ws)) in
    (forall j, (j < length ws)%nat ->
       nth j ws [] = firstn (length (nth j ws [])) (skipn (off j) (r_tape s)) /\
       off (S j) = (off j + length (nth j ws []))%nat) /\
    (forall i j, (i < j)%nat -> (j < length ws)%nat -> (off i + length (nth i ws []) <= off j)%nat).
Proof. exact run_windows_positions. Qed.
Print Assumptions C20_windows_pairwise_disjoint.

(* 3. Full length: every call's output is field_of_call of windows that have
   exactly the requested lengths (12 / 24 / iv size / salt+12 / derived key
   size / 7 / 32 / 4 / key size ...) and were all read by this very call. *)
Theorem C20_every_field_has_full_length :
  forall pub c s o tr s',
    exec pub c s = Some (o, tr, s') ->
    r_tape s = concat tr ++ r_tape s' /\
    exists ws, o = field_of_call pub c ws /\
               Forall2 (fun q w => length w = req_len q) (requests c) ws /\
               incl ws tr.
Proof. exact exec_spec. Qed.
Print Assumptions C20_every_field_has_full_length.

(* 4. The i-th output's random field is the i-th tape window: in every
   history of calls without key-id draws, call i gets the windows that
   start exactly where call i-1 stopped, of the full requested sizes. *)
Theorem C20_ith_output_is_ith_window :
  forall pub cs s res s',
    forallb call_id_free cs = true ->
    run pub cs s = Some (res, s') ->
    forall i c, nth_error cs i = Some c ->
      let ws := windows (call_sizes c) (skipn (offset cs i) (r_tape s)) in
      nth_error res i = Some (field_of_call pub c ws, ws) /\
      map (@length N) ws = call_sizes c /\
      (offset cs i + call_len c <= length (r_tape s))%nat.
Proof. exact run_ith. Qed.
Print Assumptions C20_ith_output_is_ith_window.

(* 5. The window -> field map is the identity.
   AEAD Encrypt (AES-GCM, AES-GCM-SIV, ChaCha20-Poly1305, XChaCha20-Poly1305,
   AES-CTR-HMAC, XAES-GCM): the output starts with prefix ‖ window. *)
Theorem C20_encrypt_nonce_is_the_window :
  forall pub sch p s o tr s',
    exec pub (CEncrypt sch p) s = Some (o, tr, s') ->
    let iv := firstn (nonce_len sch) (r_tape s) in
    o = OBytes (p ++ iv) /\ tr = [iv] /\ length iv = nonce_len sch /\
    s' = mkR (r_unavail s) (skipn (nonce_len sch) (r_tape s)).
Proof. exact encrypt_field. Qed.
Print Assumptions C20_encrypt_nonce_is_the_window.

(* k encryptions under one key: nonce i = tape[i*n, (i+1)*n). *)
Theorem C20_encrypt_sequence :
  forall pub sch p k s res s',
    run pub (repeat (CEncrypt sch p) k) s = Some (res, s') ->
    forall i, (i < k)%nat ->
      let iv := firstn (nonce_len sch) (skipn (i * nonce_len sch) (r_tape s)) in
      nth_error res i = Some (OBytes (p ++ iv), [iv]) /\ length iv = nonce_len sch.
Proof. exact encrypt_sequence. Qed.
Print Assumptions C20_encrypt_sequence.

(* streaming NewEncryptingWriter: header = len ‖ salt ‖ nonce prefix, salt the
   first window (derived-key-size bytes), nonce prefix the next 7 bytes. *)
Theorem C20_stream_header_is_the_windows :
  forall pub dks s o tr s',
    exec pub (CNewWriter dks) s = Some (o, tr, s') ->
    let salt := firstn dks (r_tape s) in
    let np := firstn 7 (skipn dks (r_tape s)) in
    o = OBytes ((N.of_nat (1 + dks + 7) mod 256) :: salt ++ np) /\ tr = [salt; np] /\
    length salt = dks /\ length np = 7%nat.
Proof. exact new_writer_field. Qed.
Print Assumptions C20_stream_header_is_the_windows.

(* X25519 HPKE / X-Wing: the ephemeral secret IS the 32-byte window; the
   encapsulation is its public key (pub = the stdlib's X25519 base-point
   multiplication, an arbitrary function here). *)
Theorem C20_hpke_ephemeral_secret_is_the_window :
  forall pub p s o tr s',
    exec pub (CHpkeEncrypt p) s = Some (o, tr, s') ->
    let sk := firstn 32 (r_tape s) in
    o = OBytes (p ++ pub sk) /\ tr = [sk] /\ length sk = 32%nat.
Proof. exact hpke_field. Qed.
Print Assumptions C20_hpke_ephemeral_secret_is_the_window.

(* ECIES: ephemeral scalar window, then the DEM's IV window. *)
Theorem C20_ecies_windows :
  forall pub p sc n s o tr s',
    exec pub (CEciesEncrypt p sc n) s = Some (o, tr, s') ->
    let iv := firstn n (skipn sc (r_tape s)) in
    o = OBytes (p ++ iv) /\ tr = [firstn sc (r_tape s); iv] /\ length iv = n /\
    length (firstn sc (r_tape s)) = sc.
Proof. exact ecies_field. Qed.
Print Assumptions C20_ecies_windows.

(* Key generation through a manager: the id is the value of the accepted
   4-byte window (not in use before), the key material is the windows that
   follow, each of the key type's full size. *)
Theorem C20_new_key_is_the_windows :
  forall pub kt s o tr s',
    exec pub (CAddKey kt) s = Some (o, tr, s') ->
    exists idw idtr t1,
      draw_id (r_unavail s) (r_tape s) = Some (idw, idtr, be_val idw :: r_unavail s, t1) /\
      let mat := windows (key_reads kt) t1 in
      o = OKey (be_val idw) mat /\ tr = idtr ++ mat /\
      map (@length N) mat = key_reads kt /\
      ~ In (be_val idw) (r_unavail s) /\
      r_unavail s' = be_val idw :: r_unavail s /\
      r_tape s' = skipn (RandProofs.sum (key_reads kt)) t1.
Proof. exact add_key_field. Qed.
Print Assumptions C20_new_key_is_the_windows.

(* 6. Corollaries of the identity map.
   (a) distinct windows give distinct fields (injectivity); *)
Theorem C20_distinct_windows_distinct_nonces :
  forall pub sch p w w',
    field_of_call pub (CEncrypt sch p) [w] = field_of_call pub (CEncrypt sch p) [w'] ->
    length w = nonce_len sch -> length w' = nonce_len sch -> w = w'.
Proof. exact encrypt_field_injective. Qed.
Print Assumptions C20_distinct_windows_distinct_nonces.

Theorem C20_distinct_windows_distinct_nonces_in_a_sequence :
  forall pub sch p k s res s' i j o1 o2 t1 t2,
    run pub (repeat (CEncrypt sch p) k) s = Some (res, s') ->
    (i < k)%nat -> (j < k)%nat ->
    firstn (nonce_len sch) (skipn (i * nonce_len sch) (r_tape s)) <>
    firstn (nonce_len sch) (skipn (j * nonce_len sch) (r_tape s)) ->
    nth_error res i = Some (o1, t1) -> nth_error res j = Some (o2, t2) -> o1 <> o2.
Proof. exact encrypt_sequence_distinct. Qed.
Print Assumptions C20_distinct_windows_distinct_nonces_in_a_sequence.

Theorem C20_distinct_windows_distinct_stream_headers :
  forall pub dks a b a' b',
    field_of_call pub (CNewWriter dks) [a; b] = field_of_call pub (CNewWriter dks) [a'; b'] ->
    length a = length a' -> a = a' /\ b = b'.
Proof. exact new_writer_field_injective. Qed.
Print Assumptions C20_distinct_windows_distinct_stream_headers.

Theorem C20_distinct_windows_distinct_keys :
  forall pub kt idw mat idw' mat',
    field_of_call pub (CAddKey kt) (idw :: mat) = field_of_call pub (CAddKey kt) (idw' :: mat') ->
    wfb idw -> wfb idw' -> length idw = 4%nat -> length idw' = 4%nat ->
    idw = idw' /\ mat = mat'.
Proof. exact key_field_injective. Qed.
Print Assumptions C20_distinct_windows_distinct_keys.

(* (b) no truncation, no constant padding: every byte position of the nonce
   field of the i-th call is the tape byte at the same position of window i; *)
Theorem C20_every_nonce_byte_is_a_tape_byte :
  forall pub cs s res s' i sch p,
    forallb call_id_free cs = true ->
    run pub cs s = Some (res, s') ->
    nth_error cs i = Some (CEncrypt sch p) ->
    exists out, nth_error res i = Some (OBytes out, [skipn (length p) out]) /\
      length out = (length p + nonce_len sch)%nat /\
      firstn (length p) out = p /\
      forall j, (j < nonce_len sch)%nat ->
        nth (length p + j) out 0 = nth (offset cs i + j) (r_tape s) 0.
Proof. exact encrypt_bytes_are_tape_bytes. Qed.
Print Assumptions C20_every_nonce_byte_is_a_tape_byte.

(* (c) no constant byte: changing one tape byte inside window i changes
   exactly that byte position of output i. *)
Theorem C20_no_nonce_byte_is_constant :
  forall pub cs s1 s2 res1 res2 s1' s2' i sch p j out1 out2 tr1 tr2,
    forallb call_id_free cs = true ->
    run pub cs s1 = Some (res1, s1') -> run pub cs s2 = Some (res2, s2') ->
    nth_error cs i = Some (CEncrypt sch p) -> (j < nonce_len sch)%nat ->
    nth (offset cs i + j) (r_tape s1) 0 <> nth (offset cs i + j) (r_tape s2) 0 ->
    nth_error res1 i = Some (OBytes out1, tr1) -> nth_error res2 i = Some (OBytes out2, tr2) ->
    nth (length p + j) out1 0 <> nth (length p + j) out2 0.
Proof. exact encrypt_tape_sensitive. Qed.
Print Assumptions C20_no_nonce_byte_is_constant.

(* The premise "the whole field is filled" matters: a fill shorter than the
   field would leave constant zero bytes (what the correspondence check and
   the per-position test look for). *)
Theorem C20_partial_fill_refuted :
  forall p n w, (length w < n)%nat ->
    overwrite (p ++ zeros n) (length p) w = p ++ w ++ zeros (n - length w).
Proof. exact overwrite_short. Qed.
Print Assumptions C20_partial_fill_refuted.

(* 7. Key ids: rejection sampling.  newRandomKeyID returns the value of the
   first 4-byte window whose value is not in use; every window before it was
   in use; the id becomes unavailable. *)
Theorem C20_new_key_id_is_first_unused_window :
  forall u t w tr u' t',
    draw_id u t = Some (w, tr, u', t') ->
    exists skipped,
      tr = skipped ++ [w] /\
      Forall (fun x => length x = 4%nat /\ In (be_val x) u) skipped /\
      length w = 4%nat /\ ~ In (be_val w) u /\ u' = be_val w :: u /\
      t = concat tr ++ t'.
Proof. exact draw_id_spec. Qed.
Print Assumptions C20_new_key_id_is_first_unused_window.

(* draw_id is new_random_id of the C11 manager model (model/Manager.v) run
   over the big-endian 4-byte words of the byte tape. *)
Theorem C20_draw_id_is_manager_new_random_id :
  forall u t w tr u' t',
    draw_id u t = Some (w, tr, u', t') ->
    new_random_id u (id_words t) 0 = Some (be_val w, u', id_words t', length tr).
Proof. exact draw_id_new_random_id. Qed.
Print Assumptions C20_draw_id_is_manager_new_random_id.

(* Ids handed out by one manager over any history are pairwise distinct and
   were not in use before: on the tape model ... *)
Theorem C20_key_ids_pairwise_distinct :
  forall pub cs s res s',
    run pub cs s = Some (res, s') ->
    NoDup (added_ids cs res) /\
    (forall id, In id (added_ids cs res) -> ~ In id (r_unavail s) /\ In id (r_unavail s')) /\
    incl (r_unavail s) (r_unavail s').
Proof. exact added_ids_distinct. Qed.
Print Assumptions C20_key_ids_pairwise_distinct.

(* ... and on the C11 model of keyset.Manager for every operation history of
   one manager (Add, AddNewKeyFrom<parameters>, AddKey, SetPrimary, Enable,
   Disable, Delete, Handle), any id tape. *)
Theorem C20_manager_ids_pairwise_distinct :
  forall ops s s' rs,
    forallb not_from_handle ops = true ->
    Manager.run s ops = (s', rs) ->
    NoDup (concat (map rid rs)) /\
    (forall id, In id (concat (map rid rs)) -> ~ In id (unavail (smgr s))) /\
    incl (unavail (smgr s)) (unavail (smgr s')).
Proof. exact manager_ids_distinct. Qed.
Print Assumptions C20_manager_ids_pairwise_distinct.

(* Non-vacuity: a concrete history with a rejected id draw. *)
Example C20_nonvacuous :
  let pub := fun b : bytes => b in
  let tape := [1;2;3;4;5;6;7;8;9;10;11;12; 0;0;0;7; 0;0;0;9; 20;21;22;23;24;25;26;27;28;29;30;31;32;33;34;35; 99] in
  run pub [CEncrypt AesGcm [1;0;0;0;5]; CAddKey (KAesGcm 16)] (mkR [7] tape)
  = Some ([(OBytes [1;0;0;0;5; 1;2;3;4;5;6;7;8;9;10;11;12], [[1;2;3;4;5;6;7;8;9;10;11;12]]);
           (OKey 9 [[20;21;22;23;24;25;26;27;28;29;30;31;32;33;34;35]],
            [[0;0;0;7]; [0;0;0;9]; [20;21;22;23;24;25;26;27;28;29;30;31;32;33;34;35]])],
          mkR [9; 7] [99]).
Proof. vm_compute. reflexivity. Qed.
