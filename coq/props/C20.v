(* C20 — Randomized operations draw fresh, full-length randomness on every call.
   PARTIAL BY NATURE: the theorems are about the tape semantics of
   model/Rand.v (crypto/rand.Reader = a byte tape; every rand.Read = the
   next bytes of it).  They show that the code's use of its randomness is
   the identity on disjoint, contiguous, full-length windows — so whatever
   distribution the reader has, the IV / nonce / salt / nonce-prefix / key-id
   / key fields have it too, byte for byte.  The entropy of crypto/rand
   itself and the draws made inside the standard library (P-256 ECDH key
   generation, ECDSA / hedged signing, ML-KEM encapsulation) are outside.
   Only statements + `exact`; proofs live in proofs/RandProofs.v. *)
From Coq Require Import List NArith Bool Arith.
From Tink Require Import Bytes Manager ManagerProofs Rand RandProofs.
From Tink Require Import AeadFrame EtM RandLink RandProofs2.
From Tink Require Mldsa SlhdsaAddr SlhdsaBase Slhdsa.
Import ListNotations.
Open Scope N_scope.

(* 1. No byte reused, none skipped: over ANY history of randomized calls
   (encryptions, stream writers, hybrid encryptions, key generations, id
   draws incl. rejected ones, signatures), the windows read, in order,
   followed by the unread rest, are exactly the tape. *)
Theorem C20_tape_consumed_contiguously :
  forall pub cs s res s',
    run pub cs s = Some (res, s') ->
    r_tape s = concat (traces res) ++ r_tape s'.
Proof. exact run_partition. Qed.
Print Assumptions C20_tape_consumed_contiguously.

(* 2. Windows of distinct reads are pairwise disjoint byte ranges: the j-th
   window read in a history is tape[off_j, off_j + len_j) with
   off_(j+1) = off_j + len_j, and for i < j, off_i + len_i <= off_j. *)
Theorem C20_windows_pairwise_disjoint :
  forall pub cs s res s',
    run pub cs s = Some (res, s') ->
    let ws := traces res in
    let off j := length (concat (firstn j ws)) in
    (forall j, (j < length ws)%nat ->
       nth j ws [] = firstn (length (nth j ws [])) (skipn (off j) (r_tape s)) /\
       off (S j) = (off j + length (nth j ws []))%nat) /\
    (forall i j, (i < j)%nat -> (j < length ws)%nat -> (off i + length (nth i ws []) <= off j)%nat).
Proof. exact run_windows_positions. Qed.
Print Assumptions C20_windows_pairwise_disjoint.

(* 3. Full length: every call's output is field_of_call of windows that have
   exactly the requested lengths (12 / 24 / iv size / salt+12 / derived key
   size / 7 / 32 / 4 / key size ...) and were all read by this very call. *)
Theorem C20_every_field_has_full_length :
  forall pub c s o tr s',
    exec pub c s = Some (o, tr, s') ->
    r_tape s = concat tr ++ r_tape s' /\
    exists ws, o = field_of_call pub c ws /\
               Forall2 (fun q w => length w = req_len q) (requests c) ws /\
               incl ws tr.
Proof. exact exec_spec. Qed.
Print Assumptions C20_every_field_has_full_length.

(* 4. The i-th output's random field is the i-th tape window: in every
   history of calls without key-id draws, call i gets the windows that
   start exactly where call i-1 stopped, of the full requested sizes. *)
Theorem C20_ith_output_is_ith_window :
  forall pub cs s res s',
    forallb call_id_free cs = true ->
    run pub cs s = Some (res, s') ->
    forall i c, nth_error cs i = Some c ->
      let ws := windows (call_sizes c) (skipn (offset cs i) (r_tape s)) in
      nth_error res i = Some (field_of_call pub c ws, ws) /\
      map (@length N) ws = call_sizes c /\
      (offset cs i + call_len c <= length (r_tape s))%nat.
Proof. exact run_ith. Qed.
Print Assumptions C20_ith_output_is_ith_window.

(* 5. The window -> field map is the identity.
   AEAD Encrypt (AES-GCM, AES-GCM-SIV, ChaCha20-Poly1305, XChaCha20-Poly1305,
   AES-CTR-HMAC, XAES-GCM): the output starts with prefix ‖ window. *)
Theorem C20_encrypt_nonce_is_the_window :
  forall pub sch p s o tr s',
    exec pub (CEncrypt sch p) s = Some (o, tr, s') ->
    let iv := firstn (nonce_len sch) (r_tape s) in
    o = OBytes (p ++ iv) /\ tr = [iv] /\ length iv = nonce_len sch /\
    s' = mkR (r_unavail s) (skipn (nonce_len sch) (r_tape s)).
Proof. exact encrypt_field. Qed.
Print Assumptions C20_encrypt_nonce_is_the_window.

(* k encryptions under one key: nonce i = tape[i*n, (i+1)*n). *)
Theorem C20_encrypt_sequence :
  forall pub sch p k s res s',
    run pub (repeat (CEncrypt sch p) k) s = Some (res, s') ->
    forall i, (i < k)%nat ->
      let iv := firstn (nonce_len sch) (skipn (i * nonce_len sch) (r_tape s)) in
      nth_error res i = Some (OBytes (p ++ iv), [iv]) /\ length iv = nonce_len sch.
Proof. exact encrypt_sequence. Qed.
Print Assumptions C20_encrypt_sequence.

(* streaming NewEncryptingWriter: header = len ‖ salt ‖ nonce prefix, salt the
   first window (derived-key-size bytes), nonce prefix the next 7 bytes. *)
Theorem C20_stream_header_is_the_windows :
  forall pub dks s o tr s',
    exec pub (CNewWriter dks) s = Some (o, tr, s') ->
    let salt := firstn dks (r_tape s) in
    let np := firstn 7 (skipn dks (r_tape s)) in
    o = OBytes ((N.of_nat (1 + dks + 7) mod 256) :: salt ++ np) /\ tr = [salt; np] /\
    length salt = dks /\ length np = 7%nat.
Proof. exact new_writer_field. Qed.
Print Assumptions C20_stream_header_is_the_windows.

(* X25519 HPKE / X-Wing: the ephemeral secret IS the 32-byte window; the
   encapsulation is its public key (pub = the stdlib's X25519 base-point
   multiplication, an arbitrary function here). *)
Theorem C20_hpke_ephemeral_secret_is_the_window :
  forall pub p s o tr s',
    exec pub (CHpkeEncrypt p) s = Some (o, tr, s') ->
    let sk := firstn 32 (r_tape s) in
    o = OBytes (p ++ pub sk) /\ tr = [sk] /\ length sk = 32%nat.
Proof. exact hpke_field. Qed.
Print Assumptions C20_hpke_ephemeral_secret_is_the_window.

(* ECIES: ephemeral scalar window, then the DEM's IV window. *)
Theorem C20_ecies_windows :
  forall pub p sc n s o tr s',
    exec pub (CEciesEncrypt p sc n) s = Some (o, tr, s') ->
    let iv := firstn n (skipn sc (r_tape s)) in
    o = OBytes (p ++ iv) /\ tr = [firstn sc (r_tape s); iv] /\ length iv = n /\
    length (firstn sc (r_tape s)) = sc.
Proof. exact ecies_field. Qed.
Print Assumptions C20_ecies_windows.

(* Key generation through a manager: the id is the value of the accepted
   4-byte window (not in use before), the key material is the windows that
   follow, each of the key type's full size. *)
Theorem C20_new_key_is_the_windows :
  forall pub kt s o tr s',
    exec pub (CAddKey kt) s = Some (o, tr, s') ->
    exists idw idtr t1,
      draw_id (r_unavail s) (r_tape s) = Some (idw, idtr, be_val idw :: r_unavail s, t1) /\
      let mat := windows (key_reads kt) t1 in
      o = OKey (be_val idw) mat /\ tr = idtr ++ mat /\
      map (@length N) mat = key_reads kt /\
      ~ In (be_val idw) (r_unavail s) /\
      r_unavail s' = be_val idw :: r_unavail s /\
      r_tape s' = skipn (RandProofs.sum (key_reads kt)) t1.
Proof. exact add_key_field. Qed.
Print Assumptions C20_new_key_is_the_windows.

(* 6. Corollaries of the identity map.
   (a) distinct windows give distinct fields (injectivity); *)
Theorem C20_distinct_windows_distinct_nonces :
  forall pub sch p w w',
    field_of_call pub (CEncrypt sch p) [w] = field_of_call pub (CEncrypt sch p) [w'] ->
    length w = nonce_len sch -> length w' = nonce_len sch -> w = w'.
Proof. exact encrypt_field_injective. Qed.
Print Assumptions C20_distinct_windows_distinct_nonces.

Theorem C20_distinct_windows_distinct_nonces_in_a_sequence :
  forall pub sch p k s res s' i j o1 o2 t1 t2,
    run pub (repeat (CEncrypt sch p) k) s = Some (res, s') ->
    (i < k)%nat -> (j < k)%nat ->
    firstn (nonce_len sch) (skipn (i * nonce_len sch) (r_tape s)) <>
    firstn (nonce_len sch) (skipn (j * nonce_len sch) (r_tape s)) ->
    nth_error res i = Some (o1, t1) -> nth_error res j = Some (o2, t2) -> o1 <> o2.
Proof. exact encrypt_sequence_distinct. Qed.
Print Assumptions C20_distinct_windows_distinct_nonces_in_a_sequence.

Theorem C20_distinct_windows_distinct_stream_headers :
  forall pub dks a b a' b',
    field_of_call pub (CNewWriter dks) [a; b] = field_of_call pub (CNewWriter dks) [a'; b'] ->
    length a = length a' -> a = a' /\ b = b'.
Proof. exact new_writer_field_injective. Qed.
Print Assumptions C20_distinct_windows_distinct_stream_headers.

Theorem C20_distinct_windows_distinct_keys :
  forall pub kt idw mat idw' mat',
    field_of_call pub (CAddKey kt) (idw :: mat) = field_of_call pub (CAddKey kt) (idw' :: mat') ->
    wfb idw -> wfb idw' -> length idw = 4%nat -> length idw' = 4%nat ->
    idw = idw' /\ mat = mat'.
Proof. exact key_field_injective. Qed.
Print Assumptions C20_distinct_windows_distinct_keys.

(* (b) no truncation, no constant padding: every byte position of the nonce
   field of the i-th call is the tape byte at the same position of window i; *)
Theorem C20_every_nonce_byte_is_a_tape_byte :
  forall pub cs s res s' i sch p,
    forallb call_id_free cs = true ->
    run pub cs s = Some (res, s') ->
    nth_error cs i = Some (CEncrypt sch p) ->
    exists out, nth_error res i = Some (OBytes out, [skipn (length p) out]) /\
      length out = (length p + nonce_len sch)%nat /\
      firstn (length p) out = p /\
      forall j, (j < nonce_len sch)%nat ->
        nth (length p + j) out 0 = nth (offset cs i + j) (r_tape s) 0.
Proof. exact encrypt_bytes_are_tape_bytes. Qed.
Print Assumptions C20_every_nonce_byte_is_a_tape_byte.

(* (c) no constant byte: changing one tape byte inside window i changes
   exactly that byte position of output i. *)
Theorem C20_no_nonce_byte_is_constant :
  forall pub cs s1 s2 res1 res2 s1' s2' i sch p j out1 out2 tr1 tr2,
    forallb call_id_free cs = true ->
    run pub cs s1 = Some (res1, s1') -> run pub cs s2 = Some (res2, s2') ->
    nth_error cs i = Some (CEncrypt sch p) -> (j < nonce_len sch)%nat ->
    nth (offset cs i + j) (r_tape s1) 0 <> nth (offset cs i + j) (r_tape s2) 0 ->
    nth_error res1 i = Some (OBytes out1, tr1) -> nth_error res2 i = Some (OBytes out2, tr2) ->
    nth (length p + j) out1 0 <> nth (length p + j) out2 0.
Proof. exact encrypt_tape_sensitive. Qed.
Print Assumptions C20_no_nonce_byte_is_constant.

(* The premise "the whole field is filled" matters: a fill shorter than the
   field would leave constant zero bytes (what the correspondence check and
   the per-position test look for). *)
Theorem C20_partial_fill_refuted :
  forall p n w, (length w < n)%nat ->
    overwrite (p ++ zeros n) (length p) w = p ++ w ++ zeros (n - length w).
Proof. exact overwrite_short. Qed.
Print Assumptions C20_partial_fill_refuted.

(* 7. Key ids: rejection sampling.  newRandomKeyID returns the value of the
   first 4-byte window whose value is not in use; every window before it was
   in use; the id becomes unavailable. *)
Theorem C20_new_key_id_is_first_unused_window :
  forall u t w tr u' t',
    draw_id u t = Some (w, tr, u', t') ->
    exists skipped,
      tr = skipped ++ [w] /\
      Forall (fun x => length x = 4%nat /\ In (be_val x) u) skipped /\
      length w = 4%nat /\ ~ In (be_val w) u /\ u' = be_val w :: u /\
      t = concat tr ++ t'.
Proof. exact draw_id_spec. Qed.
Print Assumptions C20_new_key_id_is_first_unused_window.

(* draw_id is new_random_id of the C11 manager model (model/Manager.v) run
   over the big-endian 4-byte words of the byte tape. *)
Theorem C20_draw_id_is_manager_new_random_id :
  forall u t w tr u' t',
    draw_id u t = Some (w, tr, u', t') ->
    new_random_id u (id_words t) 0 = Some (be_val w, u', id_words t', length tr).
Proof. exact draw_id_new_random_id. Qed.
Print Assumptions C20_draw_id_is_manager_new_random_id.

(* Ids handed out by one manager over any history are pairwise distinct and
   were not in use before: on the tape model ... *)
Theorem C20_key_ids_pairwise_distinct :
  forall pub cs s res s',
    run pub cs s = Some (res, s') ->
    NoDup (added_ids cs res) /\
    (forall id, In id (added_ids cs res) -> ~ In id (r_unavail s) /\ In id (r_unavail s')) /\
    incl (r_unavail s) (r_unavail s').
Proof. exact added_ids_distinct. Qed.
Print Assumptions C20_key_ids_pairwise_distinct.

(* ... and on the C11 model of keyset.Manager for every operation history of
   one manager (Add, AddNewKeyFrom<parameters>, AddKey, SetPrimary, Enable,
   Disable, Delete, Handle), any id tape. *)
Theorem C20_manager_ids_pairwise_distinct :
  forall ops s s' rs,
    forallb not_from_handle ops = true ->
    Manager.run s ops = (s', rs) ->
    NoDup (concat (map rid rs)) /\
    (forall id, In id (concat (map rid rs)) -> ~ In id (unavail (smgr s))) /\
    incl (unavail (smgr s)) (unavail (smgr s')).
Proof. exact manager_ids_distinct. Qed.
Print Assumptions C20_manager_ids_pairwise_distinct.

(* Non-vacuity: a concrete history with a rejected id draw. *)
Example C20_nonvacuous :
  let pub := fun b : bytes => b in
  let tape := [1;2;3;4;5;6;7;8;9;10;11;12; 0;0;0;7; 0;0;0;9; 20;21;22;23;24;25;26;27;28;29;30;31;32;33;34;35; 99] in
  run pub [CEncrypt AesGcm [1;0;0;0;5]; CAddKey (KAesGcm 16)] (mkR [7] tape)
  = Some ([(OBytes [1;0;0;0;5; 1;2;3;4;5;6;7;8;9;10;11;12], [[1;2;3;4;5;6;7;8;9;10;11;12]]);
           (OKey 9 [[20;21;22;23;24;25;26;27;28;29;30;31;32;33;34;35]],
            [[0;0;0;7]; [0;0;0;9]; [20;21;22;23;24;25;26;27;28;29;30;31;32;33;34;35]])],
          mkR [9; 7] [99]).
Proof. vm_compute. reflexivity. Qed.


(* ======================================================================== *)
(* STRETCH ROUND: the tape semantics linked to the models of the operations *)
(* (model/RandLink.v, proofs/RandProofs2.v).                                *)
(* ======================================================================== *)

(* 8. THE DRAWN WINDOW IS THE NONCE OF THE CIPHERTEXT; NONCES REPEAT IFF THE TAPE DOES.
   (a) For every AEAD key type the ciphertext that the C01 model
   (AeadFrame.v / GcmSiv.v / EtM.v / Xaes.v) produces with IV := the window
   that CEncrypt draws is  prefix ‖ window ‖ body: the window sits, byte for
   byte, at the position the wire format gives the nonce (for XAES-GCM:
   salt ‖ iv). *)
Theorem C20_ciphertext_carries_the_drawn_nonce :
  forall (A : aead_prims) k prefix iv p ad ct,
    length iv = nonce_len (scheme_of k) ->
    c01_encrypt A k prefix iv p ad = Ok ct ->
    firstn (length prefix) ct = prefix /\
    nonce_field (scheme_of k) prefix ct = iv /\
    firstn (length prefix + nonce_len (scheme_of k)) ct = prefix ++ iv /\
    (forall j, (j < nonce_len (scheme_of k))%nat -> nth (length prefix + j) ct 0 = nth j iv 0).
Proof. exact c01_encrypt_nonce_position. Qed.
Print Assumptions C20_ciphertext_carries_the_drawn_nonce.

(* ... and the window is what the standard AEAD gets as its nonce (XAES: the
   first saltsize bytes key the derivation, the last 12 are the GCM nonce) *)
Theorem C20_drawn_nonce_is_the_seal_nonce :
  forall (A : aead_prims) prefix key w p ad ct,
    (c01_encrypt A (AKGcm key) prefix w p ad = Ok ct -> ct = prefix ++ w ++ ap_gcm_seal A key w ad p) /\
    (c01_encrypt A (AKChaCha key) prefix w p ad = Ok ct -> ct = prefix ++ w ++ ap_cc_seal A key w ad p) /\
    (c01_encrypt A (AKXChaCha key) prefix w p ad = Ok ct -> ct = prefix ++ w ++ ap_xcc_seal A key w ad p) /\
    (forall salt, c01_encrypt A (AKXaes salt key) prefix w p ad = Ok ct ->
       exists pmk, Xaes.derive_per_message_key (ap_aes A) key (firstn salt w) = Ok pmk /\
         ct = prefix ++ w ++ ap_gcm_seal A pmk (skipn salt w) ad p).
Proof.
  intros A prefix key w p ad ct.
  split; [apply gcm_window_use|]. split; [apply chacha_window_use|]. split; [apply xchacha_window_use|].
  intros salt. apply xaes_window_use.
Qed.
Print Assumptions C20_drawn_nonce_is_the_seal_nonce.

(* (b) Encrypt under the tape (read the nonce, run the C01 model) is Rand's
   CEncrypt followed by the C01 model; a whole history of encryptions under
   one key is Rand.run on the same tape, whose outputs prefix ‖ window (what
   the correspondence run compares with the real ciphertexts) are the initial
   segments of the C01 ciphertexts. *)
Theorem C20_encrypt_under_tape_is_rand_then_c01 :
  forall (A : aead_prims) pub k prefix p ad s o iv s',
    encrypt_tape A k prefix p ad s = Some (o, iv, s') <->
    (exec pub (CEncrypt (scheme_of k) prefix) s = Some (OBytes (prefix ++ iv), [iv], s') /\
     o = c01_encrypt A k prefix iv p ad).
Proof. exact encrypt_tape_spec. Qed.
Print Assumptions C20_encrypt_under_tape_is_rand_then_c01.

Theorem C20_encrypt_history_is_rand_history :
  forall (A : aead_prims) pub k prefix msgs s res s',
    encrypt_run A k prefix msgs s = Some (res, s') ->
    run pub (repeat (CEncrypt (scheme_of k) prefix) (length msgs)) s
    = Some (map (fun r => (OBytes (prefix ++ snd r), [snd r])) res, s') /\
    forall i p ad, nth_error msgs i = Some (p, ad) ->
      let n := nonce_len (scheme_of k) in
      let w := firstn n (skipn (i * n) (r_tape s)) in
      length w = n /\ nth_error res i = Some (c01_encrypt A k prefix w p ad, w).
Proof.
  intros A pub k prefix msgs s res s' H. split; [exact (encrypt_run_is_rand_run A pub k prefix msgs s res s' H)|].
  destruct (encrypt_run_ith A k prefix msgs s res s' H) as (_ & _ & _ & _ & X). exact X.
Qed.
Print Assumptions C20_encrypt_history_is_rand_history.

(* (c) THE CIPHERTEXTS OF A HISTORY CARRY THEIR WINDOWS: in any history of
   encryptions under one key - any plaintexts, any associated data, all six
   schemes - the i-th drawn window is tape[i n, (i+1) n) and the nonce field of
   the i-th ciphertext IS that window.  (The iff and the last clause below are
   immediate consequences of these equalities; the statements about
   REPETITION over a history are (d).) *)
Theorem C20_history_ciphertexts_carry_their_windows :
  forall (A : aead_prims) k prefix msgs s res s' i j ci cj wi wj,
    encrypt_run A k prefix msgs s = Some (res, s') ->
    nth_error res i = Some (Ok ci, wi) -> nth_error res j = Some (Ok cj, wj) ->
    let n := nonce_len (scheme_of k) in
    wi = firstn n (skipn (i * n) (r_tape s)) /\ wj = firstn n (skipn (j * n) (r_tape s)) /\
    nonce_field (scheme_of k) prefix ci = wi /\ nonce_field (scheme_of k) prefix cj = wj /\
    (nonce_field (scheme_of k) prefix ci = nonce_field (scheme_of k) prefix cj <-> wi = wj) /\
    (ci = cj -> wi = wj).
Proof. exact encrypt_run_nonces_equal_iff. Qed.
Print Assumptions C20_history_ciphertexts_carry_their_windows.

(* (d) REPETITION OVER A HISTORY.  The nonce fields of the ciphertexts at two
   positions of a history are equal IF AND ONLY IF the TAPE repeats: the
   windows tape[i n, (i+1) n) and tape[j n, (j+1) n) are equal. *)
Theorem C20_nonce_repeats_iff_tape_window_repeats :
  forall (A : aead_prims) k prefix msgs s res s' i j ci cj wi wj,
    encrypt_run A k prefix msgs s = Some (res, s') ->
    nth_error res i = Some (Ok ci, wi) -> nth_error res j = Some (Ok cj, wj) ->
    let n := nonce_len (scheme_of k) in
    (nonce_field (scheme_of k) prefix ci = nonce_field (scheme_of k) prefix cj <->
     firstn n (skipn (i * n) (r_tape s)) = firstn n (skipn (j * n) (r_tape s))).
Proof. exact encrypt_run_nonce_repeats_iff_tape_repeats. Qed.
Print Assumptions C20_nonce_repeats_iff_tape_window_repeats.

(* Hence, on a tape whose first |msgs| windows of the nonce length are pairwise
   different - NoDup (tape_windows n |msgs| tape), tape_windows n k t = the list
   of t[i n, (i+1) n) for i < k - NO NONCE REPEATS: the nonce fields, and the
   ciphertexts, at any two different positions of the history differ. *)
Theorem C20_no_nonce_repeats_on_a_tape_without_repeated_windows :
  forall (A : aead_prims) k prefix msgs s res s',
    encrypt_run A k prefix msgs s = Some (res, s') ->
    NoDup (tape_windows (nonce_len (scheme_of k)) (length msgs) (r_tape s)) ->
    forall i j ci cj wi wj, i <> j ->
      nth_error res i = Some (Ok ci, wi) -> nth_error res j = Some (Ok cj, wj) ->
      nonce_field (scheme_of k) prefix ci <> nonce_field (scheme_of k) prefix cj /\ ci <> cj.
Proof. exact encrypt_run_no_nonce_repeats. Qed.
Print Assumptions C20_no_nonce_repeats_on_a_tape_without_repeated_windows.

(* the iff version of C20_distinct_windows_distinct_nonces_in_a_sequence *)
Theorem C20_fields_equal_iff_windows_equal_in_a_sequence :
  forall pub sch p k s res s' i j o1 o2 t1 t2,
    run pub (repeat (CEncrypt sch p) k) s = Some (res, s') ->
    (i < k)%nat -> (j < k)%nat ->
    nth_error res i = Some (o1, t1) -> nth_error res j = Some (o2, t2) ->
    (o1 = o2 <->
     firstn (nonce_len sch) (skipn (i * nonce_len sch) (r_tape s)) =
     firstn (nonce_len sch) (skipn (j * nonce_len sch) (r_tape s))).
Proof. exact encrypt_sequence_iff. Qed.
Print Assumptions C20_fields_equal_iff_windows_equal_in_a_sequence.

(* Non-vacuity of 8: toy primitives (Seal = plaintext ‖ two bytes, AES = xor
   with the key's first byte, HMAC = 32 constant bytes); for one key of each
   of the six types, two encryptions of different messages on a 72-byte
   counting tape succeed, and each ciphertext carries its own window. *)
Definition ex_seal (k n ad p : bytes) : bytes := p ++ [N.of_nat (length ad); 170].
Definition ex_prims : aead_prims :=
  mkPrims ex_seal ex_seal ex_seal (fun k b => map (N.lxor (nth 0 k 0)) b) (fun k m => repeat 7 32%nat).
Definition ex_keys : list aead_key :=
  [AKGcm (repeat 1 16%nat); AKGcmSiv (repeat 2 16%nat); AKGcmSiv (repeat 2 32%nat);
   AKChaCha (repeat 3 32%nat); AKXChaCha (repeat 4 32%nat);
   AKCtrHmac (mkEtm (repeat 5 16%nat) (repeat 6 32%nat) 12 10);
   AKCtrHmac (mkEtm (repeat 5 32%nat) (repeat 6 32%nat) 16 32);
   AKXaes 12 (repeat 8 32%nat); AKXaes 8 (repeat 8 32%nat)].
Definition ex_tape : bytes := map N.of_nat (seq 0 72).
Definition ex_prefix : bytes := [1; 0; 0; 0; 5].
Definition ex_check (k : aead_key) : bool :=
  match encrypt_run ex_prims k ex_prefix [([1; 2; 3], [9]); ([4; 5], [])] (mkR [] ex_tape) with
  | Some ([(Ok c1, w1); (Ok c2, w2)], _) =>
      beq (nonce_field (scheme_of k) ex_prefix c1) w1 && beq (nonce_field (scheme_of k) ex_prefix c2) w2
      && negb (beq w1 w2) && beq w1 (firstn (nonce_len (scheme_of k)) ex_tape)
      && Nat.ltb (length ex_prefix + nonce_len (scheme_of k) + 3) (length c1)
  | _ => false
  end.
Example C20_nonvacuous_nonce_link :
  forallb ex_check ex_keys = true /\
  encrypt_run ex_prims (AKXaes 8 (repeat 8 32%nat)) ex_prefix [([1; 2; 3], [9])] (mkR [] (firstn 21 ex_tape))
  = Some ([(Ok ([1; 0; 0; 0; 5] ++ firstn 20 ex_tape ++ [1; 2; 3; 1; 170]), firstn 20 ex_tape)], mkR [] [20]).
Proof. split; vm_compute; reflexivity. Qed.

(* Non-vacuity of (d): the counting tape has no repeated 12-byte window among
   its first three (the premise of the no-repeat theorem holds); on a tape
   that does repeat a window (12 zero bytes twice) the two AES-GCM ciphertexts
   carry the same nonce - the iff is not one-sided. *)
Example C20_nonvacuous_no_repeat :
  NoDup (tape_windows 12 3 ex_tape) /\
  match encrypt_run ex_prims (AKGcm (repeat 1 16%nat)) ex_prefix [([1; 2; 3], [9]); ([4; 5], [])] (mkR [] (zeros 24)) with
  | Some ([(Ok c1, _); (Ok c2, _)], _) =>
      nonce_field AesGcm ex_prefix c1 = nonce_field AesGcm ex_prefix c2 /\ c1 <> c2
  | _ => False
  end.
Proof.
  split.
  - repeat (constructor; [vm_compute; intuition discriminate|]). constructor.
  - vm_compute. split; [reflexivity|discriminate].
Qed.

(* 9. HYBRID ENCAPSULATIONS.  `pub` (the base-point multiplication of the
   standard library) stays an arbitrary function; what it must satisfy is
   named.
   (a) Two encapsulations of a history of X25519-HPKE encryptions (for X-Wing:
   the X25519 halves) are equal iff the public keys of their 32-byte windows
   are equal. *)
Theorem C20_encapsulations_equal_iff_public_keys_equal :
  forall pub p k s res s' i j o1 o2 t1 t2,
    run pub (repeat (CHpkeEncrypt p) k) s = Some (res, s') ->
    (i < k)%nat -> (j < k)%nat ->
    nth_error res i = Some (o1, t1) -> nth_error res j = Some (o2, t2) ->
    let wi := firstn 32 (skipn (i * 32) (r_tape s)) in
    let wj := firstn 32 (skipn (j * 32) (r_tape s)) in
    o1 = OBytes (p ++ pub wi) /\ o2 = OBytes (p ++ pub wj) /\ t1 = [wi] /\ t2 = [wj] /\
    (o1 = o2 <-> pub wi = pub wj).
Proof. exact hpke_enc_equal_iff. Qed.
Print Assumptions C20_encapsulations_equal_iff_public_keys_equal.

(* (b) THE REDUCTION: a repeated encapsulation is a repeated tape window or a
   collision of pub on two different 32-byte scalars. *)
Theorem C20_repeated_encapsulation_is_a_collision :
  forall pub p k s res s' i j o t1 t2,
    run pub (repeat (CHpkeEncrypt p) k) s = Some (res, s') ->
    (i < k)%nat -> (j < k)%nat ->
    nth_error res i = Some (o, t1) -> nth_error res j = Some (o, t2) ->
    let wi := firstn 32 (skipn (i * 32) (r_tape s)) in
    let wj := firstn 32 (skipn (j * 32) (r_tape s)) in
    wi = wj \/ collision pub wi wj.
Proof. exact hpke_enc_repeat_reduction. Qed.
Print Assumptions C20_repeated_encapsulation_is_a_collision.

(* (c) Under the explicit law "pub is injective on D" (D: scalars in
   canonical form - [1, n-1] for a prime-order NIST curve; for X25519 one
   representative per clamping class and per +-class modulo the group order,
   see (d)) encapsulations that drew distinct canonical windows are distinct. *)
Theorem C20_distinct_randomness_distinct_encapsulations :
  forall pub (D : bytes -> Prop) p k s res s' i j o1 o2 t1 t2,
    inj_on D pub ->
    run pub (repeat (CHpkeEncrypt p) k) s = Some (res, s') ->
    (i < k)%nat -> (j < k)%nat ->
    nth_error res i = Some (o1, t1) -> nth_error res j = Some (o2, t2) ->
    let wi := firstn 32 (skipn (i * 32) (r_tape s)) in
    let wj := firstn 32 (skipn (j * 32) (r_tape s)) in
    D wi -> D wj -> wi <> wj -> o1 <> o2.
Proof. exact hpke_distinct_randomness_distinct_enc. Qed.
Print Assumptions C20_distinct_randomness_distinct_encapsulations.

(* (d) The literal clause "encapsulations drawing distinct randomness are
   distinct" is REFUTED for every pub that clamps its scalar as RFC 7748
   prescribes (crypto/ecdh X25519 does): the windows 00..00 and 01 00..00
   give one encapsulation.  Not a defect of tink-go: the scalar space of
   X25519 is the clamped one (2^251 values), the collision probability of two
   uniform windows stays 2^-251. *)
Theorem C20_distinct_unclamped_randomness_refuted :
  forall pub p, clamp_law pub ->
    exists s res s' o w0 w1,
      run pub (repeat (CHpkeEncrypt p) 2) s = Some (res, s') /\
      res = [(o, [w0]); (o, [w1])] /\ w0 <> w1 /\ clamp w0 = clamp w1.
Proof. exact hpke_unclamped_randomness_refuted. Qed.
Print Assumptions C20_distinct_unclamped_randomness_refuted.

(* (e) X-Wing (enc = ML-KEM-768 ciphertext ‖ X25519 public key) repeats only
   if BOTH halves repeat: each half is a repeated input or a collision of its
   primitive.  m = ML-KEM's encapsulation randomness, drawn by the standard
   library's DRBG (a parameter: it does not come from crypto/rand.Reader). *)
Theorem C20_xwing_repeats_only_if_both_halves_repeat :
  forall (mlkem_ct : bytes -> bytes -> bytes) pub pkM m m' skx skx',
    length (mlkem_ct pkM m) = length (mlkem_ct pkM m') ->
    (xwing_enc mlkem_ct pub pkM m skx = xwing_enc mlkem_ct pub pkM m' skx' <->
     mlkem_ct pkM m = mlkem_ct pkM m' /\ pub skx = pub skx') /\
    (xwing_enc mlkem_ct pub pkM m skx = xwing_enc mlkem_ct pub pkM m' skx' ->
     (m = m' \/ collision (mlkem_ct pkM) m m') /\ (skx = skx' \/ collision pub skx skx')).
Proof.
  intros mlkem_ct pub pkM m m' skx skx' L. split.
  - apply xwing_enc_equal_iff; exact L.
  - apply xwing_enc_repeat_reduction; exact L.
Qed.
Print Assumptions C20_xwing_repeats_only_if_both_halves_repeat.

(* (f) ML-KEM and X-Wing: m determines ct - two encapsulations that decrypt
   to their own m (the FIPS 203 correctness law, stated for the two m at
   hand) are different when the m are, whatever the X25519 half does. *)
Theorem C20_mlkem_distinct_m_distinct_ct :
  forall (mlkem_ct : bytes -> bytes -> bytes) (dec : bytes -> bytes -> option bytes) pub pkM dk m m' skx skx',
    dec dk (mlkem_ct pkM m) = Some m -> dec dk (mlkem_ct pkM m') = Some m' -> m <> m' ->
    mlkem_ct pkM m <> mlkem_ct pkM m' /\
    (length (mlkem_ct pkM m) = length (mlkem_ct pkM m') ->
     xwing_enc mlkem_ct pub pkM m skx <> xwing_enc mlkem_ct pub pkM m' skx').
Proof.
  intros mlkem_ct dec pub pkM dk m m' skx skx' D1 D2 Hne. split.
  - exact (mlkem_distinct_m_distinct_ct mlkem_ct dec pkM dk m m' D1 D2 Hne).
  - intros L. exact (xwing_distinct_m_distinct_enc mlkem_ct dec pub pkM dk m m' skx skx' L D1 D2 Hne).
Qed.
Print Assumptions C20_mlkem_distinct_m_distinct_ct.

(* Non-vacuity of 9: an injective pub (byte reversal) satisfies the law of
   (c); a pub that clamps satisfies the law of (d), and the collision of (b)
   is then a real one (two different 32-byte scalars, 1-byte images); a toy
   ML-KEM (ct = m reversed, dec = reversal) satisfies the premises of (f). *)
Definition ex_pub (w : bytes) : bytes := rev w.
Definition ex_pub_clamped (w : bytes) : bytes := [N.land (nth 0 w 0) 248].
Example C20_nonvacuous_hybrid :
  inj_on (fun _ => True) ex_pub /\
  (exists res s', run ex_pub (repeat (CHpkeEncrypt [1; 0; 0; 0; 5]) 2) (mkR [] ex_tape) = Some (res, s') /\
     firstn 32 ex_tape <> firstn 32 (skipn 32 ex_tape)) /\
  clamp_law ex_pub_clamped /\
  collision ex_pub_clamped (zeros 32) (1 :: zeros 31) /\
  (let ct := fun (pk m : bytes) => rev m in let dec := fun (dk c : bytes) => Some (rev c) in
   dec [] (ct [] [1; 2]) = Some [1; 2] /\ dec [] (ct [] [2; 2]) = Some [2; 2] /\
   length (ct [] [1; 2]) = length (ct [] [2; 2])).
Proof.
  split. { intros a b _ _ H. unfold ex_pub in H. rewrite <- (rev_involutive a), H. apply rev_involutive. }
  split. { eexists. eexists. split; [vm_compute; reflexivity|vm_compute; discriminate]. }
  split. { intros w _. unfold ex_pub_clamped, clamp. cbn [nth]. rewrite <- N.land_assoc. reflexivity. }
  split. { split; [discriminate|reflexivity]. }
  repeat split.
Qed.

(* 10. KEY IDS: THE DRAW IS A BIJECTION.
   (a) Exact characterisation (iff) of a successful newRandomKeyID: the tape
   is  skipped windows (all in use) ‖ accepted window (4 bytes, not in use) ‖
   rest - the loop stops at the first unused window, whatever precedes it. *)
Theorem C20_new_key_id_iff :
  forall u t w tr u' t',
    draw_id u t = Some (w, tr, u', t') <->
    exists skipped,
      tr = skipped ++ [w] /\
      Forall (fun x => length x = 4%nat /\ In (be_val x) u) skipped /\
      length w = 4%nat /\ ~ In (be_val w) u /\ u' = be_val w :: u /\
      t = concat tr ++ t'.
Proof. exact draw_id_iff. Qed.
Print Assumptions C20_new_key_id_iff.

(* (b) Every unused id of the 32-bit range can be drawn, by exactly its
   big-endian window ... *)
Theorem C20_every_unused_id_can_be_drawn :
  forall u id t, id < 2 ^ 32 -> ~ In id u ->
    draw_id u (be_bytes 4 id ++ t) = Some (be_bytes 4 id, [be_bytes 4 id], id :: u, t).
Proof. exact draw_id_hits. Qed.
Print Assumptions C20_every_unused_id_can_be_drawn.

(* ... a first window is accepted at once iff its value is unused, and
   window <-> id is a bijection (be_val / be_bytes 4) between the well-formed
   4-byte windows and [0, 2^32): the id has the distribution of the first
   window conditioned on "unused" - "uniform over the 32-bit space minus the
   used ids" in the only form a deterministic tape model can state. *)
Theorem C20_first_window_id_bijection :
  forall u w t, wfb w -> length w = 4%nat ->
    (draw_id u (w ++ t) = Some (w, [w], be_val w :: u, t) <-> ~ In (be_val w) u) /\
    be_val w < 2 ^ 32 /\ be_bytes 4 (be_val w) = w.
Proof. exact draw_id_first_window_bijection. Qed.
Print Assumptions C20_first_window_id_bijection.

(* (c) The set of ids newRandomKeyID can return over all well-formed tapes is
   exactly [0, 2^32) minus the ids in use. *)
Theorem C20_drawable_ids_are_exactly_the_unused_ones :
  forall u id,
    (exists t w tr u' t', wfb t /\ draw_id u t = Some (w, tr, u', t') /\ be_val w = id)
    <-> (id < 2 ^ 32 /\ ~ In id u).
Proof. exact draw_id_image. Qed.
Print Assumptions C20_drawable_ids_are_exactly_the_unused_ones.

(* (d) Termination: the rejection loop fails (runs off the tape) iff every
   complete 4-byte word of the tape is an id in use; as soon as one unused
   word is on the tape it returns, having rejected only used ones. *)
Theorem C20_id_loop_terminates_at_first_unused_word :
  forall u t,
    (draw_id u t = None <-> Forall (fun x => In x u) (id_words t)) /\
    (Exists (fun x => ~ In x u) (id_words t) ->
     exists w tr u' t', draw_id u t = Some (w, tr, u', t') /\ ~ In (be_val w) u /\
       Forall (fun x => In (be_val x) u) (removelast tr)).
Proof.
  intros u t. split; [apply draw_id_none_iff|apply draw_id_terminates_at_first_unused].
Qed.
Print Assumptions C20_id_loop_terminates_at_first_unused_word.

Example C20_nonvacuous_ids :
  draw_id [7; 9] (be_bytes 4 4294967295 ++ [99]) = Some ([255; 255; 255; 255], [[255; 255; 255; 255]], [4294967295; 7; 9], [99]) /\
  draw_id [7; 9] ([0; 0; 0; 7; 0; 0; 0; 9; 0; 0; 0; 7; 1; 2; 3; 4; 5]) = Some ([1; 2; 3; 4], [[0; 0; 0; 7]; [0; 0; 0; 9]; [0; 0; 0; 7]; [1; 2; 3; 4]], [16909060; 7; 9], [5]) /\
  draw_id [7; 9] [0; 0; 0; 7; 0; 0; 0; 9; 0; 0; 0] = None /\
  id_words [0; 0; 0; 7; 0; 0; 0; 9; 0; 0; 0] = [7; 9].
Proof. repeat split; vm_compute; reflexivity. Qed.

(* 11. RANDOMIZED SIGNATURES: what the tape model can carry.
   (a) In a history of k signatures the i-th randomizer (ML-DSA rnd, 32
   bytes; SLH-DSA addrnd, n bytes; RSA-PSS salt, salt-length bytes) is the
   fresh window tape[i n, (i+1) n), full length, and nothing else is read. *)
Theorem C20_ith_signature_randomizer_is_ith_window :
  forall pub n k s res s',
    run pub (repeat (CSign n) k) s = Some (res, s') ->
    forall i, (i < k)%nat ->
      let w := firstn n (skipn (i * n) (r_tape s)) in
      nth_error res i = Some (ONone, [w]) /\ length w = n.
Proof. exact sign_sequence. Qed.
Print Assumptions C20_ith_signature_randomizer_is_ith_window.

(* (b) ML-DSA: Sign under the tape is CSign 32 followed by the C10 model
   (model/Mldsa.v tinkSign) with rnd := the window; all 32 bytes enter the
   computation, and only through rho'' = SHAKE256(K ‖ rnd ‖ mu, 64), where
   they sit between K and mu: windows that differ give different hash inputs;
   equal rho'' from different windows is a SHAKE256 collision.  Whether the
   SIGNATURES then differ (the rejection loop could in principle map two
   rho'' to one signature) is left to the harness (class SIGN: outputs of
   repeated signing of one message pairwise different, read sizes 32). *)
Theorem C20_mldsa_rnd_is_the_window_and_enters_whole :
  forall (shake128 shake256 : bytes -> nat -> bytes) (P : Mldsa.params) pub fuel prefix skEnc data s sig rnd s',
    mldsa_sign_tape shake128 shake256 P fuel prefix skEnc data s = Some (sig, rnd, s') ->
    exec pub (CSign 32) s = Some (ONone, [rnd], s') /\
    rnd = firstn 32 (r_tape s) /\ length rnd = 32%nat /\
    sig = Mldsa.obind (Mldsa.skDecode P skEnc) (fun sk =>
            let mu := Mldsa.computeMu shake256 (Mldsa.sk_tr sk) (Mldsa.formatMsg data []) in
            Mldsa.obind (mldsa_sign_from_rhopp shake128 shake256 P fuel sk mu
                           (shake256 (Mldsa.sk_K sk ++ rnd ++ mu) 64%nat))
                        (fun sg => Some (prefix ++ sg))).
Proof.
  intros shake128 shake256 P pub fuel prefix skEnc data s sig rnd s' H.
  destruct (mldsa_sign_tape_window _ _ _ _ _ _ _ _ _ _ _ H) as (A & B & _).
  apply (mldsa_sign_tape_spec shake128 shake256 P pub) in H. destruct H as [E ->].
  split; [exact E|]. split; [exact A|]. split; [exact B|].
  apply mldsa_sign_uses_whole_rnd.
Qed.
Print Assumptions C20_mldsa_rnd_is_the_window_and_enters_whole.

Theorem C20_mldsa_distinct_rnd_distinct_hash_inputs :
  forall (shake256 : bytes -> nat -> bytes) sk mu rnd rnd',
    (Mldsa.sk_K sk ++ rnd ++ mu = Mldsa.sk_K sk ++ rnd' ++ mu <-> rnd = rnd') /\
    (mldsa_rhopp shake256 sk mu rnd = mldsa_rhopp shake256 sk mu rnd' ->
     rnd = rnd' \/ collision (fun x => shake256 x 64%nat) (Mldsa.sk_K sk ++ rnd ++ mu) (Mldsa.sk_K sk ++ rnd' ++ mu)).
Proof.
  intros shake256 sk mu rnd rnd'. split; [apply mldsa_rhopp_input_injective|apply mldsa_equal_rhopp_reduction].
Qed.
Print Assumptions C20_mldsa_distinct_rnd_distinct_hash_inputs.

(* (c) SLH-DSA: Sign under the tape is CSign n followed by the C16 model
   (model/Slhdsa.v tink_sign) with addrnd := the window; the signature starts
   with R = PRF_msg(SK.prf, addrnd, M'), so two EQUAL signatures of one
   message under one key were made with the same addrnd, or PRF_msg collides
   on two different addrnd (law: PRF_msg outputs n bytes). *)
Theorem C20_slhdsa_addrnd_is_the_window :
  forall (SP : SlhdsaBase.params) (HS : SlhdsaBase.hashes) pub tv id sk msg s sig addrnd s',
    slhdsa_sign_tape SP HS tv id sk msg s = Some (sig, addrnd, s') <->
    (exec pub (CSign (SlhdsaBase.p_n SP)) s = Some (ONone, [addrnd], s') /\
     sig = Slhdsa.tink_sign SP HS tv id sk msg addrnd).
Proof. exact slhdsa_sign_tape_spec. Qed.
Print Assumptions C20_slhdsa_addrnd_is_the_window.

Theorem C20_slhdsa_equal_signatures_reduction :
  forall (SP : SlhdsaBase.params) (HS : SlhdsaBase.hashes) tv id sk msg a a' sig,
    (forall k r m, length (SlhdsaBase.hPrfMsg HS k r m) = SlhdsaBase.p_n SP) ->
    Slhdsa.tink_sign SP HS tv id sk msg a = Some sig ->
    Slhdsa.tink_sign SP HS tv id sk msg a' = Some sig ->
    a = a' \/ collision (fun r => slhdsa_R SP HS sk msg r) a a'.
Proof. exact slhdsa_equal_sigs_reduction. Qed.
Print Assumptions C20_slhdsa_equal_signatures_reduction.

(* RSA-PSS (salt drawn by crypto/rsa) and ECDSA (nonce derived inside
   crypto/ecdsa from the key, the digest and reader bytes): only (a) - the
   read size for RSA-PSS - is modelled; "repeated signatures differ" is the
   harness's direct check (classes SIGN rsapss, LOOSE ecdsa). *)

(* Non-vacuity of 11: on a toy SLH-DSA (the checksum hash family of C16's
   example, n = 2) two signatures of one message under one key with windows
   [8;8] and [8;9] exist, start with prefix ‖ R and differ; with a PRF_msg
   that ignores opt_rand the two signatures are EQUAL and the collision
   disjunct of the reduction is a real one. *)
Definition toyP : SlhdsaBase.params := SlhdsaBase.mkParams 2 4 2 2 2 2 2 3.
Definition toy_sum (l : bytes) : N := fold_left (fun acc b => (acc * 31 + b + 1) mod 65521) l 7.
Definition toy_mix (l : bytes) : bytes := let s := toy_sum l in [s mod 256; s / 256].
Definition toyHS (prf : bytes -> bytes -> bytes -> bytes) : SlhdsaBase.hashes :=
  SlhdsaBase.mkHashes
    (fun r s t m => let x := toy_sum (r ++ s ++ t ++ m) in [x mod 256; (3 * x + 1) mod 256; (5 * x + 2) mod 256])
    (fun p s a => toy_mix (p ++ SlhdsaAddr.adrs_bytes a ++ s))
    prf
    (fun p a x => toy_mix (p ++ SlhdsaAddr.compress a ++ x))
    (fun p a x => toy_mix (p ++ SlhdsaAddr.adrs_bytes a ++ x))
    (fun p a x => toy_mix (p ++ SlhdsaAddr.adrs_bytes a ++ x)).
Definition good_prf (s o m : bytes) := toy_mix (s ++ o ++ m).
Definition bad_prf (s o m : bytes) := toy_mix (s ++ m).
Definition toy_sk := Slhdsa.keygen toyP (toyHS good_prf) [1; 2] [3; 4] [5; 6].
Example C20_nonvacuous_signatures :
  (forall k r m, length (SlhdsaBase.hPrfMsg (toyHS good_prf) k r m) = SlhdsaBase.p_n toyP) /\
  (forall k r m, length (SlhdsaBase.hPrfMsg (toyHS bad_prf) k r m) = SlhdsaBase.p_n toyP) /\
  match slhdsa_sign_tape toyP (toyHS good_prf) true 7 toy_sk [9; 9] (mkR [] [8; 8; 8; 9]),
        slhdsa_sign_tape toyP (toyHS good_prf) true 7 toy_sk [9; 9] (mkR [] [8; 9]) with
  | Some (Some s1, a1, _), Some (Some s2, a2, _) =>
      a1 = [8; 8] /\ a2 = [8; 9] /\ s1 <> s2 /\ firstn 5 s1 = [1; 0; 0; 0; 7]
      /\ firstn 2 (skipn 5 s1) = slhdsa_R toyP (toyHS good_prf) toy_sk [9; 9] [8; 8]
  | _, _ => False
  end /\
  (exists sg, Slhdsa.tink_sign toyP (toyHS bad_prf) true 7 toy_sk [9; 9] [8; 8] = Some sg /\
              Slhdsa.tink_sign toyP (toyHS bad_prf) true 7 toy_sk [9; 9] [8; 9] = Some sg /\
              collision (fun r => slhdsa_R toyP (toyHS bad_prf) toy_sk [9; 9] r) [8; 8] [8; 9]) /\
  (* ML-DSA: the window is read even when the key does not decode *)
  mldsa_sign_tape (fun _ _ => []) (fun _ _ => []) Mldsa.MLDSA44 1 [] [] [1] (mkR [] (firstn 33 ex_tape))
  = Some (None, firstn 32 ex_tape, mkR [] [32]).
Proof.
  split; [reflexivity|]. split; [reflexivity|]. split.
  - vm_compute. repeat split; discriminate.
  - split.
    + eexists. split; [vm_compute; reflexivity|]. split; [vm_compute; reflexivity|]. split; [discriminate|reflexivity].
    + vm_compute. reflexivity.
Qed.
