(* C13 — Secret key material leaves a handle only via insecure or encrypted
   paths.  Statements only; proofs in proofs/SecretsProofs.v; model in
   model/Secrets.v on top of model/Untrusted.v (all 41 key types whose parsers
   model/Untrusted.v transcribes, and the fallback key for every other URL).
   Material types are ALL natural numbers (proto3 enums are open); 3 and 4 are
   ASYMMETRIC_PUBLIC and REMOTE of proto/tink.proto (public_or_remote). *)
From Coq Require Import String Ascii List Arith NArith Bool.
From Tink Require Import Bytes UntrustedConsts Untrusted UntrustedSpec UntrustedProofs Secrets SecretsProofs SecretsWireProofs SecretsProofs2.
Import ListNotations.
Open Scope list_scope.
Open Scope N_scope.

(* hasSecrets lets a keyset through exactly when EVERY key is labelled public
   or remote - for every material value, also outside the enum, and for nil
   keys / nil key data (which count as UNKNOWN_KEYMATERIAL). *)
Theorem C13_classifier_iff_all_public_or_remote :
  forall ks, has_secrets ks = false <-> Forall (fun k => public_or_remote (key_material k)) (ks_keys ks).
Proof. exact has_secrets_iff. Qed.
Print Assumptions C13_classifier_iff_all_public_or_remote.

(* one secret key at any position is enough *)
Theorem C13_secret_at_any_position :
  forall p pre k post, ~ public_or_remote (key_material k) -> has_secrets (mkKS p (pre ++ k :: post)) = true.
Proof. exact secret_at_any_position. Qed.
Print Assumptions C13_secret_at_any_position.

(* NewHandleWithNoSecrets / ReadWithNoSecrets: error whenever some key carries
   symmetric, private, unknown or unrecognised material ... *)
Theorem C13_no_secrets_apis_fail_on_secret_material :
  forall (L : stdlib) ks,
    Exists (fun k => ~ public_or_remote (key_material k)) (ks_keys ks) ->
    handle_no_secrets L (Some ks) = Err
    /\ forall b, decode_keyset b = Some ks -> read_no_secrets L b = Err.
Proof. exact no_secrets_api_fails_on_secret. Qed.
Print Assumptions C13_no_secrets_apis_fail_on_secret_material.

(* ... and on keysets labelled public/remote only they are the cleartext
   construction followed by the same test on what the parsed key objects
   serialise to (/repo b141c20: the label alone is not trusted). *)
Theorem C13_no_secrets_apis_on_public_labels :
  forall (L : stdlib) ks,
    Forall (fun k => public_or_remote (key_material k)) (ks_keys ks) ->
    handle_no_secrets L (Some ks) = bind (handle_from_proto L (Some ks)) (fun h => if handle_has_secrets h then Err else Ok h)
    /\ forall b, decode_keyset b = Some ks ->
         read_no_secrets L b = bind (read L b) (fun h => if handle_has_secrets h then Err else Ok h).
Proof. exact no_secrets_api_on_public_labels. Qed.
Print Assumptions C13_no_secrets_apis_on_public_labels.

(* ... concluding with the handle: when labels and key objects are public or
   remote only, the three entry points return exactly the handle of the
   cleartext construction; and a no-secrets API returns a handle iff the
   cleartext construction does, every label is public/remote and every key
   object serialises to public/remote material. *)
Theorem C13_no_secrets_apis_return_the_handle :
  forall (L : stdlib) ks h,
    handle_from_proto L (Some ks) = Ok h ->
    Forall (fun k => public_or_remote (key_material k)) (ks_keys ks) ->
    Forall (fun e => public_or_remote (out_material e)) h ->
    handle_no_secrets L (Some ks) = Ok h
    /\ forall b, decode_keyset b = Some ks -> read_no_secrets L b = Ok h /\ read L b = Ok h.
Proof. exact no_secrets_apis_return_the_handle. Qed.
Print Assumptions C13_no_secrets_apis_return_the_handle.

Theorem C13_no_secrets_handle_ok_iff :
  forall (L : stdlib) ks h,
    handle_no_secrets L (Some ks) = Ok h <->
    (handle_from_proto L (Some ks) = Ok h /\ Forall (fun k => public_or_remote (key_material k)) (ks_keys ks)
     /\ Forall (fun e => public_or_remote (out_material e)) h).
Proof. exact no_secrets_ok_iff. Qed.
Print Assumptions C13_no_secrets_handle_ok_iff.

Theorem C13_read_no_secrets_ok_iff :
  forall (L : stdlib) b h,
    read_no_secrets L b = Ok h <->
    exists ks, decode_keyset b = Some ks /\ handle_from_proto L (Some ks) = Ok h
               /\ Forall (fun k => public_or_remote (key_material k)) (ks_keys ks)
               /\ Forall (fun e => public_or_remote (out_material e)) h.
Proof. exact read_no_secrets_ok_iff. Qed.
Print Assumptions C13_read_no_secrets_ok_iff.

Theorem C13_no_secrets_handle_holds_only_public_or_remote :
  forall (L : stdlib) ks h,
    handle_no_secrets L ks = Ok h ->
    exists k, ks = Some k /\ Forall (fun x => public_or_remote (key_material x)) (ks_keys k).
Proof. exact no_secrets_handle_is_public. Qed.
Print Assumptions C13_no_secrets_handle_holds_only_public_or_remote.

(* WriteWithNoSecrets writes iff every key OBJECT serialises to public or
   remote material (the material of the key's type, not the label it was
   imported with), and then writes the serialized keyset. *)
Theorem C13_write_no_secrets_iff :
  forall h, h <> [] ->
    ((exists b, write_no_secrets h = Ok b) <-> Forall (fun e => public_or_remote (out_material e)) h).
Proof. exact write_no_secrets_iff. Qed.
Print Assumptions C13_write_no_secrets_iff.

(* ---- every transcribed key type (41 of the 42 registered ones) ---- *)

(* Which material a key object holds is decided by its type URL alone: for
   every handle the model accepts, the material type (and the prefix type) each
   key's serializer writes is the one registered for its URL; only keys of
   unregistered URLs (the fallback key) keep the label they came with. *)
Theorem C13_material_is_decided_by_type_url :
  forall (L : stdlib) ks h, handle_from_proto L (Some ks) = Ok h ->
    Forall (fun e => out_material e = url_material (eurl e) (emat e)
                     /\ shown_prefix e = reported_prefix (eurl e) (eprefix e)) h.
Proof. exact out_material_by_url. Qed.
Print Assumptions C13_material_is_decided_by_type_url.

(* the table: 15 symmetric, 13 private and 13 public key types; any other URL:
   the label *)
Theorem C13_type_url_material_table :
  Forall (fun u => forall label, url_material u label = km_symmetric) symmetric_urls
  /\ Forall (fun u => forall label, url_material u label = km_private) private_urls
  /\ Forall (fun u => forall label, url_material u label = km_public) public_urls
  /\ (forall u label, url_tag u = 0 -> url_material u label = label)
  /\ (forall u, url_tag u = 0 <-> ~ In u (symmetric_urls ++ private_urls ++ public_urls)).
Proof. exact url_material_table. Qed.
Print Assumptions C13_type_url_material_table.

(* The parsers of 36 of the 41 types compare the label with the material of
   the type (all but HMAC, AES-CMAC, HKDF-PRF, HMAC-PRF, AES-CMAC-PRF): an
   accepted key of such a type is labelled with what it holds. *)
Theorem C13_accepted_label_is_material :
  forall (L : stdlib) ks h, handle_from_proto L (Some ks) = Ok h ->
    Forall (fun e => label_checked (url_tag (eurl e)) = true -> emat e = out_material e) h.
Proof. exact accepted_label_is_material. Qed.
Print Assumptions C13_accepted_label_is_material.

(* THE import theorem, for all 41 transcribed key types and the fallback key
   (this clause was REFUTED before /repo b141c20: the five parsers that ignore
   the label - HMAC, AES-CMAC, HKDF/HMAC/AES-CMAC PRF - let symmetric keys
   labelled ASYMMETRIC_PUBLIC or REMOTE through the no-secrets import): on a
   keyset the cleartext construction accepts as h, NewHandleWithNoSecrets
   returns h iff every key object serialises to public or remote material, iff
   WriteWithNoSecrets writes h; it is an error exactly when some key holds
   symmetric or private material BY ITS TYPE (or an unregistered type carries
   such a label), whatever the labels say and at any position. *)
Theorem C13_no_secrets_import_iff_export :
  forall (L : stdlib) ks h,
    handle_from_proto L (Some ks) = Ok h ->
    (handle_no_secrets L (Some ks) = Ok h <-> Forall (fun e => public_or_remote (out_material e)) h)
    /\ (handle_no_secrets L (Some ks) = Ok h <-> exists b, write_no_secrets h = Ok b)
    /\ (handle_no_secrets L (Some ks) = Err <-> Exists (fun e => ~ public_or_remote (url_material (eurl e) (emat e))) h).
Proof. exact no_secrets_import_iff_export. Qed.
Print Assumptions C13_no_secrets_import_iff_export.

(* Every handle a no-secrets reader returns can be written by
   WriteWithNoSecrets and holds no key whose serializer writes SYMMETRIC or
   ASYMMETRIC_PRIVATE (or any other non public/remote) material. *)
Theorem C13_no_secrets_handle_is_exportable :
  forall (L : stdlib) ks h,
    handle_no_secrets L ks = Ok h ->
    (exists b, write_no_secrets h = Ok b) /\ Forall (fun e => public_or_remote (out_material e)) h.
Proof. exact no_secrets_handle_is_exportable. Qed.
Print Assumptions C13_no_secrets_handle_is_exportable.

(* The witness of the former finding, now on the right side: an HmacKey
   labelled ASYMMETRIC_PUBLIC passes the label test and the cleartext reader,
   its key object holds symmetric material, and import and export both refuse
   it (corpus/C13.txt line corpus-mislabelled-hmac-public: n:err rn:err rj:err). *)
Theorem C13_mislabelled_symmetric_key_rejected_at_import :
  exists h e,
    handle_from_proto refuting_std (Some mislabelled_hmac_keyset) = Ok h
    /\ has_secrets mislabelled_hmac_keyset = false
    /\ In e h /\ out_material e = km_symmetric
    /\ handle_no_secrets refuting_std (Some mislabelled_hmac_keyset) = Err
    /\ read_no_secrets refuting_std (ser_keyset mislabelled_hmac_keyset) = Err
    /\ write_no_secrets h = Err.
Proof. exact mislabelled_symmetric_key_rejected_at_import. Qed.
Print Assumptions C13_mislabelled_symmetric_key_rejected_at_import.

(* A composite ML-DSA PUBLIC key the parser accepts holds a classical PUBLIC
   key: both nested key data are labelled ASYMMETRIC_PUBLIC and were accepted
   by the parser of a public key type.  (This clause was REFUTED before /repo
   bcdec3e: NewPublicKey only compared the classical key's parameters, so the
   classical slot could hold a private key, which the no-secrets import
   accepted and WriteWithNoSecrets wrote out under a public label; finding
   composite_public_key_carries_private_key.)  With C13_no_secrets_import_iff_export,
   which covers the composite types, import and export agree for them too. *)
Theorem C13_composite_public_key_holds_public_classical_key :
  forall (L : stdlib) kd prefix idreq d,
    parse_composite L false kd prefix idreq = Ok d ->
    let ckd := keydata_of (get_sub 3 (fields_or_nil (kd_value kd))) in
    let mkd := keydata_of (get_sub 2 (fields_or_nil (kd_value kd))) in
    kd_mat kd = km_public
    /\ parse_mldsa_pub mkd pt_raw 0 = Ok PMlDsaPub /\ kd_mat mkd = km_public
    /\ exists cd, parse_key_base L ckd pt_raw 0 = Ok cd /\ classical_public_kind cd = true /\ kd_mat ckd = km_public.
Proof. exact composite_public_key_holds_public_classical_key. Qed.
Print Assumptions C13_composite_public_key_holds_public_classical_key.

(* the witness of the finding, now refused by every entry point; with the
   public key in the slot the same keyset is imported and exported *)
Theorem C13_composite_public_key_with_private_classical_key_rejected :
  parse_key_base cw_std cw_private_classical pt_raw 0 = Ok (PEd25519Priv cw_seed)
  /\ has_secrets (cw_keyset cw_private_classical) = false
  /\ handle_from_proto cw_std (Some (cw_keyset cw_private_classical)) = Err
  /\ handle_no_secrets cw_std (Some (cw_keyset cw_private_classical)) = Err
  /\ read_no_secrets cw_std (ser_keyset (cw_keyset cw_private_classical)) = Err
  /\ exists h, handle_no_secrets cw_std (Some (cw_keyset cw_public_classical)) = Ok h
        /\ write_no_secrets h = Ok (ser_keyset (cw_keyset cw_public_classical)).
Proof. exact composite_public_key_with_private_classical_key_rejected. Qed.
Print Assumptions C13_composite_public_key_with_private_classical_key_rejected.

(* Non-interference: KeysetInfo() - and String(), its text form, whatever the
   text encoder - depend only on (type url, status, id, prefix type, primary):
   two accepted keysets equal on that projection give the same output whatever
   their key bytes. *)
Theorem C13_keyset_info_noninterference :
  forall (L : stdlib) k1 k2 h1 h2,
    handle_from_proto L (Some k1) = Ok h1 ->
    handle_from_proto L (Some k2) = Ok h2 ->
    metadata k1 = metadata k2 -> info_of_handle h1 = info_of_handle h2.
Proof. exact info_noninterference. Qed.
Print Assumptions C13_keyset_info_noninterference.

Theorem C13_string_noninterference :
  forall (L : stdlib) (text_of_info : keyset_info -> bytes) k1 k2 h1 h2,
    handle_from_proto L (Some k1) = Ok h1 ->
    handle_from_proto L (Some k2) = Ok h2 ->
    metadata k1 = metadata k2 -> text_of_info (info_of_handle h1) = text_of_info (info_of_handle h2).
Proof. exact string_noninterference. Qed.
Print Assumptions C13_string_noninterference.

(* the KeysetInfo of a handle is computed from the keyset's metadata *)
Theorem C13_keyset_info_is_function_of_metadata :
  forall (L : stdlib) ks h,
    handle_from_proto L (Some ks) = Ok h ->
    info_of_handle h = mkInfo (ks_primary ks) (map reported_key_info (i_keys (metadata ks))).
Proof. exact handle_info_of_metadata. Qed.
Print Assumptions C13_keyset_info_is_function_of_metadata.

(* The encrypted form is (AEAD ciphertext of the serialized keyset, metadata):
   the info written beside the ciphertext is the handle's KeysetInfo, and the
   binary writer writes the ciphertext field only, which the reader recovers. *)
Theorem C13_written_info_is_metadata :
  forall h, info_of_keyset (proto_of_handle h) = info_of_handle h.
Proof. exact written_info_is_handle_info. Qed.
Print Assumptions C13_written_info_is_metadata.

Theorem C13_binary_writer_reader_roundtrip :
  forall ct, blen ct < 18446744073709551616 -> decode_encrypted (ser_encrypted_binary ct) = Some ct.
Proof. exact written_binary_decodes. Qed.
Print Assumptions C13_binary_writer_reader_roundtrip.

(* Unconditionally (any AEAD, any bytes): the encrypted reader returns a
   handle only if the key-encryption AEAD accepted the ciphertext under the
   given associated data; if it rejects, the reader errors. *)
Theorem C13_encrypted_read_only_if_aead_accepts :
  forall (L : stdlib) (K : Type) (aead_dec : K -> bytes -> bytes -> option bytes) k b ad,
    (forall h, read_encrypted L (aead_dec k) b ad = Ok h ->
       exists ct pt ks, decode_encrypted b = Some ct /\ aead_dec k ct ad = Some pt
         /\ decode_keyset pt = Some ks /\ accepted_as ks h)
    /\ (forall ct, decode_encrypted b = Some ct -> aead_dec k ct ad = None ->
       read_encrypted L (aead_dec k) b ad = Err).
Proof.
  intros L K dec k b ad. split.
  - intros h. exact (encrypted_read_needs_aead L K dec k b ad h).
  - intros ct. exact (aead_rejects_then_error L K dec k b ad ct).
Qed.
Print Assumptions C13_encrypted_read_only_if_aead_accepts.

(* ---- the writers and the readers are inverse ---- *)

(* proto.Unmarshal (Untrusted.decode_keyset) reads back what proto.Marshal
   (Secrets.ser_keyset, written independently) wrote, for every keyset a Go
   tinkpb.Keyset can hold (uint32/enum fields in range, type URLs valid UTF-8,
   no nil key) shorter than 2^64 bytes; and everything Unmarshal returns is
   such a keyset. *)
Theorem C13_written_keyset_decodes :
  forall ks, wire_keyset ks -> blen (ser_keyset ks) < 18446744073709551616 ->
    decode_keyset (ser_keyset ks) = Some ks.
Proof. exact decode_ser_wire_keyset. Qed.
Print Assumptions C13_written_keyset_decodes.

Theorem C13_unmarshal_yields_wire_keysets :
  forall b ks, decode_keyset b = Some ks -> wire_keyset ks.
Proof. exact decode_keyset_wire. Qed.
Print Assumptions C13_unmarshal_yields_wire_keysets.

(* entriesToProtoKeyset inverts keysetToEntries on every handle whose entries
   carry the material label and prefix type their serializer writes (true of
   everything Tink itself wrote): the keyset written is the keyset read. *)
Theorem C13_entries_to_proto_keyset_inverts :
  forall (L : stdlib) ks h,
    handle_from_proto L (Some ks) = Ok h -> canonical_labels h -> proto_of_handle h = ks.
Proof. exact proto_of_handle_inverse. Qed.
Print Assumptions C13_entries_to_proto_keyset_inverts.

(* WriteWithNoSecrets then ReadWithNoSecrets gives the same handle back. *)
Theorem C13_write_then_read_no_secrets :
  forall (L : stdlib) ks h,
    handle_from_proto L (Some ks) = Ok h -> wire_keyset ks -> canonical_labels h ->
    Forall (fun e => public_or_remote (out_material e)) h ->
    blen (ser_keyset (proto_of_handle h)) < 18446744073709551616 ->
    write_no_secrets h = Ok (ser_keyset (proto_of_handle h))
    /\ read_no_secrets L (ser_keyset (proto_of_handle h)) = Ok h.
Proof. exact write_then_read_no_secrets. Qed.
Print Assumptions C13_write_then_read_no_secrets.

(* ---- the encrypted keyset ---- *)

(* Unconditionally (any function pair, no law): whoever reads what Write wrote
   has made the AEAD open exactly the ciphertext Write produced, under the
   READER's key and associated data, and the plaintext it got is a keyset
   accepted as the returned handle.  Reading with a wrong key or wrong
   associated data is therefore an AEAD forgery / collision event. *)
Theorem C13_read_of_written_opens_the_ciphertext :
  forall (L : stdlib) (K : Type)
         (aead_enc : K -> bytes -> bytes -> bytes -> bytes) (aead_dec : K -> bytes -> bytes -> option bytes)
         k k' h iv ad ad' b h',
    write_encrypted_binary (aead_enc k) h iv ad = Ok b ->
    blen (encrypted_ct (aead_enc k) h iv ad) < 18446744073709551616 ->
    read_encrypted L (aead_dec k') b ad' = Ok h' ->
    exists pt ks, aead_dec k' (aead_enc k iv (ser_keyset (proto_of_handle h)) ad) ad' = Some pt
      /\ decode_keyset pt = Some ks /\ accepted_as ks h'.
Proof. exact read_of_written_opens_the_ciphertext. Qed.
Print Assumptions C13_read_of_written_opens_the_ciphertext.

(* Wrong key or wrong associated data, in REDUCTION form (no law about the
   AEAD): if the reader returns a handle under (k', ad') other than the pair
   Write used, then the key-encryption AEAD opened the written ciphertext under
   (k', ad') and the opened bytes are a keyset the reader accepts
   (SecretsProofs2.opens_to_a_keyset) - a key / associated-data commitment
   failure of the AEAD on this ciphertext.  Nothing here says the event cannot
   happen: AES-GCM, ChaCha20-Poly1305 and AES-GCM-SIV are not committing, for
   them it is excluded only computationally, for honestly chosen keys.
   (The hypothesis k' <> k \/ ad' <> ad is not used by the proof: the statement is
   C13_read_of_written_opens_the_ciphertext read for a foreign pair - it only NAMES what a
   successful wrong-key read would be; it proves no rejection.) *)
Theorem C13_wrong_key_or_ad_read_is_commitment_failure :
  forall (L : stdlib) (K : Type)
         (aead_enc : K -> bytes -> bytes -> bytes -> bytes) (aead_dec : K -> bytes -> bytes -> option bytes)
         k k' h iv ad ad' b h',
    write_encrypted_binary (aead_enc k) h iv ad = Ok b ->
    blen (encrypted_ct (aead_enc k) h iv ad) < 18446744073709551616 ->
    (k' <> k \/ ad' <> ad) ->
    read_encrypted L (aead_dec k') b ad' = Ok h' ->
    opens_to_a_keyset K aead_dec k' ad' (encrypted_ct (aead_enc k) h iv ad).
Proof. exact wrong_key_or_ad_read_is_commitment_failure. Qed.
Print Assumptions C13_wrong_key_or_ad_read_is_commitment_failure.

(* Corollary under a hypothesis about THIS ciphertext only: if it does not open
   under (k', ad') - or opens to bytes that are no keyset - the read is an
   error. *)
Theorem C13_wrong_key_or_ad_rejected_when_ciphertext_does_not_open :
  forall (L : stdlib) (K : Type)
         (aead_enc : K -> bytes -> bytes -> bytes -> bytes) (aead_dec : K -> bytes -> bytes -> option bytes)
         k k' h iv ad ad' b,
    write_encrypted_binary (aead_enc k) h iv ad = Ok b ->
    blen (encrypted_ct (aead_enc k) h iv ad) < 18446744073709551616 ->
    (aead_dec k' (encrypted_ct (aead_enc k) h iv ad) ad' = None
     \/ forall pt, aead_dec k' (encrypted_ct (aead_enc k) h iv ad) ad' = Some pt -> decode_keyset pt = None) ->
    read_encrypted L (aead_dec k') b ad' = Err.
Proof. exact wrong_key_or_ad_rejected_when_ciphertext_does_not_open. Qed.
Print Assumptions C13_wrong_key_or_ad_rejected_when_ciphertext_does_not_open.

(* With the right key and associated data, for every AEAD whose Decrypt inverts
   Encrypt: the reader returns THE handle that was written - for every handle
   made from a keyset a Go tinkpb.Keyset can hold, in particular every handle
   that was itself read from bytes. *)
Theorem C13_right_key_reads_the_handle :
  forall (L : stdlib) (K : Type)
         (aead_enc : K -> bytes -> bytes -> bytes -> bytes) (aead_dec : K -> bytes -> bytes -> option bytes),
    (forall k iv pt ad, aead_dec k (aead_enc k iv pt ad) ad = Some pt) ->
    forall k ks h iv ad b,
      handle_from_proto L (Some ks) = Ok h -> wire_keyset ks -> canonical_labels h ->
      write_encrypted_binary (aead_enc k) h iv ad = Ok b ->
      blen (encrypted_ct (aead_enc k) h iv ad) < 18446744073709551616 ->
      blen (ser_keyset (proto_of_handle h)) < 18446744073709551616 ->
      read_encrypted L (aead_dec k) b ad = Ok h.
Proof. exact right_key_reads_the_handle. Qed.
Print Assumptions C13_right_key_reads_the_handle.

Theorem C13_right_key_reads_the_handle_read_from_bytes :
  forall (L : stdlib) (K : Type)
         (aead_enc : K -> bytes -> bytes -> bytes -> bytes) (aead_dec : K -> bytes -> bytes -> option bytes),
    (forall k iv pt ad, aead_dec k (aead_enc k iv pt ad) ad = Some pt) ->
    forall k b0 h iv ad b,
      read L b0 = Ok h -> canonical_labels h ->
      write_encrypted_binary (aead_enc k) h iv ad = Ok b ->
      blen (encrypted_ct (aead_enc k) h iv ad) < 18446744073709551616 ->
      blen (ser_keyset (proto_of_handle h)) < 18446744073709551616 ->
      read_encrypted L (aead_dec k) b ad = Ok h.
Proof. exact right_key_reads_the_handle_read. Qed.
Print Assumptions C13_right_key_reads_the_handle_read_from_bytes.

(* For ANY handle (also one whose labels are not the serializer's, e.g. a
   LEGACY AES-GCM key, which is written as CRUNCHY): what the reader sees is
   exactly the serialized keyset. *)
Theorem C13_right_key_reads_the_serialized_keyset :
  forall (L : stdlib) (K : Type)
         (aead_enc : K -> bytes -> bytes -> bytes -> bytes) (aead_dec : K -> bytes -> bytes -> option bytes),
    (forall k iv pt ad, aead_dec k (aead_enc k iv pt ad) ad = Some pt) ->
    forall k h iv ad b,
      write_encrypted_binary (aead_enc k) h iv ad = Ok b ->
      blen (encrypted_ct (aead_enc k) h iv ad) < 18446744073709551616 ->
      read_encrypted L (aead_dec k) b ad =
      match decode_keyset (ser_keyset (proto_of_handle h)) with
      | Some ks => handle_from_proto L (Some ks)
      | None => Err
      end.
Proof. intros L K e d C. exact (right_key_reads_serialized_keyset L K e d C). Qed.
Print Assumptions C13_right_key_reads_the_serialized_keyset.

(* Non-vacuity.  A toy AEAD satisfying both laws (the "ciphertext" carries key
   and associated data in clear; only the laws matter here), and a concrete
   two-key keyset: an unknown-type REMOTE key and a 16-byte AES-GCM key at the
   second position.  The no-secrets reader refuses it, the cleartext reader
   accepts it, its info holds no key byte, it is written encrypted and read
   back with the right key only. *)
Definition toy_enc (k : N) (iv pt ad : bytes) : bytes := k :: blen ad :: ad ++ pt.
Definition toy_dec (k : N) (ct ad : bytes) : option bytes :=
  match ct with
  | k' :: n :: rest =>
      if (k' =? k) && (n =? blen ad) && beq (firstn (length ad) rest) ad
      then Some (skipn (length ad) rest) else None
  | _ => None
  end.

Lemma toy_correct : forall k iv pt ad, toy_dec k (toy_enc k iv pt ad) ad = Some pt.
Proof.
  intros. unfold toy_dec, toy_enc. rewrite !N.eqb_refl. cbn [andb].
  rewrite firstn_app, Nat.sub_diag, firstn_all, firstn_O, app_nil_r, beq_refl.
  rewrite skipn_app, Nat.sub_diag, skipn_all. reflexivity.
Qed.

Definition ex13_keyset : bytes :=
  [8; 9]
  ++ [18; 13; 10; 5; 10; 1; 120; 24; 4; 16; 1; 24; 9; 32; 3]
  ++ [18; 80; 10; 72; 10; 48] ++ u_aes_gcm ++ [18; 18; 26; 16] ++ repeat 7 16%nat ++ [24; 1] ++ [16; 1; 24; 5; 32; 1].

(* a standard library that refuses everything (the examples need none of it) *)
Definition ex13_std : stdlib :=
  mkStd (fun _ _ => false) (fun _ _ => None) (fun _ => []) (fun _ _ => None) (fun _ _ => [])
        (fun _ _ _ _ _ => None) (fun _ _ _ _ _ _ _ _ => false) (fun _ _ => []).
Definition ex13_handle : handle :=
  Eval vm_compute in match read ex13_std ex13_keyset with Ok h => h | _ => [] end.

Definition ex13_written : bytes :=
  Eval vm_compute in match write_encrypted_binary (toy_enc 42) ex13_handle [] [1; 2] with Ok b => b | _ => [] end.

Example C13_nonvacuous :
  let p := ex13_std in
  let h := ex13_handle in
  let b := ex13_written in
    read p ex13_keyset = Ok h
    /\ read_no_secrets p ex13_keyset = Err
    /\ write_no_secrets h = Err
    /\ info_of_handle h = mkInfo 9 [mkKI [120] 1 9 3; mkKI u_aes_gcm 1 5 1]
    /\ canonical_labels h
    /\ ser_keyset (proto_of_handle h) = ex13_keyset
    /\ write_encrypted_binary (toy_enc 42) h [] [1; 2] = Ok b
    /\ read_encrypted p (toy_dec 42) b [1; 2] = Ok h
    /\ read_encrypted p (toy_dec 43) b [1; 2] = Err
    /\ read_encrypted p (toy_dec 42) b [1; 3] = Err.
Proof.
  cbv zeta.
  split; [vm_compute; reflexivity|].
  split; [vm_compute; reflexivity|].
  split; [vm_compute; reflexivity|].
  split; [vm_compute; reflexivity|].
  split; [repeat constructor|].
  split; [vm_compute; reflexivity|].
  split; [vm_compute; reflexivity|].
  split; [vm_compute; reflexivity|].
  split; vm_compute; reflexivity.
Qed.

(* a public-only keyset of a label-checking type (an Ed25519 public key): the
   no-secrets APIs return the handle, WriteWithNoSecrets writes it and
   ReadWithNoSecrets reads the same handle back; replacing the key by the
   AES-GCM key above makes import and export fail together *)
Definition ex13_public_keyset : keyset :=
  mkKS 5 [Some (mkPK (Some (mkKD u_ed25519_pub ([18; 32] ++ repeat 3 32%nat) km_public)) st_enabled 5 pt_tink)].
Definition ex13_public_handle : handle :=
  Eval vm_compute in match handle_from_proto ex13_std (Some ex13_public_keyset) with Ok h => h | _ => [] end.

Example C13_nonvacuous_public :
  let h := ex13_public_handle in
  handle_from_proto ex13_std (Some ex13_public_keyset) = Ok h
  /\ wire_keyset ex13_public_keyset /\ canonical_labels h
  /\ Forall (fun e => label_checked (url_tag (eurl e)) = true) h
  /\ Forall (fun e => public_or_remote (out_material e)) h
  /\ handle_no_secrets ex13_std (Some ex13_public_keyset) = Ok h
  /\ read_no_secrets ex13_std (ser_keyset (proto_of_handle h)) = Ok h
  /\ (exists ks' h', handle_from_proto ex13_std (Some ks') = Ok h'
        /\ Forall (fun e => label_checked (url_tag (eurl e)) = true) h'
        /\ handle_no_secrets ex13_std (Some ks') = Err /\ write_no_secrets h' = Err).
Proof.
  cbv zeta.
  split; [vm_compute; reflexivity|].
  split; [split; [vm_compute; reflexivity | repeat constructor; eexists; (split; [reflexivity|]); repeat split; vm_compute; reflexivity]|].
  split; [repeat constructor|].
  split; [repeat constructor|].
  split; [repeat constructor; right; reflexivity || left; reflexivity|].
  split; [vm_compute; reflexivity|].
  split; [vm_compute; reflexivity|].
  exists (mkKS 5 [Some (mkPK (Some (mkKD u_aes_gcm ([26; 16] ++ repeat 7 16%nat) km_symmetric)) st_enabled 5 pt_tink)]).
  eexists. split; [vm_compute; reflexivity|]. split; [repeat constructor|]. split; vm_compute; reflexivity.
Qed.

(* The per-ciphertext hypothesis is met by the toy AEAD (which writes key and
   associated data in clear - it is committing, real AEADs need not be), and
   the reduction's event is REAL for an AEAD that commits to nothing: with
   enc = identity and dec = Some, a reader with any other key and any other
   associated data gets the handle. *)
Definition enc0 (k : N) (iv pt ad : bytes) : bytes := pt.
Definition dec0 (k : N) (ct ad : bytes) : option bytes := Some ct.
Definition ex13_enc0_written : bytes :=
  Eval vm_compute in match write_encrypted_binary (enc0 42) ex13_handle [] [1; 2] with Ok b => b | _ => [] end.

Example C13_nonvacuous_wrong_key :
  toy_dec 43 (encrypted_ct (toy_enc 42) ex13_handle [] [1; 2]) [1; 2] = None
  /\ toy_dec 42 (encrypted_ct (toy_enc 42) ex13_handle [] [1; 2]) [1; 3] = None
  /\ (forall k iv pt ad, toy_dec k (toy_enc k iv pt ad) ad = Some pt)
  /\ (forall k iv pt ad, dec0 k (enc0 k iv pt ad) ad = Some pt)
  /\ write_encrypted_binary (enc0 42) ex13_handle [] [1; 2] = Ok ex13_enc0_written
  /\ read_encrypted ex13_std (dec0 43) ex13_enc0_written [9] = Ok ex13_handle.
Proof.
  split; [vm_compute; reflexivity|]. split; [vm_compute; reflexivity|]. split; [exact toy_correct|].
  split; [reflexivity|]. split; vm_compute; reflexivity.
Qed.
