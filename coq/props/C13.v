(* C13 — Secret key material leaves a handle only via insecure or encrypted
   paths.  Statements only; proofs in proofs/SecretsProofs.v; model in
   model/Secrets.v on top of model/Untrusted.v.
   Material types are ALL natural numbers (proto3 enums are open); 3 and 4 are
   ASYMMETRIC_PUBLIC and REMOTE of proto/tink.proto (public_or_remote). *)
From Coq Require Import String Ascii List Arith NArith Bool.
From Tink Require Import Bytes UntrustedConsts Untrusted UntrustedSpec UntrustedProofs Secrets SecretsProofs.
Import ListNotations.
Open Scope list_scope.
Open Scope N_scope.

(* hasSecrets lets a keyset through exactly when EVERY key is labelled public
   or remote - for every material value, also outside the enum, and for nil
   keys / nil key data (which count as UNKNOWN_KEYMATERIAL). *)
Theorem C13_classifier_iff_all_public_or_remote :
  forall ks, has_secrets ks = false <-> Forall (fun k => public_or_remote (key_material k)) (ks_keys ks).
Proof. exact has_secrets_iff. Qed.
Print Assumptions C13_classifier_iff_all_public_or_remote.

(* one secret key at any position is enough *)
Theorem C13_secret_at_any_position :
  forall p pre k post, ~ public_or_remote (key_material k) -> has_secrets (mkKS p (pre ++ k :: post)) = true.
Proof. exact secret_at_any_position. Qed.
Print Assumptions C13_secret_at_any_position.

(* NewHandleWithNoSecrets / ReadWithNoSecrets: error whenever some key carries
   symmetric, private, unknown or unrecognised material ... *)
Theorem C13_no_secrets_apis_fail_on_secret_material :
  forall (L : stdlib) ks,
    Exists (fun k => ~ public_or_remote (key_material k)) (ks_keys ks) ->
    handle_no_secrets L (Some ks) = Err
    /\ forall b, decode_keyset b = Some ks -> read_no_secrets L b = Err.
Proof. exact no_secrets_api_fails_on_secret. Qed.
Print Assumptions C13_no_secrets_apis_fail_on_secret_material.

(* ... and on public/remote-only keysets they are the cleartext construction
   (they succeed exactly when the keyset is otherwise acceptable, C14). *)
Theorem C13_no_secrets_apis_succeed_on_public_keysets :
  forall (L : stdlib) ks,
    Forall (fun k => public_or_remote (key_material k)) (ks_keys ks) ->
    handle_no_secrets L (Some ks) = handle_from_proto L (Some ks)
    /\ forall b, decode_keyset b = Some ks ->
         read_no_secrets L b = read L b.
Proof. exact no_secrets_api_succeeds_on_public. Qed.
Print Assumptions C13_no_secrets_apis_succeed_on_public_keysets.

Theorem C13_no_secrets_handle_holds_only_public_or_remote :
  forall (L : stdlib) ks h,
    handle_no_secrets L ks = Ok h ->
    exists k, ks = Some k /\ Forall (fun x => public_or_remote (key_material x)) (ks_keys k).
Proof. exact no_secrets_handle_is_public. Qed.
Print Assumptions C13_no_secrets_handle_holds_only_public_or_remote.

(* WriteWithNoSecrets writes iff every key OBJECT serialises to public or
   remote material (the material of the key's type, not the label it was
   imported with), and then writes the serialized keyset. *)
Theorem C13_write_no_secrets_iff :
  forall h, h <> [] ->
    ((exists b, write_no_secrets h = Ok b) <-> Forall (fun e => public_or_remote (out_material e)) h).
Proof. exact write_no_secrets_iff. Qed.
Print Assumptions C13_write_no_secrets_iff.

(* Non-interference: KeysetInfo() - and String(), its text form, whatever the
   text encoder - depend only on (type url, status, id, prefix type, primary):
   two accepted keysets equal on that projection give the same output whatever
   their key bytes. *)
Theorem C13_keyset_info_noninterference :
  forall (L : stdlib) k1 k2 h1 h2,
    handle_from_proto L (Some k1) = Ok h1 ->
    handle_from_proto L (Some k2) = Ok h2 ->
    metadata k1 = metadata k2 -> info_of_handle h1 = info_of_handle h2.
Proof. exact info_noninterference. Qed.
Print Assumptions C13_keyset_info_noninterference.

Theorem C13_string_noninterference :
  forall (L : stdlib) (text_of_info : keyset_info -> bytes) k1 k2 h1 h2,
    handle_from_proto L (Some k1) = Ok h1 ->
    handle_from_proto L (Some k2) = Ok h2 ->
    metadata k1 = metadata k2 -> text_of_info (info_of_handle h1) = text_of_info (info_of_handle h2).
Proof. exact string_noninterference. Qed.
Print Assumptions C13_string_noninterference.

(* the KeysetInfo of a handle is computed from the keyset's metadata *)
Theorem C13_keyset_info_is_function_of_metadata :
  forall (L : stdlib) ks h,
    handle_from_proto L (Some ks) = Ok h ->
    info_of_handle h = mkInfo (ks_primary ks) (map reported_key_info (i_keys (metadata ks))).
Proof. exact handle_info_of_metadata. Qed.
Print Assumptions C13_keyset_info_is_function_of_metadata.

(* The encrypted form is (AEAD ciphertext of the serialized keyset, metadata):
   the info written beside the ciphertext is the handle's KeysetInfo, and the
   binary writer writes the ciphertext field only, which the reader recovers. *)
Theorem C13_written_info_is_metadata :
  forall h, info_of_keyset (proto_of_handle h) = info_of_handle h.
Proof. exact written_info_is_handle_info. Qed.
Print Assumptions C13_written_info_is_metadata.

Theorem C13_binary_writer_reader_roundtrip :
  forall ct, blen ct < 18446744073709551616 -> decode_encrypted (ser_encrypted_binary ct) = Some ct.
Proof. exact written_binary_decodes. Qed.
Print Assumptions C13_binary_writer_reader_roundtrip.

(* Unconditionally (any AEAD, any bytes): the encrypted reader returns a
   handle only if the key-encryption AEAD accepted the ciphertext under the
   given associated data; if it rejects, the reader errors. *)
Theorem C13_encrypted_read_only_if_aead_accepts :
  forall (L : stdlib) (K : Type) (aead_dec : K -> bytes -> bytes -> option bytes) k b ad,
    (forall h, read_encrypted L (aead_dec k) b ad = Ok h ->
       exists ct pt ks, decode_encrypted b = Some ct /\ aead_dec k ct ad = Some pt
         /\ decode_keyset pt = Some ks /\ accepted_as ks h)
    /\ (forall ct, decode_encrypted b = Some ct -> aead_dec k ct ad = None ->
       read_encrypted L (aead_dec k) b ad = Err).
Proof.
  intros L K dec k b ad. split.
  - intros h. exact (encrypted_read_needs_aead L K dec k b ad h).
  - intros ct. exact (aead_rejects_then_error L K dec k b ad ct).
Qed.
Print Assumptions C13_encrypted_read_only_if_aead_accepts.

(* For an AEAD that decrypts only under the same key and associated data:
   what Write produced is unreadable with another key or other associated
   data, and with the right ones the reader sees exactly the serialized keyset. *)
Theorem C13_wrong_key_or_ad_rejected :
  forall (L : stdlib) (K : Type)
         (aead_enc : K -> bytes -> bytes -> bytes -> bytes) (aead_dec : K -> bytes -> bytes -> option bytes),
    (forall k k' iv pt ad ad', (k' <> k \/ ad' <> ad) -> aead_dec k' (aead_enc k iv pt ad) ad' = None) ->
    forall k k' h iv ad ad' b,
      write_encrypted_binary (aead_enc k) h iv ad = Ok b ->
      blen (encrypted_ct (aead_enc k) h iv ad) < 18446744073709551616 ->
      (k' <> k \/ ad' <> ad) ->
      read_encrypted L (aead_dec k') b ad' = Err.
Proof. exact wrong_key_or_ad_rejected. Qed.
Print Assumptions C13_wrong_key_or_ad_rejected.

Theorem C13_right_key_reads_the_serialized_keyset :
  forall (L : stdlib) (K : Type)
         (aead_enc : K -> bytes -> bytes -> bytes -> bytes) (aead_dec : K -> bytes -> bytes -> option bytes),
    (forall k iv pt ad, aead_dec k (aead_enc k iv pt ad) ad = Some pt) ->
    forall k h iv ad b,
      write_encrypted_binary (aead_enc k) h iv ad = Ok b ->
      blen (encrypted_ct (aead_enc k) h iv ad) < 18446744073709551616 ->
      read_encrypted L (aead_dec k) b ad =
      match decode_keyset (ser_keyset (proto_of_handle h)) with
      | Some ks => handle_from_proto L (Some ks)
      | None => Err
      end.
Proof. exact right_key_reads_serialized_keyset. Qed.
Print Assumptions C13_right_key_reads_the_serialized_keyset.

(* Non-vacuity.  A toy AEAD satisfying both laws (the "ciphertext" carries key
   and associated data in clear; only the laws matter here), and a concrete
   two-key keyset: an unknown-type REMOTE key and a 16-byte AES-GCM key at the
   second position.  The no-secrets reader refuses it, the cleartext reader
   accepts it, its info holds no key byte, it is written encrypted and read
   back with the right key only. *)
Definition toy_enc (k : N) (iv pt ad : bytes) : bytes := k :: blen ad :: ad ++ pt.
Definition toy_dec (k : N) (ct ad : bytes) : option bytes :=
  match ct with
  | k' :: n :: rest =>
      if (k' =? k) && (n =? blen ad) && beq (firstn (length ad) rest) ad
      then Some (skipn (length ad) rest) else None
  | _ => None
  end.

Lemma toy_correct : forall k iv pt ad, toy_dec k (toy_enc k iv pt ad) ad = Some pt.
Proof.
  intros. unfold toy_dec, toy_enc. rewrite !N.eqb_refl. cbn [andb].
  rewrite firstn_app, Nat.sub_diag, firstn_all, firstn_O, app_nil_r, beq_refl.
  rewrite skipn_app, Nat.sub_diag, skipn_all. reflexivity.
Qed.

Lemma toy_auth : forall k k' iv pt ad ad', (k' <> k \/ ad' <> ad) -> toy_dec k' (toy_enc k iv pt ad) ad' = None.
Proof.
  intros k k' iv pt ad ad' H. unfold toy_dec, toy_enc.
  destruct (k =? k') eqn:E1; [|reflexivity]. apply N.eqb_eq in E1.
  destruct (blen ad =? blen ad') eqn:E2; [|reflexivity]. apply N.eqb_eq in E2.
  cbn [andb]. assert (L : length ad = length ad') by (unfold blen in E2; apply Nnat.Nat2N.inj; exact E2).
  rewrite <- L, firstn_app, Nat.sub_diag, firstn_all, firstn_O, app_nil_r.
  destruct (beq ad ad') eqn:E3; [|reflexivity]. apply beq_eq in E3. subst. destruct H; congruence.
Qed.

Definition ex13_keyset : bytes :=
  [8; 9]
  ++ [18; 13; 10; 5; 10; 1; 120; 24; 4; 16; 1; 24; 9; 32; 3]
  ++ [18; 80; 10; 72; 10; 48] ++ u_aes_gcm ++ [18; 18; 26; 16] ++ repeat 7 16%nat ++ [24; 1] ++ [16; 1; 24; 5; 32; 1].

Example C13_nonvacuous :
  (* a standard library that refuses everything (the example needs none of it) *)
  let p := mkStd (fun _ _ => false) (fun _ _ => None) (fun _ => []) (fun _ _ => None) (fun _ _ => [])
                 (fun _ _ _ _ _ => None) (fun _ _ _ _ _ _ _ _ => false) in
  exists h b,
    read p ex13_keyset = Ok h
    /\ read_no_secrets p ex13_keyset = Err
    /\ write_no_secrets h = Err
    /\ info_of_handle h = mkInfo 9 [mkKI [120] 1 9 3; mkKI u_aes_gcm 1 5 1]
    /\ write_encrypted_binary (toy_enc 42) h [] [1; 2] = Ok b
    /\ (exists h', read_encrypted p (toy_dec 42) b [1; 2] = Ok h' /\ info_of_handle h' = info_of_handle h)
    /\ read_encrypted p (toy_dec 43) b [1; 2] = Err
    /\ read_encrypted p (toy_dec 42) b [1; 3] = Err.
Proof.
  cbv zeta. eexists. eexists.
  split; [vm_compute; reflexivity|].
  split; [vm_compute; reflexivity|].
  split; [vm_compute; reflexivity|].
  split; [vm_compute; reflexivity|].
  split; [vm_compute; reflexivity|].
  split; [eexists; split; vm_compute; reflexivity|].
  split; vm_compute; reflexivity.
Qed.
