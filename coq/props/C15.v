(* C15 — PRFs are deterministic, prefix-consistent and equal to HMAC / HKDF / AES-CMAC.

   Statements only; proofs live in proofs/{Hmac,Hkdf,Prf,Cmac}Proofs.v.
   Models: model/Prf.v (prf/subtle, the three PRF key types, prf.NewPRFSet,
   subtle.ComputeHKDF, after the Go code) over model/Hmac.v (RFC 2104),
   model/Hkdf.v (RFC 5869) and model/Cmac.v (the Go loop, proved equal to RFC 4493).
   `Hash` and `AES` are arbitrary functions constrained only by the premises.

   Determinism: a model PRF is a Gallina function of (input, output length);
   the correspondence run evaluates every request twice on the real code. *)
From Coq Require Import List NArith Bool.
From Tink Require Import Bytes Cmac Hmac Hkdf Prf CmacProofs HmacProofs HkdfProofs PrfProofs.
Import ListNotations.
Open Scope N_scope.

(* ---- RFC 5869 expand: prefix law, exact length, 255-block limit ---- *)
Theorem C15_hkdf_expand_prefix_law :
  forall (H : bytes -> bytes) (B HashLen : nat),
    (forall x, length (H x) = HashLen) -> (0 < HashLen)%nat ->
    forall prk info n m o, (n <= m)%nat ->
      hkdf_expand H B HashLen prk info m = Some o ->
      hkdf_expand H B HashLen prk info n = Some (firstn n o).
Proof. exact hkdf_expand_prefix. Qed.
Print Assumptions C15_hkdf_expand_prefix_law.

Theorem C15_hkdf_expand_length_and_limit :
  forall (H : bytes -> bytes) (B HashLen : nat),
    (forall x, length (H x) = HashLen) -> (0 < HashLen)%nat ->
    forall prk info L,
      ((L <= 255 * HashLen)%nat ->
         exists o, hkdf_expand H B HashLen prk info L = Some o /\ length o = L) /\
      ((255 * HashLen < L)%nat -> hkdf_expand H B HashLen prk info L = None).
Proof. exact hkdf_expand_total. Qed.
Print Assumptions C15_hkdf_expand_length_and_limit.

(* ---- HMAC key padding, hence "no salt" = HashLen zero bytes ---- *)
Theorem C15_hmac_short_key_zero_padding :
  forall (H : bytes -> bytes) (B : nat) k n m,
    (length k + n <= B)%nat -> hmac H B (k ++ zeros n) m = hmac H B k m.
Proof. exact hmac_pad. Qed.
Print Assumptions C15_hmac_short_key_zero_padding.

Theorem C15_hkdf_empty_salt_is_zero_salt :
  forall (H : bytes -> bytes) (B HashLen : nat), (HashLen <= B)%nat ->
    forall ikm info L, hkdf H B HashLen [] ikm info L = hkdf H B HashLen (zeros HashLen) ikm info L.
Proof. intros H B HashLen HB ikm info L. apply hkdf_empty_salt. exact HB. Qed.
Print Assumptions C15_hkdf_empty_salt_is_zero_salt.

Section C15.
  Variable Hash : hash_alg -> bytes -> bytes.
  Variable AES : bytes -> bytes -> bytes.
  Hypothesis Hash_len : forall h x, length (Hash h x) = digest_size h.
  Hypothesis AES_len : forall k b, length b = 16%nat -> length (AES k b) = 16%nat.
  Hypothesis AES_wf0 : forall k, wfb (AES k (zeros 16)).

  (* A PRF obtained from prf/subtle (NewHMACPRF, NewHKDFPRF, NewAESCMACPRF) or
     from a PRF key (primitiveConstructor): within the maximum output length
     (digest size / 255*HashLen / 16) the output is the first n bytes of the
     standard value — HMAC (RFC 2104), the HKDF output stream T(1)|T(2)|...
     (RFC 5869, key = IKM, the key's salt, input = info), AES-CMAC (RFC 4493) —
     and has exactly n bytes; beyond the maximum the request fails. *)
  Theorem C15_prf_is_truncated_standard_value :
    forall k key p,
      (subtle_new Hash AES k key = Ok p \/ key_prf Hash AES k key = Ok p) ->
      forall data n,
        ((n <= prf_max k)%nat ->
           p data n = Ok (firstn n (prf_std Hash AES k key data)) /\
           length (firstn n (prf_std Hash AES k key data)) = n) /\
        ((prf_max k < n)%nat -> p data n = Err).
  Proof.
    intros k key p [Hs|Hk].
    - exact (subtle_new_truncates Hash AES Hash_len AES_len AES_wf0 k key p Hs).
    - exact (key_prf_truncates Hash AES Hash_len AES_len AES_wf0 k key p Hk).
  Qed.

  (* prefix law: ComputePRF(x, n) is the n-byte prefix of ComputePRF(x, m), n <= m *)
  Theorem C15_prf_prefix_law :
    forall k key p,
      (subtle_new Hash AES k key = Ok p \/ key_prf Hash AES k key = Ok p) ->
      forall data n m o, (n <= m)%nat -> p data m = Ok o ->
        p data n = Ok (firstn n o) /\ length o = m.
  Proof.
    intros k key p Hp. apply (truncates_prefix Hash AES p k key).
    destruct Hp as [Hs|Hk].
    - exact (subtle_new_truncates Hash AES Hash_len AES_len AES_wf0 k key p Hs).
    - exact (key_prf_truncates Hash AES Hash_len AES_len AES_wf0 k key p Hk).
  Qed.

  (* prf.NewPRFSet: the primary id is the keyset's primary id, the key ids are
     exactly the ids of the ENABLED keys, each id maps to the PRF of its key,
     and ComputePrimaryPRF is the primary key's PRF (ids of enabled keys are
     distinct, as in every keyset a handle holds). *)
  Theorem C15_prf_set_mirrors_enabled_keys :
    forall es primary s,
      new_prf_set Hash AES es primary = Some s ->
      NoDup (enabled_ids es) ->
      primary_id s = primary /\
      NoDup (map fst (prfs s)) /\
      (forall id, In id (map fst (prfs s)) <-> exists k key, In (id, PEnabled, k, key) es) /\
      (forall id k key, In (id, PEnabled, k, key) es ->
         exists p, set_lookup (prfs s) id = Some p /\
           forall data n,
             ((n <= prf_max k)%nat -> p data n = Ok (firstn n (prf_std Hash AES k key data))) /\
             ((prf_max k < n)%nat -> p data n = Err)) /\
      (forall k key, In (primary, PEnabled, k, key) es ->
         forall data n,
           ((n <= prf_max k)%nat ->
              compute_primary s data n = Ok (firstn n (prf_std Hash AES k key data))) /\
           ((prf_max k < n)%nat -> compute_primary s data n = Err)).
  Proof.
    intros es primary s Hs Hnd.
    destruct (new_prf_set_facts Hash AES Hash_len AES_len AES_wf0 es primary s Hs Hnd)
      as [H1 [H2 [H3 [H4 H5]]]].
    split; [exact H1|]. split; [exact H2|]. split; [exact H3|]. split.
    - intros id k key Hin. destruct (H4 id k key Hin) as [p [Hl Ht]]. exists p. split; [exact Hl|].
      intros data n. split; [intros Hn; apply (proj1 (Ht data n) Hn) | apply (proj2 (Ht data n))].
    - intros k key Hin data n. destruct (H5 k key Hin) as [p [Ht Hc]]. rewrite Hc.
      split; [intros Hn; apply (proj1 (Ht data n) Hn) | apply (proj2 (Ht data n))].
  Qed.

  (* subtle.ComputeHKDF: whenever it returns output, that output is RFC 5869
     output (n bytes of the stream) for the given hash, salt (empty = HashLen
     zeros), info; 10 <= n <= 255*HashLen. *)
  Theorem C15_compute_hkdf_is_rfc5869 :
    forall h key salt info n o,
      compute_hkdf Hash h key salt info n = Ok o ->
      exists a, h = Some a /\ (10 <= n <= 255 * digest_size a)%nat /\ length o = n /\
        o = firstn n (hkdf_blocks (Hash a) (block_size a)
                        (hkdf_extract (Hash a) (block_size a)
                           (if Nat.eqb (length salt) 0 then zeros (digest_size a) else salt) key)
                        info [] 1 255).
  Proof. exact (compute_hkdf_ok Hash Hash_len). Qed.

  (* ... it agrees with the HKDF-PRF keyed with the same salt, the empty salt included
     (HMAC key padding: empty key = zero key) ... *)
  Theorem C15_compute_hkdf_agrees_with_hkdf_prf :
    forall a key salt info n o,
      compute_hkdf Hash (Some a) key salt info n = Ok o -> hkdf_prf Hash a key salt info n = Ok o.
  Proof. exact (compute_hkdf_is_hkdf_prf Hash). Qed.

  (* ... and refuses sizes outside [10, 255*HashLen] and unknown hashes *)
  Theorem C15_compute_hkdf_limits :
    forall h key salt info n,
      (n < 10)%nat \/ (match h with Some a => (255 * digest_size a < n)%nat | None => True end) ->
      compute_hkdf Hash h key salt info n = Err.
  Proof. exact (compute_hkdf_refuses Hash). Qed.
End C15.
Print Assumptions C15_prf_is_truncated_standard_value.
Print Assumptions C15_prf_prefix_law.
Print Assumptions C15_prf_set_mirrors_enabled_keys.
Print Assumptions C15_compute_hkdf_is_rfc5869.
Print Assumptions C15_compute_hkdf_agrees_with_hkdf_prf.
Print Assumptions C15_compute_hkdf_limits.

(* Non-vacuity: the oracle premises are satisfiable and each constructor succeeds somewhere. *)
Example C15_nonvacuous :
  let H := fun h (_ : bytes) => zeros (digest_size h) in
  let A := fun (_ _ : bytes) => zeros 16 in
  (forall h x, length (H h x) = digest_size h) /\
  (forall k b, length b = 16%nat -> length (A k b) = 16%nat) /\
  (forall k, wfb (A k (zeros 16))) /\
  (exists p, subtle_new H A (KHkdf (Some SHA1) [1; 2]) [5] = Ok p) /\
  (exists p, key_prf H A KCmac (zeros 32) = Ok p) /\
  (exists s, new_prf_set H A [(7, PEnabled, KHmac (Some SHA256), zeros 16);
                              (9, PDisabled, KCmac, zeros 16);
                              (3, PEnabled, KHkdf (Some SHA512) [], zeros 32)] 3 = Some s
             /\ map fst (prfs s) = [7; 3]) /\
  (exists o, compute_hkdf H (Some SHA256) [1] [] [2] 33 = Ok o).
Proof.
  cbv zeta. repeat split.
  - intros h x. apply zeros_length.
  - intros k. apply zeros_wf.
  - eexists. reflexivity.
  - eexists. reflexivity.
  - eexists. split; reflexivity.
  - eexists. vm_compute. reflexivity.
Qed.
