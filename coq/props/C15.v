(* C15 — PRFs are deterministic, prefix-consistent and equal to HMAC / HKDF / AES-CMAC.

   Statements only; proofs live in proofs/{Hmac,Hkdf,Prf,Cmac,HmacCode,HkdfCode}Proofs.v, PrfProofs2.v.
   As-coded models: model/HmacCode.v (crypto/hmac), model/HkdfCode.v (golang.org/x/crypto/hkdf:
   Extract with the nil-salt rule, the stateful Expand reader with its byte counter, previous
   block and buffer of unread bytes; Tink's ComputePRF / ComputeHKDF callers with io.ReadFull),
   proved equal to the RFC transcriptions for every read schedule; model/PrfHandle.v
   (NewPRFSet reading a handle of the keyset.Manager model).
   Models: model/Prf.v (prf/subtle, the three PRF key types, prf.NewPRFSet,
   subtle.ComputeHKDF, after the Go code) over model/Hmac.v (RFC 2104),
   model/Hkdf.v (RFC 5869) and model/Cmac.v (the Go loop, proved equal to RFC 4493).
   `Hash` and `AES` are arbitrary functions constrained only by the premises.

   Determinism: a model PRF is a Gallina function of (input, output length);
   the correspondence run evaluates every request twice on the real code. *)
From Coq Require Import List NArith Bool.
From Tink Require Import Bytes Cmac Hmac Hkdf Prf Manager PrfHandle HmacCode HkdfCode.
From Tink Require Import CmacProofs HmacProofs HkdfProofs PrfProofs ManagerProofs HmacCodeProofs HkdfCodeProofs PrfProofs2.
Import ListNotations.
Open Scope N_scope.

(* ---- RFC 5869 expand: prefix law, exact length, 255-block limit ---- *)
Theorem C15_hkdf_expand_prefix_law :
  forall (H : bytes -> bytes) (B HashLen : nat),
    (forall x, length (H x) = HashLen) -> (0 < HashLen)%nat ->
    forall prk info n m o, (n <= m)%nat ->
      hkdf_expand H B HashLen prk info m = Some o ->
      hkdf_expand H B HashLen prk info n = Some (firstn n o).
Proof. exact hkdf_expand_prefix. Qed.
Print Assumptions C15_hkdf_expand_prefix_law.

Theorem C15_hkdf_expand_length_and_limit :
  forall (H : bytes -> bytes) (B HashLen : nat),
    (forall x, length (H x) = HashLen) -> (0 < HashLen)%nat ->
    forall prk info L,
      ((L <= 255 * HashLen)%nat ->
         exists o, hkdf_expand H B HashLen prk info L = Some o /\ length o = L) /\
      ((255 * HashLen < L)%nat -> hkdf_expand H B HashLen prk info L = None).
Proof. exact hkdf_expand_total. Qed.
Print Assumptions C15_hkdf_expand_length_and_limit.

(* ---- HMAC key padding, hence "no salt" = HashLen zero bytes ---- *)
Theorem C15_hmac_short_key_zero_padding :
  forall (H : bytes -> bytes) (B : nat) k n m,
    (length k + n <= B)%nat -> hmac H B (k ++ zeros n) m = hmac H B k m.
Proof. exact hmac_pad. Qed.
Print Assumptions C15_hmac_short_key_zero_padding.

Theorem C15_hkdf_empty_salt_is_zero_salt :
  forall (H : bytes -> bytes) (B HashLen : nat), (HashLen <= B)%nat ->
    forall ikm info L, hkdf H B HashLen [] ikm info L = hkdf H B HashLen (zeros HashLen) ikm info L.
Proof. intros H B HashLen HB ikm info L. apply hkdf_empty_salt. exact HB. Qed.
Print Assumptions C15_hkdf_empty_salt_is_zero_salt.

(* ---- golang.org/x/crypto/hkdf AS CODED = RFC 5869, for every schedule of reads ---- *)
(* The hash is a streaming interface with the single law "Sum = H of what was written since
   Reset" and output length HashLen > 0.  Reading hkdf.New(h, secret, salt, info) with buffers
   of ANY sizes, across any number of Read calls, observes exactly the RFC 5869 stream
   T(1) | T(2) | ... | T(255) from PRK = HMAC(salt or HashLen zeros when nil, secret): each Read
   returns the next bytes of the stream, and a Read that would pass 255*HashLen bytes fails
   ("entropy limit reached") and consumes nothing (spec_reads, proofs/HkdfCodeProofs.v). *)
Theorem C15_xcrypto_hkdf_reader_is_rfc5869 :
  forall (S : Type) (h_init : S) (h_write : S -> bytes -> S) (h_sum : S -> bytes)
         (B : nat) (marshalable : bool) (H : bytes -> bytes) (HashLen : nat),
    (forall chunks, h_sum (fold_left h_write chunks h_init) = H (concat chunks)) ->
    (forall x, length (H x) = HashLen) -> (0 < HashLen)%nat ->
    forall secret salt info sizes,
      snd (rd_reads S h_init h_write h_sum marshalable
             (new_code S h_init h_write h_sum B HashLen secret salt info) sizes)
      = spec_reads (hkdf_blocks H B (hkdf_extract H B (salt_of HashLen salt) secret) info [] 1 255)
                   0 sizes.
Proof. exact reader_is_rfc5869. Qed.
Print Assumptions C15_xcrypto_hkdf_reader_is_rfc5869.

(* in particular every schedule within the limit succeeds piece by piece and the pieces
   concatenate to RFC 5869 HKDF(salt, secret, info, total length) *)
Theorem C15_xcrypto_hkdf_reads_concatenate_to_rfc5869 :
  forall (S : Type) (h_init : S) (h_write : S -> bytes -> S) (h_sum : S -> bytes)
         (B : nat) (marshalable : bool) (H : bytes -> bytes) (HashLen : nat),
    (forall chunks, h_sum (fold_left h_write chunks h_init) = H (concat chunks)) ->
    (forall x, length (H x) = HashLen) -> (0 < HashLen)%nat ->
    forall secret salt info sizes, (list_sum sizes <= 255 * HashLen)%nat ->
    exists outs,
      snd (rd_reads S h_init h_write h_sum marshalable
             (new_code S h_init h_write h_sum B HashLen secret salt info) sizes) = map Some outs /\
      map (@length N) outs = sizes /\
      hkdf H B HashLen (salt_of HashLen salt) secret info (list_sum sizes) = Some (concat outs).
Proof. exact reader_pieces_concat_to_hkdf. Qed.
Print Assumptions C15_xcrypto_hkdf_reads_concatenate_to_rfc5869.

(* io.ReadFull / io.ReadAtLeast of n bytes from a fresh reader IS RFC 5869 HKDF (None beyond
   255*HashLen), and a nil salt, an empty salt and HashLen zero bytes give the same PRK *)
Theorem C15_xcrypto_hkdf_read_full_is_rfc5869 :
  forall (S : Type) (h_init : S) (h_write : S -> bytes -> S) (h_sum : S -> bytes)
         (B : nat) (marshalable : bool) (H : bytes -> bytes) (HashLen : nat),
    (forall chunks, h_sum (fold_left h_write chunks h_init) = H (concat chunks)) ->
    (forall x, length (H x) = HashLen) -> (0 < HashLen)%nat ->
    forall secret salt info n,
      snd (read_full S h_init h_write h_sum marshalable
             (new_code S h_init h_write h_sum B HashLen secret salt info) n)
      = hkdf H B HashLen (salt_of HashLen salt) secret info n.
Proof. exact read_full_is_hkdf. Qed.
Print Assumptions C15_xcrypto_hkdf_read_full_is_rfc5869.

Theorem C15_hkdf_nil_salt_is_empty_salt :
  forall (H : bytes -> bytes) (B HashLen : nat), (HashLen <= B)%nat ->
    forall secret,
      hkdf_extract H B (salt_of HashLen (Some [])) secret = hkdf_extract H B (salt_of HashLen None) secret.
Proof. intros H B HashLen HB secret. cbn [salt_of]. apply hkdf_extract_empty_salt. exact HB. Qed.
Print Assumptions C15_hkdf_nil_salt_is_empty_salt.

(* ---- which keys the PRF constructors accept, exactly (necessity and totality) ---- *)
(* primitiveConstructor of a PRF key (Validate*PRFParams, then the subtle constructor): HMAC-PRF any
   known hash and key >= 16 bytes; HKDF-PRF SHA-256 / SHA-512 only and key >= 32 bytes; AES-CMAC-PRF
   key = 32 bytes.  The subtle constructors alone: any known hash, any key (HMAC, HKDF); 16/24/32-byte
   keys (AES-CMAC). *)
Theorem C15_accepted_prf_keys_exact :
  forall Hash AES k key,
    ((exists p, key_prf Hash AES k key = Ok p) <-> prf_key_in_range k (length key)) /\
    ((exists p, subtle_new Hash AES k key = Ok p) <-> prf_subtle_in_range k (length key)).
Proof. intros. split; [apply key_prf_accepts_iff | apply subtle_new_accepts_iff]. Qed.
Print Assumptions C15_accepted_prf_keys_exact.

Section C15.
  Variable Hash : hash_alg -> bytes -> bytes.
  Variable AES : bytes -> bytes -> bytes.
  Hypothesis Hash_len : forall h x, length (Hash h x) = digest_size h.
  Hypothesis AES_len : forall k b, length b = 16%nat -> length (AES k b) = 16%nat.
  Hypothesis AES_wf0 : forall k, wfb (AES k (zeros 16)).

  (* A PRF obtained from prf/subtle (NewHMACPRF, NewHKDFPRF, NewAESCMACPRF) or
     from a PRF key (primitiveConstructor): within the maximum output length
     (digest size / 255*HashLen / 16) the output is the first n bytes of the
     standard value — HMAC (RFC 2104), the HKDF output stream T(1)|T(2)|...
     (RFC 5869, key = IKM, the key's salt, input = info), AES-CMAC (RFC 4493) —
     and has exactly n bytes; beyond the maximum the request fails. *)
  Theorem C15_prf_is_truncated_standard_value :
    forall k key p,
      (subtle_new Hash AES k key = Ok p \/ key_prf Hash AES k key = Ok p) ->
      forall data n,
        ((n <= prf_max k)%nat ->
           p data n = Ok (firstn n (prf_std Hash AES k key data)) /\
           length (firstn n (prf_std Hash AES k key data)) = n) /\
        ((prf_max k < n)%nat -> p data n = Err).
  Proof.
    intros k key p [Hs|Hk].
    - exact (subtle_new_truncates Hash AES Hash_len AES_len AES_wf0 k key p Hs).
    - exact (key_prf_truncates Hash AES Hash_len AES_len AES_wf0 k key p Hk).
  Qed.

  (* prefix law: ComputePRF(x, n) is the n-byte prefix of ComputePRF(x, m), n <= m *)
  Theorem C15_prf_prefix_law :
    forall k key p,
      (subtle_new Hash AES k key = Ok p \/ key_prf Hash AES k key = Ok p) ->
      forall data n m o, (n <= m)%nat -> p data m = Ok o ->
        p data n = Ok (firstn n o) /\ length o = m.
  Proof.
    intros k key p Hp. apply (truncates_prefix Hash AES p k key).
    destruct Hp as [Hs|Hk].
    - exact (subtle_new_truncates Hash AES Hash_len AES_len AES_wf0 k key p Hs).
    - exact (key_prf_truncates Hash AES Hash_len AES_len AES_wf0 k key p Hk).
  Qed.

  (* prf.NewPRFSet: the primary id is the keyset's primary id, the key ids are
     exactly the ids of the ENABLED keys, each id maps to the PRF of its key,
     and ComputePrimaryPRF is the primary key's PRF (ids of enabled keys are
     distinct, as in every keyset a handle holds). *)
  Theorem C15_prf_set_mirrors_enabled_keys :
    forall es primary s,
      new_prf_set Hash AES es primary = Some s ->
      NoDup (enabled_ids es) ->
      primary_id s = primary /\
      NoDup (map fst (prfs s)) /\
      (forall id, In id (map fst (prfs s)) <-> exists k key, In (id, PEnabled, k, key) es) /\
      (forall id k key, In (id, PEnabled, k, key) es ->
         exists p, set_lookup (prfs s) id = Some p /\
           forall data n,
             ((n <= prf_max k)%nat -> p data n = Ok (firstn n (prf_std Hash AES k key data))) /\
             ((prf_max k < n)%nat -> p data n = Err)) /\
      (forall k key, In (primary, PEnabled, k, key) es ->
         forall data n,
           ((n <= prf_max k)%nat ->
              compute_primary s data n = Ok (firstn n (prf_std Hash AES k key data))) /\
           ((prf_max k < n)%nat -> compute_primary s data n = Err)).
  Proof.
    intros es primary s Hs Hnd.
    destruct (new_prf_set_facts Hash AES Hash_len AES_len AES_wf0 es primary s Hs Hnd)
      as [H1 [H2 [H3 [H4 H5]]]].
    split; [exact H1|]. split; [exact H2|]. split; [exact H3|]. split.
    - intros id k key Hin. destruct (H4 id k key Hin) as [p [Hl Ht]]. exists p. split; [exact Hl|].
      intros data n. split; [intros Hn; apply (proj1 (Ht data n) Hn) | apply (proj2 (Ht data n))].
    - intros k key Hin data n. destruct (H5 k key Hin) as [p [Ht Hc]]. rewrite Hc.
      split; [intros Hn; apply (proj1 (Ht data n) Hn) | apply (proj2 (Ht data n))].
  Qed.

  (* subtle.ComputeHKDF: whenever it returns output, that output is RFC 5869
     output (n bytes of the stream) for the given hash, salt (empty = HashLen
     zeros), info; 10 <= n <= 255*HashLen. *)
  Theorem C15_compute_hkdf_is_rfc5869 :
    forall h key salt info n o,
      compute_hkdf Hash h key salt info n = Ok o ->
      exists a, h = Some a /\ (10 <= n <= 255 * digest_size a)%nat /\ length o = n /\
        o = firstn n (hkdf_blocks (Hash a) (block_size a)
                        (hkdf_extract (Hash a) (block_size a)
                           (if Nat.eqb (length salt) 0 then zeros (digest_size a) else salt) key)
                        info [] 1 255).
  Proof. exact (compute_hkdf_ok Hash Hash_len). Qed.

  (* ... it agrees with the HKDF-PRF keyed with the same salt, the empty salt included
     (HMAC key padding: empty key = zero key) ... *)
  Theorem C15_compute_hkdf_agrees_with_hkdf_prf :
    forall a key salt info n o,
      compute_hkdf Hash (Some a) key salt info n = Ok o -> hkdf_prf Hash a key salt info n = Ok o.
  Proof. exact (compute_hkdf_is_hkdf_prf Hash). Qed.

  (* ... and refuses sizes outside [10, 255*HashLen] and unknown hashes *)
  Theorem C15_compute_hkdf_limits :
    forall h key salt info n,
      (n < 10)%nat \/ (match h with Some a => (255 * digest_size a < n)%nat | None => True end) ->
      compute_hkdf Hash h key salt info n = Err.
  Proof. exact (compute_hkdf_refuses Hash). Qed.

  (* ---- the Go code paths AS CODED are the model PRFs ---- *)
  (* for any streaming hash.Hash that computes Hash a (block size / digest size of a) *)
  Theorem C15_hmac_prf_as_coded_is_model :
    forall (S : Type) (h_init : S) (h_write : S -> bytes -> S) (h_sum : S -> bytes) (a : hash_alg),
      (forall chunks, h_sum (fold_left h_write chunks h_init) = Hash a (concat chunks)) ->
      forall key data n,
        tink_hmac_prf_code S h_init h_write h_sum (block_size a) (digest_size a) key data n
        = hmac_prf Hash a key data n.
  Proof. exact (hmac_prf_code_is_model Hash). Qed.

  (* prf/subtle/hkdf.go ComputePRF = hkdf.New + io.ReadAtLeast + output[:n], salt nil or not *)
  Theorem C15_hkdf_prf_as_coded_is_model :
    forall (S : Type) (h_init : S) (h_write : S -> bytes -> S) (h_sum : S -> bytes)
           (marshalable : bool) (a : hash_alg),
      (forall chunks, h_sum (fold_left h_write chunks h_init) = Hash a (concat chunks)) ->
      forall key salt data n,
        tink_hkdf_prf_code S h_init h_write h_sum (block_size a) marshalable (digest_size a)
          key (Some salt) data n = hkdf_prf Hash a key salt data n /\
        tink_hkdf_prf_code S h_init h_write h_sum (block_size a) marshalable (digest_size a)
          key (match salt with [] => None | _ => Some salt end) data n = hkdf_prf Hash a key salt data n.
  Proof. exact (hkdf_prf_code_is_model Hash Hash_len). Qed.

  (* subtle/hkdf.go ComputeHKDF: size checks, empty salt := HashLen zeros, hkdf.New, io.ReadFull *)
  Theorem C15_compute_hkdf_as_coded_is_model :
    forall (S : Type) (h_init : S) (h_write : S -> bytes -> S) (h_sum : S -> bytes)
           (marshalable : bool) (a : hash_alg),
      (forall chunks, h_sum (fold_left h_write chunks h_init) = Hash a (concat chunks)) ->
      forall key salt info n,
        tink_compute_hkdf_code S h_init h_write h_sum (block_size a) marshalable (digest_size a)
          key salt info n = compute_hkdf Hash (Some a) key salt info n.
  Proof. exact (compute_hkdf_code_is_model Hash Hash_len). Qed.

  (* ---- the PRF set over keyset HISTORIES ---- *)
  (* Whatever history of keyset.Manager operations (Add*, AddKeyWithOpts, SetPrimary, Enable,
     Disable, Delete, Handle, NewManagerFromHandle; any id tape; starting empty or from a
     well-formed handle) returned the handle h: if prf.NewPRFSet(h) succeeds then the set's
     primary id is the id of THE primary entry of h (which is ENABLED), computed as the factory
     does; the key ids are distinct and are exactly the ids of the ENABLED entries; each maps to
     the PRF of its key; ComputePrimaryPRF is the primary key's PRF.  No premise on ids: distinct
     ids and the unique enabled primary come from the C11 invariant of every history. *)
  Theorem C15_prf_set_after_any_history :
    forall (keyobj : N -> prf_kind * bytes) h0 tape ops s' rs h set,
      (forall x, h0 = Some x -> wf_handle x) ->
      run (init_state h0 tape) ops = (s', rs) -> In (RHandle h) rs ->
      prf_set_of_handle Hash AES keyobj h = Some set ->
      (exists pe, In pe h /\ eprim pe = true /\ est pe = Enabled /\
                  (forall e, In e h -> eprim e = true -> e = pe) /\
                  primary_id set = eid pe /\
                  exists p, truncates Hash AES p (fst (keyobj (ekey pe))) (snd (keyobj (ekey pe))) /\
                            forall input n, compute_primary set input n = p input n) /\
      NoDup (map fst (prfs set)) /\
      (forall id, In id (map fst (prfs set)) <-> exists e, In e h /\ est e = Enabled /\ eid e = id) /\
      (forall e, In e h -> est e = Enabled ->
         exists p, set_lookup (prfs set) (eid e) = Some p /\
                   truncates Hash AES p (fst (keyobj (ekey e))) (snd (keyobj (ekey e)))).
  Proof. exact (prf_set_after_history Hash AES Hash_len AES_len AES_wf0). Qed.
End C15.
Print Assumptions C15_prf_is_truncated_standard_value.
Print Assumptions C15_prf_prefix_law.
Print Assumptions C15_prf_set_mirrors_enabled_keys.
Print Assumptions C15_compute_hkdf_is_rfc5869.
Print Assumptions C15_compute_hkdf_agrees_with_hkdf_prf.
Print Assumptions C15_compute_hkdf_limits.
Print Assumptions C15_hmac_prf_as_coded_is_model.
Print Assumptions C15_hkdf_prf_as_coded_is_model.
Print Assumptions C15_compute_hkdf_as_coded_is_model.
Print Assumptions C15_prf_set_after_any_history.

(* Non-vacuity: the oracle premises are satisfiable and each constructor succeeds somewhere. *)
Example C15_nonvacuous :
  let H := fun h (_ : bytes) => zeros (digest_size h) in
  let A := fun (_ _ : bytes) => zeros 16 in
  (forall h x, length (H h x) = digest_size h) /\
  (forall k b, length b = 16%nat -> length (A k b) = 16%nat) /\
  (forall k, wfb (A k (zeros 16))) /\
  (exists p, subtle_new H A (KHkdf (Some SHA1) [1; 2]) [5] = Ok p) /\
  (exists p, key_prf H A KCmac (zeros 32) = Ok p) /\
  (exists s, new_prf_set H A [(7, PEnabled, KHmac (Some SHA256), zeros 16);
                              (9, PDisabled, KCmac, zeros 16);
                              (3, PEnabled, KHkdf (Some SHA512) [], zeros 32)] 3 = Some s
             /\ map fst (prfs s) = [7; 3]) /\
  (exists o, compute_hkdf H (Some SHA256) [1] [] [2] 33 = Ok o).
Proof.
  cbv zeta. repeat split.
  - intros h x. apply zeros_length.
  - intros k. apply zeros_wf.
  - eexists. reflexivity.
  - eexists. reflexivity.
  - eexists. split; reflexivity.
  - eexists. vm_compute. reflexivity.
Qed.

(* Non-vacuity of the new theorems: the streaming law is inhabited (accumulating hash over any
   H); a history with a disabled and a deleted key yields a handle on which NewPRFSet succeeds
   with ids = the enabled ids and the primary set by SetPrimary; a read schedule crossing block
   boundaries and hitting the limit. *)
Example C15_stream_law_inhabited :
  forall H : bytes -> bytes, forall chunks, H (fold_left acc_write chunks acc_init) = H (concat chunks).
Proof. exact acc_stream_law. Qed.

Example C15_history_nonvacuous :
  let H := fun h (_ : bytes) => zeros (digest_size h) in
  let A := fun (_ _ : bytes) => zeros 16 in
  let keyobj := fun k : N => if N.eqb k 1 then (KCmac, zeros 32) else (KHmac (Some SHA256), zeros 16) in
  let ops := [OAddKey (Some 7) 0; OAddKey None 1; OAddKey None 2; OAddKey None 3;
              OSetPrimary 11; ODisable 7; ODelete 13; OHandle] in
  exists s' rs h set,
    run (init_state None [11; 12; 13]) ops = (s', rs) /\ In (RHandle h) rs /\
    prf_set_of_handle H A keyobj h = Some set /\
    map eid h = [7; 11; 12] /\ primary_id set = 11 /\ map fst (prfs set) = [11; 12].
Proof.
  cbv zeta. do 4 eexists. split; [vm_compute; reflexivity|].
  split; [do 7 right; left; reflexivity|]. split; [vm_compute; reflexivity|].
  split; [reflexivity|]. split; reflexivity.
Qed.

Example C15_reader_schedule_example :
  let H := fun m : bytes => firstn 4 (m ++ zeros 4) in
  spec_reads (hkdf_blocks H 8 [9] [] [] 1 255) 0 [3; 0; 6; 1020; 1012; 1011; 1]%nat
  = [Some [85; 92; 92]; Some []; Some [92; 85; 92; 92; 92; 85];
     None; None;
     Some (firstn 1011 (skipn 9 (hkdf_blocks H 8 [9] [] [] 1 255))); None].
Proof. vm_compute. reflexivity. Qed.
