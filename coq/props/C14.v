(* C14 — Untrusted keyset input is rejected or yields a well-formed handle,
   never a panic.  Statements only; proofs in proofs/UntrustedProofs.v, the
   property's vocabulary (wf_keyset, wf_handle, strength_ok) in
   model/UntrustedSpec.v.  What the parsers ask of the Go standard library
   (crypto/ecdh point and scalar checks, Ed25519 / ML-KEM public key of a
   seed, SHAKE256, crypto/rsa Validate / Precompute / sign-and-verify) is a
   record of arbitrary functions (stdlib): every theorem holds for all of
   them, no law is needed. *)
From Coq Require Import String Ascii List NArith Bool.
From Tink Require Import Bytes UntrustedConsts Untrusted UntrustedSpec UntrustedProofs.
From Coq Require Import ZArith.
From Tink Require Import UntrustedSites UntrustedSitesProofs UntrustedPanicSites UntrustedPanicSitesTable UntrustedPrefix5Proofs.
From Tink Require Import Secrets UntrustedParams UntrustedParamsSpec UntrustedParamsProofs.
Import ListNotations.
Open Scope list_scope.
Open Scope N_scope.

(* keyset.Validate accepts exactly the well-formed keysets: at least one key,
   no nil key or key data, distinct ids, the primary id carried by an ENABLED
   key, only known statuses and prefix types (TINK, LEGACY, RAW, CRUNCHY and,
   since /repo 4b80d2c, WITH_ID_REQUIREMENT: UntrustedSpec.key_known). *)
Theorem C14_validate_iff_wellformed :
  forall ks, validate (Some ks) = true <-> wf_keyset ks.
Proof. exact validate_iff. Qed.
Print Assumptions C14_validate_iff_wellformed.

(* OutputPrefixType WITH_ID_REQUIREMENT (5): Validate lets it through; a key of
   an unregistered type URL carrying it is refused by the fallback key (an
   error, not a panic); registered types decide in their own parser - ML-DSA
   public keys accept it (variant NoPrefixWithPrehashID, id requirement = key
   id, usable), e.g. AES-GCM refuses it (Examples; the differential run has
   directed cases for every key type). *)
Theorem C14_prefix5_passes_validate_key :
  forall kd st id, known_status st = true -> validate_key (Some (mkPK (Some kd) st id pt_with_id_requirement)) = true.
Proof. exact validate_key_accepts_prefix5. Qed.
Print Assumptions C14_prefix5_passes_validate_key.

Theorem C14_prefix5_unregistered_type_rejected :
  forall (L : stdlib) kd idreq, modelled_url kd = false -> parse_key L kd pt_with_id_requirement idreq = Err.
Proof. exact prefix5_unregistered_rejected. Qed.
Print Assumptions C14_prefix5_unregistered_type_rejected.

Example C14_prefix5_mldsa_public_accepted :
  let ks := mkKS 9 [p5_key u_mldsa_pub p5_mldsa_value km_public 9] in
  validate (Some ks) = true
  /\ exists e, handle_from_proto p5_std (Some ks) = Ok [e]
       /\ ekey e = PMlDsaPub /\ ereq e = Some 9 /\ shown_prefix e = 5 /\ prim_ok p5_std (ekey e) = Ok true
       /\ handle_no_secrets p5_std (Some ks) = Ok [e].
Proof. exact prefix5_mldsa_public_accepted. Qed.

Example C14_prefix5_symmetric_rejected_by_its_parser :
  let ks := mkKS 9 [p5_key u_aes_gcm ([26; 16] ++ repeat 7 16%nat) km_symmetric 9] in
  validate (Some ks) = true /\ handle_from_proto p5_std (Some ks) = Err /\ handle_no_secrets p5_std (Some ks) = Err.
Proof. exact prefix5_symmetric_rejected_by_its_parser. Qed.

(* NewHandleWithNoSecrets since /repo b141c20: the handle is the one of the
   cleartext construction and no key object of it serialises to material other
   than public or remote (the label of the input alone is not trusted). *)
Theorem C14_no_secrets_handle_holds_no_secret :
  forall (L : stdlib) ks h, handle_no_secrets L ks = Ok h ->
    handle_from_proto L ks = Ok h /\ handle_has_secrets h = false.
Proof. exact handle_no_secrets_inv. Qed.
Print Assumptions C14_no_secrets_handle_holds_no_secret.

(* the rejections the property lists, one by one *)
Theorem C14_nil_and_empty_rejected :
  validate None = false /\ forall p, validate (Some (mkKS p [])) = false.
Proof. split; reflexivity. Qed.
Print Assumptions C14_nil_and_empty_rejected.

Theorem C14_repeated_id_rejected :
  forall ks, ~ NoDup (ids ks) -> validate (Some ks) = false.
Proof. exact repeated_id_rejected. Qed.
Print Assumptions C14_repeated_id_rejected.

Theorem C14_no_enabled_primary_rejected :
  forall ks,
    (forall pk, In (Some pk) (ks_keys ks) -> k_id pk = ks_primary ks -> k_status pk <> 1) ->
    validate (Some ks) = false.
Proof. exact no_enabled_primary_rejected. Qed.
Print Assumptions C14_no_enabled_primary_rejected.

Theorem C14_unknown_enum_rejected :
  forall ks pk, In (Some pk) (ks_keys ks) ->
    (~ (k_status pk = 1 \/ k_status pk = 2 \/ k_status pk = 3)
     \/ ~ (k_prefix pk = 1 \/ k_prefix pk = 2 \/ k_prefix pk = 3 \/ k_prefix pk = 4 \/ k_prefix pk = 5)) ->
    validate (Some ks) = false.
Proof. exact unknown_enum_rejected. Qed.
Print Assumptions C14_unknown_enum_rejected.

Theorem C14_nil_parts_rejected :
  forall ks, (In None (ks_keys ks) \/ exists pk, In (Some pk) (ks_keys ks) /\ k_data pk = None) ->
    validate (Some ks) = false.
Proof. exact nil_parts_rejected. Qed.
Print Assumptions C14_nil_parts_rejected.

(* ... and no entry point lets a malformed keyset through: cleartext reader,
   no-secrets reader and API, proto-message API, encrypted reader *)
Theorem C14_malformed_rejected_by_every_reader :
  forall (L : stdlib) ks, ~ wf_keyset ks ->
    read_proto L (Some ks) = Err
    /\ handle_no_secrets L (Some ks) = Err
    /\ (forall b, decode_keyset b = Some ks ->
          read L b = Err /\ read_no_secrets L b = Err)
    /\ (forall kek b ad ct pt, decode_encrypted b = Some ct -> kek ct ad = Some pt -> decode_keyset pt = Some ks ->
          read_encrypted L kek b ad = Err).
Proof. exact malformed_rejected_everywhere. Qed.
Print Assumptions C14_malformed_rejected_by_every_reader.

(* For ANY byte string: if the cleartext reader returns a handle, it has at
   least one key, distinct ids, exactly one primary which is ENABLED, only
   known statuses and prefix types, RAW keys without id requirement, and its
   entries are the keys of the decoded keyset in order. *)
Theorem C14_accepted_handle_wellformed :
  forall (L : stdlib) b h, read L b = Ok h ->
    exists ks, decode_keyset b = Some ks /\ wf_keyset ks /\ wf_handle h
      /\ Forall2 (entry_of (ks_primary ks)) (ks_keys ks) h.
Proof. exact read_wf. Qed.
Print Assumptions C14_accepted_handle_wellformed.

(* Exact acceptance: a byte string yields a handle if and only if it decodes
   to a well-formed keyset every key of which its own parser (or the fallback
   for unknown type URLs) accepts, RAW keys with id requirement 0. *)
Theorem C14_read_accepts_iff :
  forall (L : stdlib) b,
    (exists h, read L b = Ok h) <->
    (exists ks, decode_keyset b = Some ks /\ wf_keyset ks
       /\ Forall (key_parses L) (ks_keys ks)).
Proof. exact read_ok_iff. Qed.
Print Assumptions C14_read_accepts_iff.

Theorem C14_accepted_handle_wellformed_other_readers :
  forall L : stdlib,
    (forall b h, read_no_secrets L b = Ok h ->
       exists k, decode_keyset b = Some k /\ has_secrets k = false /\ accepted_as k h)
    /\ (forall ks h, read_proto L ks = Ok h -> exists k, ks = Some k /\ accepted_as k h)
    /\ (forall ks h, handle_no_secrets L ks = Ok h ->
       exists k, ks = Some k /\ has_secrets k = false /\ accepted_as k h)
    /\ (forall kek b ad h, read_encrypted L kek b ad = Ok h ->
       exists ct pt k, decode_encrypted b = Some ct /\ kek ct ad = Some pt /\ decode_keyset pt = Some k /\ accepted_as k h).
Proof.
  intros L. split; [exact (read_no_secrets_wf L)|]. split; [exact (read_proto_wf L)|].
  split; [exact (handle_no_secrets_wf L)|exact (read_encrypted_wf L)].
Qed.
Print Assumptions C14_accepted_handle_wellformed_other_readers.

(* No byte string, message or ciphertext makes a reader panic (every slice
   expression of the in-repo code on the path is a checked slice of the
   model), whatever crypto/ecdh answers; and creating the primitive of a key
   the parser accepted does not panic either. *)
Theorem C14_readers_never_panic :
  forall L : stdlib,
    (forall b, read L b <> Panic)
    /\ (forall b, read_no_secrets L b <> Panic)
    /\ (forall ks, read_proto L ks <> Panic)
    /\ (forall ks, handle_no_secrets L ks <> Panic)
    /\ (forall kek b ad, read_encrypted L kek b ad <> Panic).
Proof.
  intros L. split; [exact (read_np L)|]. split; [exact (read_no_secrets_np L)|].
  split; [exact (read_proto_np L)|]. split; [exact (handle_no_secrets_np L)|exact (read_encrypted_np L)].
Qed.
Print Assumptions C14_readers_never_panic.

Theorem C14_parser_and_constructor_never_panic :
  forall (L : stdlib) kd prefix idreq,
    parse_key L kd prefix idreq <> Panic
    /\ forall d, parse_key L kd prefix idreq = Ok d -> prim_ok L d <> Panic.
Proof.
  intros L kd prefix idreq. split; [exact (parse_key_np L kd prefix idreq)|].
  intros d. exact (parse_then_prim_np L kd prefix idreq d).
Qed.
Print Assumptions C14_parser_and_constructor_never_panic.

(* A key from which a primitive can be created (parser accepts AND the
   primitive constructor accepts) meets the property's minimum strengths:
   HMAC key >= 16 and tag >= 10, AES keys of 16 or 32 bytes, HKDF-PRF key >=
   32, ECDSA hash at least as strong as the curve, RSA modulus >= 2048 and
   e = 65537 (the exponent as a number, of any encoded length) - for RSA
   public keys, RSA private keys (the public part they embed) and the JWT
   forms of both; JWT-HMAC keys >= 16 bytes; streaming AEAD keys derive AES
   keys of 16 or 32 bytes (and HMAC tags >= 10). *)
Theorem C14_usable_implies_strength :
  forall (L : stdlib) kd prefix idreq,
    usable L kd prefix idreq = true -> strength_ok kd.
Proof. exact usable_strength. Qed.
Print Assumptions C14_usable_implies_strength.

(* Mismatched public / private parts are rejected: whenever the parser of a
   private key type accepts, the public part of the message is exactly what
   the standard library derives from the private part - Ed25519 (public key
   of the 32-byte seed), RSA-SSA-PKCS1 / PSS and their JWT forms (the key
   passes crypto/rsa's Validate and dp, dq, crt are the precomputed values;
   the plain keys also have e = 65537 and pass a sign/verify self check),
   ECIES and JWT-ECDSA (crypto/ecdh public key of the scalar, a valid point),
   HPKE (crypto/ecdh, X-Wing = SHAKE256 + ML-KEM-768 + X25519, ML-KEM) and
   SLH-DSA (the second half of the private key). *)
Theorem C14_mismatched_parts_rejected :
  forall (L : stdlib) kd prefix idreq d,
    let fs := fields_or_nil (kd_value kd) in
    (parse_ed25519_priv L kd prefix idreq = Ok d ->
       blen (get_len 2 fs) = 32 /\ get_len 2 (get_sub 3 fs) = ed25519_pub L (get_len 2 fs))
    /\ (forall pss, parse_rsa_priv L pss kd prefix idreq = Ok d ->
         rsa_crt_consistent L (get_len 3 (get_sub 2 fs)) 65537 fs
         /\ be_val (get_len 4 (get_sub 2 fs)) = 65537)
    /\ (forall pss, parse_jwt_rsa_priv L pss kd prefix idreq = Ok d ->
         rsa_crt_consistent L (get_len 3 (get_sub 2 fs)) (exponent_value (rsa_exponent (get_len 4 (get_sub 2 fs)))) fs)
    /\ (parse_ecies_priv L kd prefix idreq = Ok d ->
         exists curve dem pt sk, d = PEcies true curve dem pt /\ ec_pub_of_priv L curve sk = Some pt
           /\ ec_point_ok L curve pt = true)
    /\ (parse_jwt_ecdsa_priv L kd prefix idreq = Ok d ->
         exists alg pt sk, d = PJwtEcdsa true alg pt /\ ec_pub_of_priv L (jwt_curve alg) sk = Some pt)
    /\ (parse_hpke_priv L kd prefix idreq = Ok d ->
         let kem := get_u32 1 (get_sub 2 (get_sub 2 fs)) in
         let pk := get_len 3 (get_sub 2 fs) in
         let sk := get_len 3 fs in
         match hpke_ecdh_curve kem with
         | Some c => ec_pub_of_priv L c sk = Some pk /\ ec_point_ok L c pk = true
         | None => if kem =? kem_xwing then xwing_pub L sk = Some pk
                   else if kem =? kem_mlkem768 then mlkem_pub L 768 sk = Some pk
                   else mlkem_pub L 1024 sk = Some pk
         end)
    /\ (parse_slhdsa_priv kd prefix idreq = Ok d ->
         exists ks, blen (get_len 2 fs) = ks /\ (ks = 64 \/ ks = 96 \/ ks = 128)
           /\ get_len 2 (get_sub 3 fs) = skipn (N.to_nat (ks / 2)) (get_len 2 fs)).
Proof.
  intros L kd prefix idreq d fs.
  split. { intros H. destruct (ed25519_priv_consistent L _ _ _ _ H) as [A [B _]]. split; [exact A|exact B]. }
  split. { intros pss H. destruct (rsa_priv_consistent L _ _ _ _ _ H) as [A [B _]]. cbv zeta in A, B.
           fold fs in A, B. unfold rsa_exponent_prim in B. rewrite B in A. split; [exact A|].
           unfold exponent_value, rsa_exponent in B.
           destruct (be_val (get_len 4 (get_sub 2 fs)) <? 9223372036854775808); [exact B|discriminate]. }
  split. { intros pss H. exact (jwt_rsa_priv_consistent L _ _ _ _ _ H). }
  split. { exact (ecies_priv_consistent L _ _ _ _). }
  split. { exact (jwt_ecdsa_priv_consistent L _ _ _ _). }
  split. { exact (hpke_priv_consistent L _ _ _ _). }
  exact (slhdsa_priv_consistent _ _ _ _).
Qed.
Print Assumptions C14_mismatched_parts_rejected.

(* ... and the two ML-DSA private key types: the 32-byte seed generates the
   public key the message carries (mldsa_pub: the library's own key generation,
   an arbitrary function here, trusted at run time for that one function). *)
Theorem C14_mismatched_parts_rejected_mldsa :
  forall (L : stdlib) kd prefix idreq d,
    let fs := fields_or_nil (kd_value kd) in
    (parse_mldsa_priv L kd prefix idreq = Ok d ->
       blen (get_len 2 fs) = 32
       /\ mldsa_pub L (get_u32 1 (get_sub 3 (get_sub 3 fs))) (get_len 2 fs) = get_len 2 (get_sub 3 fs)
       /\ kd_mat kd = km_private /\ d = PMlDsaPriv)
    /\ (parse_jwt_mldsa_priv L kd prefix idreq = Ok d ->
       blen (get_len 2 fs) = 32
       /\ mldsa_pub L (jwt_mldsa_instance (get_u32 2 (get_sub 3 fs))) (get_len 2 fs) = get_len 3 (get_sub 3 fs)
       /\ kd_mat kd = km_private /\ d = PJwtMlDsaPriv).
Proof.
  intros L kd prefix idreq d fs. split; [exact (mldsa_priv_consistent L kd prefix idreq d) | exact (jwt_mldsa_priv_consistent L kd prefix idreq d)].
Qed.
Print Assumptions C14_mismatched_parts_rejected_mldsa.

(* ... and the composite ML-DSA keys: both nested key data were accepted by the
   parser of their own type (prefix RAW, no id requirement), the nested ML-DSA
   key has the composite's instance, the (instance, classical algorithm) pair
   is a supported one, and the classical key object has exactly the parameters
   the algorithm prescribes - hence RSA 3072/4096 with e = 65537, ECDSA with a
   hash as strong as the curve and DER signatures.  A nested key of any other
   type ends in an error (the model refuses it without running its parser; in
   the code the parser runs first, recursively for a composite nested in a
   composite, each level on a strictly shorter value). *)
Theorem C14_composite_key_parts :
  forall (L : stdlib) private kd prefix idreq d,
    parse_composite L private kd prefix idreq = Ok d ->
    let fs := fields_or_nil (kd_value kd) in
    let inst := get_u32 1 (get_sub 4 fs) in
    let alg := get_u32 2 (get_sub 4 fs) in
    let mkd := keydata_of (get_sub 2 fs) in
    let ckd := keydata_of (get_sub 3 fs) in
    kd_mat kd = (if private then km_private else km_public)
    /\ composite_supported inst alg = true
    /\ (if private then parse_mldsa_priv L mkd pt_raw 0 = Ok PMlDsaPriv /\ get_u32 1 (get_sub 3 (get_sub 3 (fields_or_nil (kd_value mkd)))) = inst
        else parse_mldsa_pub mkd pt_raw 0 = Ok PMlDsaPub /\ get_u32 1 (get_sub 3 (fields_or_nil (kd_value mkd))) = inst)
    /\ exists cd, parse_key_base L ckd pt_raw 0 = Ok cd /\ composite_of_classical private alg cd = Ok d.
Proof. exact composite_parts. Qed.
Print Assumptions C14_composite_key_parts.

Theorem C14_composite_classical_strength :
  forall private alg cd d,
    composite_of_classical private alg cd = Ok d ->
    match cd with
    | PRsaPssPub bits e _ _ | PRsaPkcs1Pub bits e _ | PRsaPriv _ bits e _ _ => (bits = 3072 \/ bits = 4096) /\ e = 65537
    | PEcdsaPub c h enc _ | PEcdsaPriv c h enc _ _ => curve_level c <= hash_level h /\ enc = enc_der
    | _ => True
    end.
Proof. exact composite_classical_strength. Qed.
Print Assumptions C14_composite_classical_strength.

(* Regression for the defect fixed in /repo (commit 067e856): the RSA public
   key with exponent field 2^64 + 65537, which int(exponent.Int64()) used to
   read as 65537, is not strong and is now refused by the parser. *)
Theorem C14_rsa_exponent_truncation_rejected :
  forall L : stdlib,
    ~ strength_ok rsa_trunc_kd /\ parse_key L rsa_trunc_kd pt_tink 7 = Err.
Proof. exact rsa_exponent_truncation_rejected. Qed.
Print Assumptions C14_rsa_exponent_truncation_rejected.

(* Model adequacy: the fuel that makes the wire decoder structurally recursive
   (the input length) is never what stops it - any larger fuel gives the same
   answer, for top-level fields and for skipped groups. *)
Theorem C14_decoder_fuel_adequate :
  (forall f b, (length b <= f)%nat -> fields_aux f b = fields b)
  /\ (forall f st b, (length b < f)%nat -> skip_groups f st b = skip_groups (S (length b)) st b).
Proof. split; [exact fields_fuel_adequate|exact skip_groups_fuel_adequate]. Qed.
Print Assumptions C14_decoder_fuel_adequate.

(* a standard library that refuses everything (the example needs none of it) *)
Definition std0 : stdlib :=
  mkStd (fun _ _ => false) (fun _ _ => None) (fun _ => []) (fun _ _ => None) (fun _ _ => [])
        (fun _ _ _ _ _ => None) (fun _ _ _ _ _ _ _ _ => false) (fun _ _ => []).

(* Non-vacuity: a two-key keyset (a 16-byte AES-GCM key, TINK, id 5, primary;
   an unknown key type, RAW, id 9, disabled), serialized by hand, is read into
   the expected handle, and the first key is usable and strong. *)
Definition ex_aes_value : bytes := [26; 16] ++ repeat 7 16%nat.
Definition ex_keyset : bytes :=
  [8; 5]
  ++ [18; 80; 10; 72; 10; 48] ++ u_aes_gcm ++ [18; 18] ++ ex_aes_value ++ [24; 1] ++ [16; 1; 24; 5; 32; 1]
  ++ [18; 13; 10; 5; 10; 1; 120; 24; 3; 16; 2; 24; 9; 32; 3].

(* ... and for the key types of the second round, with a toy standard library
   whose Ed25519 "public key" of a seed is the seed itself: an Ed25519 private
   key whose public part is its seed is accepted and gives a signer, another
   public part is refused; a streaming AEAD key deriving 16-byte AES keys is
   usable and strong, one deriving 24-byte keys is refused by the parser; a
   JWT-HMAC HS256 key of 32 bytes with prefix TINK is usable, of 31 bytes not. *)
Definition std1 : stdlib :=
  mkStd (fun _ _ => false) (fun _ _ => None) (fun seed => seed) (fun _ _ => None) (fun _ _ => [])
        (fun _ _ _ _ _ => None) (fun _ _ _ _ _ _ _ _ => false) (fun _ _ => []).
Definition ex_seed : bytes := repeat 9 32%nat.
Definition ex_ed_priv (pub : bytes) : keydata :=
  mkKD u_ed25519_priv ([18; 32] ++ ex_seed ++ [26; 34; 18; 32] ++ pub) km_private.
Definition ex_stream (derived : N) : keydata :=
  mkKD u_stream_gcm_hkdf ([18; 7; 8; 128; 32; 16; derived; 24; 3; 26; 32] ++ repeat 5 32%nat) km_symmetric.
Definition ex_jwt_hmac (n : nat) : keydata :=
  mkKD u_jwt_hmac ([16; 1; 26; N.of_nat n] ++ repeat 5 n) km_symmetric.

Example C14_nonvacuous_second_round :
  parse_key std1 (ex_ed_priv ex_seed) pt_tink 5 = Ok (PEd25519Priv ex_seed)
  /\ usable std1 (ex_ed_priv ex_seed) pt_tink 5 = true
  /\ parse_key std1 (ex_ed_priv (repeat 8 32%nat)) pt_tink 5 = Err
  /\ usable std1 (ex_stream 16) pt_raw 0 = true /\ strength_ok (ex_stream 16)
  /\ parse_key std1 (ex_stream 24) pt_raw 0 = Err
  /\ usable std1 (ex_jwt_hmac 32) pt_tink 7 = true
  /\ parse_key std1 (ex_jwt_hmac 31) pt_tink 7 = Err
  /\ parse_key std1 (ex_jwt_hmac 32) pt_legacy 7 = Err.
Proof.
  split; [vm_compute; reflexivity|]. split; [vm_compute; reflexivity|]. split; [vm_compute; reflexivity|].
  split; [vm_compute; reflexivity|].
  split; [apply (usable_strength std1 _ pt_raw 0); vm_compute; reflexivity|].
  repeat split; vm_compute; reflexivity.
Qed.

Example C14_nonvacuous :
  (exists h, read std0 ex_keyset = Ok h
     /\ map eid h = [5; 9] /\ map eprim h = [true; false] /\ map ereq h = [Some 5; None] /\ wf_handle h)
  /\ usable std0 (mkKD u_aes_gcm ex_aes_value km_symmetric) pt_tink 5 = true
  /\ strength_ok (mkKD u_aes_gcm ex_aes_value km_symmetric)
  /\ read std0 [8; 5] = Err
  /\ read std0 [255] = Err.
Proof.
  assert (R : exists h, read std0 ex_keyset = Ok h
     /\ map eid h = [5; 9] /\ map eprim h = [true; false] /\ map ereq h = [Some 5; None]).
  { eexists. split; [vm_compute; reflexivity|]. vm_compute. auto. }
  destruct R as [h [R1 R2]]. split.
  - exists h. split; [exact R1|]. destruct R2 as [A [B C]]. split; [exact A|]. split; [exact B|]. split; [exact C|].
    apply read_wf in R1. destruct R1 as [ks [_ [_ [W _]]]]. exact W.
  - split; [vm_compute; reflexivity|]. split; [|split; vm_compute; reflexivity].
    apply (usable_strength std0 _ pt_tink 5); vm_compute; reflexivity.
Qed.


(* ======================================================================== *)
(* STRETCH ROUND: the panic sites beyond the checked slices of the model.   *)
(* proofs/UntrustedPanicSitesTable.v is a HAND-MADE table of the expressions *)
(* on the untrusted-keyset path that Go or its standard library can make    *)
(* panic, as far as a reading of the files found them (81 entries: file,    *)
(* function, expression, kind, guard, coverage).  Coq does NOT check that   *)
(* the list is complete.  It checks the coverage column, and only for the   *)
(* two constructors that take the function containing the site as a        *)
(* functional of a GUARD SWITCH and of the panicking operation              *)
(* (model/UntrustedPanicSites.v, proofs/UntrustedSiteFunctionals.v; fifth   *)
(* audit C1-1: the earlier shapes were still inhabited by a function that   *)
(* applies the operation to a harmless constant - refuted at the end of the *)
(* table file):                                                             *)
(*   CModel op F necessary f same pf   F true op = the body of the model     *)
(*                          function f (same); with the test(s) in front of *)
(*                          the expression deleted (F false) the REAL       *)
(*                          operation panics on some input (necessary: the  *)
(*                          guard is needed, the input reaches the          *)
(*                          operation); f never panics (pf)                 *)
(*   CLemma raw F necessary pf   the same for the statements as written in  *)
(*                          the Go function over the raw machine-integer    *)
(*                          operation                                       *)
(* Not in the type, but reading: that F true transcribes the Go function    *)
(* and that the switched test is the one the Go code has.                   *)
(* Entries tagged CArgued / CStdlib / CHarnessOnly carry no theorem.        *)
(* ======================================================================== *)

(* What the theorem counts: constructors.  Each of the 6 CModel and 9 CLemma
   entries holds a function with a switchable test such that the listed
   operation panics on some input when the test is deleted and on none when it
   is in place (for CModel the guarded function is a function of the model, by
   an equation).  A function applying the operation to a constant, or one
   unrelated to it, is not such an entry (it fails `necessary`), so the first
   two counts cannot be raised that way; they can still be raised by a made-up
   "test / operation" pair with these two properties - that the 15 functions
   are the Go functions named in their entries is reading, not type.  The other
   66 entries carry no theorem: 59 argued in prose (constant bounds, static
   types, values tink-go built itself, nil-safe getters = total getters of the
   model, sites where the arithmetic cannot leave the range whatever test is
   deleted - the index loop of BigIntBytesToFixedSizeBuffer, encodePoint's
   make -, parsers whose only checked operation sits inside
   BigIntBytesToFixedSizeBuffer - which has its own entries -, guards
   established by another function, the nested-parser detours - whose theorem
   is C14_nested_parsers_never_panic_and_agree -, the parameters parsers - 28
   of 29 have no Panic constructor -, integer conversions, and make([]byte,
   KeySizeInBytes()) of the key derivers under a 64-bit platform assumption),
   6 inside the standard library, 1 decided by the harness alone
   (Handle.KeysetInfo's panic(err)).  Not a measure of completeness. *)
Theorem C14_panic_site_table_coverage :
  (length panic_sites = 81)%nat /\
  (UntrustedPanicSites.count by_model_theorem panic_sites = 6)%nat /\
  (UntrustedPanicSites.count by_site_lemma panic_sites = 9)%nat /\
  (UntrustedPanicSites.count argued_only panic_sites = 59)%nat /\
  (UntrustedPanicSites.count is_stdlib panic_sites = 6)%nat /\
  (UntrustedPanicSites.count is_harness_only panic_sites = 1)%nat.
Proof. exact panic_site_coverage_counts. Qed.
Print Assumptions C14_panic_site_table_coverage.

(* internal/ec BigIntBytesToFixedSizeBuffer AS WRITTEN (make with a computed
   size, the index loop over the leading bytes, the final slice): never panics
   for any byte string and any non-negative size, and is the function
   fixed_size of the model. *)
Theorem C14_bigint_buffer_as_written_never_panics :
  (forall b size, (0 <= size)%Z -> fixed_size_go b size <> Panic) /\
  (forall b n, fixed_size_go b (Z.of_nat n) = fixed_size b n).
Proof. split; [exact fixed_size_go_np|exact fixed_size_go_is_model]. Qed.
Print Assumptions C14_bigint_buffer_as_written_never_panics.

(* encodePoint AS WRITTEN (make, encodedPoint[0], the two slices with computed
   start positions) after the guard chain of newPublicKeyFromProto: both
   coordinates went through BigIntBytesToFixedSizeBuffer(., c). *)
Theorem C14_encode_point_guard_chain :
  forall bx by_ (c : nat) x y,
    fixed_size_go bx (Z.of_nat c) = Ok x -> fixed_size_go by_ (Z.of_nat c) = Ok y ->
    encode_point_go x y (Z.of_nat c) = Ok (4 :: x ++ y).
Proof. exact encode_point_after_fixed_size_np. Qed.
Print Assumptions C14_encode_point_guard_chain.

(* the exact-length tests in front of the SLH-DSA decoders, the point slices
   of the serializers (pt[1:], xy[:c], xy[c:]) and of the ECDSA signer /
   verifier constructors (xy[:len/2], xy[len/2:]), Handle.Entry(i) *)
Theorem C14_length_guarded_slices_never_panic :
  (forall n b, (0 <= n)%Z -> slh_decode_pk_go n b <> Panic /\ slh_decode_sk_go n b <> Panic) /\
  (forall pt c, (0 <= c)%Z -> zlen pt = (1 + 2 * c)%Z -> point_coords_go pt c <> Panic) /\
  (forall pt, (1 <= zlen pt)%Z -> point_halves_go pt <> Panic) /\
  (forall (A : Type) (entries : list A) i, entry_go entries i <> Panic).
Proof.
  split; [exact slh_decode_go_np|]. split; [exact point_coords_go_np|].
  split; [exact point_halves_go_np|]. intros A entries i. apply entry_go_np.
Qed.
Print Assumptions C14_length_guarded_slices_never_panic.

(* integer conversions: int32(uint32 segment size) and int(int32 salt length)
   wrap; the comparisons that follow reject every wrapped value, and they are
   the model's int32_at_least / int32_positive.  The streaming AEAD minimum
   int32(derived + 7 + 1 + tag + 1) cannot wrap because derived and tag were
   bounded first. *)
Theorem C14_wrapping_conversions_are_rejected :
  (forall v m, (0 <= v <= u32_max)%Z -> (0 < m)%Z ->
     (m <=? int32_of_u32 v)%Z = int32_at_least (Z.to_N v) (Z.to_N m)) /\
  (forall v, (0 <= v <= u32_max)%Z -> (0 <? int_of_i32field v)%Z = int32_positive (Z.to_N v)) /\
  (forall derived tag seg max_tag,
     (0 <= seg <= u32_max)%Z -> (0 <= tag <= u32_max)%Z -> (max_tag <= 64)%Z ->
     seg_check_ctr_go derived tag seg max_tag = true ->
     (seg < 2147483648 /\ int32_of_u32 seg = seg /\ derived + 7 + 1 + tag + 1 <= seg /\ 10 <= tag <= max_tag)%Z) /\
  (forall derived seg, (0 <= seg <= u32_max)%Z -> seg_check_gcm_go derived seg = true ->
     (seg < 2147483648 /\ derived + 24 + 1 <= seg)%Z).
Proof.
  split; [exact int32_at_least_is_go|]. split; [exact int32_positive_is_go|].
  split; [exact seg_check_ctr_go_sound|exact seg_check_gcm_go_sound].
Qed.
Print Assumptions C14_wrapping_conversions_are_rejected.

(* Non-vacuity, and what the guards are for: the as-written bodies compute on
   concrete inputs; without its guard each of them panics. *)
Example C14_nonvacuous_sites :
  fixed_size_go [0; 0; 7; 9] 2 = Ok [7; 9] /\ fixed_size_go [7] 3 = Ok [0; 0; 7] /\ fixed_size_go [1; 7; 9] 2 = Err /\
  fixed_size_go [0] (-1) = Panic /\
  encode_point_go [1; 2] [3; 4] 2 = Ok [4; 1; 2; 3; 4] /\ encode_point_go [1; 2; 3; 4] [5] 2 = Panic /\
  point_halves_go [4; 1; 2; 3; 4] = Ok ([1; 2], [3; 4]) /\ point_halves_go [] = Panic /\
  slh_decode_pk_go 2 [1; 2; 3; 4] = Ok ([1; 2], [3; 4]) /\ slh_decode_pk_go 2 [1; 2; 3] = Err /\
  seg_check_ctr_go 16 16 4096 32 = true /\ seg_check_ctr_go 16 16 2147483648 32 = false /\
  seg_check_ctr_go 16 16 4294967295 32 = false /\
  (int32_wrap (16 + 7 + 1 + 4294967271 + 1) <=? int32_of_u32 16)%Z = true.
Proof. repeat split; vm_compute; reflexivity. Qed.


(* ======================================================================== *)
(* STRETCH ROUND 2 (model/UntrustedParams.v): the parameters parsers of     *)
(* every registered key type, the PRF-based deriver key - the last key      *)
(* parser that was not transcribed - and the key parsers that run ANOTHER   *)
(* parser on nested untrusted bytes (ECIES: the DEM template's parameters   *)
(* parser; composite ML-DSA and the deriver: ParseKey on nested key data),  *)
(* written with that detour.  model/Untrusted.v is unchanged (C13 is stated *)
(* over it); the theorems below say that its shortcuts were right, and      *)
(* restate the top-level theorems for readers that decide EVERY registered  *)
(* key type (xread ...: no keyset is left to the direct check any more).    *)
(* ======================================================================== *)

(* The MODEL of protoserialization.ParseParameters (29 registered parameters
   parsers) never returns Panic: for every key template, whatever type URL it
   names and whatever the nesting of templates in it (ECIES DEM template, the
   two templates of a deriver format), with any fuel; and the fuel S (length of
   the value) is never what stops the recursion.
   What this says and what it does not (fourth audit C3 - C5):
   - 28 of the 29 parsers (26 pp_* leaves - pp_jwt_rsa stands for two -, and
     pp_deriver) have NO Panic constructor in their definition: for them the
     statement holds by construction.  Its content is ecies_params_of - the one
     checked operation set_prefix_raw behind its nil test - and the recursion.
   - running out of fuel is represented as Err, not as a fourth outcome; the
     third conjunct is why that never decides: every fuel above the length of
     the value gives the answer of parse_params_full, so that Err is never the
     fuel's.
   - it is a statement about the model's VERDICT, not about the cost of the
     code: hybrid/ecies parseParameters keeps the decoded format alive across
     the recursive ParseParameters(demTemplate), so an ECIES format nested n
     times as its own DEM template costs live memory quadratic in n before the
     innermost level is refused (measured: depth 1000 / 89 KB -> 66 MB, 2000 ->
     222 MB, 4000 / 359 KB -> 856 MB, 6000 -> 2 GB, then an error); the harness
     has one case of depth 1500 (verdict: error, as the model says). *)
Theorem C14_parameters_parsers_never_panic :
  (forall fuel t, parse_params fuel t <> Panic)
  /\ (forall t, parse_params_full t <> Panic)
  /\ (forall f t, (length (t_value t) < f)%nat -> parse_params f t = parse_params_full t).
Proof. split; [exact parse_params_np|]. split; [exact parse_params_full_np|exact parse_params_fuel_adequate]. Qed.
Print Assumptions C14_parameters_parsers_never_panic.

(* On Ok the parameters object is well formed (UntrustedParamsSpec.params_wf:
   every size, enum and exponent in the range the package documents), its type
   is the one registered for the template's type URL, it asks for an id
   requirement exactly when the template's prefix type is not RAW, and the
   prefix type written back for it is the template's (LEGACY as CRUNCHY for
   the packages without a legacy variant).  params_wf bounds every size by the
   uint32 range of its field where the parser puts no other upper bound.  The
   conjunct qtag p = url_qtag (t_url t) is a restatement of the dispatch of
   parse_params (the constructor is the one of the branch taken): bookkeeping,
   not a property of the code. *)
Theorem C14_accepted_parameters_wellformed :
  forall t p, parse_params_full t = Ok p ->
    params_wf p
    /\ qtag p = url_qtag (t_url t)
    /\ params_has_idreq p = negb (t_prefix t =? 3)
    /\ (params_prefix p = t_prefix t \/ (t_prefix t = 2 /\ params_prefix p = 4))
    /\ 1 <= t_prefix t /\ t_prefix t <= 5.
Proof.
  intros t p H. pose proof (parse_params_facts _ _ _ H) as [A [B [C [D E]]]].
  split; [exact A|]. split; [exact (parse_params_tag _ _ _ H)|]. auto.
Qed.
Print Assumptions C14_accepted_parameters_wellformed.

(* ECIES: running the parameters parser the DEM template names (whatever its
   type; prefix type forced to RAW) and comparing the object with the six
   allowed parameter sets gives exactly what model/Untrusted.v computes from
   the four allowed type URLs alone; hence the ECIES key parsers written with
   the detour ARE the ones of that model. *)
Theorem C14_ecies_dem_detour_is_the_shortcut :
  (forall fs, let tm := template_of fs in
     match parse_params_full (mkT (t_url tm) (t_value tm) pt_raw) with Ok p => dem_code p | _ => None end = ecies_dem fs)
  /\ (forall (L : stdlib) kd prefix idreq,
        parse_ecies_pub_x L kd prefix idreq = parse_ecies_pub L kd prefix idreq
        /\ parse_ecies_priv_x L kd prefix idreq = parse_ecies_priv L kd prefix idreq).
Proof.
  split; [exact ecies_dem_agrees|]. intros L kd prefix idreq.
  split; [apply parse_ecies_pub_x_eq|apply parse_ecies_priv_x_eq].
Qed.
Print Assumptions C14_ecies_dem_detour_is_the_shortcut.

(* ParseKey with every detour the code takes - the nested PRF key of a deriver
   and both nested keys of a composite key go to the parser of WHATEVER type
   they name, recursively - never panics, with any fuel; with the fuel
   S (length value) it is the recursion-free parse_key_flat: model/Untrusted.v's
   parse_key for every type but the deriver (so a nested key of an unexpected
   type is refused - as that model said - but only after its parser ran), and
   for a deriver the parser with its nested key handed to that parse_key.
   The third conjunct is the second one with the definition of parse_key_flat
   unfolded for a non-deriver URL (substitution grade); the content is in the
   first, second and fourth. *)
Theorem C14_nested_parsers_never_panic_and_agree :
  forall (L : stdlib) kd prefix idreq,
    (forall fuel, parse_key_x L fuel kd prefix idreq <> Panic)
    /\ parse_key_full L kd prefix idreq = parse_key_flat L kd prefix idreq
    /\ (url_is kd u_deriver = false -> parse_key_full L kd prefix idreq = lift (parse_key L kd prefix idreq))
    /\ (forall k, parse_key_full L kd prefix idreq = Ok k -> prim_ok_x L k <> Panic).
Proof.
  intros L kd prefix idreq. split; [intros fuel; apply parse_key_x_np|].
  split; [apply parse_key_full_flat|]. split.
  - intros U. rewrite parse_key_full_flat. unfold parse_key_flat. rewrite U. reflexivity.
  - intros k. apply parse_then_prim_x_np.
Qed.
Print Assumptions C14_nested_parsers_never_panic_and_agree.

(* What an accepted PRF-based deriver key is: labelled SYMMETRIC, version 0,
   its nested key data were accepted by the parser of their own type (prefix
   RAW, no id requirement) as an HKDF / HMAC / AES-CMAC PRF key, its derived
   key template carries the key's own prefix type and was accepted by the
   parameters parser of its type (hence a well-formed object), and a key
   without id requirement was not given an id.   (An inversion of parse_deriver through
   parse_key_full = parse_key_flat: it reads the parser's checks off an Ok.) *)
Theorem C14_deriver_key_parts :
  forall (L : stdlib) kd prefix idreq prf dp,
    parse_key_full L kd prefix idreq = Ok (XDeriver prf dp) ->
    let fs := fields_or_nil (kd_value kd) in
    let tm := template_of (get_sub 1 (get_sub 3 fs)) in
    url_is kd u_deriver = true /\ kd_mat kd = km_symmetric /\ get_u32 1 fs = 0
    /\ prf_key_kind prf = true /\ parse_key L (keydata_of (get_sub 2 fs)) pt_raw 0 = Ok prf
    /\ t_prefix tm = prefix /\ parse_params_full tm = Ok dp /\ pfacts tm dp
    /\ (params_has_idreq dp = false -> idreq = 0).
Proof. exact deriver_key_parts. Qed.
Print Assumptions C14_deriver_key_parts.

(* The readers over every registered key type never return Panic ...  (content:
   the checked operations of model/Untrusted.v's parsers - theorem
   C14_parser_and_constructor_never_panic -, set_prefix_raw, and the recursion
   over nested key data and templates; the keyset layer and 28 of the 29
   parameters parsers have no Panic constructor in their definitions) *)
Theorem C14_all_types_readers_never_panic :
  forall L : stdlib,
    (forall b, xread L b <> Panic)
    /\ (forall b, xread_no_secrets L b <> Panic)
    /\ (forall ks, xread_proto L ks <> Panic)
    /\ (forall ks, xhandle_no_secrets L ks <> Panic)
    /\ (forall kek b ad, xread_encrypted L kek b ad <> Panic).
Proof.
  intros L. split; [exact (xread_np L)|]. split; [exact (xread_no_secrets_np L)|].
  split; [exact (xread_proto_np L)|]. split; [exact (xhandle_no_secrets_np L)|exact (xread_encrypted_np L)].
Qed.
Print Assumptions C14_all_types_readers_never_panic.

(* ... every handle they return is well formed (UntrustedParamsSpec.wf_xhandle:
   the clauses of wf_handle, and deriver_wf for each PRF-based deriver key in
   it) and its entries are the keys of the well-formed keyset in order; the
   no-secrets readers hand out no deriver key (it serialises as SYMMETRIC: the
   last conjunct is that one-line consequence of xout_material, substitution
   grade) ... *)
Theorem C14_all_types_accepted_handle_wellformed :
  forall L : stdlib,
    (forall b h, xread L b = Ok h -> exists ks, decode_keyset b = Some ks /\ xaccepted_as ks h)
    /\ (forall b h, xread_no_secrets L b = Ok h ->
          exists k, decode_keyset b = Some k /\ has_secrets k = false /\ xaccepted_as k h /\ xhandle_has_secrets h = false)
    /\ (forall ks h, xread_proto L ks = Ok h -> exists k, ks = Some k /\ xaccepted_as k h)
    /\ (forall ks h, xhandle_no_secrets L ks = Ok h ->
          exists k, ks = Some k /\ has_secrets k = false /\ xaccepted_as k h /\ xhandle_has_secrets h = false)
    /\ (forall kek b ad h, xread_encrypted L kek b ad = Ok h ->
          exists ct pt k, decode_encrypted b = Some ct /\ kek ct ad = Some pt /\ decode_keyset pt = Some k /\ xaccepted_as k h)
    /\ (forall h e prf dp, xhandle_has_secrets h = false -> In e h -> xkey e <> XDeriver prf dp).
Proof.
  intros L. split; [exact (xread_wf L)|]. split; [exact (xread_no_secrets_wf L)|]. split; [exact (xread_proto_wf L)|].
  split; [exact (xhandle_no_secrets_wf L)|]. split; [exact (xread_encrypted_wf L)|exact no_secrets_no_deriver].
Qed.
Print Assumptions C14_all_types_accepted_handle_wellformed.

(* ... a byte string yields a handle iff it decodes to a well-formed keyset all
   of whose keys their own parser (deriver and nested parsers included)
   accepts; malformed keysets are rejected by every reader ... *)
Theorem C14_all_types_read_accepts_iff :
  forall (L : stdlib) b,
    (exists h, xread L b = Ok h) <->
    (exists ks, decode_keyset b = Some ks /\ wf_keyset ks /\ Forall (xkey_parses L) (ks_keys ks)).
Proof. exact xread_ok_iff. Qed.
Print Assumptions C14_all_types_read_accepts_iff.

Theorem C14_all_types_malformed_rejected :
  forall (L : stdlib) ks, ~ wf_keyset ks ->
    xread_proto L (Some ks) = Err
    /\ xhandle_no_secrets L (Some ks) = Err
    /\ (forall b, decode_keyset b = Some ks -> xread L b = Err /\ xread_no_secrets L b = Err)
    /\ (forall kek b ad ct pt, decode_encrypted b = Some ct -> kek ct ad = Some pt -> decode_keyset pt = Some ks ->
          xread_encrypted L kek b ad = Err).
Proof. exact xmalformed_rejected_everywhere. Qed.
Print Assumptions C14_all_types_malformed_rejected.

(* ... and on keysets without a deriver key they ARE the readers of
   model/Untrusted.v (every theorem above about read carries over).  A
   model-to-model statement: it says nothing about the code by itself. *)
Theorem C14_all_types_readers_conservative :
  forall (L : stdlib) b ks, decode_keyset b = Some ks -> any_deriver ks = false ->
    xread L b = embed_handle (read L b)
    /\ xhandle_from_proto L (Some ks) = embed_handle (handle_from_proto L (Some ks)).
Proof. intros L b ks D H. split; [exact (xread_conservative L b ks D H)|exact (xhandle_conservative L ks H)]. Qed.
Print Assumptions C14_all_types_readers_conservative.

(* Minimum strengths with the deriver inside: a usable key of any other type
   is strong (as before); a usable deriver key nests a usable, hence strong,
   HKDF PRF key (>= 32 bytes: the property's HKDF-PRF clause). *)
Theorem C14_all_types_usable_implies_strength :
  forall (L : stdlib) kd prefix idreq, usable_x L kd prefix idreq = true ->
    (url_is kd u_deriver = false -> strength_ok kd)
    /\ (url_is kd u_deriver = true ->
         let nk := keydata_of (get_sub 2 (fields_or_nil (kd_value kd))) in
         is_url nk url_hkdf_prf /\ usable L nk pt_raw 0 = true /\ strength_ok nk
         /\ 32 <= blen (get_len 3 (fields_or_nil (kd_value nk)))).
Proof.
  intros L kd prefix idreq H. split; [exact (usable_x_strength L kd prefix idreq H)|exact (usable_x_deriver L kd prefix idreq H)].
Qed.
Print Assumptions C14_all_types_usable_implies_strength.

(* Non-vacuity.  A keyset with one PRF-based deriver key (HKDF-SHA256 key of 32
   bytes, derived key template AES256-GCM, prefix TINK), serialized by the
   deterministic encoder of model/Secrets.v, is read into the expected handle;
   its primitive is created; model/Untrusted.v's reader answered the same bytes
   with the fallback key.  With a 31-byte HKDF key the key parses and no
   primitive is created; a template with another prefix type than the key's, a
   deriver key as the PRF key of a deriver, and an AES-GCM key as PRF key are
   refused.  Parameters: HMAC key_size has no upper bound (2^32-1 is accepted);
   key_size 15 is refused; an ECIES format whose DEM template is itself a
   (valid) deriver template is refused after that parser ran. *)
Definition ser_template (t : template) : bytes :=
  enc_bytes_field 1 (t_url t) ++ enc_bytes_field 2 (t_value t) ++ enc_var_field 3 (t_prefix t).
Definition ex_hkdf_kd (n : nat) : keydata :=
  mkKD u_hkdf_prf (enc_len_field 2 (enc_var_field 1 3) ++ enc_len_field 3 (repeat 7 n)) km_symmetric.
Definition ex_gcm_template (prefix : N) : template := mkT u_aes_gcm (enc_var_field 2 32) prefix.
Definition ex_deriver_kd (prf : keydata) (t : template) : keydata :=
  mkKD u_deriver (enc_len_field 2 (ser_keydata prf) ++ enc_len_field 3 (enc_len_field 1 (ser_template t))) km_symmetric.
Definition ex_deriver_bytes (kd : keydata) : bytes := ser_keyset (mkKS 5 [Some (mkPK (Some kd) 1 5 pt_tink)]).
Definition ex_hmac_template (size : N) : template :=
  mkT u_hmac (enc_len_field 1 (enc_var_field 1 3 ++ enc_var_field 2 16) ++ enc_var_field 2 size) pt_tink.
Definition ex_deriver_format : bytes :=
  enc_len_field 1 (ser_template (mkT u_hkdf_prf (enc_len_field 1 (enc_var_field 1 3) ++ enc_var_field 2 32) pt_raw))
  ++ enc_len_field 2 (enc_len_field 1 (ser_template (ex_gcm_template pt_raw))).
Definition ex_ecies_format (dem : template) : bytes :=
  enc_len_field 1 (enc_len_field 1 (enc_var_field 1 2 ++ enc_var_field 2 3) ++ enc_len_field 2 (enc_len_field 2 (ser_template dem))
                   ++ enc_var_field 3 1).

Example C14_nonvacuous_deriver :
  (exists e, xread std0 (ex_deriver_bytes (ex_deriver_kd (ex_hkdf_kd 32) (ex_gcm_template pt_tink))) = Ok [e]
     /\ xkey e = XDeriver (PHkdfPrf 3 32) (QAesGcm 32 1) /\ xid e = 5 /\ xreq e = Some 5 /\ xshown_prefix e = 1
     /\ prim_ok_x std0 (xkey e) = Ok true /\ wf_xhandle [e])
  /\ (exists e, read std0 (ex_deriver_bytes (ex_deriver_kd (ex_hkdf_kd 32) (ex_gcm_template pt_tink))) = Ok [e]
        /\ ekey e = PFallback false)
  /\ usable_x std0 (ex_deriver_kd (ex_hkdf_kd 32) (ex_gcm_template pt_tink)) pt_tink 5 = true
  /\ (exists k, parse_key_full std0 (ex_deriver_kd (ex_hkdf_kd 31) (ex_gcm_template pt_tink)) pt_tink 5 = Ok k
        /\ prim_ok_x std0 k = Ok false)
  /\ parse_key_full std0 (ex_deriver_kd (ex_hkdf_kd 32) (ex_gcm_template pt_raw)) pt_tink 5 = Err
  /\ parse_key_full std0 (ex_deriver_kd (ex_deriver_kd (ex_hkdf_kd 32) (ex_gcm_template pt_raw)) (ex_gcm_template pt_tink)) pt_tink 5 = Err
  /\ parse_key_full std0 (ex_deriver_kd (mkKD u_aes_gcm ex_aes_value km_symmetric) (ex_gcm_template pt_tink)) pt_tink 5 = Err
  /\ parse_params_full (ex_hmac_template 4294967295) = Ok (QHmac 4294967295 16 3 1)
  /\ parse_params_full (ex_hmac_template 15) = Err
  /\ parse_params_full (mkT u_deriver ex_deriver_format pt_raw) = Ok (QDeriver (QHkdfPrf 32 3 []) (QAesGcm 32 3))
  /\ parse_params_full (mkT u_ecies_priv (ex_ecies_format (ex_gcm_template pt_tink)) pt_tink) = Ok (QEcies 2 3 1 2 1 [])
  /\ parse_params_full (mkT u_ecies_priv (ex_ecies_format (mkT u_deriver ex_deriver_format pt_raw)) pt_tink) = Err
  /\ set_prefix_raw None = Panic.
Proof.
  split.
  { assert (R : exists e, xread std0 (ex_deriver_bytes (ex_deriver_kd (ex_hkdf_kd 32) (ex_gcm_template pt_tink))) = Ok [e]
       /\ xkey e = XDeriver (PHkdfPrf 3 32) (QAesGcm 32 1) /\ xid e = 5 /\ xreq e = Some 5 /\ xshown_prefix e = 1
       /\ prim_ok_x std0 (xkey e) = Ok true).
    { eexists. split; [vm_compute; reflexivity|]. vm_compute. auto. }
    destruct R as [e [R1 R2]]. exists e. split; [exact R1|]. destruct R2 as [A [B [C [D E]]]].
    split; [exact A|]. split; [exact B|]. split; [exact C|]. split; [exact D|]. split; [exact E|].
    apply xread_wf in R1. destruct R1 as [ks [_ [_ [W _]]]]. exact W. }
  split. { eexists. split; [vm_compute; reflexivity|]. reflexivity. }
  split; [vm_compute; reflexivity|].
  split. { eexists. split; [vm_compute; reflexivity|]. vm_compute. reflexivity. }
  repeat split; vm_compute; reflexivity.
Qed.

(* ======================================================================== *)
(* THE JSON READERS, FROM TEXT.  model/JsonKeyset.v: what                     *)
(* keyset.NewJSONReader(r).Read() / ReadEncrypted() - protojson.Unmarshal    *)
(* into tinkpb.Keyset / tinkpb.EncryptedKeyset with default options, nothing  *)
(* before and nothing after (keyset/json_io.go) - accept and produce: the     *)
(* tokenizer and value parser of model/Json.v (C09) in the variant            *)
(* json_parse_text_pj (number tokens as protojson's parseNumber cuts them on  *)
(* the INTEGER path: a bare exponent marker before a delimiter is part of the *)
(* token and ignored - {"primaryKeyId":1e} reads 1; protobuf-go leniency, not *)
(* JSON and not a Tink rule) with a number oracle that                         *)
(* keeps the literal, then the two schemas (names in lowerCamelCase or        *)
(* snake_case, unknown and duplicate fields refused, null = unset, uint32 as  *)
(* number or string, enums by name or int32 number, bytes in either base64    *)
(* alphabet with padding by length, objects / arrays of objects).             *)
(* model/JsonKeysetC14.v composes it with the readers over proto keysets:     *)
(*   xread_json            insecurecleartextkeyset.Read(NewJSONReader(r))     *)
(*   xread_json_no_secrets keyset.ReadWithNoSecrets(NewJSONReader(r))         *)
(*   xread_json_encrypted  keyset.ReadWithAssociatedData(NewJSONReader(r), kek, ad) *)
(* (imports here, after the statements above: Json / JsonKeyset reuse names   *)
(* such as memN and utf8_valid)                                               *)
(* ======================================================================== *)
From Tink Require Import Base64url Jwt Json JsonLexProofs JsonProofs JsonPjProofs JsonKeyset JsonKeysetProofs JsonKeysetC14 JsonKeysetC14Proofs.

(* For ALL byte strings the JSON readers never panic ...  For the TEXT layer this
   holds by construction: keyset_of_json_text / encrypted_of_json_text are
   option-valued total functions, there is no Panic outcome to exclude (protojson
   itself is outside the panic-site model).  The content of the theorem is the
   composition: the proto keyset the text stands for then goes through the
   x-readers (xread / xread_no_secrets / the decrypting reader), whose panic
   sites are the ones C14_*_never_panics theorems above are about. *)
Theorem C14_json_readers_never_panic :
  forall L : stdlib,
    (forall s, xread_json L s <> Panic)
    /\ (forall s, xread_json_no_secrets L s <> Panic)
    /\ (forall kek s ad, xread_json_encrypted L kek s ad <> Panic).
Proof.
  intros L. split; [exact (xread_json_np L)|]. split; [exact (xread_json_no_secrets_np L)|exact (xread_json_encrypted_np L)].
Qed.
Print Assumptions C14_json_readers_never_panic.

(* ... and what they return is an error or a well-formed handle: an accepted
   text is the text of a message protojson yields, that message is a
   well-formed keyset, and the handle holds its keys in order (the encrypted
   reader: the decrypted bytes decode, in BINARY, to such a keyset) *)
Theorem C14_json_accepted_handle_wellformed :
  forall L : stdlib,
    (forall s h, xread_json L s = Ok h ->
       exists jks, keyset_of_json_text s = Some jks /\ xaccepted_as (keyset_of_j jks) h)
    /\ (forall s h, xread_json_no_secrets L s = Ok h ->
       exists jks, keyset_of_json_text s = Some jks /\ has_secrets (keyset_of_j jks) = false
         /\ xaccepted_as (keyset_of_j jks) h /\ xhandle_has_secrets h = false)
    /\ (forall kek s ad h, xread_json_encrypted L kek s ad = Ok h ->
       exists e pt k, encrypted_of_json_text s = Some e /\ kek (je_ct e) ad = Some pt
         /\ decode_keyset pt = Some k /\ xaccepted_as k h).
Proof.
  intros L. split; [exact (xread_json_wf L)|]. split; [exact (xread_json_no_secrets_wf L)|exact (xread_json_encrypted_wf L)].
Qed.
Print Assumptions C14_json_accepted_handle_wellformed.

(* a text the JSON reader refuses (keyset_of_json_text s = None: the model of
   protojson.Unmarshal on this schema, INCLUDING its leniency on the integer
   path - a text with a dangling exponent marker on a uint32 / enum field is NOT
   in this set, it is read: C14_json_dangling_exponent_marker_is_read), and a
   text whose message is not a well-formed keyset: an error on every path *)
Theorem C14_json_refused_or_malformed_text_is_an_error :
  forall L : stdlib,
    (forall s, keyset_of_json_text s = None -> xread_json L s = Err /\ xread_json_no_secrets L s = Err)
    /\ (forall s jks, keyset_of_json_text s = Some jks -> ~ wf_keyset (keyset_of_j jks) ->
          xread_json L s = Err /\ xread_json_no_secrets L s = Err)
    /\ (forall kek s ad, encrypted_of_json_text s = None -> xread_json_encrypted L kek s ad = Err).
Proof.
  intros L. split; [exact (xread_json_refused L)|]. split; [exact (xread_json_malformed L)|exact (xread_json_encrypted_refused L)].
Qed.
Print Assumptions C14_json_refused_or_malformed_text_is_an_error.

(* ---- what the text reader refuses, each for ALL texts ---- *)

(* the JSON layer: text that is not valid UTF-8; the empty or blank text; a top
   level that is not an object; a member name repeated in one object at any depth *)
Theorem C14_json_text_layer_refusals :
  forall s,
    (Jwt.utf8_valid s = false -> keyset_of_json_text s = None /\ encrypted_of_json_text s = None)
    /\ (all_ws s = true -> keyset_of_json_text s = None /\ encrypted_of_json_text s = None)
    /\ (forall c t, skip_ws s = c :: t -> c <> 123 -> keyset_of_json_text s = None /\ encrypted_of_json_text s = None)
    /\ (forall v, lex_pj num_keep s = Some (toks v) -> nodup_names v = false ->
          keyset_of_json_text s = None /\ encrypted_of_json_text s = None).
Proof. exact keyset_text_json_refusals. Qed.
Print Assumptions C14_json_text_layer_refusals.

(* trailing data after an accepted text; JSON whitespace around it changes nothing *)
Theorem C14_json_trailing_data_refused :
  forall s c t,
    (forall ks, keyset_of_json_text s = Some ks -> is_ws c = false -> keyset_of_json_text (s ++ c :: t) = None)
    /\ (forall e, encrypted_of_json_text s = Some e -> is_ws c = false -> encrypted_of_json_text (s ++ c :: t) = None).
Proof.
  intros s c t. split; [intros ks; apply keyset_text_trailing_data|intros e; apply encrypted_text_trailing_data].
Qed.
Print Assumptions C14_json_trailing_data_refused.

Theorem C14_json_whitespace_around_the_text :
  forall w s, all_ws w = true ->
    (keyset_of_json_text (w ++ s) = keyset_of_json_text s /\ keyset_of_json_text (s ++ w) = keyset_of_json_text s)
    /\ (encrypted_of_json_text (w ++ s) = encrypted_of_json_text s /\ encrypted_of_json_text (s ++ w) = encrypted_of_json_text s).
Proof. intros w s H. split; [exact (keyset_text_whitespace w s H)|exact (encrypted_text_whitespace w s H)]. Qed.
Print Assumptions C14_json_whitespace_around_the_text.

(* the reader against the JSON parser of property C09 (json_parse_text, which
   refuses a dangling exponent marker, as structpb does): whatever that parser
   accepts is read through the same value tree; the reader accepts MORE only
   where the C09 tokenizer fails on the text; and one token of the reader's
   tokenizer is a token of the C09 tokenizer or the dangling form
   <int>[.<frac>] e <delimiter>, read as the literal without the marker *)
Theorem C14_json_reader_against_the_c09_parser :
  (forall s,
     (forall f, json_parse_text num_keep s = Some f ->
        keyset_of_json_text s = keyset_of_fields f /\ encrypted_of_json_text s = encrypted_of_fields f)
     /\ (json_parse_text num_keep s = None ->
         keyset_of_json_text s <> None \/ encrypted_of_json_text s <> None -> lex num_keep s = None))
  /\ (forall num c t tok r,
        lex_one_pj num c t = Some (tok, r) <->
        lex_one num c t = Some (tok, r)
        \/ (lex_one num c t = None /\ exists l z x, lex_dangling (c :: t) = Some (l, r)
              /\ num_value num l = Some (z, x) /\ tok = TNum z x))
  /\ (forall s l r, lex_dangling s = Some (l, r) ->
        exists pre, s = pre ++ r /\ pre <> [] /\ plain pre = true
          /\ ((hd 0 pre =? 45) || is_digit (hd 0 pre)) = true
          /\ is_ws (last pre 0) = false /\ follows_dangling r = true /\ nl_exp l = None
          /\ (forall y, follows_dangling y = true -> lex_dangling (pre ++ y) = Some (l, y))
          /\ (forall y, follows_dangling y = true -> lex_number (pre ++ y) = None)).
Proof.
  split; [exact keyset_text_vs_c09_parser|]. split; [exact lex_one_pj_cases|exact lex_dangling_local].
Qed.
Print Assumptions C14_json_reader_against_the_c09_parser.

(* an object is read against a field table EXACTLY when every member names a
   field (JSON name or proto name) and no field is named twice - a null member
   counts; the fields set are the non-null members *)
Theorem C14_json_object_members_exactly :
  forall tab f seen l,
    resolve tab f seen = Some l <->
    exists nums, member_numbers tab f = Some nums /\ distinct_from seen nums = true /\ l = set_members nums f.
Proof. exact resolve_spec. Qed.
Print Assumptions C14_json_object_members_exactly.

(* an unknown member, or two members for one field (same spelling, or keyId and
   key_id), in each of the SIX objects of the two schemas: keyset, key, key data;
   encrypted keyset, keyset info, key info *)
Theorem C14_json_unknown_or_duplicate_field_refused :
  (forall f,
     (forall k v, In (k, v) f -> field_number tab_keyset k = None -> keyset_of_fields f = None)
     /\ (forall f1 k1 v1 f2 k2 v2 f3 n, f = f1 ++ (k1, v1) :: f2 ++ (k2, v2) :: f3 ->
           field_number tab_keyset k1 = Some n -> field_number tab_keyset k2 = Some n -> keyset_of_fields f = None))
  /\ (forall f,
     (forall k v, In (k, v) f -> field_number tab_key k = None -> key_of_fields f = None)
     /\ (forall f1 k1 v1 f2 k2 v2 f3 n, f = f1 ++ (k1, v1) :: f2 ++ (k2, v2) :: f3 ->
           field_number tab_key k1 = Some n -> field_number tab_key k2 = Some n -> key_of_fields f = None))
  /\ (forall f,
     (forall k v, In (k, v) f -> field_number tab_keydata k = None -> keydata_of_fields f = None)
     /\ (forall f1 k1 v1 f2 k2 v2 f3 n, f = f1 ++ (k1, v1) :: f2 ++ (k2, v2) :: f3 ->
           field_number tab_keydata k1 = Some n -> field_number tab_keydata k2 = Some n -> keydata_of_fields f = None))
  /\ (forall f,
     (forall k v, In (k, v) f -> field_number tab_encrypted k = None -> encrypted_of_fields f = None)
     /\ (forall f1 k1 v1 f2 k2 v2 f3 n, f = f1 ++ (k1, v1) :: f2 ++ (k2, v2) :: f3 ->
           field_number tab_encrypted k1 = Some n -> field_number tab_encrypted k2 = Some n -> encrypted_of_fields f = None))
  /\ (forall f,
     (forall k v, In (k, v) f -> field_number tab_info k = None -> info_of_fields f = None)
     /\ (forall f1 k1 v1 f2 k2 v2 f3 n, f = f1 ++ (k1, v1) :: f2 ++ (k2, v2) :: f3 ->
           field_number tab_info k1 = Some n -> field_number tab_info k2 = Some n -> info_of_fields f = None))
  /\ (forall f,
     (forall k v, In (k, v) f -> field_number tab_keyinfo k = None -> keyinfo_of_fields f = None)
     /\ (forall f1 k1 v1 f2 k2 v2 f3 n, f = f1 ++ (k1, v1) :: f2 ++ (k2, v2) :: f3 ->
           field_number tab_keyinfo k1 = Some n -> field_number tab_keyinfo k2 = Some n -> keyinfo_of_fields f = None)).
Proof.
  split; [exact keyset_unknown_or_duplicate_field|]. split; [exact key_unknown_or_duplicate_field|].
  split; [exact keydata_unknown_or_duplicate_field|]. split; [exact encrypted_unknown_or_duplicate_field|].
  split; [exact info_unknown_or_duplicate_field|exact keyinfo_unknown_or_duplicate_field].
Qed.
Print Assumptions C14_json_unknown_or_duplicate_field_refused.

(* a refusal inside refuses the whole: an element of "key" that is not an
   accepted key object (null, a number, ...), a "keyData" that is not an
   accepted key data object *)
Theorem C14_json_bad_nested_object_refused :
  (forall f l es e, resolve tab_keyset f [] = Some l -> getf 2 l = Some (JArr es) -> In e es ->
     match e with JObj kf => key_of_fields kf = None | _ => True end -> keyset_of_fields f = None)
  /\ (forall f l j, resolve tab_key f [] = Some l -> getf 1 l = Some j ->
     match j with JObj df => keydata_of_fields df = None | _ => True end -> key_of_fields f = None).
Proof. split; [exact keyset_bad_key_refused|exact key_bad_keydata_refused]. Qed.
Print Assumptions C14_json_bad_nested_object_refused.

(* wrong JSON type, uint32 out of range, unknown enum name, base64 that does not decode *)
Theorem C14_json_bad_scalar_refused :
  (forall f l j, resolve tab_keyset f [] = Some l -> getf 1 l = Some j -> u32_of_json j = None -> keyset_of_fields f = None)
  /\ (forall f l, resolve tab_key f [] = Some l ->
        (exists j, getf 3 l = Some j /\ u32_of_json j = None)
        \/ (exists j, getf 2 l = Some j /\ enum_of_json status_names j = None)
        \/ (exists j, getf 4 l = Some j /\ enum_of_json prefix_names j = None) -> key_of_fields f = None)
  /\ (forall f l, resolve tab_keydata f [] = Some l ->
        (exists j, getf 1 l = Some j /\ forall s, j <> JStr s)
        \/ (exists j, getf 2 l = Some j /\ forall s, j = JStr s -> pj_bytes s = None)
        \/ (exists j, getf 3 l = Some j /\ enum_of_json material_names j = None) -> keydata_of_fields f = None)
  /\ (forall j, match j with JNull | JBool _ | JArr _ | JObj _ => True | _ => False end -> u32_of_json j = None)
  /\ (forall t, (t < 0 \/ 4294967296 <= t)%Z -> u32_of_json (JNum t []) = None)
  /\ (forall names s, name_lookup names s = None -> enum_of_json names (JStr s) = None)
  /\ (forall s1 c s2, gval (existsb (fun c => (c =? 45) || (c =? 95)) (s1 ++ c :: s2)) c = None ->
        is_nl c = false -> c <> 61 -> (forall x, In x s1 -> x <> 61) -> pj_bytes (s1 ++ c :: s2) = None).
Proof.
  split; [exact keyset_bad_primary_refused|]. split; [exact key_bad_scalar_refused|]. split; [exact keydata_bad_scalar_refused|].
  split; [exact u32_of_json_wrong_type|]. split; [exact u32_of_json_out_of_range|].
  split; [exact enum_of_json_unknown_name|exact pj_bytes_bad_char].
Qed.
Print Assumptions C14_json_bad_scalar_refused.

(* the text of every message with uint32-sized numbers, UTF-8 type URLs and
   byte-string values is read back as that message, from BOTH printers of the
   model: its own canonical form (enum numbers, URL unpadded base64) and the
   form protojson.Marshal gives with the options of keyset.NewJSONWriter (enum
   NAMES, standard padded base64, every field present, unset key data null) *)
Theorem C14_json_print_then_read :
  (forall ks, keyset_ok ks = true -> keyset_of_json_text (json_text_of_keyset ks) = Some ks)
  /\ (forall e, encrypted_ok e = true -> encrypted_of_json_text (json_text_of_encrypted e) = Some e)
  /\ (forall ks, keyset_ok ks = true -> keyset_of_json_text (json_text_pj_of_keyset ks) = Some ks)
  /\ (forall e, encrypted_ok e = true -> encrypted_of_json_text (json_text_pj_of_encrypted e) = Some e).
Proof.
  split; [exact keyset_text_roundtrip|]. split; [exact encrypted_text_roundtrip|].
  split; [exact keyset_pj_text_roundtrip|exact encrypted_pj_text_roundtrip].
Qed.
Print Assumptions C14_json_print_then_read.

(* Non-vacuity, concrete texts: the keyset of C14_nonvacuous (AES-GCM, TINK, id 5)
   in two spellings protojson accepts, read into the same well-formed handle as
   the binary reader; the oddities of the uint32 rule; refusals. *)
Section JsonKeysetExample.
  Import JsonStrings.
  Let v64 : bytes := b64_encode ex_aes_value.
  Let camel : bytes :=
    bs "{""primaryKeyId"":5,""key"":[{""keyData"":{""typeUrl"":""type.googleapis.com/google.crypto.tink.AesGcmKey"",""value"":"""
    ++ v64 ++ bs """,""keyMaterialType"":""SYMMETRIC""},""status"":""ENABLED"",""keyId"":5,""outputPrefixType"":""TINK""}]}".
  Let snake : bytes :=
    bs " { ""key"" : [ {""output_prefix_type"":1.0, ""key_id"":""5"", ""status"":1e0, ""key_data"":{""key_material_type"":1,""value"":"""
    ++ v64 ++ bs """, ""type_url"":""type.googleapis.com\/google.crypto.tink.AesGcmKey""}} ], ""primary_key_id"" : ""5 ignored"" } ".
  Let the_keyset := mkJKS 5 [mkJK (Some (mkJD u_aes_gcm ex_aes_value km_symmetric)) 1 5 1].
  Let h0 := match xread_json std0 camel with Ok h => h | _ => [] end.
  Let field (name value : bytes) : bytes := bs "{""key"":[{" ++ name ++ bs ":" ++ value ++ bs "}]}".

  Example C14_json_nonvacuous :
    keyset_of_json_text camel = Some the_keyset
    /\ keyset_of_json_text snake = Some the_keyset
    /\ keyset_of_json_text (json_text_of_keyset the_keyset) = Some the_keyset
    /\ xread_json std0 camel = Ok h0 /\ xread_json std0 snake = Ok h0 /\ h0 <> []
    /\ map xid h0 = [5] /\ wf_xhandle h0
    /\ xread_json_no_secrets std0 camel = Err          (* a symmetric key is secret material *)
    (* one fault each *)
    /\ keyset_of_json_text (bs "{""primaryKeyId"":5,""extra"":null}") = None
    /\ keyset_of_json_text (bs "{""primaryKeyId"":5,""primary_key_id"":5}") = None
    /\ keyset_of_json_text (bs "{""primaryKeyId"":null,""primaryKeyId"":5}") = None
    /\ keyset_of_json_text (bs "{""primaryKeyId"":4294967296}") = None
    /\ keyset_of_json_text (bs "{""primaryKeyId"":-1}") = None
    /\ keyset_of_json_text (bs "{""primaryKeyId"":1.5}") = None
    /\ keyset_of_json_text (bs "{""primaryKeyId"":"" 5""}") = None
    /\ keyset_of_json_text (bs "{""primaryKeyId"":true}") = None
    /\ keyset_of_json_text (field (bs """status""") (bs """enabled""")) = None
    /\ keyset_of_json_text (field (bs """status""") (bs """1""")) = None
    /\ keyset_of_json_text (field (bs """status""") (bs "2147483648")) = None
    /\ keyset_of_json_text (field (bs """keyData""") (bs "{""value"":""@@@@""}")) = None
    /\ keyset_of_json_text (field (bs """keyData""") (bs "{""value"":""AA=""}")) = None
    /\ keyset_of_json_text (field (bs """keyData""") (bs "[]")) = None
    /\ keyset_of_json_text (bs "{""key"":[null]}") = None
    /\ keyset_of_json_text (camel ++ bs "x") = None
    (* accepted: 4294967295, -0, 1e2, a string whose number is followed by a delimiter and anything,
       an enum number outside the enum (-1 is kept as 2^32-1), null and absent fields *)
    /\ option_map jks_primary (keyset_of_json_text (bs "{""primaryKeyId"":4294967295}")) = Some 4294967295
    /\ option_map jks_primary (keyset_of_json_text (bs "{""primaryKeyId"":-0}")) = Some 0
    /\ option_map jks_primary (keyset_of_json_text (bs "{""primaryKeyId"":1e2}")) = Some 100
    /\ option_map jks_primary (keyset_of_json_text (bs "{""primaryKeyId"":""12 13""}")) = Some 12
    /\ keyset_of_json_text (field (bs """status""") (bs "-1")) = Some (mkJKS 0 [mkJK None 4294967295 0 0])
    /\ keyset_of_json_text (bs "{""key"":null,""primaryKeyId"":null}") = Some (mkJKS 0 [])
    /\ keyset_of_json_text (field (bs """keyData""") (bs "{""value"":""-_8=""}")) = Some (mkJKS 0 [mkJK (Some (mkJD [] [251; 255] 0)) 0 0 0])
    /\ keyset_of_json_text (field (bs """keyData""") (bs "{""value"":""+/8""}")) = Some (mkJKS 0 [mkJK (Some (mkJD [] [251; 255] 0)) 0 0 0])
    (* the encrypted form *)
    /\ encrypted_of_json_text (bs "{""encryptedKeyset"":""AAEC"",""keysetInfo"":{""primaryKeyId"":5,""keyInfo"":[{""typeUrl"":""t"",""status"":""ENABLED"",""keyId"":5,""outputPrefixType"":""TINK""}]}}")
       = Some (mkJE [0; 1; 2] (Some (mkJInfo 5 [mkJI [116] 1 5 1])))
    /\ encrypted_of_json_text (bs "{""primaryKeyId"":5}") = None.
  Proof.
    assert (R : xread_json std0 camel = Ok h0) by (vm_compute; reflexivity).
    split; [vm_compute; reflexivity|]. split; [vm_compute; reflexivity|]. split; [vm_compute; reflexivity|].
    split; [exact R|]. split; [vm_compute; reflexivity|]. split; [vm_compute; discriminate|].
    split; [vm_compute; reflexivity|].
    split; [apply (xread_json_wf std0) in R; destruct R as [jks [_ [_ [W _]]]]; exact W|].
    repeat split; vm_compute; reflexivity.
  Qed.

  (* THE DANGLING EXPONENT MARKER (protobuf-go leniency, not JSON, not a Tink
     rule): the camelCase text above with  "primaryKeyId":5e , a status 1E and a
     key id 5.0e  is read into the SAME handle, by the model as by Tink; the JSON
     parser of property C09 refuses the text (structpb would); the string form
     needs a byte after the marker; a sign after the marker is refused *)
  Let camel_e : bytes :=
    bs "{""primaryKeyId"":5e,""key"":[{""keyData"":{""typeUrl"":""type.googleapis.com/google.crypto.tink.AesGcmKey"",""value"":"""
    ++ v64 ++ bs """,""keyMaterialType"":1e},""status"":1E ,""keyId"":5.0e,""outputPrefixType"":""TINK""}]}".
  Example C14_json_dangling_exponent_marker_is_read :
    keyset_of_json_text camel_e = Some the_keyset
    /\ xread_json std0 camel_e = Ok h0 /\ h0 <> []
    /\ json_parse_text num_keep camel_e = None /\ lex num_keep camel_e = None
    /\ option_map jks_primary (keyset_of_json_text (bs "{""primaryKeyId"":""5e,""}")) = Some 5
    /\ option_map jks_primary (keyset_of_json_text (bs "{""primaryKeyId"":""5e x""}")) = Some 5
    /\ option_map jks_primary (keyset_of_json_text (bs "{""primaryKeyId"":""1e 5""}")) = Some 1
    /\ keyset_of_json_text (bs "{""primaryKeyId"":""5e""}") = None
    /\ keyset_of_json_text (bs "{""primaryKeyId"":5e+}") = None
    /\ keyset_of_json_text (bs "{""primaryKeyId"":5e-}") = None
    /\ keyset_of_json_text (bs "{""primaryKeyId"":5ee}") = None
    /\ keyset_of_json_text (bs "{""primaryKeyId"":1.5e}") = None
    /\ keyset_of_json_text (bs "{""primaryKeyId"":5e") = None
    /\ keyset_of_json_text (field (bs """status""") (bs """1e,""")) = None     (* an enum string is a NAME *)
    /\ option_map jn_primary (match encrypted_of_json_text (bs "{""keysetInfo"":{""primaryKeyId"":7e}}") with
                              | Some e => je_info e | None => None end) = Some 7.
  Proof.
    split; [vm_compute; reflexivity|]. split; [vm_compute; reflexivity|]. split; [vm_compute; discriminate|].
    repeat split; vm_compute; reflexivity.
  Qed.
End JsonKeysetExample.
